#!/usr/bin/env python3
"""Regenerates /verif/MANIFEST.json from props/*.json (claimed checks) and tools/manifest_meta.json
(level texts, not_applicable reasons, hook commits)."""
import json, os, sys
V = os.path.dirname(os.path.dirname(os.path.abspath(__file__)))
meta = json.load(open(os.path.join(V, "tools", "manifest_meta.json")))
props = [json.loads(l) for l in open(os.path.join(V, "properties.jsonl"))]
checks, na = [], []
for p in props:
    pid = p["id"]
    sp = os.path.join(V, "props", pid + ".json")
    m = meta["properties"].get(pid, {})
    if os.path.exists(sp) and pid in meta["properties"] and not m.get("not_applicable"):
        spec = json.load(open(sp))
        checks.append({
            "property_id": pid,
            "quick_cmd": "./vcheck run %s --tier quick" % pid,
            "thorough_cmd": "./vcheck run %s --tier thorough" % pid,
            "evidence_file": "/verif/evidence/%s.json" % pid,
            "replay_cmd_template": "./vcheck replay {path}",
            "engine": "vcheck",
            "level_claimed": {"category": spec.get("level", "exploration"), "text": m.get("level_text", ""),
                              "design_ref": m.get("design_ref", "DESIGN.md section 6")},
            "level_note": m.get("level_note", ""),
            "technique": m.get("technique", "runtime monitoring: sanitizer build + reference-model oracle over generated workloads"),
        })
    else:
        na.append({"property_id": pid, "reason": m.get("not_applicable", "harness not built yet in this round; no claim is made")})
man = {
    "version": 1,
    "setup_cmd": "./vcheck setup",
    "hooks": meta["hooks"],
    "engines": [{"name": "vcheck", "path": "/verif/vcheck", "serves_properties": [c["property_id"] for c in checks],
                 "kind_free_text": "python supervisor + C++ harness binaries built from /repo's working tree with gcc/clang sanitizers; oracles and monitors in harness/, offline checkers in vlib/"}],
    "checks": checks,
    "notes": meta.get("notes", ""),
    "not_applicable": na,
}
json.dump(man, open(os.path.join(V, "MANIFEST.json"), "w"), indent=1)
print("MANIFEST.json: %d checks, %d not_applicable" % (len(checks), len(na)))
