#!/usr/bin/env python3
"""Regenerates the per-property status table of DESIGN.md (between STATUS-TABLE-BEGIN/END) from props/*.json,
evidence/*.json (as written by the last run of each check) and known_findings.json."""
import json, os, re, subprocess, sys
V = os.path.dirname(os.path.dirname(os.path.abspath(__file__)))

NOTES = {
    "C01": "PowerRow / TupleMatrix transposed axpy, BCSR dense-y early-out",
    "C02": "transpose dims x2, permute entry-free x2, CSCR<->CSR empty rows x2, increase_memory(nullptr)",
    "C03": "fixed: row_norm2sqr scaling index, BCSR row_norm2 sqrt; known: entry-free CSR / BCSR operands",
    "C04": "fixed: sparse min/max scan, SVB realloc write, blocked<->flat convert of empty vectors; known: min/max with an empty leaf",
    "C05": "mtx reader empty rows, mtx writer / operator== entry-free, exp size 0, sv mtx size 0, 16 MiB stack buffer, SaddlePointMatrix checkpoint size",
    "C06": "fixed: UnitFilterBlocked ctor, five convert / clone members that did not compile (FilterChain, FilterSequence, PowerFilter, MeanFilterBlocked, UnitFilterBlocked); known: filter_mat on entry-free matrices",
    "C07": "fixed: RGCR done_numeric keeps recycled directions, multigrid NaN step; known: 11 solver defect classes (see 12.3)",
    "C08": "BCSR SSOR scaling, block ILU multiplication side, additive Vanka NaN for DOFs in no block",
    "C09": "NaN step length for a vanishing correction",
    "C10": "triangle edge flip, SurfaceMesh inverted assertion, colouring terminator of create_colored",
    "C11": "fixed: SurfaceMesh newline, dup chart, mapping dim, surfmesh index, Bezier points; known: 10 parser classes",
    "C12": "known: PartiIterative centre retry",
    "C13": "Global::Vector::max/min_element did not compile, empty vector ticket aborted in wait()",
    "C14": "4 rule tables, AutoAlias empty part",
    "C15": "known: Math::invert_matrix pivoting (Argyris), Q1TBNP hexahedron gradient, CaiDouSanSheYe functional (repairs withdrawn, see 12.6)",
    "C16": "TrialDerivativeOperator, StrainRateTensor K(6,2), voxel Burgers Frechet term, TraceAssembler::clear facet mask, DomainAssembler::clear element mask",
    "C17": "1 worker abort, 0 worker out_of_range, colored / no-scatter deadlock",
    "C18": "transfer_intermesh_vector stale cell map, transfer_intermesh_vector_direct did not compile",
    "C19": "graph render without edges, CM root/level, empty permutation, CompositeAdjactor begin",
    "C20": "SparseLayout move-assign leak (+ the C02 null-array fix)",
}


def main():
    known = json.load(open(os.path.join(V, "known_findings.json")))["findings"]
    rows = ["| id | unit(s) / mode | last run of the check (tier, seed): cases, events, distinct classes | fix: commits / known entries | what they are |",
            "|----|----------------|------------------------|----|------------------------------|"]
    for i in range(1, 21):
        pid = "C%02d" % i
        spec = json.load(open(os.path.join(V, "props", pid + ".json")))
        units = ", ".join("%s %s" % (u["name"], u.get("mode", "asan")) + ("" if "tiers" not in u else " (%s only)" % "/".join(u["tiers"]))
                          for u in spec["units"])
        try:
            ev = json.load(open(os.path.join(V, "evidence", pid + ".json")))
            cov = ev["coverage"]
            run = "%s, %s: %s cases, %s events, %s classes" % (ev.get("tier"), ev.get("seed"), f"{cov['evaluations']:,}".replace(",", " "),
                                                            f"{cov['events']:,}".replace(",", " "), f"{cov['distinct_nontrivial']:,}".replace(",", " "))
        except (OSError, KeyError, ValueError):
            run = "(no evidence file)"
        nf = sum(1 for e in known if e["property"] == pid and e["status"] == "fixed")
        nk = sum(1 for e in known if e["property"] == pid and e["status"] == "known")
        rows.append("| %s | %s | %s | %d / %d | %s |" % (pid, units, run, nf, nk, NOTES.get(pid, "")))
    table = "\n".join(rows)
    p = os.path.join(V, "DESIGN.md")
    s = open(p).read()
    b, e = "<!-- STATUS-TABLE-BEGIN -->", "<!-- STATUS-TABLE-END -->"
    assert s.count(b) == 1 and s.count(e) == 1, "markers missing"
    s = s[:s.index(b) + len(b)] + "\n" + table + "\n" + s[s.index(e):]
    open(p, "w").write(s)
    print("status table updated")


if __name__ == "__main__":
    main()
