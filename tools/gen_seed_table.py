#!/usr/bin/env python3
"""Regenerates the seeded-changes table in DESIGN.md (between the SEED-TABLE markers) from seeded/*/meta.json."""
import json, os, glob, re
V = os.path.dirname(os.path.dirname(os.path.abspath(__file__)))
rows = []
for d in sorted(glob.glob(os.path.join(V, "seeded", "*"))):
    m = json.load(open(os.path.join(d, "meta.json")))
    name = os.path.basename(d)
    needs = (m.get("needs") or m.get("summary") or "").replace("\n", " ").replace("|", "/")
    det = (m.get("detected_by") or "").replace("\n", " ").replace("|", "/")
    files = ", ".join(os.path.basename(f) for f in m.get("files", []))
    if len(needs) > 330:
        needs = needs[:327] + "..."
    rows.append("| %s (%s) | %s | %s | %s |" % (name, m.get("property"), files, needs, det))
table = "| seed (property) | file | what it needs to manifest | result of the check |\n|---|---|---|---|\n" + "\n".join(rows) + "\n"
p = os.path.join(V, "DESIGN.md")
s = open(p).read()
a, b = "<!-- SEED-TABLE-BEGIN -->", "<!-- SEED-TABLE-END -->"
if a in s:
    s = s[:s.index(a) + len(a)] + "\n" + table + s[s.index(b):]
    open(p, "w").write(s)
    print("table updated:", len(rows), "seeds")
else:
    print(table)
