import json,re,os,glob,sys
props={json.loads(l)['id']:json.loads(l) for l in open('/verif/properties.jsonl')}
kw={'if','for','while','switch','return','sizeof','catch','static_assert','XASSERT','XASSERTM','ASSERT','ASSERTM','XABORTM','defined','decltype','alignof','typeid','new','delete','throw','else','do','operator','template','typename','static_cast','const_cast','reinterpret_cast','dynamic_cast'}
for pid in sorted(props):
    if len(sys.argv)>1 and pid not in sys.argv[1:]: continue
    hs=''
    for f in glob.glob('/verif/harness/c%s/*'%pid[1:])+glob.glob('/verif/harness/common/*'):
        hs+=open(f,errors='replace').read()
    words=set(re.findall(r'\b\w+\b',hs))
    miss={}
    for rel in props[pid]['anchors']['files']:
        p=os.path.join('/repo',rel)
        if not os.path.exists(p): continue
        names=set()
        for line in open(p,errors='replace'):
            if line.lstrip().startswith(('//','*','/*','#')): continue
            m=re.match(r'^\s+(?:virtual\s+|static\s+|inline\s+|explicit\s+|constexpr\s+|CUDA_HOST_DEVICE\s+)*(?:[\w:<>,\*&\s]+?)\s+\**&?(\w+)\s*\([^;]*$',line)
            if m:
                n=m.group(1)
                if n in kw or n.startswith('_') or n[0].isupper(): continue
                names.add(n)
        mm=sorted(n for n in names if n not in words)
        if mm: miss[rel]=mm
    print('==',pid)
    for rel,mm in miss.items(): print('  ',rel,':',' '.join(mm))
