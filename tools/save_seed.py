#!/usr/bin/env python3
"""save_seed.py <ID> <detected-by text> : copies a confirmed seeded change from /tmp/seed-<ID>/seed_out to /verif/seeded/<ID>/"""
import json, os, shutil, sys, re
pid, detected = sys.argv[1], sys.argv[2]
tag = sys.argv[3] if len(sys.argv) > 3 else pid
src = "/tmp/seed-%s/seed_out" % tag
dst = "/verif/seeded/%s" % tag
os.makedirs(dst, exist_ok=True)
for f in ("patch.diff", "demo.cpp", "demo_build.sh"):
    if os.path.exists(os.path.join(src, f)):
        shutil.copy(os.path.join(src, f), os.path.join(dst, f))
meta = json.load(open(os.path.join(src, "meta.json")))
conf = ""
for line in open("/tmp/confirm_all.log"):
    if line.startswith("RESULT %s " % tag):
        conf = line.strip()
meta["property"] = pid
meta["confirmed_by_me"] = conf
meta["what_i_ran"] = ("in the scratch worktree /tmp/seed-%s: demo built and run with patch.diff applied (non-zero exit) and with it "
                      "reverted (exit 0); `ctest -j1 -R <tests_run>` with the change applied (after cmake --build of the targets); "
                      "then `./vcheck seedtest %s <seed_out>` = the quick check of the property built against an include-path "
                      "overlay of /repo with patch.diff applied (nothing is ever applied in /repo itself)") % (tag, pid)
meta["detected_by"] = detected
json.dump(meta, open(os.path.join(dst, "meta.json"), "w"), indent=1)
print("saved", dst)
