// C04 -- RANGE VIEWS: vectors created by the 3-argument range constructors DenseVector(dv, size, offset) and
// DenseVectorBlocked(dvb, size, offset) (foreign memory: the view owns nothing, its scalars live inside a parent vector)
// and composed vectors whose leaves are such views, used as target and as operand of every operation judged for owning
// vectors.  A view must behave exactly like the plain vector over the same scalars: every operation is judged against
// the same element-wise definition on the generator's flat data; in addition the scalars of the parent outside the view
// (random padding before / behind the range, incl. no padding at all so that ASan sees an overrun of the parent) must
// stay bit-unchanged.
#pragma once
#include "c04_common.hpp"
#include <kernel/util/random.hpp>
#include <memory>
#include <cstring>

namespace c04v
{
  using namespace c04;

  // one parent vector with the byte range of the view inside of it and a snapshot of all of its bytes
  struct Guard { const unsigned char* base; std::size_t total, lo, hi; std::vector<unsigned char> orig; };
  struct Arena
  {
    std::vector<std::shared_ptr<void>> keep;   // parents (and intermediate views of nested views)
    std::vector<Guard> g;
    std::size_t views = 0;
    // parent scalars outside the view unchanged?  (inside_too: the scalars of the view range as well)
    bool intact(bool inside_too, std::size_t* leaf, long* off) const
    {
      for(std::size_t q = 0; q < g.size(); ++q)
      {
        const Guard& u = g[q];
        for(std::size_t i = 0; i < u.total; ++i)
        {
          if(!inside_too && i >= u.lo && i < u.hi) { i = u.hi - 1; continue; }
          if(u.base[i] != u.orig[i]) { *leaf = q; *off = long(i) - long(u.lo); return false; }
        }
      }
      return true;
    }
    void snapshot() { for(auto& u : g) std::memcpy(u.orig.data(), u.base, u.total); }
  };

  struct Maker { vh::Rng& rng; Arena& ar; double p_view; };

  inline Index gen_pad(vh::Rng& r) { static const Index P[] = {0, 0, 1, 2, 3, 8, 17}; return P[r.below(sizeof(P) / sizeof(P[0]))]; }

  // BS = 1: DenseVector ; the raw arrays are reached through elements<pod>() for DenseVectorBlocked
  template<typename DT, typename IT> DT* raw(DenseVector<DT, IT>& v) { return v.elements(); }
  template<typename DT, typename IT, int BS> DT* raw(DenseVectorBlocked<DT, IT, BS>& v) { return v.template elements<Perspective::pod>(); }

  template<typename L, typename DT, int BS>
  void leaf_fill(L& v, const double*& p, const Index*& sz, Maker& m)
  {
    const Index n = *sz++; const Index nb = n / Index(BS);
    if(n == 0 || !m.rng.coin(m.p_view))
    {
      L t(nb); DT* e = raw(t);
      for(Index i = 0; i < n; ++i) e[i] = DT(p[i]);
      p += n; v = std::move(t); return;
    }
    // parent = padding + range + padding (in native units), filled with position-coded values distinct from any data
    const Index pre = gen_pad(m.rng), post = gen_pad(m.rng);
    auto parent = std::make_shared<L>(pre + nb + post);
    DT* e = raw(*parent);
    const Index tot = (pre + nb + post) * Index(BS);
    for(Index i = 0; i < tot; ++i) e[i] = DT(-7777.0 - double(i % 512));
    for(Index i = 0; i < n; ++i) e[pre * Index(BS) + i] = DT(p[i]);
    p += n;
    if(m.rng.coin(0.15) && nb >= 1)
    {
      // nested: a view of a (wider) view
      const Index a = m.rng.below(pre + 1), b = m.rng.below(post + 1);
      auto mid = std::make_shared<L>(*parent, a + nb + b, pre - a);
      { L t(*mid, nb, a); v = std::move(t); }
      m.ar.keep.push_back(mid);
    }
    else { L t(*parent, nb, pre); v = std::move(t); }
    m.ar.keep.push_back(parent);
    Guard u; u.base = reinterpret_cast<const unsigned char*>(e); u.total = std::size_t(tot) * sizeof(DT);
    u.lo = std::size_t(pre) * BS * sizeof(DT); u.hi = u.lo + std::size_t(n) * sizeof(DT);
    u.orig.assign(u.base, u.base + u.total);
    m.ar.g.push_back(std::move(u));
    ++m.ar.views;
  }
  template<typename DT, typename IT> void vfillv(DenseVector<DT, IT>& v, const double*& p, const Index*& sz, Maker& m)
  { leaf_fill<DenseVector<DT, IT>, DT, 1>(v, p, sz, m); }
  template<typename DT, typename IT, int BS> void vfillv(DenseVectorBlocked<DT, IT, BS>& v, const double*& p, const Index*& sz, Maker& m)
  { leaf_fill<DenseVectorBlocked<DT, IT, BS>, DT, BS>(v, p, sz, m); }
  template<typename S, int N> void vfillv(PowerVector<S, N>& v, const double*& p, const Index*& sz, Maker& m);
  template<typename F, typename... R> void vfillv(TupleVector<F, R...>& v, const double*& p, const Index*& sz, Maker& m);
  template<typename S, int N> void vfillv(PowerVector<S, N>& v, const double*& p, const Index*& sz, Maker& m)
  { vfillv(v.first(), p, sz, m); if constexpr(N > 1) vfillv(v.rest(), p, sz, m); }
  template<typename F, typename... R> void vfillv(TupleVector<F, R...>& v, const double*& p, const Index*& sz, Maker& m)
  { vfillv(v.first(), p, sz, m); if constexpr(sizeof...(R) > 0) vfillv(v.rest(), p, sz, m); }

  // dst = full-range views of the leaves of src (a second object over the same scalars; empty leaves: empty owner)
  template<typename DT, typename IT> void valias(const DenseVector<DT, IT>& s, DenseVector<DT, IT>& d)
  { if(s.size() > 0) { DenseVector<DT, IT> t(s, s.size(), Index(0)); d = std::move(t); } else { DenseVector<DT, IT> t; d = std::move(t); } }
  template<typename DT, typename IT, int BS> void valias(const DenseVectorBlocked<DT, IT, BS>& s, DenseVectorBlocked<DT, IT, BS>& d)
  { if(s.size() > 0) { DenseVectorBlocked<DT, IT, BS> t(s, s.size(), Index(0)); d = std::move(t); } else { DenseVectorBlocked<DT, IT, BS> t; d = std::move(t); } }
  template<typename S, int N> void valias(const PowerVector<S, N>& s, PowerVector<S, N>& d);
  template<typename F, typename... R> void valias(const TupleVector<F, R...>& s, TupleVector<F, R...>& d);
  template<typename S, int N> void valias(const PowerVector<S, N>& s, PowerVector<S, N>& d)
  { valias(s.first(), d.first()); if constexpr(N > 1) valias(s.rest(), d.rest()); }
  template<typename F, typename... R> void valias(const TupleVector<F, R...>& s, TupleVector<F, R...>& d)
  { valias(s.first(), d.first()); if constexpr(sizeof...(R) > 0) valias(s.rest(), d.rest()); }

  template<typename V> struct Held
  {
    Arena ar; V v;
    Held() = default; Held(Held&&) = default; Held& operator=(Held&&) = default;
  };
  template<typename V> Held<V> hmake(vh::Rng& rng, const std::vector<double>& vals, const std::vector<Index>& shape, double p_view)
  {
    Held<V> h; Maker m{rng, h.ar, p_view};
    const double* p = vals.data(); const Index* s = shape.data();
    vfillv(h.v, p, s, m);
    return h;
  }
  template<typename V> void check_guard(vh::Ctx& c, const std::string& op, const Held<V>& h, const char* which, bool inside_too = false)
  {
    std::size_t leaf = 0; long off = 0;
    if(!h.ar.intact(inside_too, &leaf, &off))
      c.viol(op, "parent-modified", vh::J().kv("which", which).kv("view_leaf", (unsigned long)leaf).kv("byte_offset_from_view_begin", off)
        .kv("checked", inside_too ? "whole parent" : "outside the view").str());
  }

  // every operation of vec_ops (c04_ops.hpp) with range views as target and / or operand.  pv = probability that a leaf
  // of a "view" operand is a view (1 for leaf kinds)
  template<typename DT, typename V>
  void view_ops(vh::Ctx& c, const std::string& pre, const std::vector<Index>& shape, bool with_minmax, double pv)
  {
    const Index n = shape_total(shape);
    const std::size_t len = std::size_t(n);
    auto mk = [&](const std::vector<double>& v, bool view) { return hmake<V>(c.rng, v, shape, view ? pv : 0.0); };
    auto ld = [](const std::vector<double>& v) { return std::vector<LD>(v.begin(), v.end()); };
    auto style = [&]() { return int(c.rng.below(4)); };
    enum AliasKindV { distinct = 0, same_object = 1, shared_range = 2 };
    auto alias3 = [&]() { return AliasKindV(c.rng.below(3)); };
    static const char* an[] = {"alias:none", "alias:r==x/same-object", "alias:r==x/same-range"};
    // which operands are views (at least one): bit 0 = target / this, bit 1 = x, bit 2 = y
    auto roles = [&](int nop) { return 1 + int(c.rng.below((1u << nop) - 1)); };
    auto rtag = [](int m) { std::string s = "views:"; if(m & 1) s += 'r'; if(m & 2) s += 'x'; if(m & 4) s += 'y'; return s; };

    // ---------------------------------------------------------------- axpy / scale / component_invert
    for(int which = 0; which < 3; ++which)
    {
      static const char* nm[] = {".axpy", ".scale", ".component_invert"};
      const Scalar sa = gen_scalar<DT>(c.rng); const DT a = DT(sa.v); const LD al = (LD)a;
      const AliasKindV ak = alias3();
      const int ro = ak == distinct ? roles(2) : (ak == same_object ? 1 : (c.rng.coin(0.7) ? 3 : 2));
      const bool nz = which == 2;
      std::vector<double> rv = gen_vals(c.rng, n, style(), nz), xv = ak == distinct ? gen_vals(c.rng, n, style(), nz) : rv;
      OpTags ot(c, {sa.cls, an[ak], rtag(ro)});
      const std::string op = pre + nm[which];
      Held<V> r = mk(rv, (ro & 1) != 0);
      auto call = [&](V& t, const V& x) { if(which == 0) t.axpy(x, a); else if(which == 1) t.scale(x, a); else t.component_invert(x, a); };
      c.set_op(op);
      if(ak == distinct) { Held<V> x = mk(xv, (ro & 2) != 0); const std::uint64_t hx = flat(x.v).h; call(r.v, x.v); check_pure(c, op, x.v, hx, "x"); check_guard(c, op, x, "x", true); }
      else if(ak == same_object) call(r.v, r.v);
      else { V x; valias(r.v, x); call(r.v, x); }
      c.event(); c.count(std::string(nm[which] + 1) + "|" + an[ak]);
      check_guard(c, op, r, "target");
      std::vector<LD> ref(n), S(n);
      for(Index i = 0; i < n; ++i)
      {
        if(which == 0) { ref[i] = (LD)rv[i] + al * (LD)xv[i]; S[i] = std::fabs((LD)rv[i]) + std::fabs(al * (LD)xv[i]); }
        else if(which == 1) { ref[i] = al * (LD)xv[i]; S[i] = std::fabs(ref[i]); }
        else { ref[i] = al / (LD)xv[i]; S[i] = std::fabs(ref[i]); }
      }
      check_vec<DT>(c, op, flat(r.v), shape, ref, S, which == 0 ? 2 : 1);
    }
    // ---------------------------------------------------------------- component_product
    {
      const int pat = int(c.rng.below(5)); // 0 none, 1 r==x, 2 r==y, 3 x==y, 4 r==x==y
      static const char* pn[] = {"alias:none", "alias:r==x", "alias:r==y", "alias:x==y", "alias:r==x==y"};
      std::vector<double> rv = gen_vals(c.rng, n, style()), xv = gen_vals(c.rng, n, style()), yv = gen_vals(c.rng, n, style());
      if(pat == 1 || pat == 4) xv = rv; if(pat == 2 || pat == 4) yv = rv; if(pat == 3) yv = xv;
      const int ro = pat == 0 ? roles(3) : (pat == 4 ? 1 : roles(2)); // aliased patterns: bit 0 = target, bit 1 = the other operand
      OpTags ot(c, {pn[pat], rtag(ro)});
      const std::string op = pre + ".component_product";
      Held<V> r = mk(rv, (ro & 1) != 0);
      c.set_op(op);
      switch(pat)
      {
      case 0: { Held<V> x = mk(xv, (ro & 2) != 0), y = mk(yv, (ro & 4) != 0); const std::uint64_t hx = flat(x.v).h, hy = flat(y.v).h; r.v.component_product(x.v, y.v);
                check_pure(c, op, x.v, hx, "x"); check_pure(c, op, y.v, hy, "y"); check_guard(c, op, x, "x", true); check_guard(c, op, y, "y", true); break; }
      case 1: { Held<V> y = mk(yv, (ro & 2) != 0); const std::uint64_t hy = flat(y.v).h; r.v.component_product(r.v, y.v); check_pure(c, op, y.v, hy, "y"); check_guard(c, op, y, "y", true); break; }
      case 2: { Held<V> x = mk(xv, (ro & 2) != 0); const std::uint64_t hx = flat(x.v).h; r.v.component_product(x.v, r.v); check_pure(c, op, x.v, hx, "x"); check_guard(c, op, x, "x", true); break; }
      case 3: { Held<V> x = mk(xv, (ro & 2) != 0); const std::uint64_t hx = flat(x.v).h; r.v.component_product(x.v, x.v); check_pure(c, op, x.v, hx, "x"); check_guard(c, op, x, "x", true); break; }
      default: r.v.component_product(r.v, r.v); break;
      }
      c.event(); c.count(std::string("component_product|") + pn[pat]);
      check_guard(c, op, r, "target");
      std::vector<LD> ref(n), S(n);
      for(Index i = 0; i < n; ++i) { ref[i] = (LD)xv[i] * (LD)yv[i]; S[i] = std::fabs(ref[i]); }
      check_vec<DT>(c, op, flat(r.v), shape, ref, S, 1);
    }
    // ---------------------------------------------------------------- dot
    {
      const AliasKindV ak = alias3();
      static const char* dn[] = {"alias:none", "alias:x==y/same-object", "alias:x==y/same-range"};
      const int ro = ak == distinct ? roles(2) : (ak == same_object ? 1 : (c.rng.coin(0.7) ? 3 : 2));
      std::vector<double> av = gen_vals(c.rng, n, style()), xv = ak == distinct ? gen_vals(c.rng, n, style()) : av;
      OpTags ot(c, {dn[ak], rtag(ro)});
      const std::string op = pre + ".dot";
      const Held<V> a = mk(av, (ro & 1) != 0); const std::uint64_t ha = flat(a.v).h;
      DT got;
      c.set_op(op);
      if(ak == distinct) { const Held<V> x = mk(xv, (ro & 2) != 0); const std::uint64_t hx = flat(x.v).h; got = a.v.dot(x.v); check_pure(c, op, x.v, hx, "x"); check_guard(c, op, x, "x", true); }
      else if(ak == same_object) got = a.v.dot(a.v);
      else { V x; valias(a.v, x); got = a.v.dot(x); }
      c.event(); c.count(std::string("dot|") + dn[ak]);
      check_pure(c, op, a.v, ha, "this"); check_guard(c, op, a, "this", true);
      LD ref = 0, S = 0; for(Index i = 0; i < n; ++i) { ref += (LD)av[i] * (LD)xv[i]; S += std::fabs((LD)av[i] * (LD)xv[i]); }
      check_scalar<DT>(c, op, (LD)got, ref, S, len);
    }
    // ---------------------------------------------------------------- triple_dot
    {
      const int pat = int(c.rng.below(5));
      static const char* pn[] = {"alias:none", "alias:this==x", "alias:this==y", "alias:x==y", "alias:this==x==y"};
      std::vector<double> av = gen_vals(c.rng, n, style()), xv = gen_vals(c.rng, n, style()), yv = gen_vals(c.rng, n, style());
      if(pat == 1 || pat == 4) xv = av; if(pat == 2 || pat == 4) yv = av; if(pat == 3) yv = xv;
      const int ro = pat == 0 ? roles(3) : (pat == 4 ? 1 : roles(2));
      OpTags ot(c, {pn[pat], rtag(ro)});
      const std::string op = pre + ".triple_dot";
      const Held<V> a = mk(av, (ro & 1) != 0); const std::uint64_t ha = flat(a.v).h;
      DT got;
      c.set_op(op);
      switch(pat)
      {
      case 0: { const Held<V> x = mk(xv, (ro & 2) != 0), y = mk(yv, (ro & 4) != 0); const std::uint64_t hx = flat(x.v).h, hy = flat(y.v).h; got = a.v.triple_dot(x.v, y.v);
                check_pure(c, op, x.v, hx, "x"); check_pure(c, op, y.v, hy, "y"); break; }
      case 1: { const Held<V> y = mk(yv, (ro & 2) != 0); const std::uint64_t hy = flat(y.v).h; got = a.v.triple_dot(a.v, y.v); check_pure(c, op, y.v, hy, "y"); break; }
      case 2: { const Held<V> x = mk(xv, (ro & 2) != 0); const std::uint64_t hx = flat(x.v).h; got = a.v.triple_dot(x.v, a.v); check_pure(c, op, x.v, hx, "x"); break; }
      case 3: { const Held<V> x = mk(xv, (ro & 2) != 0); const std::uint64_t hx = flat(x.v).h; got = a.v.triple_dot(x.v, x.v); check_pure(c, op, x.v, hx, "x"); break; }
      default: got = a.v.triple_dot(a.v, a.v); break;
      }
      c.event(); c.count(std::string("triple_dot|") + pn[pat]);
      check_pure(c, op, a.v, ha, "this"); check_guard(c, op, a, "this", true);
      LD ref = 0, S = 0; for(Index i = 0; i < n; ++i) { LD t = (LD)av[i] * (LD)xv[i] * (LD)yv[i]; ref += t; S += std::fabs(t); }
      check_scalar<DT>(c, op, (LD)got, ref, S, len + 2);
    }
    // ---------------------------------------------------------------- norms
    {
      std::vector<double> av = gen_vals(c.rng, n, style());
      OpTags ot(c, {"views:r"});
      const Held<V> a = mk(av, true); const std::uint64_t ha = flat(a.v).h;
      LD s2 = 0; for(Index i = 0; i < n; ++i) s2 += (LD)av[i] * (LD)av[i];
      const LD nrm = std::sqrt(s2);
      c.set_op(pre + ".norm2");
      const DT g2 = a.v.norm2();
      c.event();
      check_scalar<DT>(c, pre + ".norm2", (LD)g2, nrm, nrm, len + 2);
      c.set_op(pre + ".norm2sqr");
      const DT gs = a.v.norm2sqr();
      c.event();
      check_scalar<DT>(c, pre + ".norm2sqr", (LD)gs, s2, s2, len + 4);
      check_pure(c, pre + ".norm2", a.v, ha, "this"); check_guard(c, pre + ".norm2", a, "this", true);
    }
    // ---------------------------------------------------------------- copy / format / clone / convert (bit-exact)
    {
      std::vector<double> rv = gen_vals(c.rng, n, style()), xv = gen_vals(c.rng, n, style());
      const std::vector<LD> zero(n, 0.0L);
      const bool self = c.rng.coin(0.15);
      const int ro = self ? 1 : roles(2);   // view<-view, view<-owner, owner<-view
      Held<V> r = mk(rv, (ro & 1) != 0);
      {
        const std::string op = pre + ".copy";
        OpTags ot(c, {self ? "alias:r==x" : "alias:none", rtag(ro)});
        c.set_op(op);
        if(self) { r.v.copy(r.v); xv = rv; }
        else { const Held<V> x = mk(xv, (ro & 2) != 0); const std::uint64_t hx = flat(x.v).h; r.v.copy(x.v); check_pure(c, op, x.v, hx, "x"); check_guard(c, op, x, "x", true); }
        c.event(); c.count("copy|" + rtag(ro));
        check_guard(c, op, r, "target");
        check_vec<DT>(c, op, flat(r.v), shape, ld(xv), zero, 0);
      }
      {
        // format(value) / format() on a view
        Held<V> t = mk(rv, true);
        const bool dflt = c.rng.coin(0.3);
        const DT val = dflt ? DT(0) : DT(vl::gen_value(c.rng, style()));
        OpTags ot(c, {"views:r", dflt ? "format:default" : "format:value"});
        c.set_op(pre + ".format");
        if(dflt) t.v.format(); else t.v.format(val);
        c.event();
        check_guard(c, pre + ".format", t, "target");
        check_vec<DT>(c, pre + ".format", flat(t.v), shape, std::vector<LD>(n, (LD)val), zero, 0);
      }
      {
        // format(rng, min, max): every scalar of the view is re-drawn from [min, max] (integer bounds: a + x (b - a) with
        // x in [0,1] stays inside by monotonicity of rounding); the view held a sentinel outside of [min, max] before
        const std::vector<double> sent(n, 1000.0);
        Held<V> t = mk(sent, true);
        const DT lo = DT(double(c.rng.range(-5, 0))), hi = DT(double(lo) + double(c.rng.range(1, 6)));
        OpTags ot(c, {"views:r"});
        const std::string op = pre + ".format_rng";
        c.set_op(op);
        FEAT::Random frng(FEAT::Random::SeedType(c.rng.below(1u << 30) + 1u));
        t.v.format(frng, lo, hi);
        c.event();
        check_guard(c, op, t, "target");
        const Flat f = flat(t.v);
        if(f.shape != shape) c.viol(op, "dims", vh::J().raw("layout", shape_str(f.shape)).raw("expected_layout", shape_str(shape)).str());
        else
        {
          int bad = 0;
          for(Index i = 0; i < n; ++i) if(!(f.v[i] >= (LD)lo && f.v[i] <= (LD)hi) && bad++ < 3)
            c.viol(op, "wrong-value", vh::J().kv("component", (unsigned long)i).kv("got", f.v[i]).kv("min", (LD)lo).kv("max", (LD)hi).kv("value_before", 1000.0).str());
        }
      }
      {
        // clone of a view (FEAT: "Must use deep cloning with ranged based source containers"); the clone is an
        // independent vector: writing into it leaves the source and the parent alone
        const Held<V> src = mk(xv, true); const std::uint64_t hs = flat(src.v).h;
        OpTags ot(c, {"clone:deep", "views:x"});
        const std::string op = pre + ".clone";
        c.set_op(op);
        V cl = src.v.clone(CloneMode::Deep);
        c.event();
        check_vec<DT>(c, op, flat(cl), shape, ld(xv), zero, 0);
        cl.format(DT(-5));
        check_vec<DT>(c, op, flat(cl), shape, std::vector<LD>(n, -5.0L), zero, 0, "clone after format(-5)");
        check_pure(c, op, src.v, hs, "source"); check_guard(c, op, src, "source", true);
      }
      {
        // a view as the TARGET of clone(other, mode) / convert(other): the view is dropped, the target becomes (a copy of
        // / shares the arrays of) the source; the parent of the former view keeps all of its scalars
        const bool srcview = c.rng.coin(0.4);
        const int m = srcview ? 0 : int(c.rng.below(4));
        static const CloneMode modes[] = {CloneMode::Deep, CloneMode::Weak, CloneMode::Shallow, CloneMode::Deep};
        static const char* mn[] = {"clone:deep", "clone:weak", "clone:shallow", "convert"};
        Held<V> t = mk(rv, true);
        const Held<V> src = mk(xv, srcview); const std::uint64_t hs = flat(src.v).h;
        OpTags ot(c, {mn[m], srcview ? "views:rx" : "views:r"});
        const std::string op = pre + (m == 3 ? ".convert_into" : ".clone_into");
        c.set_op(op);
        if(m == 3) t.v.convert(src.v); else t.v.clone(src.v, modes[m]);
        c.event();
        check_vec<DT>(c, op, flat(t.v), shape, ld(xv), zero, 0);
        check_pure(c, op, src.v, hs, "source"); check_guard(c, op, src, "source", true);
        check_guard(c, op, t, "former view target", true);
      }
    }
    // ---------------------------------------------------------------- min / max (compared by value)
    if(with_minmax && n > 0)
    {
      const int st = style();
      std::vector<double> av = gen_vals(c.rng, n, st);
      if(n > 1 && c.rng.coin(0.3)) av[c.rng.below(n)] = av[c.rng.below(n)];
      if(c.rng.coin(0.15)) for(auto& x : av) x = -std::fabs(x);
      if(c.rng.coin(0.15)) for(auto& x : av) x = std::fabs(x);
      if(c.rng.coin(0.05)) for(auto& x : av) x = 0.0;
      // the extreme element sits at the first / last position of the view now and then; the padding of the parent holds
      // values of larger magnitude (-7777 - i), so a reduction running over the range ends is visible
      if(c.rng.coin(0.3)) { const Index p = c.rng.coin() ? 0 : n - 1; av[p] = double(float((c.rng.coin() ? 1.0 : -1.0) * 1.0e3)); }
      OpTags ot(c, {"views:r"});
      const Held<V> a = mk(av, true); const std::uint64_t ha = flat(a.v).h;
      LD mx = av[0], mn = av[0], mxa = std::fabs(av[0]), mna = std::fabs(av[0]);
      for(Index i = 1; i < n; ++i) { mx = std::max<LD>(mx, av[i]); mn = std::min<LD>(mn, av[i]); mxa = std::max<LD>(mxa, std::fabs(av[i])); mna = std::min<LD>(mna, std::fabs(av[i])); }
      auto exact = [&](const std::string& op, LD got, LD ref)
      { c.event(); if(!(got == ref)) c.viol(op, "wrong-value", vh::J().kv("got", got).kv("expected", ref).kv("n", (unsigned long)n).raw("values", vh::jarr(av, 24)).str()); };
      c.set_op(pre + ".max_abs_element"); exact(pre + ".max_abs_element", (LD)a.v.max_abs_element(), mxa);
      c.set_op(pre + ".min_abs_element"); exact(pre + ".min_abs_element", (LD)a.v.min_abs_element(), mna);
      c.set_op(pre + ".max_element"); exact(pre + ".max_element", (LD)a.v.max_element(), mx);
      c.set_op(pre + ".min_element"); exact(pre + ".min_element", (LD)a.v.min_element(), mn);
      check_pure(c, pre + ".max_element", a.v, ha, "this"); check_guard(c, pre + ".max_element", a, "this", true);
    }
  }
}

#define C04V_TYPE_SWITCH(fn) \
  switch(c.k % 4) \
  { \
  case 0: fn<double, std::uint64_t>(c); break; \
  case 1: fn<float, std::uint64_t>(c); break; \
  case 2: fn<double, std::uint32_t>(c); break; \
  default: fn<float, std::uint32_t>(c); break; \
  }
