// C04 -- driver for composed vector types (TupleVector / PowerVector, depth <= 2)
#pragma once
#include "c04_ops.hpp"

namespace c04
{
  // k % 4 = data/index type (done by the caller), `e` = index of the deterministic sweep (all leaves of the same listed
  // length, incl. 0), random leaf lengths afterwards
  template<typename DT, typename IT, typename V>
  void composed_case(vh::Ctx& c, const char* family, const char* pre, const char* kind, std::size_t e)
  {
    static const Index L[] = {0, 1, 2, 3, 4, 5, 7, 8, 9, 15, 16, 17, 31, 33, 100, 1000};
    std::vector<int> gran; Leaves<V>::gran(gran);
    std::vector<Index> shape;
    bool all_nonempty = true, some_empty = false;
    for(std::size_t i = 0; i < gran.size(); ++i)
    {
      Index nb;
      if(e < sizeof(L) / sizeof(L[0])) nb = L[e];
      // (empty leaves are kept rare: on a tree where min/max of a vector with an empty leaf crashes every such case costs
      //  a worker restart)
      else nb = c.rng.coin(0.015) ? Index(0) : gen_len(c.rng, false, gran.size() <= 3);
      if(nb == 0) { all_nonempty = false; some_empty = true; }
      shape.push_back(nb * Index(gran[i]));
    }
    const Index n = shape_total(shape);
    c.tag(std::string("dt:") + vl::dt_name<DT>()); c.tag(std::string("it:") + vl::it_name<IT>());
    c.tag(std::string("kind:") + kind); c.tag(len_bucket(n));
    if(n == 0) c.tag("size0"); else if(some_empty) c.tag("empty_leaf");
    c.desc = vh::J().kv("kind", kind).raw("leaf_sizes", shape_str(shape)).str();
    // min/max are judged whenever the flattened vector has an element (n > 0): an empty leaf next to a non-empty one
    // (tag empty_leaf) leaves the extreme element well defined.  Vectors without any element are left to size0_minmax.
    (void)all_nonempty;
    vec_ops<DT, V>(c, pre, shape, n > 0);
    end_case(c, family);
  }
}

#define C04_TYPE_SWITCH(fn) \
  switch(c.k % 4) \
  { \
  case 0: fn<double, std::uint64_t>(c); break; \
  case 1: fn<float, std::uint64_t>(c); break; \
  case 2: fn<double, std::uint32_t>(c); break; \
  default: fn<float, std::uint32_t>(c); break; \
  }
