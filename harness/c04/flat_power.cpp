// C04 -- flattening / unflattening of PowerVector compositions (the C04 power kinds + powers of blocked vectors and of
// tuples with a blocked component in non-last position) and of the leaf kinds DenseVector / DenseVectorBlocked<1..4>
#include "c04_flat.hpp"
using namespace c04;
namespace
{
  template<typename DT, typename IT>
  void flat_power_case(vh::Ctx& c)
  {
    typedef DenseVector<DT, IT> DV;
    typedef DenseVectorBlocked<DT, IT, 2> DVB2;
    typedef DenseVectorBlocked<DT, IT, 3> DVB3;
    typedef DenseVectorBlocked<DT, IT, 4> DVB4;
    const std::size_t e = std::size_t(c.k / 32);
    switch((c.k / 4) % 8)
    {
    case 0: flat_composed_case<DT, IT, PowerVector<DV, 1>>(c, "flat_power", "power", "Power1-DV", e); break;
    case 1: flat_composed_case<DT, IT, PowerVector<DV, 3>>(c, "flat_power", "power", "Power3-DV", e); break;
    case 2: flat_composed_case<DT, IT, PowerVector<DVB2, 2>>(c, "flat_power", "power", "Power2-DVB2", e); break;
    case 3: flat_composed_case<DT, IT, PowerVector<PowerVector<DV, 2>, 2>>(c, "flat_power", "power", "Power2-Power2DV", e); break;
    case 4: flat_composed_case<DT, IT, PowerVector<TupleVector<DV, DVB4>, 2>>(c, "flat_power", "power", "Power2-TupleDV-DVB4", e); break;
    case 5: flat_composed_case<DT, IT, PowerVector<DVB3, 3>>(c, "flat_power", "power", "Power3-DVB3", e); break;
    case 6: flat_composed_case<DT, IT, PowerVector<TupleVector<DVB3, DV>, 2>>(c, "flat_power", "power", "Power2-TupleDVB3-DV", e); break;
    default: flat_composed_case<DT, IT, PowerVector<PowerVector<DVB2, 2>, 2>>(c, "flat_power", "power", "Power2-Power2DVB2", e); break;
    }
  }

  // ------------------------------------------------------------------ leaf kinds
  // DenseVectorBlocked <-> DenseVector: copy / copy_inv (generic entry points), set_vec / set_vec_inv, and the two
  // convert overloads, which *share* the array of the source ("use source vector content as content of current vector"):
  //   DenseVector::convert(DenseVectorBlocked)  -> dense vector of the pod size holding the same scalars
  //   DenseVectorBlocked::convert(DenseVector)  -> blocked vector of size n/BS holding the same scalars
  // and, with the arrays shared, the aliased copy in both directions (MemoryPool::copy returns on dest == src).
  // The two convert overloads are only *probed* (forked, counted, not judged) on vectors without elements.
  template<typename DT, typename IT, int BS>
  void blocked_flat_ops(vh::Ctx& c, Index nb)
  {
    typedef DenseVector<DT, IT> DV; typedef DenseVectorBlocked<DT, IT, BS> V;
    const Index n = nb * Index(BS);
    const std::vector<Index> shape{n};
    auto style = [&]() { return int(c.rng.below(5)); };
    if(n == 0)
    {
      for(int dir = 0; dir < 2; ++dir)
      {
        c.set_op(dir == 0 ? "size0probe.convert_to_dense" : "size0probe.convert_from_dense");
        vh::ForkResult r = vh::run_forked([&]() { if(dir == 0) { V b(0); DV d; d.convert(b); } else { DV d(0); V b; b.convert(d); } });
        c.event();
        const char* how = !r.died() ? "returned" : r.err_has("AddressSanitizer") ? "died:asan" : r.err_has("runtime error") ? "died:ubsan"
          : r.err_has("VH-CHILD-EXCEPTION") ? "died:exception" : r.err_has("FATAL ERROR") ? "died:abort" : "died:signal";
        c.count(std::string("size0probe|") + (dir == 0 ? "DenseVector.convert(DenseVectorBlocked(0))|" : "DenseVectorBlocked.convert(DenseVector(0))|") + how);
        // (threw std::out_of_range on the pinned tree; repaired by a fix: commit and judged since: an empty vector converts
        //  to the empty vector)
        if(r.died()) c.viol(dir == 0 ? "dvb.convert_to_dense" : "dvb.convert_from_dense", std::string(how).substr(5), vh::J().kv("report", r.err.substr(0, 300)).str());
        if(c.verbose()) std::printf("size0 convert dir %d -> %s\n%s\n", dir, how, r.err.substr(0, 600).c_str());
      }
      return;
    }
    // blocked -> dense (shared arrays), then the aliased copies
    {
      const std::vector<double> xv = gen_flat_vals(c.rng, n, style());
      const V b = vmake<V>(xv, shape); const std::uint64_t hb = flat(b).h;
      const bool prior = c.rng.coin();
      DV d; if(prior) d = vmake<DV>(gen_flat_vals(c.rng, n + 3, style()), std::vector<Index>{n + 3});
      OpTags ot(c, {prior ? "dst:other-size" : "dst:unallocated"});
      c.set_op("dvb.convert_to_dense");
      d.convert(b);
      c.event();
      check_exact(c, "dvb.convert_to_dense", flat(d), shape, xv, "dense target");
      check_pure(c, "dvb.convert_to_dense", b, hb, "source");
      {
        OpTags oa(c, {"alias:shared-arrays"});
        c.set_op("dvb.flat_copy");
        d.copy(b);
        c.event();
        check_exact(c, "dvb.flat_copy", flat(d), shape, xv, "dense target");
        check_pure(c, "dvb.flat_copy", b, hb, "x");
      }
    }
    // dense -> blocked (shared arrays), then the aliased copy_inv
    {
      const std::vector<double> xv = gen_flat_vals(c.rng, n, style());
      const DV d = vmake<DV>(xv, shape); const std::uint64_t hd = flat(d).h;
      const bool prior = c.rng.coin();
      V b; if(prior) b = vmake<V>(gen_flat_vals(c.rng, n + Index(BS), style()), std::vector<Index>{n + Index(BS)});
      OpTags ot(c, {prior ? "dst:other-size" : "dst:unallocated"});
      c.set_op("dvb.convert_from_dense");
      b.convert(d);
      c.event();
      check_exact(c, "dvb.convert_from_dense", flat(b), shape, xv, "blocked target");
      if(b.size() != nb) c.viol("dvb.convert_from_dense", "dims", vh::J().kv("blocks", (unsigned long)b.size()).kv("expected", (unsigned long)nb).str());
      check_pure(c, "dvb.convert_from_dense", d, hd, "source");
      {
        OpTags oa(c, {"alias:shared-arrays"});
        c.set_op("dvb.flat_copy_inv");
        d.copy_inv(b);
        c.event();
        check_exact(c, "dvb.flat_copy_inv", flat(b), shape, xv, "blocked target");
        check_pure(c, "dvb.flat_copy_inv", d, hd, "dense source");
      }
    }
  }

  template<typename DT, typename IT>
  void flat_leaf_case(vh::Ctx& c)
  {
    static const Index L[] = {0, 1, 2, 3, 4, 5, 7, 8, 9, 15, 16, 17, 31, 33, 100, 1000};
    const int bs = int((c.k / 4) % 5); // 0 = DenseVector, 1..4 = DenseVectorBlocked<bs>
    const std::size_t e = std::size_t(c.k / 20);
    const Index nb = e < sizeof(L) / sizeof(L[0]) ? L[e] : gen_len(c.rng, true, true);
    const Index n = nb * Index(bs == 0 ? 1 : bs);
    c.tag(std::string("dt:") + vl::dt_name<DT>()); c.tag(std::string("it:") + vl::it_name<IT>());
    c.tag(bs == 0 ? std::string("kind:DenseVector") : "bs:" + std::to_string(bs)); c.tag(len_bucket(n));
    if(n == 0) c.tag("size0");
    c.desc = vh::J().kv("kind", bs == 0 ? "DenseVector" : "DenseVectorBlocked").kv("bs", bs).kv("blocks", (unsigned long)nb).str();
    const std::vector<Index> shape{n};
    switch(bs)
    {
    case 0: flat_common_ops<DT, IT, DenseVector<DT, IT>>(c, "dv", shape, false); break;
    case 1: flat_common_ops<DT, IT, DenseVectorBlocked<DT, IT, 1>>(c, "dvb", shape, true); blocked_flat_ops<DT, IT, 1>(c, nb); break;
    case 2: flat_common_ops<DT, IT, DenseVectorBlocked<DT, IT, 2>>(c, "dvb", shape, true); blocked_flat_ops<DT, IT, 2>(c, nb); break;
    case 3: flat_common_ops<DT, IT, DenseVectorBlocked<DT, IT, 3>>(c, "dvb", shape, true); blocked_flat_ops<DT, IT, 3>(c, nb); break;
    default: flat_common_ops<DT, IT, DenseVectorBlocked<DT, IT, 4>>(c, "dvb", shape, true); blocked_flat_ops<DT, IT, 4>(c, nb); break;
    }
    end_case(c, "flat_leaf");
  }
}
VH_FAMILY(flat_power) { C04_TYPE_SWITCH(flat_power_case) }
VH_FAMILY(flat_leaf) { C04_TYPE_SWITCH(flat_leaf_case) }
