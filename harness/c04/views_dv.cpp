// C04 -- range views of DenseVector: DenseVector(dv, size, offset) as target / operand of every judged operation
#include "c04_view.hpp"
using namespace c04v;
namespace
{
  template<typename DT, typename IT>
  void view_dv_case(vh::Ctx& c)
  {
    // deterministic length sweep first (a range view has at least one element: XASSERT(size_in > 0)), random afterwards
    static const Index L[] = {1, 2, 3, 4, 5, 7, 8, 9, 15, 16, 17, 31, 33, 100, 1000};
    const std::size_t e = std::size_t(c.k / 4);
    const Index n = e < sizeof(L) / sizeof(L[0]) ? L[e] : gen_len(c.rng, false, true);
    c.tag(std::string("dt:") + vl::dt_name<DT>()); c.tag(std::string("it:") + vl::it_name<IT>()); c.tag(len_bucket(n));
    c.tag("range_view");
    c.desc = vh::J().kv("kind", "DenseVector range view").kv("n", (unsigned long)n).str();
    view_ops<DT, DenseVector<DT, IT>>(c, "view.dv", {n}, true, 1.0);
    // convert of another data / index type into a view target (the view is dropped, its parent keeps its scalars)
    {
      typedef typename std::conditional<std::is_same<DT, double>::value, float, double>::type DT2;
      typedef typename std::conditional<std::is_same<IT, std::uint64_t>::value, std::uint32_t, std::uint64_t>::type IT2;
      std::vector<double> rv = gen_vals(c.rng, n, int(c.rng.below(4))), xv = gen_vals(c.rng, n, int(c.rng.below(4)));
      Held<DenseVector<DT, IT>> t = hmake<DenseVector<DT, IT>>(c.rng, rv, {n}, 1.0);
      const DenseVector<DT2, IT2> src = vmake<DenseVector<DT2, IT2>>(xv, {n}); const std::uint64_t hs = flat(src).h;
      OpTags ot(c, {"views:r", "convert:other-type"});
      const std::string op = "view.dv.convert_into";
      c.set_op(op);
      t.v.convert(src);
      c.event();
      check_vec<DT>(c, op, flat(t.v), {n}, std::vector<LD>(xv.begin(), xv.end()), std::vector<LD>(n, 0.0L), 0);
      check_pure(c, op, src, hs, "source"); check_guard(c, op, t, "former view target", true);
    }
    end_case(c, "view_dv");
  }
}
VH_FAMILY(view_dv) { C04V_TYPE_SWITCH(view_dv_case) }
