// C04 -- the operations common to DenseVector, DenseVectorBlocked, TupleVector and PowerVector, judged on the flat data
#pragma once
#include "c04_common.hpp"

namespace c04
{
  // how an operand is aliased with the target: a different object, the same object, or a shallow clone (different
  // object sharing the arrays) -- FEAT has no XASSERT against any of them for the vector operations
  enum AliasKind { distinct = 0, same_object = 1, shared_arrays = 2 };

  template<typename DT, typename V>
  void vec_ops(vh::Ctx& c, const std::string& pre, const std::vector<Index>& shape, bool with_minmax)
  {
    const Index n = shape_total(shape);
    const std::size_t len = std::size_t(n);
    auto mk = [&](const std::vector<double>& v) { return vmake<V>(v, shape); };
    auto ld = [](const std::vector<double>& v) { return std::vector<LD>(v.begin(), v.end()); };
    auto style = [&]() { return int(c.rng.below(4)); };
    auto alias3 = [&]() { return AliasKind(c.rng.below(3)); };

    // ---------------------------------------------------------------- axpy: this <- this + a x
    {
      const Scalar sa = gen_scalar<DT>(c.rng); const DT a = DT(sa.v); const LD al = (LD)a;
      const AliasKind ak = alias3();
      std::vector<double> rv = gen_vals(c.rng, n, style()), xv = ak == distinct ? gen_vals(c.rng, n, style()) : rv;
      OpTags ot(c, {sa.cls, ak == distinct ? "alias:none" : (ak == same_object ? "alias:r==x/same-object" : "alias:r==x/shared-arrays")});
      const std::string op = pre + ".axpy";
      V r = mk(rv);
      c.set_op(op);
      if(ak == distinct) { V x = mk(xv); const std::uint64_t hx = flat(x).h; r.axpy(x, a); check_pure(c, op, x, hx, "x"); }
      else if(ak == same_object) r.axpy(r, a);
      else { V x = r.clone(CloneMode::Shallow); r.axpy(x, a); }
      c.event(); c.count("axpy|" + c.tags.back());
      std::vector<LD> ref(n), S(n);
      for(Index i = 0; i < n; ++i) { ref[i] = (LD)rv[i] + al * (LD)xv[i]; S[i] = std::fabs((LD)rv[i]) + std::fabs(al * (LD)xv[i]); }
      check_vec<DT>(c, op, flat(r), shape, ref, S, 2);
    }
    // ---------------------------------------------------------------- scale: this <- a x
    {
      const Scalar sa = gen_scalar<DT>(c.rng); const DT a = DT(sa.v); const LD al = (LD)a;
      const AliasKind ak = alias3();
      std::vector<double> rv = gen_vals(c.rng, n, style()), xv = ak == distinct ? gen_vals(c.rng, n, style()) : rv;
      OpTags ot(c, {sa.cls, ak == distinct ? "alias:none" : (ak == same_object ? "alias:r==x/same-object" : "alias:r==x/shared-arrays")});
      const std::string op = pre + ".scale";
      V r = mk(rv);
      c.set_op(op);
      if(ak == distinct) { V x = mk(xv); const std::uint64_t hx = flat(x).h; r.scale(x, a); check_pure(c, op, x, hx, "x"); }
      else if(ak == same_object) r.scale(r, a);
      else { V x = r.clone(CloneMode::Shallow); r.scale(x, a); }
      c.event(); c.count("scale|" + c.tags.back());
      std::vector<LD> ref(n), S(n);
      for(Index i = 0; i < n; ++i) { ref[i] = al * (LD)xv[i]; S[i] = std::fabs(ref[i]); }
      check_vec<DT>(c, op, flat(r), shape, ref, S, 1);
    }
    // ---------------------------------------------------------------- component_product: this_i <- x_i y_i
    {
      const int pat = int(c.rng.below(5)); // 0 none, 1 r==x, 2 r==y, 3 x==y, 4 r==x==y
      static const char* pn[] = {"alias:none", "alias:r==x", "alias:r==y", "alias:x==y", "alias:r==x==y"};
      std::vector<double> rv = gen_vals(c.rng, n, style()), xv = gen_vals(c.rng, n, style()), yv = gen_vals(c.rng, n, style());
      if(pat == 1 || pat == 4) xv = rv; if(pat == 2 || pat == 4) yv = rv; if(pat == 3) yv = xv;
      OpTags ot(c, {pn[pat]});
      const std::string op = pre + ".component_product";
      V r = mk(rv);
      c.set_op(op);
      switch(pat)
      {
      case 0: { V x = mk(xv), y = mk(yv); const std::uint64_t hx = flat(x).h, hy = flat(y).h; r.component_product(x, y); check_pure(c, op, x, hx, "x"); check_pure(c, op, y, hy, "y"); break; }
      case 1: { V y = mk(yv); const std::uint64_t hy = flat(y).h; r.component_product(r, y); check_pure(c, op, y, hy, "y"); break; }
      case 2: { V x = mk(xv); const std::uint64_t hx = flat(x).h; r.component_product(x, r); check_pure(c, op, x, hx, "x"); break; }
      case 3: { V x = mk(xv); const std::uint64_t hx = flat(x).h; r.component_product(x, x); check_pure(c, op, x, hx, "x"); break; }
      default: r.component_product(r, r); break;
      }
      c.event(); c.count(std::string("component_product|") + pn[pat]);
      std::vector<LD> ref(n), S(n);
      for(Index i = 0; i < n; ++i) { ref[i] = (LD)xv[i] * (LD)yv[i]; S[i] = std::fabs(ref[i]); }
      check_vec<DT>(c, op, flat(r), shape, ref, S, 1);
    }
    // ---------------------------------------------------------------- component_invert: this_i <- a / x_i
    {
      const Scalar sa = gen_scalar<DT>(c.rng); const DT a = DT(sa.v); const LD al = (LD)a;
      const AliasKind ak = alias3();
      std::vector<double> rv = gen_vals(c.rng, n, style(), true), xv = ak == distinct ? gen_vals(c.rng, n, style(), true) : rv;
      OpTags ot(c, {sa.cls, ak == distinct ? "alias:none" : (ak == same_object ? "alias:r==x/same-object" : "alias:r==x/shared-arrays")});
      const std::string op = pre + ".component_invert";
      V r = mk(rv);
      c.set_op(op);
      if(ak == distinct) { V x = mk(xv); const std::uint64_t hx = flat(x).h; r.component_invert(x, a); check_pure(c, op, x, hx, "x"); }
      else if(ak == same_object) r.component_invert(r, a);
      else { V x = r.clone(CloneMode::Shallow); r.component_invert(x, a); }
      c.event(); c.count("component_invert|" + c.tags.back());
      std::vector<LD> ref(n), S(n);
      for(Index i = 0; i < n; ++i) { ref[i] = al / (LD)xv[i]; S[i] = std::fabs(ref[i]); }
      check_vec<DT>(c, op, flat(r), shape, ref, S, 1);
    }
    // ---------------------------------------------------------------- dot
    {
      const AliasKind ak = alias3();
      std::vector<double> av = gen_vals(c.rng, n, style()), xv = ak == distinct ? gen_vals(c.rng, n, style()) : av;
      OpTags ot(c, {ak == distinct ? "alias:none" : (ak == same_object ? "alias:x==y/same-object" : "alias:x==y/shared-arrays")});
      const std::string op = pre + ".dot";
      const V a = mk(av); const std::uint64_t ha = flat(a).h;
      DT got;
      c.set_op(op);
      if(ak == distinct) { const V x = mk(xv); const std::uint64_t hx = flat(x).h; got = a.dot(x); check_pure(c, op, x, hx, "x"); }
      else if(ak == same_object) got = a.dot(a);
      else { const V x = a.clone(CloneMode::Shallow); got = a.dot(x); }
      c.event(); c.count("dot|" + c.tags.back());
      check_pure(c, op, a, ha, "this");
      LD ref = 0, S = 0; for(Index i = 0; i < n; ++i) { ref += (LD)av[i] * (LD)xv[i]; S += std::fabs((LD)av[i] * (LD)xv[i]); }
      check_scalar<DT>(c, op, (LD)got, ref, S, len);
    }
    // ---------------------------------------------------------------- triple_dot: sum this_i x_i y_i
    {
      const int pat = int(c.rng.below(5)); // 0 none, 1 this==x, 2 this==y, 3 x==y, 4 all
      static const char* pn[] = {"alias:none", "alias:this==x", "alias:this==y", "alias:x==y", "alias:this==x==y"};
      std::vector<double> av = gen_vals(c.rng, n, style()), xv = gen_vals(c.rng, n, style()), yv = gen_vals(c.rng, n, style());
      if(pat == 1 || pat == 4) xv = av; if(pat == 2 || pat == 4) yv = av; if(pat == 3) yv = xv;
      OpTags ot(c, {pn[pat]});
      const std::string op = pre + ".triple_dot";
      const V a = mk(av); const std::uint64_t ha = flat(a).h;
      DT got;
      c.set_op(op);
      switch(pat)
      {
      case 0: { const V x = mk(xv), y = mk(yv); const std::uint64_t hx = flat(x).h, hy = flat(y).h; got = a.triple_dot(x, y); check_pure(c, op, x, hx, "x"); check_pure(c, op, y, hy, "y"); break; }
      case 1: { const V y = mk(yv); got = a.triple_dot(a, y); break; }
      case 2: { const V x = mk(xv); got = a.triple_dot(x, a); break; }
      case 3: { const V x = mk(xv); got = a.triple_dot(x, x); break; }
      default: got = a.triple_dot(a, a); break;
      }
      c.event(); c.count(std::string("triple_dot|") + pn[pat]);
      check_pure(c, op, a, ha, "this");
      LD ref = 0, S = 0; for(Index i = 0; i < n; ++i) { LD t = (LD)av[i] * (LD)xv[i] * (LD)yv[i]; ref += t; S += std::fabs(t); }
      check_scalar<DT>(c, op, (LD)got, ref, S, len + 2);
    }
    // ---------------------------------------------------------------- norms
    {
      std::vector<double> av = gen_vals(c.rng, n, style());
      const V a = mk(av); const std::uint64_t ha = flat(a).h;
      LD s2 = 0; for(Index i = 0; i < n; ++i) s2 += (LD)av[i] * (LD)av[i];
      const LD nrm = std::sqrt(s2);
      c.set_op(pre + ".norm2");
      const DT g2 = a.norm2();
      c.event();
      check_scalar<DT>(c, pre + ".norm2", (LD)g2, nrm, nrm, len + 2);
      c.set_op(pre + ".norm2sqr");
      const DT gs = a.norm2sqr();
      c.event();
      check_scalar<DT>(c, pre + ".norm2sqr", (LD)gs, s2, s2, len + 4);
      check_pure(c, pre + ".norm2", a, ha, "this");
    }
    // ---------------------------------------------------------------- copy / format / clone (bit-exact)
    {
      std::vector<double> rv = gen_vals(c.rng, n, style()), xv = gen_vals(c.rng, n, style());
      const std::vector<LD> zero(n, 0.0L);
      const bool self = c.rng.coin(0.2);
      const std::string op = pre + ".copy";
      V r = mk(rv);
      {
        OpTags ot(c, {self ? "alias:r==x" : "alias:none"});
        c.set_op(op);
        if(self) { r.copy(r); xv = rv; }
        else { const V x = mk(xv); const std::uint64_t hx = flat(x).h; r.copy(x); check_pure(c, op, x, hx, "x"); }
        c.event();
        check_vec<DT>(c, op, flat(r), shape, ld(xv), zero, 0);
      }
      {
        const bool dflt = c.rng.coin(0.3);
        const DT val = dflt ? DT(0) : DT(vl::gen_value(c.rng, style()));
        c.set_op(pre + ".format");
        if(dflt) r.format(); else r.format(val);
        c.event();
        check_vec<DT>(c, pre + ".format", flat(r), shape, std::vector<LD>(n, (LD)val), zero, 0);
      }
      {
        const V src = mk(xv); const std::uint64_t hs = flat(src).h;
        const int m = int(c.rng.below(3));
        static const CloneMode modes[] = {CloneMode::Deep, CloneMode::Weak, CloneMode::Shallow};
        static const char* mn[] = {"clone:deep", "clone:weak", "clone:shallow"};
        OpTags ot(c, {mn[m]});
        c.set_op(pre + ".clone");
        V cl = src.clone(modes[m]);
        c.event();
        check_vec<DT>(c, pre + ".clone", flat(cl), shape, ld(xv), zero, 0);
        check_pure(c, pre + ".clone", src, hs, "source");
      }
    }
    // ---------------------------------------------------------------- min / max (compared by value)
    if(with_minmax && n > 0)
    {
      const int st = style();
      std::vector<double> av = gen_vals(c.rng, n, st);
      // make ties and sign patterns likely
      if(n > 1 && c.rng.coin(0.3)) av[c.rng.below(n)] = av[c.rng.below(n)];
      if(c.rng.coin(0.15)) for(auto& x : av) x = -std::fabs(x);
      if(c.rng.coin(0.15)) for(auto& x : av) x = std::fabs(x);
      if(c.rng.coin(0.05)) for(auto& x : av) x = 0.0;
      // the extreme element sits at the first / last position of some leaf now and then
      if(c.rng.coin(0.3)) { const Index p = c.rng.coin() ? 0 : n - 1; av[p] = double(float((c.rng.coin() ? 1.0 : -1.0) * 1.0e7)); }
      const V a = mk(av); const std::uint64_t ha = flat(a).h;
      LD mx = av[0], mn = av[0], mxa = std::fabs(av[0]), mna = std::fabs(av[0]);
      for(Index i = 1; i < n; ++i) { mx = std::max<LD>(mx, av[i]); mn = std::min<LD>(mn, av[i]); mxa = std::max<LD>(mxa, std::fabs(av[i])); mna = std::min<LD>(mna, std::fabs(av[i])); }
      auto exact = [&](const std::string& op, LD got, LD ref)
      { c.event(); if(!(got == ref)) c.viol(op, "wrong-value", vh::J().kv("got", got).kv("expected", ref).kv("n", (unsigned long)n).raw("values", vh::jarr(av, 24)).str()); };
      // the four reductions in a rotated order (a crash of one of them ends the case: each gets to be the first one)
      const int rot = int(c.rng.below(4));
      for(int q = 0; q < 4; ++q) switch((q + rot) % 4)
      {
      case 0: c.set_op(pre + ".max_abs_element"); exact(pre + ".max_abs_element", (LD)a.max_abs_element(), mxa); break;
      case 1: c.set_op(pre + ".min_abs_element"); exact(pre + ".min_abs_element", (LD)a.min_abs_element(), mna); break;
      case 2: c.set_op(pre + ".max_element"); exact(pre + ".max_element", (LD)a.max_element(), mx); break;
      default: c.set_op(pre + ".min_element"); exact(pre + ".min_element", (LD)a.min_element(), mn); break;
      }
      check_pure(c, pre + ".max_element", a, ha, "this");
    }
  }
}
