// C04 -- conversions between blocked / composed vectors and flat data ("a blocked or composed vector behaves exactly like
// the plain vector holding the same scalars": the plain DenseVector obtained from a composed vector, and the composed
// vector filled from a plain one, hold the generator's scalars in flattening order):
//   DenseVector::copy(meta)      [flat_copy]      dense target of the same pod size <- composed / blocked source
//   DenseVector::convert(meta)   [flat_convert]   dense target in any prior state   <- composed source
//   DenseVector::copy_inv(meta)  [flat_copy_inv]  composed / blocked target         <- dense source
//   meta.set_vec(DT*)            [set_vec]        raw array of exactly pod-size scalars <- composed / blocked / dense source
//   meta.set_vec_inv(const DT*)  [set_vec_inv]    composed / blocked / dense target <- raw array
// Oracle: the flat std::vector<double> the operands were built from (generator-owned), compared bit-exactly per scalar
// position; layout (leaf sizes) of the targets; bit hashes of the read-only operands; the raw arrays have exactly the
// pod size (heap allocations: a write past the end is an ASan report attributed to the case).
#pragma once
#include "c04_meta.hpp"   // C04_TYPE_SWITCH, check_scalar (vec_ops is not instantiated here)
#include <memory>

namespace c04
{
  // style 0..3 = the C04 value styles; style 4 = position coded (+-(i+1) + q/8: every position distinguishable from
  // every other one, exactly representable in float for i < 2^20)
  inline std::vector<double> gen_flat_vals(vh::Rng& r, Index n, int style)
  {
    if(style < 4) return gen_vals(r, n, style);
    std::vector<double> v(n);
    const double sg = r.coin() ? 1.0 : -1.0, fr = double(r.below(8)) / 8.0;
    for(Index i = 0; i < n; ++i) v[i] = sg * (double(i + 1) + fr);
    return v;
  }

  // bit-exact comparison of a flattened vector with the reference data
  inline bool check_exact(vh::Ctx& c, const std::string& op, const Flat& got, const std::vector<Index>& shape,
                          const std::vector<double>& ref, const char* what)
  {
    if(got.shape != shape) { c.viol(op, "dims", vh::J().kv("which", what).raw("layout", shape_str(got.shape)).raw("expected_layout", shape_str(shape)).str()); return false; }
    int bad = 0; std::size_t nbad = 0, first = 0;
    for(std::size_t i = 0; i < ref.size(); ++i) if(!(got.v[i] == (LD)ref[i])) { if(nbad++ == 0) first = i; }
    if(nbad > 0)
    {
      ++bad;
      c.viol(op, "wrong-value", vh::J().kv("which", what).kv("first_bad_component", (unsigned long)first).kv("bad_components", (unsigned long)nbad)
        .kv("of", (unsigned long)ref.size()).kv("got", got.v[first]).kv("expected", (LD)ref[first]).str());
    }
    return bad == 0;
  }
  template<typename DT>
  bool check_raw(vh::Ctx& c, const std::string& op, const DT* got, const std::vector<double>& ref, const char* what)
  {
    std::size_t nbad = 0, first = 0;
    for(std::size_t i = 0; i < ref.size(); ++i) if(!(got[i] == DT(ref[i]))) { if(nbad++ == 0) first = i; }
    if(nbad == 0) return true;
    c.viol(op, "wrong-value", vh::J().kv("which", what).kv("first_bad_component", (unsigned long)first).kv("bad_components", (unsigned long)nbad)
      .kv("of", (unsigned long)ref.size()).kv("got", (LD)got[first]).kv("expected", (LD)ref[first]).str());
    return false;
  }

  // the operations every kind has (V = DenseVector, DenseVectorBlocked, TupleVector / PowerVector composition)
  //   with_dense_entry: DenseVector::copy(V) / copy_inv(V) resolve to the generic (set_vec based) entry points
  template<typename DT, typename IT, typename V>
  void flat_common_ops(vh::Ctx& c, const std::string& pre, const std::vector<Index>& shape, bool with_dense_entry)
  {
    typedef DenseVector<DT, IT> DV;
    const Index n = shape_total(shape);
    const std::vector<Index> dshape{n};
    auto mk = [&](const std::vector<double>& v) { return vmake<V>(v, shape); };
    auto mkd = [&](const std::vector<double>& v) { return vmake<DV>(v, dshape); };
    auto style = [&]() { return int(c.rng.below(5)); };

    // ---------------------------------------------------------------- DenseVector::copy(meta): dense <- composed
    if(with_dense_entry)
    {
      const std::vector<double> rv = gen_flat_vals(c.rng, n, style()), xv = gen_flat_vals(c.rng, n, style());
      const std::string op = pre + ".flat_copy";
      DV d = mkd(rv);
      const V x = mk(xv); const std::uint64_t hx = flat(x).h;
      c.set_op(op);
      d.copy(x);
      c.event();
      check_exact(c, op, flat(d), dshape, xv, "dense target");
      check_pure(c, op, x, hx, "x");
    }
    // ---------------------------------------------------------------- DenseVector::copy_inv(meta): composed <- dense
    if(with_dense_entry)
    {
      const std::vector<double> rv = gen_flat_vals(c.rng, n, style()), xv = gen_flat_vals(c.rng, n, style());
      const std::string op = pre + ".flat_copy_inv";
      const DV d = mkd(xv); const std::uint64_t hd = flat(d).h;
      V r = mk(rv);
      c.set_op(op);
      d.copy_inv(r);
      c.event();
      check_exact(c, op, flat(r), shape, xv, "composed target");
      check_pure(c, op, d, hd, "dense source");
    }
    // ---------------------------------------------------------------- set_vec: raw array of exactly n scalars <- vector
    {
      const std::vector<double> rv = gen_flat_vals(c.rng, n, style()), xv = gen_flat_vals(c.rng, n, style());
      const std::string op = pre + ".set_vec";
      std::unique_ptr<DT[]> buf(new DT[n]);
      for(Index i = 0; i < n; ++i) buf[i] = DT(rv[i]);
      const V x = mk(xv); const std::uint64_t hx = flat(x).h;
      c.set_op(op);
      x.set_vec(buf.get());
      c.event();
      check_raw<DT>(c, op, buf.get(), xv, "array");
      check_pure(c, op, x, hx, "this");
    }
    // ---------------------------------------------------------------- set_vec_inv: vector <- raw array of exactly n scalars
    {
      const std::vector<double> rv = gen_flat_vals(c.rng, n, style()), xv = gen_flat_vals(c.rng, n, style());
      const std::string op = pre + ".set_vec_inv";
      std::unique_ptr<DT[]> buf(new DT[n]);
      for(Index i = 0; i < n; ++i) buf[i] = DT(xv[i]);
      V r = mk(rv);
      c.set_op(op);
      r.set_vec_inv(buf.get());
      c.event();
      check_exact(c, op, flat(r), shape, xv, "target");
      check_raw<DT>(c, op, buf.get(), xv, "array (read-only operand)");
    }
  }

  // DenseVector::convert(meta) for compositions (the generic entry point: a new dense vector of the pod size).  The
  // target is in one of three prior states: never allocated, allocated with the same size, allocated with another size.
  template<typename DT, typename IT, typename V>
  void flat_convert_op(vh::Ctx& c, const std::string& pre, const std::vector<Index>& shape)
  {
    typedef DenseVector<DT, IT> DV;
    const Index n = shape_total(shape);
    const int st = int(c.rng.below(5));
    const std::vector<double> xv = gen_flat_vals(c.rng, n, st);
    const int prior = int(c.rng.below(3));
    static const char* pn[] = {"dst:unallocated", "dst:same-size", "dst:other-size"};
    const Index dn = prior == 0 ? Index(0) : prior == 1 ? n : Index(n + 1 + c.rng.below(5));
    const std::vector<double> rv = gen_flat_vals(c.rng, dn, int(c.rng.below(5)));
    OpTags ot(c, {pn[prior]});
    const std::string op = pre + ".flat_convert";
    DV d;
    if(prior != 0) d = vmake<DV>(rv, std::vector<Index>{dn});
    const V x = vmake<V>(xv, shape); const std::uint64_t hx = flat(x).h;
    c.set_op(op);
    d.convert(x);
    c.event(); c.count(std::string("flat_convert|") + pn[prior]);
    check_exact(c, op, flat(d), std::vector<Index>{n}, xv, "dense target");
    check_pure(c, op, x, hx, "x");
    // the converted vector is an ordinary dense vector: one operation on it, judged on the generator's data
    if(n > 0)
    {
      c.set_op(pre + ".flat_convert/norm2sqr");
      const DT g = d.norm2sqr();
      c.event();
      LD s2 = 0; for(Index i = 0; i < n; ++i) s2 += (LD)xv[i] * (LD)xv[i];
      check_scalar<DT>(c, pre + ".flat_convert/norm2sqr", (LD)g, s2, s2, std::size_t(n) + 4);
    }
  }

  // composed kinds: shape from the deterministic sweep / random leaf lengths exactly as in composed_case
  template<typename DT, typename IT, typename V>
  void flat_composed_case(vh::Ctx& c, const char* family, const char* pre, const char* kind, std::size_t e)
  {
    static const Index L[] = {0, 1, 2, 3, 4, 5, 7, 8, 9, 15, 16, 17, 31, 33, 100, 1000};
    std::vector<int> gran; Leaves<V>::gran(gran);
    std::vector<Index> shape;
    bool some_empty = false, blocked_inner = false;
    for(std::size_t i = 0; i < gran.size(); ++i)
    {
      Index nb;
      if(e < sizeof(L) / sizeof(L[0])) nb = L[e];
      else nb = c.rng.coin(0.05) ? Index(0) : gen_len(c.rng, false, gran.size() <= 3);
      if(nb == 0) some_empty = true;
      if(gran[i] > 1 && i + 1 < gran.size()) blocked_inner = true;
      shape.push_back(nb * Index(gran[i]));
    }
    const Index n = shape_total(shape);
    c.tag(std::string("dt:") + vl::dt_name<DT>()); c.tag(std::string("it:") + vl::it_name<IT>());
    c.tag(std::string("kind:") + kind); c.tag(len_bucket(n));
    if(n == 0) c.tag("size0"); else if(some_empty) c.tag("empty_leaf");
    if(blocked_inner) c.tag("blocked_not_last");
    c.desc = vh::J().kv("kind", kind).raw("leaf_sizes", shape_str(shape)).str();
    flat_common_ops<DT, IT, V>(c, pre, shape, true);
    flat_convert_op<DT, IT, V>(c, pre, shape);
    end_case(c, family);
  }
}
