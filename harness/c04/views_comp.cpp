// C04 -- composed vectors (TupleVector / PowerVector) whose leaves are range views (each leaf of a "view" operand is a
// view with probability 0.75, an owning vector otherwise; leaves of length 0 cannot be views and are owning)
#include "c04_view.hpp"
using namespace c04v;
namespace
{
  template<typename DT, typename IT, typename V>
  void comp_case(vh::Ctx& c, const char* kind, std::size_t e)
  {
    static const Index L[] = {1, 2, 3, 4, 5, 7, 8, 9, 15, 16, 17, 31, 33, 100, 1000};
    std::vector<int> gran; Leaves<V>::gran(gran);
    std::vector<Index> shape; bool some_empty = false;
    for(std::size_t i = 0; i < gran.size(); ++i)
    {
      Index nb;
      if(e < sizeof(L) / sizeof(L[0])) nb = L[e];
      else nb = c.rng.coin(0.03) ? Index(0) : gen_len(c.rng, false, gran.size() <= 3);
      if(nb == 0) some_empty = true;
      shape.push_back(nb * Index(gran[i]));
    }
    const Index n = shape_total(shape);
    c.tag(std::string("dt:") + vl::dt_name<DT>()); c.tag(std::string("it:") + vl::it_name<IT>());
    c.tag(std::string("kind:") + kind); c.tag(len_bucket(n)); c.tag("range_view");
    if(n == 0) c.tag("size0"); else if(some_empty) c.tag("empty_leaf");
    c.desc = vh::J().kv("kind", kind).raw("leaf_sizes", shape_str(shape)).str();
    // min/max of a composed vector with an empty leaf: known defect of the pinned tree, judged in families tuple / power
    view_ops<DT, V>(c, "view.comp", shape, n > 0 && !some_empty, 0.75);
    end_case(c, "view_comp");
  }
  template<typename DT, typename IT>
  void view_comp_case(vh::Ctx& c)
  {
    typedef DenseVector<DT, IT> DV;
    const std::size_t e = std::size_t(c.k / 16);
    switch((c.k / 4) % 4)
    {
    case 0: comp_case<DT, IT, TupleVector<DV, DenseVectorBlocked<DT, IT, 2>, DV>>(c, "Tuple-DV-DVB2-DV", e); break;
    case 1: comp_case<DT, IT, TupleVector<PowerVector<DV, 2>, DenseVectorBlocked<DT, IT, 3>>>(c, "Tuple-Power2DV-DVB3", e); break;
    case 2: comp_case<DT, IT, PowerVector<DenseVectorBlocked<DT, IT, 2>, 2>>(c, "Power2-DVB2", e); break;
    default: comp_case<DT, IT, PowerVector<TupleVector<DV, DenseVectorBlocked<DT, IT, 4>>, 2>>(c, "Power2-TupleDV-DVB4", e); break;
    }
  }
}
VH_FAMILY(view_comp) { C04V_TYPE_SWITCH(view_comp_case) }
