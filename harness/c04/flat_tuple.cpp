// C04 -- flattening / unflattening of TupleVector compositions (the C04 tuple kinds + blocked components in non-last
// position: Stokes layout, several blocked components, nested tuples / powers of blocked vectors)
#include "c04_flat.hpp"
using namespace c04;
namespace
{
  template<typename DT, typename IT>
  void flat_tuple_case(vh::Ctx& c)
  {
    typedef DenseVector<DT, IT> DV;
    typedef DenseVectorBlocked<DT, IT, 2> DVB2;
    typedef DenseVectorBlocked<DT, IT, 3> DVB3;
    const std::size_t e = std::size_t(c.k / 32);
    switch((c.k / 4) % 8)
    {
    case 0: flat_composed_case<DT, IT, TupleVector<DV, DV>>(c, "flat_tuple", "tuple", "Tuple-DV-DV", e); break;
    case 1: flat_composed_case<DT, IT, TupleVector<DV, DVB2, DV>>(c, "flat_tuple", "tuple", "Tuple-DV-DVB2-DV", e); break;
    case 2: flat_composed_case<DT, IT, TupleVector<PowerVector<DV, 2>, DVB3>>(c, "flat_tuple", "tuple", "Tuple-Power2DV-DVB3", e); break;
    case 3: flat_composed_case<DT, IT, TupleVector<DV>>(c, "flat_tuple", "tuple", "Tuple-DV", e); break;
    case 4: flat_composed_case<DT, IT, TupleVector<DVB2, DV>>(c, "flat_tuple", "tuple", "Tuple-DVB2-DV", e); break;
    case 5: flat_composed_case<DT, IT, TupleVector<DVB3, DVB2, DV>>(c, "flat_tuple", "tuple", "Tuple-DVB3-DVB2-DV", e); break;
    case 6: flat_composed_case<DT, IT, TupleVector<PowerVector<DVB2, 2>, DV>>(c, "flat_tuple", "tuple", "Tuple-Power2DVB2-DV", e); break;
    default: flat_composed_case<DT, IT, TupleVector<TupleVector<DVB3, DV>, DVB2>>(c, "flat_tuple", "tuple", "Tuple-TupleDVB3DV-DVB2", e); break;
    }
  }
}
VH_FAMILY(flat_tuple) { C04_TYPE_SWITCH(flat_tuple_case) }
