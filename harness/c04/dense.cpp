// C04 -- DenseVector and DenseVectorBlocked<1..4> (scalar-valued operations + the per-component *_blocked variants)
#include "c04_ops.hpp"
using namespace c04;

namespace
{
  template<typename DT, typename IT>
  void dv_case(vh::Ctx& c)
  {
    // deterministic length sweep first (every listed length incl. 0 for each type), random afterwards
    static const Index L[] = {0, 1, 2, 3, 4, 5, 7, 8, 9, 15, 16, 17, 31, 33, 100, 1000};
    const std::size_t e = std::size_t(c.k / 4);
    const Index n = e < sizeof(L) / sizeof(L[0]) ? L[e] : gen_len(c.rng, true, true);
    c.tag(std::string("dt:") + vl::dt_name<DT>()); c.tag(std::string("it:") + vl::it_name<IT>()); c.tag(len_bucket(n));
    if(n == 0) c.tag("size0");
    c.desc = vh::J().kv("kind", "DenseVector").kv("n", (unsigned long)n).str();
    vec_ops<DT, DenseVector<DT, IT>>(c, "dv", {n}, true);
    end_case(c, "dv");
  }

  // ------------------------------------------------------------------ per-component (Tiny::Vector valued) operations
  template<typename DT, typename IT, int BS>
  void blocked_ops(vh::Ctx& c, Index nb)
  {
    typedef DenseVectorBlocked<DT, IT, BS> V; typedef typename V::ValueType VT;
    const Index n = nb * Index(BS); const std::vector<Index> shape{n};
    auto mk = [&](const std::vector<double>& v) { return vmake<V>(v, shape); };
    auto style = [&]() { return int(c.rng.below(4)); };
    const std::string pre = "dvb";
    // axpy_blocked / scale_blocked
    for(int which = 0; which < 2; ++which)
    {
      const bool alias = c.rng.coin(0.4);
      VT a; std::vector<LD> al(BS);
      for(int j = 0; j < BS; ++j) { Scalar s = gen_scalar<DT>(c.rng); a[j] = DT(s.v); al[j] = (LD)a[j]; }
      std::vector<double> rv = gen_vals(c.rng, n, style()), xv = alias ? rv : gen_vals(c.rng, n, style());
      OpTags ot(c, {alias ? "alias:r==x" : "alias:none"});
      const std::string op = pre + (which == 0 ? ".axpy_blocked" : ".scale_blocked");
      V r = mk(rv);
      c.set_op(op);
      if(alias) { if(which == 0) r.axpy_blocked(r, a); else r.scale_blocked(r, a); }
      else { V x = mk(xv); const std::uint64_t hx = flat(x).h; if(which == 0) r.axpy_blocked(x, a); else r.scale_blocked(x, a); check_pure(c, op, x, hx, "x"); }
      c.event();
      std::vector<LD> ref(n), S(n);
      for(Index i = 0; i < n; ++i)
      {
        const LD t = al[i % BS] * (LD)xv[i];
        if(which == 0) { ref[i] = (LD)rv[i] + t; S[i] = std::fabs((LD)rv[i]) + std::fabs(t); } else { ref[i] = t; S[i] = std::fabs(t); }
      }
      check_vec<DT>(c, op, flat(r), shape, ref, S, 2);
    }
    // dot_blocked / triple_dot_blocked / norm2_blocked / norm2sqr_blocked
    {
      const int pat = int(c.rng.below(5));
      static const char* pn[] = {"alias:none", "alias:this==x", "alias:this==y", "alias:x==y", "alias:this==x==y"};
      std::vector<double> av = gen_vals(c.rng, n, style()), xv = gen_vals(c.rng, n, style()), yv = gen_vals(c.rng, n, style());
      if(pat == 1 || pat == 4) xv = av; if(pat == 2 || pat == 4) yv = av; if(pat == 3) yv = xv;
      const V a = mk(av); const std::uint64_t ha = flat(a).h;
      auto cmp = [&](const std::string& op, const VT& got, const std::vector<LD>& ref, const std::vector<LD>& S, std::size_t len)
      {
        c.event();
        for(int j = 0; j < BS; ++j)
        {
          LD ex = 0;
          if(!vl::close_enough<DT>((LD)got[j], ref[j], S[j], len, &ex))
            c.viol(op, "wrong-value", vh::J().kv("block_component", j).kv("got", (LD)got[j]).kv("expected", ref[j]).kv("error_over_bound", ex).str());
        }
      };
      {
        OpTags ot(c, {pn[pat]});
        c.set_op(pre + ".triple_dot_blocked");
        VT got;
        switch(pat)
        {
        case 0: { const V x = mk(xv), y = mk(yv); got = a.triple_dot_blocked(x, y); break; }
        case 1: { const V y = mk(yv); got = a.triple_dot_blocked(a, y); break; }
        case 2: { const V x = mk(xv); got = a.triple_dot_blocked(x, a); break; }
        case 3: { const V x = mk(xv); got = a.triple_dot_blocked(x, x); break; }
        default: got = a.triple_dot_blocked(a, a); break;
        }
        std::vector<LD> ref(BS, 0.0L), S(BS, 0.0L);
        for(Index i = 0; i < n; ++i) { LD t = (LD)av[i] * (LD)xv[i] * (LD)yv[i]; ref[i % BS] += t; S[i % BS] += std::fabs(t); }
        cmp(pre + ".triple_dot_blocked", got, ref, S, std::size_t(nb) + 2);
      }
      {
        const bool al = (pat == 1 || pat == 4);
        OpTags ot(c, {al ? "alias:x==y" : "alias:none"});
        c.set_op(pre + ".dot_blocked");
        VT got;
        if(al) got = a.dot_blocked(a); else { const V x = mk(xv); got = a.dot_blocked(x); }
        std::vector<LD> ref(BS, 0.0L), S(BS, 0.0L);
        for(Index i = 0; i < n; ++i) { LD t = (LD)av[i] * (LD)xv[i]; ref[i % BS] += t; S[i % BS] += std::fabs(t); }
        cmp(pre + ".dot_blocked", got, ref, S, std::size_t(nb));
      }
      {
        std::vector<LD> s2(BS, 0.0L), nr(BS);
        for(Index i = 0; i < n; ++i) s2[i % BS] += (LD)av[i] * (LD)av[i];
        for(int j = 0; j < BS; ++j) nr[j] = std::sqrt(s2[j]);
        c.set_op(pre + ".norm2_blocked"); cmp(pre + ".norm2_blocked", a.norm2_blocked(), nr, nr, std::size_t(nb) + 2);
        c.set_op(pre + ".norm2sqr_blocked"); cmp(pre + ".norm2sqr_blocked", a.norm2sqr_blocked(), s2, s2, std::size_t(nb) + 2);
      }
      check_pure(c, pre + ".dot_blocked", a, ha, "this");
    }
    // min / max per block component (defined for at least one block)
    if(nb > 0)
    {
      std::vector<double> av = gen_vals(c.rng, n, style());
      if(c.rng.coin(0.2)) for(auto& x : av) x = -std::fabs(x);
      if(c.rng.coin(0.3)) { const Index p = c.rng.coin() ? 0 : n - 1; av[p] = double(float((c.rng.coin() ? 1.0 : -1.0) * 1.0e7)); }
      const V a = mk(av); const std::uint64_t ha = flat(a).h;
      std::vector<LD> mx(BS), mn(BS), mxa(BS), mna(BS);
      for(int j = 0; j < BS; ++j) { mx[j] = mn[j] = av[j]; mxa[j] = mna[j] = std::fabs(av[j]); }
      for(Index i = 0; i < n; ++i) { const int j = int(i % BS); mx[j] = std::max<LD>(mx[j], av[i]); mn[j] = std::min<LD>(mn[j], av[i]);
        mxa[j] = std::max<LD>(mxa[j], std::fabs(av[i])); mna[j] = std::min<LD>(mna[j], std::fabs(av[i])); }
      auto exact = [&](const std::string& op, const VT& got, const std::vector<LD>& ref)
      { c.event(); for(int j = 0; j < BS; ++j) if(!((LD)got[j] == ref[j])) c.viol(op, "wrong-value", vh::J().kv("block_component", j).kv("got", (LD)got[j]).kv("expected", ref[j]).raw("values", vh::jarr(av, 24)).str()); };
      c.set_op(pre + ".max_abs_element_blocked"); exact(pre + ".max_abs_element_blocked", a.max_abs_element_blocked(), mxa);
      c.set_op(pre + ".min_abs_element_blocked"); exact(pre + ".min_abs_element_blocked", a.min_abs_element_blocked(), mna);
      c.set_op(pre + ".max_element_blocked"); exact(pre + ".max_element_blocked", a.max_element_blocked(), mx);
      c.set_op(pre + ".min_element_blocked"); exact(pre + ".min_element_blocked", a.min_element_blocked(), mn);
      check_pure(c, pre + ".max_element_blocked", a, ha, "this");
    }
  }

  template<typename DT, typename IT, int BS>
  void dvb_bs(vh::Ctx& c)
  {
    static const Index L[] = {0, 1, 2, 3, 4, 5, 7, 8, 9, 15, 16, 17, 31, 33, 100, 1000};
    const std::size_t e = std::size_t(c.k / 16);
    const Index nb = e < sizeof(L) / sizeof(L[0]) ? L[e] : gen_len(c.rng, true, true);
    c.tag(std::string("dt:") + vl::dt_name<DT>()); c.tag(std::string("it:") + vl::it_name<IT>()); c.tag(len_bucket(nb));
    c.tag("bs:" + std::to_string(BS));
    if(nb == 0) c.tag("size0");
    c.desc = vh::J().kv("kind", "DenseVectorBlocked").kv("blocks", (unsigned long)nb).kv("block_size", BS).str();
    vec_ops<DT, DenseVectorBlocked<DT, IT, BS>>(c, "dvb", {nb * Index(BS)}, true);
    blocked_ops<DT, IT, BS>(c, nb);
    end_case(c, "dvb");
  }

  template<typename DT, typename IT>
  void dvb_case(vh::Ctx& c)
  {
    switch((c.k / 4) % 4)
    {
    case 0: dvb_bs<DT, IT, 1>(c); break;
    case 1: dvb_bs<DT, IT, 2>(c); break;
    case 2: dvb_bs<DT, IT, 3>(c); break;
    default: dvb_bs<DT, IT, 4>(c); break;
    }
  }
}

#define C04_TYPE_SWITCH(fn) \
  switch(c.k % 4) \
  { \
  case 0: fn<double, std::uint64_t>(c); break; \
  case 1: fn<float, std::uint64_t>(c); break; \
  case 2: fn<double, std::uint32_t>(c); break; \
  default: fn<float, std::uint32_t>(c); break; \
  }

VH_FAMILY(dv) { C04_TYPE_SWITCH(dv_case) }
VH_FAMILY(dvb) { C04_TYPE_SWITCH(dvb_case) }
