// C04 -- entry point (the families live in the other translation units)
#include <kernel/runtime.hpp>
#include <common/vh.hpp>
int main(int argc, char** argv)
{
  FEAT::Runtime::ScopeGuard guard(argc, argv);
  return vh::main_impl(argc, argv);
}
