// C04 -- probe family: min/max(-abs)_element on vectors that have no element (size 0) or a leaf without elements.
// The extreme element of an empty set is not defined, so nothing is *judged* here: every call runs in a forked child and
// only the outcome (returned / died, with the reason) is counted in the evidence (counters "size0probe|...").
#include "c04_common.hpp"
#include <kernel/lafem/sparse_vector.hpp>
#include <kernel/lafem/sparse_vector_blocked.hpp>
using namespace c04;

namespace
{
  typedef double DT; typedef std::uint64_t IT;
  const char* kinds[] = {"DenseVector(0)", "DenseVectorBlocked2(0)", "SparseVector(0)", "SparseVectorBlocked2(0)", "Tuple-DV(3)-DV(0)", "Power2-DV(0)"};
  const char* ops[] = {"max_abs_element", "min_abs_element", "max_element", "min_element"};

  template<typename V> void call(const V& v, int op)
  {
    volatile DT r = 0;
    switch(op) { case 0: r = v.max_abs_element(); break; case 1: r = v.min_abs_element(); break; case 2: r = v.max_element(); break; default: r = v.min_element(); break; }
    (void)r;
  }
}

VH_COUNT(size0_minmax) { return 24; }

VH_FAMILY(size0_minmax)
{
  if(c.k >= 24) { c.trivial = true; return; }
  const int kind = int(c.k / 4), op = int(c.k % 4);
  c.tag("size0"); c.tag(std::string("probe:") + kinds[kind]);
  c.sig = std::string("size0probe|") + kinds[kind] + "|" + ops[op];
  c.desc = vh::J().kv("kind", kinds[kind]).kv("op", ops[op]).str();
  c.set_op(std::string("size0probe.") + ops[op]);
  vh::ForkResult r = vh::run_forked([&]()
  {
    switch(kind)
    {
    case 0: { DenseVector<DT, IT> v(0); call(v, op); break; }
    case 1: { DenseVectorBlocked<DT, IT, 2> v(0); call(v, op); break; }
    case 2: { SparseVector<DT, IT> v(0); call(v, op); break; }
    case 3: { SparseVectorBlocked<DT, IT, 2> v(0); call(v, op); break; }
    case 4: { TupleVector<DenseVector<DT, IT>, DenseVector<DT, IT>> v(DenseVector<DT, IT>(3, DT(1)), DenseVector<DT, IT>(0)); call(v, op); break; }
    default: { PowerVector<DenseVector<DT, IT>, 2> v(0); call(v, op); break; }
    }
  });
  c.event();
  std::string how = "returned";
  if(r.died())
  {
    how = r.err_has("AddressSanitizer") ? "died:asan" : r.err_has("runtime error") ? "died:ubsan" : r.err_has("VH-CHILD-EXCEPTION") ? "died:exception"
      : r.err_has("FATAL ERROR") ? "died:abort" : "died:signal";
  }
  c.count(std::string("size0probe|") + kinds[kind] + "|" + ops[op] + "|" + how);
  if(c.verbose()) std::printf("%s %s -> %s\n%s\n", kinds[kind], ops[op], how.c_str(), r.err.substr(0, 600).c_str());
}
