// C04 -- TupleVector compositions (depth <= 2)
#include "c04_meta.hpp"
using namespace c04;
namespace
{
  template<typename DT, typename IT>
  void tuple_case(vh::Ctx& c)
  {
    typedef DenseVector<DT, IT> DV;
    const std::size_t e = std::size_t(c.k / 16);
    switch((c.k / 4) % 4)
    {
    case 0: composed_case<DT, IT, TupleVector<DV, DV>>(c, "tuple", "tuple", "Tuple-DV-DV", e); break;
    case 1: composed_case<DT, IT, TupleVector<DV, DenseVectorBlocked<DT, IT, 2>, DV>>(c, "tuple", "tuple", "Tuple-DV-DVB2-DV", e); break;
    case 2: composed_case<DT, IT, TupleVector<PowerVector<DV, 2>, DenseVectorBlocked<DT, IT, 3>>>(c, "tuple", "tuple", "Tuple-Power2DV-DVB3", e); break;
    default: composed_case<DT, IT, TupleVector<DV>>(c, "tuple", "tuple", "Tuple-DV", e); break;
    }
  }
}
VH_FAMILY(tuple) { C04_TYPE_SWITCH(tuple_case) }
