// C04 -- vector operations: shared monitor code.
//
// A vector of any kind (DenseVector, DenseVectorBlocked, TupleVector / PowerVector compositions) is built from a flat
// std::vector<double> (the generator-owned truth) and a list of leaf sizes; every operation is judged against its
// element-wise definition on the flat data, computed in long double with the DESIGN section 4 bound.  Because the plain
// DenseVector and every blocked / composed vector are judged against the *same* flat reference, agreement of a composed
// vector with the plain vector (up to twice the bound) follows.
#pragma once
#include <common/vh_lafem.hpp>
#include <kernel/lafem/power_vector.hpp>
#include <kernel/lafem/tuple_vector.hpp>

namespace c04
{
  using vl::LD; using vl::Index;
  using namespace FEAT::LAFEM;

  // ------------------------------------------------------------------ vector adapters (shape = scalar size of each leaf)
  template<typename DT, typename IT>
  void vfill(DenseVector<DT, IT>& v, const double*& p, const Index*& sz)
  {
    const Index n = *sz++;
    DenseVector<DT, IT> t(n);
    DT* e = t.elements();
    for(Index i = 0; i < n; ++i) e[i] = DT(p[i]);
    p += n;
    v = std::move(t);
  }
  template<typename DT, typename IT, int BS>
  void vfill(DenseVectorBlocked<DT, IT, BS>& v, const double*& p, const Index*& sz)
  {
    const Index n = *sz++;
    DenseVectorBlocked<DT, IT, BS> t(n / Index(BS));
    DT* e = t.template elements<Perspective::pod>();
    for(Index i = 0; i < n; ++i) e[i] = DT(p[i]);
    p += n;
    v = std::move(t);
  }
  template<typename S, int N> void vfill(PowerVector<S, N>& v, const double*& p, const Index*& sz);
  template<typename F, typename... R> void vfill(TupleVector<F, R...>& v, const double*& p, const Index*& sz);
  template<typename S, int N>
  void vfill(PowerVector<S, N>& v, const double*& p, const Index*& sz)
  {
    vfill(v.first(), p, sz);
    if constexpr(N > 1) vfill(v.rest(), p, sz);
  }
  template<typename F, typename... R>
  void vfill(TupleVector<F, R...>& v, const double*& p, const Index*& sz)
  {
    vfill(v.first(), p, sz);
    if constexpr(sizeof...(R) > 0) vfill(v.rest(), p, sz);
  }

  template<typename DT, typename IT>
  void vread(const DenseVector<DT, IT>& v, std::vector<LD>& out, std::vector<Index>& shape, std::uint64_t& h)
  {
    const Index n = v.size(); const DT* e = v.elements();
    shape.push_back(n);
    if(n > 0 && e == nullptr) { shape.back() = Index(-1); return; }
    for(Index i = 0; i < n; ++i) out.push_back((LD)e[i]);
    h = vh::hash_bytes(e, std::size_t(n) * sizeof(DT), h); h = vh::mix64(h ^ n);
  }
  template<typename DT, typename IT, int BS>
  void vread(const DenseVectorBlocked<DT, IT, BS>& v, std::vector<LD>& out, std::vector<Index>& shape, std::uint64_t& h)
  {
    const Index n = v.template size<Perspective::pod>(); const DT* e = v.template elements<Perspective::pod>();
    shape.push_back(n);
    if(n > 0 && e == nullptr) { shape.back() = Index(-1); return; }
    for(Index i = 0; i < n; ++i) out.push_back((LD)e[i]);
    h = vh::hash_bytes(e, std::size_t(n) * sizeof(DT), h); h = vh::mix64(h ^ n);
  }
  template<typename S, int N> void vread(const PowerVector<S, N>& v, std::vector<LD>& out, std::vector<Index>& shape, std::uint64_t& h);
  template<typename F, typename... R> void vread(const TupleVector<F, R...>& v, std::vector<LD>& out, std::vector<Index>& shape, std::uint64_t& h);
  template<typename S, int N>
  void vread(const PowerVector<S, N>& v, std::vector<LD>& out, std::vector<Index>& shape, std::uint64_t& h)
  {
    vread(v.first(), out, shape, h);
    if constexpr(N > 1) vread(v.rest(), out, shape, h);
  }
  template<typename F, typename... R>
  void vread(const TupleVector<F, R...>& v, std::vector<LD>& out, std::vector<Index>& shape, std::uint64_t& h)
  {
    vread(v.first(), out, shape, h);
    if constexpr(sizeof...(R) > 0) vread(v.rest(), out, shape, h);
  }

  // number of leaves / leaf granularity (block size) of a vector type, in flattening order
  template<typename V> struct Leaves;
  template<typename DT, typename IT> struct Leaves<DenseVector<DT, IT>> { static void gran(std::vector<int>& g) { g.push_back(1); } };
  template<typename DT, typename IT, int BS> struct Leaves<DenseVectorBlocked<DT, IT, BS>> { static void gran(std::vector<int>& g) { g.push_back(BS); } };
  template<typename S, int N> struct Leaves<PowerVector<S, N>> { static void gran(std::vector<int>& g) { for(int i = 0; i < N; ++i) Leaves<S>::gran(g); } };
  template<typename F> struct Leaves<TupleVector<F>> { static void gran(std::vector<int>& g) { Leaves<F>::gran(g); } };
  template<typename F, typename... R> struct Leaves<TupleVector<F, R...>> { static void gran(std::vector<int>& g) { Leaves<F>::gran(g); Leaves<TupleVector<R...>>::gran(g); } };

  struct Flat { std::vector<LD> v; std::vector<Index> shape; std::uint64_t h = 1469598103934665603ull; };
  template<typename V> Flat flat(const V& v) { Flat f; vread(v, f.v, f.shape, f.h); for(Index q : f.shape) f.h = vh::mix64(f.h ^ q); return f; }
  template<typename V> V vmake(const std::vector<double>& vals, const std::vector<Index>& shape)
  { V v; const double* p = vals.data(); const Index* s = shape.data(); vfill(v, p, s); return v; }
  inline Index shape_total(const std::vector<Index>& s) { Index n = 0; for(Index q : s) n += q; return n; }
  inline std::string shape_str(const std::vector<Index>& s) { vh::J a('['); for(Index q : s) a.add((unsigned long)q); return a.str(); }

  // ------------------------------------------------------------------ workload pieces
  inline Index gen_len(vh::Rng& r, bool allow0, bool allow1000)
  {
    static const Index L[] = {1, 2, 3, 4, 5, 7, 8, 9, 15, 16, 17, 31, 33, 100};
    if(allow0 && r.coin(0.05)) return 0;
    if(allow1000 && r.coin(0.04)) return 1000;
    return L[r.below(sizeof(L) / sizeof(L[0]))];
  }
  inline const char* len_bucket(Index n)
  { return n == 0 ? "len:0" : n == 1 ? "len:1" : n <= 4 ? "len:2-4" : n <= 9 ? "len:5-9" : n <= 17 ? "len:15-17" : n <= 33 ? "len:31-33" : n <= 100 ? "len:100" : "len:1000+"; }

  struct Scalar { double v; const char* cls; };
  template<typename DT> inline Scalar gen_scalar(vh::Rng& r)
  {
    switch(r.below(8))
    {
    case 0: return {0.0, "a:0"};
    case 1: return {1.0, "a:1"};
    case 2: return {-1.0, "a:-1"};
    case 3: return {1e-20, "a:1e-20"};
    case 4: return {1e+6, "a:1e+6"};
    case 5: { double v = r.real(-1.0, 1.0) * std::pow(10.0, double(r.range(-3, 3))); if(v == 0.0) v = 0.5; return {double(DT(v)), "a:random"}; }
    default: { double v = r.real(-3.0, 3.0); if(v == 0.0) v = 0.5; return {double(DT(v)), "a:random"}; }
    }
  }
  inline std::vector<double> gen_vals(vh::Rng& r, Index n, int style, bool nonzero = false)
  {
    std::vector<double> v(n);
    for(auto& x : v) x = nonzero ? vl::gen_nonzero(r, style) : vl::gen_value(r, style);
    return v;
  }

  struct OpTags
  {
    vh::Ctx& c; std::size_t n;
    OpTags(vh::Ctx& cc, std::initializer_list<std::string> l) : c(cc), n(cc.tags.size()) { for(auto& t : l) c.tags.push_back(t); }
    ~OpTags() { c.tags.resize(n); }
  };

  // ------------------------------------------------------------------ comparison helpers
  template<typename DT>
  bool check_vec(vh::Ctx& c, const std::string& op, const Flat& got, const std::vector<Index>& shape,
                 const std::vector<LD>& ref, const std::vector<LD>& S, std::size_t len, const char* what = "result")
  {
    if(got.shape != shape) { c.viol(op, "dims", vh::J().kv("which", what).raw("layout", shape_str(got.shape)).raw("expected_layout", shape_str(shape)).str()); return false; }
    int bad = 0;
    for(std::size_t i = 0; i < ref.size(); ++i)
    {
      LD ex = 0;
      if(!vl::close_enough<DT>(got.v[i], ref[i], S[i], len, &ex))
        if(bad++ < 3) c.viol(op, "wrong-value", vh::J().kv("which", what).kv("component", (unsigned long)i).kv("got", got.v[i]).kv("expected", ref[i])
          .kv("sum_abs_terms", S[i]).kv("error_over_bound", ex).kv("dt", vl::dt_name<DT>()).str());
    }
    return bad == 0;
  }
  template<typename DT>
  bool check_scalar(vh::Ctx& c, const std::string& op, LD got, LD ref, LD S, std::size_t len)
  {
    LD ex = 0;
    if(vl::close_enough<DT>(got, ref, S, len, &ex)) return true;
    c.viol(op, "wrong-value", vh::J().kv("got", got).kv("expected", ref).kv("sum_abs_terms", S).kv("error_over_bound", ex).kv("dt", vl::dt_name<DT>()).str());
    return false;
  }
  template<typename V>
  void check_pure(vh::Ctx& c, const std::string& op, const V& v, std::uint64_t h, const char* which)
  { if(flat(v).h != h) c.viol(op, "input-modified", vh::J().kv("which", which).str()); }

  inline void end_case(vh::Ctx& c, const char* family)
  {
    auto t = c.tags; std::sort(t.begin(), t.end());
    c.sig = family; for(auto& x : t) { c.sig += '|'; c.sig += x; }
  }
}
