// C04 -- SparseVector and SparseVectorBlocked: element access, min/max(-abs) elements, format, clone judged on the
// flattened data (positions without a stored entry are zeros)
#include "c04_common.hpp"
#include <kernel/lafem/sparse_vector.hpp>
#include <kernel/lafem/sparse_vector_blocked.hpp>
using namespace c04;

namespace
{
  struct Truth
  {
    Index n = 0; int bs = 1;
    std::map<Index, std::vector<double>> e;   // stored positions (block index -> bs values)
    std::vector<LD> flat() const
    { std::vector<LD> f(std::size_t(n) * bs, 0.0L); for(auto& kv : e) for(int j = 0; j < bs; ++j) f[kv.first * bs + j] = (LD)kv.second[j]; return f; }
    std::vector<LD> stored() const { std::vector<LD> f; for(auto& kv : e) for(int j = 0; j < bs; ++j) f.push_back((LD)kv.second[j]); return f; }
  };

  // value access of the two sparse kinds, harness side
  template<typename DT, typename IT> LD get_at(const SparseVector<DT, IT>& v, Index i, int) { return (LD)v(i); }
  template<typename DT, typename IT, int BS> LD get_at(const SparseVectorBlocked<DT, IT, BS>& v, Index i, int j) { return (LD)v(i)[j]; }
  template<typename DT, typename IT> void set_at(SparseVector<DT, IT>& v, Index i, const std::vector<double>& x) { v(i, DT(x[0])); }
  template<typename DT, typename IT, int BS> void set_at(SparseVectorBlocked<DT, IT, BS>& v, Index i, const std::vector<double>& x)
  { FEAT::Tiny::Vector<DT, BS> t; for(int j = 0; j < BS; ++j) t[j] = DT(x[j]); v(i, t); }

  template<typename DT, typename IT>
  SparseVector<DT, IT> from_arrays(Index n, const std::vector<Index>& idx, const std::vector<std::vector<double>>& val, bool sorted, SparseVector<DT, IT>*)
  {
    DenseVector<DT, IT> el(Index(idx.size())); DenseVector<IT, IT> in(Index(idx.size()));
    for(Index q = 0; q < Index(idx.size()); ++q) { el(q, DT(val[q][0])); in(q, IT(idx[q])); }
    return SparseVector<DT, IT>(n, el, in, sorted);
  }
  template<typename DT, typename IT, int BS>
  SparseVectorBlocked<DT, IT, BS> from_arrays(Index n, const std::vector<Index>& idx, const std::vector<std::vector<double>>& val, bool sorted, SparseVectorBlocked<DT, IT, BS>*)
  {
    DenseVectorBlocked<DT, IT, BS> el(Index(idx.size())); DenseVector<IT, IT> in(Index(idx.size()));
    DT* p = el.template elements<Perspective::pod>();
    for(Index q = 0; q < Index(idx.size()); ++q) { for(int j = 0; j < BS; ++j) p[q * BS + j] = DT(val[q][j]); in(q, IT(idx[q])); }
    return SparseVectorBlocked<DT, IT, BS>(n, el, in, sorted);
  }

  template<typename DT, typename V>
  void check_get(vh::Ctx& c, const std::string& op, const V& v, const Truth& t, const char* what, bool only_stored = false)
  {
    const std::vector<LD> f = t.flat();
    std::vector<Index> probe;
    if(only_stored) { for(auto& kv : t.e) if(probe.size() < 200) probe.push_back(kv.first); }
    else if(t.n <= 120) for(Index i = 0; i < t.n; ++i) probe.push_back(i);
    else { for(auto& kv : t.e) if(probe.size() < 150) probe.push_back(kv.first); for(int q = 0; q < 80; ++q) probe.push_back(Index(c.rng.below(t.n))); probe.push_back(0); probe.push_back(t.n - 1); }
    int bad = 0;
    for(Index i : probe) for(int j = 0; j < t.bs; ++j)
    {
      const LD g = get_at(v, i, j);
      if(!(g == f[i * t.bs + j]) && bad++ < 3)
        c.viol(op, "wrong-value", vh::J().kv("which", what).kv("index", (unsigned long)i).kv("block_component", j).kv("got", g).kv("expected", f[i * t.bs + j]).str());
    }
    c.event();
  }

  template<typename DT, typename IT, typename V>
  void sparse_case(vh::Ctx& c, const char* family, const std::string& pre, int BS, std::size_t e)
  {
    static const Index L[] = {1, 2, 3, 4, 5, 7, 8, 9, 15, 16, 17, 31, 33, 100, 1000};
    Truth t; t.bs = BS;
    t.n = e < sizeof(L) / sizeof(L[0]) ? L[e] : gen_len(c.rng, false, true);
    const int vstyle = int(c.rng.below(4));
    // fill class: entry-free, one entry, partial, full
    int fill = int(c.rng.below(8)); // 0 entry-free, 1 single, 2..5 partial, 6,7 full
    Index want = fill == 0 ? 0 : fill == 1 ? 1 : fill >= 6 ? t.n : Index(c.rng.range(1, long(t.n)));
    // construction: 0 = element-wise set (random order, overwrites), 1 = arrays sorted, 2 = arrays unsorted
    int mode = want == 0 ? 0 : int(c.rng.below(5)); if(mode > 2) mode = 0;
    std::vector<Index> pos(t.n); for(Index i = 0; i < t.n; ++i) pos[i] = i;
    c.rng.shuffle(pos); pos.resize(want);
    auto rnd_val = [&]() { std::vector<double> x; x.resize(std::size_t(BS)); for(auto& q : x) q = vl::gen_value(c.rng, vstyle); return x; };
    c.tag(std::string("dt:") + vl::dt_name<DT>()); c.tag(std::string("it:") + vl::it_name<IT>()); c.tag(len_bucket(t.n));
    if(std::string(family) == "svb") c.tag("bs:" + std::to_string(BS));
    c.tag(mode == 0 ? "built:set" : mode == 1 ? "built:arrays-sorted" : "built:arrays-unsorted");
    c.tag(want == 0 ? "entry_free" : want == t.n ? "fill:full" : "fill:partial");
    V v(t.n);
    if(mode == 0)
    {
      // positions written twice (the last value counts); more writes than the allocation increment min(n, 1000) make
      // the container re-allocate its arrays
      // (seed C04f: a position may be written up to four times before the lazy consolidation runs; the duplicate removal
      // must keep exactly the last value of a run of equal indices of any length)
      std::vector<char> twice(pos.size(), 0); Index writes = 0; bool multi = false;
      for(auto& w : twice) { const double u = c.rng.unit(); w = char(u < 0.85 ? 0 : u < 0.93 ? 1 : u < 0.97 ? 2 : 3); writes += Index(w) + 1; if(w >= 2) multi = true; }
      if(writes > Index(pos.size())) c.tag("set:overwrites");
      if(multi) c.tag("set:multi-overwrites");
      if(writes > std::min<Index>(t.n, 1000)) c.tag("set:realloc");
      c.set_op(pre + ".set");
      for(std::size_t q = 0; q < pos.size(); ++q)
      {
        const Index p = pos[q];
        auto x = rnd_val();
        for(int r = 0; r < int(twice[q]); ++r) { auto junk = rnd_val(); set_at(v, p, junk); }
        set_at(v, p, x); t.e[p] = x;
      }
    }
    else
    {
      if(mode == 1) std::sort(pos.begin(), pos.end());
      std::vector<std::vector<double>> vals;
      for(Index p : pos) { vals.push_back(rnd_val()); t.e[p] = vals.back(); }
      c.set_op(pre + ".construct");
      v = from_arrays<DT, IT>(t.n, pos, vals, mode == 1, static_cast<V*>(nullptr));
    }
    const Index used = Index(t.e.size());
    {
      vh::J a('['); std::size_t q = 0; for(auto& kv : t.e) { if(q++ >= 24) break; vh::J el('['); el.add((unsigned long)kv.first); for(double x : kv.second) el.add(x); a.add_raw(el.str()); }
      c.desc = vh::J().kv("kind", family).kv("n", (unsigned long)t.n).kv("block_size", BS).kv("stored", (unsigned long)used).raw("entries", a.str()).str();
    }

    // ---- element access
    c.set_op(pre + ".get");
    {
      const int before = c.nviol;
      check_get<DT>(c, pre + ".get", v, t, "v(i)");
      // the vector does not hold the data it was given: the remaining judgements would only be consequences
      if(c.nviol != before) { end_case(c, family); return; }
    }

    // ---- number of stored entries = number of distinct positions written
    {
      c.set_op(pre + ".used_elements");
      const Index ue = v.used_elements();
      c.event();
      if(ue != used) { c.viol(pre + ".used_elements", "wrong-value", vh::J().kv("got", (unsigned long)ue).kv("expected", (unsigned long)used).str()); end_case(c, family); return; }
    }

    // ---- clone
    {
      c.set_op(pre + ".clone");
      V cl = v.clone(CloneMode::Deep);
      check_get<DT>(c, pre + ".clone", cl, t, "clone(i)");
      check_get<DT>(c, pre + ".clone", v, t, "source(i)");
    }

    // ---- min / max: value of the flattened data (implicit zeros take part); a result equal to the extreme *stored*
    //      value is accepted as well (the statement does not say whether implicit zeros count)
    {
      const std::vector<LD> f = t.flat(), s = t.stored();
      auto red = [](const std::vector<LD>& w, int what) { LD r = what < 2 ? std::fabs(w[0]) : w[0];
        for(LD x : w) { switch(what) { case 0: r = std::max(r, std::fabs(x)); break; case 1: r = std::min(r, std::fabs(x)); break; case 2: r = std::max(r, x); break; default: r = std::min(r, x); break; } } return r; };
      static const char* nm[] = {".max_abs_element", ".min_abs_element", ".max_element", ".min_element"};
      for(int what = 0; what < 4; ++what)
      {
        const std::string op = pre + nm[what];
        c.set_op(op);
        LD got;
        switch(what) { case 0: got = (LD)v.max_abs_element(); break; case 1: got = (LD)v.min_abs_element(); break; case 2: got = (LD)v.max_element(); break; default: got = (LD)v.min_element(); break; }
        c.event();
        const LD rf = red(f, what);
        bool ok = got == rf;
        if(!ok && !s.empty()) ok = got == red(s, what);
        if(!ok) c.viol(op, "wrong-value", vh::J().kv("got", got).kv("expected_flattened", rf).kv("expected_stored_only", s.empty() ? rf : red(s, what))
          .kv("n", (unsigned long)t.n).kv("stored", (unsigned long)used).str());
      }
      check_get<DT>(c, pre + ".max_element", v, t, "vector after the reductions");
    }

    // ---- format: default value 0 -> every position reads 0; format(val) -> every stored position reads val
    {
      const bool dflt = c.rng.coin(0.4);
      const DT val = dflt ? DT(0) : DT(vl::gen_nonzero(c.rng, vstyle));
      c.set_op(pre + ".format");
      if(dflt) v.format(); else v.format(val);
      Truth a = t; for(auto& kv : a.e) for(auto& x : kv.second) x = double(val);
      // (whether format(val != 0) is meant to reach positions without a stored entry is not stated: those are not judged)
      check_get<DT>(c, pre + ".format", v, a, "after format", !dflt);
    }
    end_case(c, family);
  }

  template<typename DT, typename IT> void sv_case(vh::Ctx& c) { sparse_case<DT, IT, SparseVector<DT, IT>>(c, "sv", "sv", 1, std::size_t(c.k / 4)); }
  template<typename DT, typename IT> void svb_case(vh::Ctx& c)
  {
    const std::size_t e = std::size_t(c.k / 16);
    switch((c.k / 4) % 4)
    {
    case 0: sparse_case<DT, IT, SparseVectorBlocked<DT, IT, 1>>(c, "svb", "svb", 1, e); break;
    case 1: sparse_case<DT, IT, SparseVectorBlocked<DT, IT, 2>>(c, "svb", "svb", 2, e); break;
    case 2: sparse_case<DT, IT, SparseVectorBlocked<DT, IT, 3>>(c, "svb", "svb", 3, e); break;
    default: sparse_case<DT, IT, SparseVectorBlocked<DT, IT, 4>>(c, "svb", "svb", 4, e); break;
    }
  }
}

#define C04_TYPE_SWITCH(fn) \
  switch(c.k % 4) \
  { \
  case 0: fn<double, std::uint64_t>(c); break; \
  case 1: fn<float, std::uint64_t>(c); break; \
  case 2: fn<double, std::uint32_t>(c); break; \
  default: fn<float, std::uint32_t>(c); break; \
  }

VH_FAMILY(sv) { C04_TYPE_SWITCH(sv_case) }
VH_FAMILY(svb) { C04_TYPE_SWITCH(svb_case) }
