// C04 -- range views of DenseVectorBlocked<1..4>: DenseVectorBlocked(dvb, size, offset) as target / operand of every
// judged operation incl. the per-component *_blocked variants
#include "c04_view.hpp"
using namespace c04v;
namespace
{
  template<typename DT, typename IT, int BS>
  void blocked_view_ops(vh::Ctx& c, Index nb)
  {
    typedef DenseVectorBlocked<DT, IT, BS> V; typedef typename V::ValueType VT;
    const Index n = nb * Index(BS); const std::vector<Index> shape{n};
    auto mk = [&](const std::vector<double>& v, bool view) { return hmake<V>(c.rng, v, shape, view ? 1.0 : 0.0); };
    auto style = [&]() { return int(c.rng.below(4)); };
    const std::string pre = "view.dvb";
    // axpy_blocked / scale_blocked
    for(int which = 0; which < 2; ++which)
    {
      const int al3 = int(c.rng.below(3)); // 0 distinct, 1 same object, 2 same range
      static const char* an[] = {"alias:none", "alias:r==x/same-object", "alias:r==x/same-range"};
      const int ro = al3 == 0 ? 1 + int(c.rng.below(3)) : 1;
      VT a; std::vector<LD> al(BS);
      for(int j = 0; j < BS; ++j) { Scalar s = gen_scalar<DT>(c.rng); a[j] = DT(s.v); al[j] = (LD)a[j]; }
      std::vector<double> rv = gen_vals(c.rng, n, style()), xv = al3 ? rv : gen_vals(c.rng, n, style());
      OpTags ot(c, {an[al3], ro == 1 ? "views:r" : ro == 2 ? "views:x" : "views:rx"});
      const std::string op = pre + (which == 0 ? ".axpy_blocked" : ".scale_blocked");
      Held<V> r = mk(rv, (ro & 1) != 0);
      c.set_op(op);
      auto call = [&](V& t, const V& x) { if(which == 0) t.axpy_blocked(x, a); else t.scale_blocked(x, a); };
      if(al3 == 1) call(r.v, r.v);
      else if(al3 == 2) { V x; valias(r.v, x); call(r.v, x); }
      else { Held<V> x = mk(xv, (ro & 2) != 0); const std::uint64_t hx = flat(x.v).h; call(r.v, x.v); check_pure(c, op, x.v, hx, "x"); check_guard(c, op, x, "x", true); }
      c.event();
      check_guard(c, op, r, "target");
      std::vector<LD> ref(n), S(n);
      for(Index i = 0; i < n; ++i)
      {
        const LD t = al[i % BS] * (LD)xv[i];
        if(which == 0) { ref[i] = (LD)rv[i] + t; S[i] = std::fabs((LD)rv[i]) + std::fabs(t); } else { ref[i] = t; S[i] = std::fabs(t); }
      }
      check_vec<DT>(c, op, flat(r.v), shape, ref, S, 2);
    }
    // dot_blocked / triple_dot_blocked / norm2_blocked / norm2sqr_blocked
    {
      const int pat = int(c.rng.below(5));
      static const char* pn[] = {"alias:none", "alias:this==x", "alias:this==y", "alias:x==y", "alias:this==x==y"};
      std::vector<double> av = gen_vals(c.rng, n, style()), xv = gen_vals(c.rng, n, style()), yv = gen_vals(c.rng, n, style());
      if(pat == 1 || pat == 4) xv = av; if(pat == 2 || pat == 4) yv = av; if(pat == 3) yv = xv;
      const bool aview = c.rng.coin(0.7), oview = !aview || c.rng.coin(0.5);
      const Held<V> a = mk(av, aview); const std::uint64_t ha = flat(a.v).h;
      const std::string rt = std::string("views:") + (aview ? "r" : "") + (oview ? "x" : "");
      auto cmp = [&](const std::string& op, const VT& got, const std::vector<LD>& ref, const std::vector<LD>& S, std::size_t len)
      {
        c.event();
        for(int j = 0; j < BS; ++j)
        {
          LD ex = 0;
          if(!vl::close_enough<DT>((LD)got[j], ref[j], S[j], len, &ex))
            c.viol(op, "wrong-value", vh::J().kv("block_component", j).kv("got", (LD)got[j]).kv("expected", ref[j]).kv("error_over_bound", ex).str());
        }
      };
      {
        OpTags ot(c, {pn[pat], rt});
        c.set_op(pre + ".triple_dot_blocked");
        VT got;
        switch(pat)
        {
        case 0: { const Held<V> x = mk(xv, oview), y = mk(yv, oview); got = a.v.triple_dot_blocked(x.v, y.v); check_guard(c, pre + ".triple_dot_blocked", x, "x", true); break; }
        case 1: { const Held<V> y = mk(yv, oview); got = a.v.triple_dot_blocked(a.v, y.v); break; }
        case 2: { const Held<V> x = mk(xv, oview); got = a.v.triple_dot_blocked(x.v, a.v); break; }
        case 3: { const Held<V> x = mk(xv, oview); got = a.v.triple_dot_blocked(x.v, x.v); break; }
        default: got = a.v.triple_dot_blocked(a.v, a.v); break;
        }
        std::vector<LD> ref(BS, 0.0L), S(BS, 0.0L);
        for(Index i = 0; i < n; ++i) { LD t = (LD)av[i] * (LD)xv[i] * (LD)yv[i]; ref[i % BS] += t; S[i % BS] += std::fabs(t); }
        cmp(pre + ".triple_dot_blocked", got, ref, S, std::size_t(nb) + 2);
      }
      {
        const bool al = (pat == 1 || pat == 4);
        OpTags ot(c, {al ? "alias:x==y" : "alias:none", rt});
        c.set_op(pre + ".dot_blocked");
        VT got;
        if(al) got = a.v.dot_blocked(a.v); else { const Held<V> x = mk(xv, oview); got = a.v.dot_blocked(x.v); }
        std::vector<LD> ref(BS, 0.0L), S(BS, 0.0L);
        for(Index i = 0; i < n; ++i) { LD t = (LD)av[i] * (LD)xv[i]; ref[i % BS] += t; S[i % BS] += std::fabs(t); }
        cmp(pre + ".dot_blocked", got, ref, S, std::size_t(nb));
      }
      {
        OpTags ot(c, {aview ? "views:r" : "views:none"});
        std::vector<LD> s2(BS, 0.0L), nr(BS);
        for(Index i = 0; i < n; ++i) s2[i % BS] += (LD)av[i] * (LD)av[i];
        for(int j = 0; j < BS; ++j) nr[j] = std::sqrt(s2[j]);
        c.set_op(pre + ".norm2_blocked"); cmp(pre + ".norm2_blocked", a.v.norm2_blocked(), nr, nr, std::size_t(nb) + 2);
        c.set_op(pre + ".norm2sqr_blocked"); cmp(pre + ".norm2sqr_blocked", a.v.norm2sqr_blocked(), s2, s2, std::size_t(nb) + 2);
      }
      check_pure(c, pre + ".dot_blocked", a.v, ha, "this"); check_guard(c, pre + ".dot_blocked", a, "this", true);
    }
    // min / max per block component
    if(nb > 0)
    {
      std::vector<double> av = gen_vals(c.rng, n, style());
      if(c.rng.coin(0.2)) for(auto& x : av) x = -std::fabs(x);
      if(c.rng.coin(0.3)) { const Index p = c.rng.coin() ? 0 : n - 1; av[p] = double(float((c.rng.coin() ? 1.0 : -1.0) * 1.0e3)); }
      OpTags ot(c, {"views:r"});
      const Held<V> a = mk(av, true); const std::uint64_t ha = flat(a.v).h;
      std::vector<LD> mx(BS), mn(BS), mxa(BS), mna(BS);
      for(int j = 0; j < BS; ++j) { mx[j] = mn[j] = av[j]; mxa[j] = mna[j] = std::fabs(av[j]); }
      for(Index i = 0; i < n; ++i) { const int j = int(i % BS); mx[j] = std::max<LD>(mx[j], av[i]); mn[j] = std::min<LD>(mn[j], av[i]);
        mxa[j] = std::max<LD>(mxa[j], std::fabs(av[i])); mna[j] = std::min<LD>(mna[j], std::fabs(av[i])); }
      auto exact = [&](const std::string& op, const VT& got, const std::vector<LD>& ref)
      { c.event(); for(int j = 0; j < BS; ++j) if(!((LD)got[j] == ref[j])) c.viol(op, "wrong-value", vh::J().kv("block_component", j).kv("got", (LD)got[j]).kv("expected", ref[j]).raw("values", vh::jarr(av, 24)).str()); };
      c.set_op(pre + ".max_abs_element_blocked"); exact(pre + ".max_abs_element_blocked", a.v.max_abs_element_blocked(), mxa);
      c.set_op(pre + ".min_abs_element_blocked"); exact(pre + ".min_abs_element_blocked", a.v.min_abs_element_blocked(), mna);
      c.set_op(pre + ".max_element_blocked"); exact(pre + ".max_element_blocked", a.v.max_element_blocked(), mx);
      c.set_op(pre + ".min_element_blocked"); exact(pre + ".min_element_blocked", a.v.min_element_blocked(), mn);
      check_pure(c, pre + ".max_element_blocked", a.v, ha, "this"); check_guard(c, pre + ".max_element_blocked", a, "this", true);
    }
  }

  template<typename DT, typename IT, int BS>
  void view_dvb_bs(vh::Ctx& c)
  {
    // lengths are block counts; a range view has at least one block (the DenseVector range constructor XASSERTs
    // size_in > 0; the same contract is assumed for DenseVectorBlocked)
    static const Index L[] = {1, 2, 3, 4, 5, 7, 8, 9, 15, 16, 17, 31, 33, 100, 1000};
    const std::size_t e = std::size_t(c.k / 16);
    const Index nb = e < sizeof(L) / sizeof(L[0]) ? L[e] : gen_len(c.rng, false, true);
    c.tag(std::string("dt:") + vl::dt_name<DT>()); c.tag(std::string("it:") + vl::it_name<IT>()); c.tag(len_bucket(nb));
    c.tag("bs:" + std::to_string(BS)); c.tag("range_view");
    c.desc = vh::J().kv("kind", "DenseVectorBlocked range view").kv("blocks", (unsigned long)nb).kv("block_size", BS).str();
    view_ops<DT, DenseVectorBlocked<DT, IT, BS>>(c, "view.dvb", {nb * Index(BS)}, true, 1.0);
    blocked_view_ops<DT, IT, BS>(c, nb);
    end_case(c, "view_dvb");
  }
  template<typename DT, typename IT>
  void view_dvb_case(vh::Ctx& c)
  {
    switch((c.k / 4) % 4)
    {
    case 0: view_dvb_bs<DT, IT, 1>(c); break;
    case 1: view_dvb_bs<DT, IT, 2>(c); break;
    case 2: view_dvb_bs<DT, IT, 3>(c); break;
    default: view_dvb_bs<DT, IT, 4>(c); break;
    }
  }
}
VH_FAMILY(view_dvb) { C04V_TYPE_SWITCH(view_dvb_case) }
