// C04 -- PowerVector compositions (depth <= 2)
#include "c04_meta.hpp"
using namespace c04;
namespace
{
  template<typename DT, typename IT>
  void power_case(vh::Ctx& c)
  {
    typedef DenseVector<DT, IT> DV;
    const std::size_t e = std::size_t(c.k / 20);
    switch((c.k / 4) % 5)
    {
    case 0: composed_case<DT, IT, PowerVector<DV, 1>>(c, "power", "power", "Power1-DV", e); break;
    case 1: composed_case<DT, IT, PowerVector<DV, 3>>(c, "power", "power", "Power3-DV", e); break;
    case 2: composed_case<DT, IT, PowerVector<DenseVectorBlocked<DT, IT, 2>, 2>>(c, "power", "power", "Power2-DVB2", e); break;
    case 3: composed_case<DT, IT, PowerVector<PowerVector<DV, 2>, 2>>(c, "power", "power", "Power2-Power2DV", e); break;
    default: composed_case<DT, IT, PowerVector<TupleVector<DV, DenseVectorBlocked<DT, IT, 4>>, 2>>(c, "power", "power", "Power2-TupleDV-DVB4", e); break;
    }
  }
}
VH_FAMILY(power) { C04_TYPE_SWITCH(power_case) }
