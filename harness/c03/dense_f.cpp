// explicit instantiations of the dense case for DT=float
#include "dense.hpp"
namespace c03
{
  template void dense_case<float, std::uint64_t>(vh::Ctx&, long);
  template void dense_case<float, std::uint32_t>(vh::Ctx&, long);
}
