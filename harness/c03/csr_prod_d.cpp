// explicit instantiations of the csr_prod case for DT=double
#include "csr_prod.hpp"
namespace c03
{
  template void csr_prod_case<double, std::uint64_t>(vh::Ctx&, long);
  template void csr_prod_case<double, std::uint32_t>(vh::Ctx&, long);
}
