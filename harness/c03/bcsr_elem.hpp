// bcsr_elem.hpp -- C03 family bcsr_elem: element-wise / reduction algebra of SparseMatrixBCSR against dense definitions
// evaluated on the scalar (pod) image.  Included by the instantiating TUs only.
#pragma once
#include "c03.hpp"

namespace c03
{
  template<typename DT, typename IT, int BH, int BW>
  void bcsr_elem_case(vh::Ctx& c, long edge)
  {
    typedef SparseMatrixBCSR<DT, IT, BH, BW> Mat;
    typedef typename Mat::VectorTypeL VecL;
    typedef typename Mat::VectorTypeR VecR;
    vh::Rng& rng = c.rng;
    vl::GenOpt o; o.max_dim = c.thorough() ? (rng.coin(0.9) ? 30 : 120) : 30;
    o.square = edge < 0 && rng.coin(0.4);
    MatSpec bm = edge >= 0 ? vl::edge_matrix(std::size_t(edge)) : vl::gen_matrix(rng, o);
    if(edge < 0 && bm.t.empty() && rng.coin(0.7)) { o.allow_entry_free = false; bm = vl::gen_matrix(rng, o); }
    BSpec bs = gen_bspec(rng, bm, BH, BW);
    MatSpec m = bs.scalar();
    for(auto& t : bm.tags) if(t != "stored_zero") c.tag(t);   // block-level structure tags (entry_free, empty_row, square, ...)
    c.tag("bs:" + std::to_string(BH) + "x" + std::to_string(BW));
    c.tag(std::string("dt:") + vl::dt_name<DT>()); c.tag(std::string("it:") + vl::it_name<IT>());
    c.tag("vstyle:" + std::to_string(bm.vstyle));
    c.desc = vh::J().kv("block_rows", (unsigned long)bm.rows).kv("block_cols", (unsigned long)bm.cols).kv("bh", BH).kv("bw", BW)
      .raw("block_pattern", bm.describe(30)).raw("pod_values", vh::jarr(bs.pod, 48)).str();
    const bool risky = bm.t.empty();
    const Index R = bm.rows, C = bm.cols, NB = bm.nnz(), SR = m.rows, SC = m.cols;
    const std::size_t NP = bs.pod.size();
    const bool square = R == C;
    int budget = 6;

    c.set_op("bcsr.build");
    Mat a = make_bcsr<DT, IT, BH, BW>(bs);
    c.event();
    if(a.rows() != R || a.columns() != C || a.used_elements() != NB) { c.viol("bcsr.build", "dims", "{}"); return; }

    auto run = [&](const char* op, const std::function<void()>& fn) -> bool
    {
      c.set_op(op);
      if(risky && !probe(c, op, fn)) return false;
      fn(); c.event();
      return true;
    };
    auto values = [&](const Mat& x) { std::vector<LD> v(NP); const DT* p = x.template val<Perspective::pod>(); for(std::size_t i = 0; i < NP; ++i) v[i] = (LD)p[i]; return v; };
    const std::uint64_t lay0 = index_hash(a);
    auto layout_ok = [&](const char* op, const Mat& x)
    {
      c.event();
      if(x.rows() != R || x.columns() != C || x.used_elements() != NB) { c.viol(op, "dims", "{}"); return false; }
      if(index_hash(x) != lay0) { c.viol(op, "pattern-changed", "{}"); return false; }
      return true;
    };
    auto rc = [&](std::size_t p, Index& i, Index& j) { bs.pos(p, i, j); };

    // ---------------------------------------------------------------- axpy / scale
    {
      BSpec ys = gen_bspec(rng, bm, BH, BW);
      Mat y = make_bcsr<DT, IT, BH, BW>(ys);
      const double alpha = pick_alpha(rng);
      Purity pu(c, "bcsr.axpy"); pu.add("x", a); pu.add_layout("this", y);
      if(run("bcsr.axpy", [&] { y.axpy(a, DT(alpha)); }) && layout_ok("bcsr.axpy", y))
      {
        pu.check();
        auto g = values(y);
        for(std::size_t p = 0; p < NP; ++p) { Index i, j; rc(p, i, j);
          cmp<DT>(c, "bcsr.axpy", "entry", g[p], (LD)ys.pod[p] + (LD)alpha * (LD)bs.pod[p], std::fabs((LD)ys.pod[p]) + std::fabs((LD)alpha * (LD)bs.pod[p]), 2, i, j, budget); }
      }
    }
    {
      BSpec ys = gen_bspec(rng, bm, BH, BW);
      Mat y = make_bcsr<DT, IT, BH, BW>(ys);
      const double alpha = pick_alpha(rng);
      const bool alias = rng.coin(0.3);
      const BSpec& src = alias ? ys : bs;
      Purity pu(c, "bcsr.scale"); if(!alias) pu.add("x", a); pu.add_layout("this", y);
      if(run("bcsr.scale", [&] { if(alias) y.scale(y, DT(alpha)); else y.scale(a, DT(alpha)); }) && layout_ok("bcsr.scale", y))
      {
        pu.check();
        auto g = values(y);
        for(std::size_t p = 0; p < NP; ++p) { Index i, j; rc(p, i, j);
          cmp<DT>(c, "bcsr.scale", alias ? "entry(alias)" : "entry", g[p], (LD)alpha * (LD)src.pod[p], std::fabs((LD)alpha * (LD)src.pod[p]), 1, i, j, budget); }
      }
    }
    // ---------------------------------------------------------------- scale_rows / scale_cols
    {
      BSpec ys = gen_bspec(rng, bm, BH, BW);
      Mat y = make_bcsr<DT, IT, BH, BW>(ys);
      std::vector<double> sv = vl::gen_vec(rng, SR, int(rng.below(4)));
      DenseVectorBlocked<DT, IT, BH> s(R); fill_pod(s, sv);
      const bool alias = rng.coin(0.3);
      const BSpec& src = alias ? ys : bs;
      Purity pu(c, "bcsr.scale_rows"); if(!alias) pu.add("x", a); pu.add("s", s); pu.add_layout("this", y);
      if(run("bcsr.scale_rows", [&] { if(alias) y.scale_rows(y, s); else y.scale_rows(a, s); }) && layout_ok("bcsr.scale_rows", y))
      {
        pu.check();
        auto g = values(y);
        for(std::size_t p = 0; p < NP; ++p) { Index i, j; rc(p, i, j);
          cmp<DT>(c, "bcsr.scale_rows", alias ? "entry(alias)" : "entry", g[p], (LD)sv[i] * (LD)src.pod[p], std::fabs((LD)sv[i] * (LD)src.pod[p]), 1, i, j, budget); }
      }
    }
    {
      BSpec ys = gen_bspec(rng, bm, BH, BW);
      Mat y = make_bcsr<DT, IT, BH, BW>(ys);
      std::vector<double> sv = vl::gen_vec(rng, SC, int(rng.below(4)));
      DenseVectorBlocked<DT, IT, BW> s(C); fill_pod(s, sv);
      const bool alias = rng.coin(0.3);
      const BSpec& src = alias ? ys : bs;
      Purity pu(c, "bcsr.scale_cols"); if(!alias) pu.add("x", a); pu.add("s", s); pu.add_layout("this", y);
      if(run("bcsr.scale_cols", [&] { if(alias) y.scale_cols(y, s); else y.scale_cols(a, s); }) && layout_ok("bcsr.scale_cols", y))
      {
        pu.check();
        auto g = values(y);
        for(std::size_t p = 0; p < NP; ++p) { Index i, j; rc(p, i, j);
          cmp<DT>(c, "bcsr.scale_cols", alias ? "entry(alias)" : "entry", g[p], (LD)sv[j] * (LD)src.pod[p], std::fabs((LD)sv[j] * (LD)src.pod[p]), 1, i, j, budget); }
      }
    }
    // ---------------------------------------------------------------- norms
    {
      Purity pu(c, "bcsr.norm_frobenius"); pu.add("this", a);
      DT got = DT(0);
      if(run("bcsr.norm_frobenius", [&] { got = a.norm_frobenius(); }))
      {
        pu.check();
        LD s2 = 0; for(double v : bs.pod) s2 += (LD)v * (LD)v;
        cmp<DT>(c, "bcsr.norm_frobenius", "norm", got, std::sqrt(s2), std::sqrt(s2), NP, 0, 0, budget);
      }
    }
    {
      std::vector<LD> r2(SR, 0.0L);
      for(auto& e : m.t) r2[e.r] += (LD)e.v * (LD)e.v;
      const std::size_t len = vl::max_row_len(m, false);
      {
        VecL rn(R); { std::vector<double> junk(SR, 777.0); fill_pod(rn, junk); }
        Purity pu(c, "bcsr.row_norm2"); pu.add("this", a);
        if(run("bcsr.row_norm2", [&] { a.row_norm2(rn); }))
        {
          pu.check();
          const DT* g = pod(rn);
          for(Index i = 0; i < SR; ++i) cmp<DT>(c, "bcsr.row_norm2", "row", g[i], std::sqrt(r2[i]), std::sqrt(r2[i]), len, i, 0, budget);
        }
      }
      {
        VecL rn(R); { std::vector<double> junk(SR, 777.0); fill_pod(rn, junk); }
        Purity pu(c, "bcsr.row_norm2sqr"); pu.add("this", a);
        if(run("bcsr.row_norm2sqr", [&] { a.row_norm2sqr(rn); }))
        {
          pu.check();
          const DT* g = pod(rn);
          for(Index i = 0; i < SR; ++i) cmp<DT>(c, "bcsr.row_norm2sqr", "row", g[i], r2[i], r2[i], len, i, 0, budget);
        }
      }
      {
        std::vector<double> sv = vl::gen_vec(rng, SC, int(rng.below(4)));
        VecR s(C); fill_pod(s, sv);
        VecL rn(R); { std::vector<double> junk(SR, 777.0); fill_pod(rn, junk); }
        std::vector<LD> ref(SR, 0.0L), S(SR, 0.0L);
        for(auto& e : m.t) { LD t = (LD)sv[e.c] * (LD)e.v * (LD)e.v; ref[e.r] += t; S[e.r] += std::fabs(t); }
        Purity pu(c, "bcsr.row_norm2sqr_scaled"); pu.add("this", a); pu.add("scal", s);
        if(run("bcsr.row_norm2sqr_scaled", [&] { a.row_norm2sqr(rn, s); }))
        {
          pu.check();
          const DT* g = pod(rn);
          for(Index i = 0; i < SR; ++i) cmp<DT>(c, "bcsr.row_norm2sqr_scaled", "row", g[i], ref[i], S[i], len, i, 0, budget);
        }
      }
    }
    // ---------------------------------------------------------------- max / min elements (contract: at least one stored entry)
    if(NP > 0)
    {
      LD mx = (LD)bs.pod[0], mn = mx, mxa = std::fabs(mx), mna = mxa;
      for(double w : bs.pod) { LD v = (LD)w; mx = std::max(mx, v); mn = std::min(mn, v); mxa = std::max(mxa, std::fabs(v)); mna = std::min(mna, std::fabs(v)); }
      Purity pu(c, "bcsr.minmax"); pu.add("this", a);
      DT g = DT(0);
      c.set_op("bcsr.max_abs_element"); g = a.max_abs_element(); cmp_exact<DT>(c, "bcsr.max_abs_element", "value", g, mxa, 0, 0, budget);
      c.set_op("bcsr.min_abs_element"); g = a.min_abs_element(); cmp_exact<DT>(c, "bcsr.min_abs_element", "value", g, mna, 0, 0, budget);
      c.set_op("bcsr.max_element"); g = a.max_element(); cmp_exact<DT>(c, "bcsr.max_element", "value", g, mx, 0, 0, budget);
      c.set_op("bcsr.min_element"); g = a.min_element(); cmp_exact<DT>(c, "bcsr.min_element", "value", g, mn, 0, 0, budget);
      pu.check();
    }
    // ---------------------------------------------------------------- lump_rows
    {
      std::vector<LD> ref(SR, 0.0L), S(SR, 0.0L);
      for(auto& e : m.t) { ref[e.r] += (LD)e.v; S[e.r] += std::fabs((LD)e.v); }
      const std::size_t len = vl::max_row_len(m, false);
      VecL l1(R), l2; { std::vector<double> junk(SR, 777.0); fill_pod(l1, junk); }
      Purity pu(c, "bcsr.lump_rows"); pu.add("this", a);
      if(run("bcsr.lump_rows", [&] { a.lump_rows(l1); l2 = a.lump_rows(); }))
      {
        pu.check();
        c.event();
        if(l2.size() != R) c.viol("bcsr.lump_rows", "dims", "{}");
        else
        {
          const DT* g1 = pod(l1); const DT* g2 = pod(l2);
          for(Index i = 0; i < SR; ++i)
          {
            cmp<DT>(c, "bcsr.lump_rows", "row", g1[i], ref[i], S[i], len, i, 0, budget);
            cmp<DT>(c, "bcsr.lump_rows", "row(returning overload)", g2[i], ref[i], S[i], len, i, 0, budget);
          }
        }
      }
    }
    // ---------------------------------------------------------------- extract_diag: square block matrix of square blocks
    if constexpr(BH == BW)
    {
      if(square)
      {
        std::vector<LD> dref(SR, 0.0L); std::vector<Index> iref(R, NB);
        for(Index p = 0; p < NB; ++p) if(bm.t[p].r == bm.t[p].c)
        {
          iref[bm.t[p].r] = p;
          for(int q = 0; q < BH; ++q) dref[bm.t[p].r * Index(BH) + Index(q)] = (LD)DT(bs.pod[std::size_t(p) * std::size_t(BH * BW) + std::size_t(q * BW + q)]);
        }
        DenseVector<IT, IT> di(R, IT(12345)), di2;
        Purity pu(c, "bcsr.extract_diag"); pu.add("this", a);
        if(run("bcsr.extract_diag_indices", [&] { a.extract_diag_indices(di); di2 = a.extract_diag_indices(); }))
        {
          c.event();
          if(di2.size() != R) c.viol("bcsr.extract_diag_indices", "dims", "{}");
          else for(Index i = 0; i < R; ++i)
          {
            cmp_exact<DT>(c, "bcsr.extract_diag_indices", "index", (LD)di.elements()[i], (LD)iref[i], i, i, budget);
            cmp_exact<DT>(c, "bcsr.extract_diag_indices", "index(returning overload)", (LD)di2.elements()[i], (LD)iref[i], i, i, budget);
          }
        }
        VecL d1(R), d2(R), d3; { std::vector<double> junk(SR, 777.0); fill_pod(d1, junk); fill_pod(d2, junk); }
        DenseVector<IT, IT> myi(R); for(Index i = 0; i < R; ++i) myi(i, IT(iref[i]));
        if(run("bcsr.extract_diag", [&] { a.extract_diag(d1, myi); a.extract_diag(d2); d3 = a.extract_diag(); }))
        {
          pu.check();
          c.event();
          if(d3.size() != R) c.viol("bcsr.extract_diag", "dims", "{}");
          else
          {
            const DT* g1 = pod(d1); const DT* g2 = pod(d2); const DT* g3 = pod(d3);
            for(Index i = 0; i < SR; ++i)
            {
              cmp_exact<DT>(c, "bcsr.extract_diag", "diag(given indices)", g1[i], dref[i], i, i, budget);
              cmp_exact<DT>(c, "bcsr.extract_diag", "diag", g2[i], dref[i], i, i, budget);
              cmp_exact<DT>(c, "bcsr.extract_diag", "diag(returning overload)", g3[i], dref[i], i, i, budget);
            }
          }
        }
      }
    }
  }

  // dispatch over the block sizes for one (DT, IT)
  template<typename DT, typename IT>
  void bcsr_elem_dispatch(vh::Ctx& c, long edge, int bsel)
  {
    switch(bsel)
    {
    case 0: bcsr_elem_case<DT, IT, 2, 2>(c, edge); break;
    case 1: bcsr_elem_case<DT, IT, 3, 3>(c, edge); break;
    case 2: bcsr_elem_case<DT, IT, 2, 3>(c, edge); break;
    case 3: bcsr_elem_case<DT, IT, 3, 2>(c, edge); break;
    case 4: bcsr_elem_case<DT, IT, 1, 3>(c, edge); break;
    default: bcsr_elem_case<DT, IT, 3, 1>(c, edge); break;
    }
  }
} // namespace c03
