// dense.hpp -- C03 family dense: DenseMatrix multiply (4 overloads) / invert / inverse / transpose / transpose_inplace /
// scale / axpy / norm_frobenius against dense long-double definitions.  Included by the instantiating TUs only.
#pragma once
#include "csr_prod.hpp"

namespace c03
{
  struct DSpec
  {
    Index rows = 0, cols = 0; std::vector<double> v;   // row-major
    double& at(Index i, Index j) { return v[std::size_t(i) * cols + j]; }
    double at(Index i, Index j) const { return v[std::size_t(i) * cols + j]; }
  };
  inline DSpec gen_dense(vh::Rng& r, Index rows, Index cols, int vstyle)
  {
    DSpec d; d.rows = rows; d.cols = cols; d.v.resize(std::size_t(rows) * cols);
    for(auto& x : d.v) x = vl::gen_value(r, vstyle);
    return d;
  }
  template<typename DT, typename IT> DenseMatrix<DT, IT> make_dm(const DSpec& d)
  {
    DenseMatrix<DT, IT> a(d.rows, d.cols);
    DT* e = a.elements();
    for(std::size_t i = 0; i < d.v.size(); ++i) e[i] = DT(d.v[i]);
    return a;
  }
  inline Index dense_dim(vh::Ctx& c)
  {
    static const Index small[] = {1, 1, 2, 2, 3, 3, 4, 5, 7, 8, 9, 16, 17};
    vh::Rng& r = c.rng;
    if(r.coin(0.6)) return small[r.below(sizeof(small) / sizeof(small[0]))];
    Index mx = 24;
    if(c.thorough()) { double u = r.unit(); mx = u < 0.9 ? 24 : 64; }
    return Index(r.range(1, long(mx)));
  }

  template<typename DT, typename IT>
  void dense_case(vh::Ctx& c, long edge)
  {
    typedef DenseMatrix<DT, IT> DM;
    typedef SparseMatrixCSR<DT, IT> SM;
    vh::Rng& rng = c.rng;
    const int vstyle = int(rng.below(4));
    Index M = dense_dim(c), K = dense_dim(c), N = dense_dim(c);
    if(edge >= 0) { static const Index dims[][3] = {{1, 1, 1}, {1, 5, 1}, {4, 1, 3}, {2, 3, 4}, {5, 5, 5}, {1, 1, 6}}; M = dims[edge % 6][0]; K = dims[edge % 6][1]; N = dims[edge % 6][2]; c.tag("edge_corpus"); }
    c.tag(std::string("dt:") + vl::dt_name<DT>()); c.tag(std::string("it:") + vl::it_name<IT>());
    c.tag("vstyle:" + std::to_string(vstyle));
    if(M == 1) c.tag("m==1"); if(K == 1) c.tag("k==1"); if(N == 1) c.tag("n==1");
    c.tag(M == N ? "square" : (M < N ? "wide" : "tall"));
    int budget = 6;
    DSpec X = gen_dense(rng, M, K, vstyle), Y = gen_dense(rng, K, N, vstyle), Z = gen_dense(rng, M, N, vstyle), R0 = gen_dense(rng, M, N, vstyle);
    MatSpec XS = gen_operand(rng, M, K, vstyle, rng.coin(0.2));
    for(auto& t : XS.tags) if(t == "entry_free" || t == "empty_row") c.tag(t == "entry_free" ? t : "xs:" + t);
    const double alpha = pick_alpha(rng), beta = pick_alpha(rng);
    c.desc = vh::J().kv("m", (unsigned long)M).kv("k", (unsigned long)K).kv("n", (unsigned long)N).kv("alpha", alpha).kv("beta", beta)
      .raw("X", vh::jarr(X.v, 40)).raw("Y", vh::jarr(Y.v, 40)).raw("Z", vh::jarr(Z.v, 40)).raw("XS", XS.describe(30)).str();

    auto check_mat = [&](const char* op, const char* what, const DM& r, Index rows, Index cols, const std::vector<LD>& ref, const std::vector<LD>& S, std::size_t len)
    {
      c.event();
      if(r.rows() != rows || r.columns() != cols) { c.viol(op, "dims", vh::J().kv("rows", (unsigned long)r.rows()).kv("cols", (unsigned long)r.columns()).str()); return; }
      const DT* e = r.elements();
      for(Index i = 0; i < rows; ++i) for(Index j = 0; j < cols; ++j)
        cmp<DT>(c, op, what, e[std::size_t(i) * cols + j], ref[std::size_t(i) * cols + j], S[std::size_t(i) * cols + j], len, i, j, budget);
    };
    // alpha * X*Y + beta * Z0 ; dense X or sparse XS
    auto ref_mul = [&](bool sparse, LD al, LD be, const DSpec& Z0, std::vector<LD>& ref, std::vector<LD>& S)
    {
      ref.assign(std::size_t(M) * N, 0.0L); S.assign(std::size_t(M) * N, 0.0L);
      if(sparse) { for(auto& e : XS.t) for(Index j = 0; j < N; ++j) { LD t = al * (LD)e.v * (LD)Y.at(e.c, j); ref[std::size_t(e.r) * N + j] += t; S[std::size_t(e.r) * N + j] += std::fabs(t); } }
      else for(Index i = 0; i < M; ++i) for(Index k = 0; k < K; ++k) for(Index j = 0; j < N; ++j) { LD t = al * (LD)X.at(i, k) * (LD)Y.at(k, j); ref[std::size_t(i) * N + j] += t; S[std::size_t(i) * N + j] += std::fabs(t); }
      for(std::size_t q = 0; q < ref.size(); ++q) { LD t = be * (LD)Z0.v[q]; ref[q] += t; S[q] += std::fabs(t); }
    };
    std::vector<LD> ref, S;
    DSpec zero; zero.rows = M; zero.cols = N; zero.v.assign(std::size_t(M) * N, 0.0);

    DM x = make_dm<DT, IT>(X), y = make_dm<DT, IT>(Y), z = make_dm<DT, IT>(Z);
    SM xs = vl::make_csr<DT, IT>(XS);
    const bool risky = XS.t.empty();
    // ---------------------------------------------------------------- this <- x*y
    {
      DM r = make_dm<DT, IT>(R0);
      Purity pu(c, "dense.multiply"); pu.add("x", x); pu.add("y", y);
      c.set_op("dense.multiply"); r.multiply(x, y); c.event(); pu.check();
      ref_mul(false, 1.0L, 0.0L, zero, ref, S);
      check_mat("dense.multiply", "x*y", r, M, N, ref, S, K + 2);
    }
    // ---------------------------------------------------------------- this <- alpha*x*y + beta*z
    {
      DM r = make_dm<DT, IT>(R0);
      Purity pu(c, "dense.multiply_axyz"); pu.add("x", x); pu.add("y", y); pu.add("z", z);
      c.set_op("dense.multiply_axyz"); r.multiply(x, y, z, DT(alpha), DT(beta)); c.event(); pu.check();
      ref_mul(false, (LD)alpha, (LD)beta, Z, ref, S);
      check_mat("dense.multiply_axyz", "alpha*x*y+beta*z", r, M, N, ref, S, K + 3);
    }
    // ---------------------------------------------------------------- sparse * dense (both overloads)
    {
      DM r = make_dm<DT, IT>(R0);
      Purity pu(c, "dense.multiply_csr"); pu.add("x", xs); pu.add("y", y);
      c.set_op("dense.multiply_csr");
      auto call = [&] { r.multiply(xs, y); };
      if(!risky || probe(c, "dense.multiply_csr", call))
      {
        call(); c.event(); pu.check();
        ref_mul(true, 1.0L, 0.0L, zero, ref, S);
        check_mat("dense.multiply_csr", "xs*y", r, M, N, ref, S, K + 2);
      }
    }
    {
      DM r = make_dm<DT, IT>(R0);
      Purity pu(c, "dense.multiply_csr_ab"); pu.add("x", xs); pu.add("y", y);
      c.set_op("dense.multiply_csr_ab");
      auto call = [&] { r.multiply(xs, y, DT(alpha), DT(beta)); };
      if(!risky || probe(c, "dense.multiply_csr_ab", call))
      {
        call(); c.event(); pu.check();
        ref_mul(true, (LD)alpha, (LD)beta, R0, ref, S);
        check_mat("dense.multiply_csr_ab", "alpha*xs*y+beta*this", r, M, N, ref, S, K + 3);
      }
    }
    // ---------------------------------------------------------------- transpose(x), transpose(), transpose_inplace (exact)
    {
      std::vector<LD> tr(std::size_t(M) * K), none(std::size_t(M) * K, 0.0L);
      for(Index i = 0; i < M; ++i) for(Index k = 0; k < K; ++k) tr[std::size_t(k) * M + i] = (LD)DT(X.at(i, k));
      Purity pu(c, "dense.transpose"); pu.add("x", x);
      DM t1(K, M, DT(777)), t2(rng.coin(0.5) ? M : K, rng.coin(0.5) ? M : K, DT(777)), t3;   // fitting target, arbitrary target, empty target
      c.set_op("dense.transpose"); t1.transpose(x); t2.transpose(x); t3 = x.transpose(); c.event(3); pu.check();
      check_mat("dense.transpose", "x^T (fitting target)", t1, K, M, tr, none, 0);
      check_mat("dense.transpose", "x^T (resized target)", t2, K, M, tr, none, 0);
      check_mat("dense.transpose", "x^T (returning overload)", t3, K, M, tr, none, 0);
      DM t4 = make_dm<DT, IT>(X);
      c.set_op("dense.transpose_inplace"); t4.transpose_inplace(); c.event();
      check_mat("dense.transpose_inplace", "x^T", t4, K, M, tr, none, 0);
    }
    // ---------------------------------------------------------------- scale / axpy / norm_frobenius
    {
      DM r = make_dm<DT, IT>(Z);
      Purity pu(c, "dense.scale"); pu.add("x", z);
      DM r2 = make_dm<DT, IT>(R0);
      c.set_op("dense.scale"); r2.scale(z, DT(alpha)); c.event(); pu.check();
      ref.assign(Z.v.size(), 0.0L); S.assign(Z.v.size(), 0.0L);
      for(std::size_t q = 0; q < Z.v.size(); ++q) { ref[q] = (LD)alpha * (LD)Z.v[q]; S[q] = std::fabs(ref[q]); }
      check_mat("dense.scale", "alpha*x", r2, M, N, ref, S, 1);
      c.set_op("dense.axpy"); r.axpy(r2.clone(CloneMode::Deep), DT(beta)); c.event();   // z + beta*(alpha*z) judged from the DT values of r2
      const DT* e2 = r2.elements();
      for(std::size_t q = 0; q < Z.v.size(); ++q) { ref[q] = (LD)DT(Z.v[q]) + (LD)beta * (LD)e2[q]; S[q] = std::fabs((LD)Z.v[q]) + std::fabs((LD)beta * (LD)e2[q]); }
      check_mat("dense.axpy", "this+alpha*x", r, M, N, ref, S, 2);
      c.set_op("dense.norm_frobenius"); DT nf = z.norm_frobenius(); c.event();
      LD s2 = 0; for(double w : Z.v) s2 += (LD)w * (LD)w;
      cmp<DT>(c, "dense.norm_frobenius", "norm", nf, std::sqrt(s2), std::sqrt(s2), Z.v.size(), 0, 0, budget);
    }
    // ---------------------------------------------------------------- invert / inverse: strictly diagonally dominant (well conditioned) matrices;
    // Math::invert_matrix pivots on the diagonal only, so nothing is claimed for matrices that need off-diagonal pivoting
    {
      const Index n = std::min<Index>(M, 17);
      DSpec A = gen_dense(rng, n, n, vstyle == 2 ? 1 : vstyle);
      for(Index i = 0; i < n; ++i)
      {
        double s = 0; for(Index j = 0; j < n; ++j) if(j != i) s += std::fabs(A.at(i, j));
        double dsgn = rng.coin(0.5) ? 1.0 : -1.0;
        A.at(i, i) = double(float(dsgn * (s * rng.real(1.5, 3.0) + rng.real(0.5, 2.0))));
      }
      // long double Gauss-Jordan reference with partial pivoting
      std::vector<LD> a(std::size_t(n) * n), inv(std::size_t(n) * n, 0.0L);
      for(std::size_t q = 0; q < a.size(); ++q) a[q] = (LD)A.v[q];
      for(Index i = 0; i < n; ++i) inv[std::size_t(i) * n + i] = 1.0L;
      bool ok = true;
      for(Index k = 0; k < n && ok; ++k)
      {
        Index p = k; for(Index i = k + 1; i < n; ++i) if(std::fabs(a[std::size_t(i) * n + k]) > std::fabs(a[std::size_t(p) * n + k])) p = i;
        if(a[std::size_t(p) * n + k] == 0.0L) { ok = false; break; }
        if(p != k) for(Index j = 0; j < n; ++j) { std::swap(a[std::size_t(p) * n + j], a[std::size_t(k) * n + j]); std::swap(inv[std::size_t(p) * n + j], inv[std::size_t(k) * n + j]); }
        const LD piv = a[std::size_t(k) * n + k];
        for(Index j = 0; j < n; ++j) { a[std::size_t(k) * n + j] /= piv; inv[std::size_t(k) * n + j] /= piv; }
        for(Index i = 0; i < n; ++i) if(i != k)
        {
          const LD f = a[std::size_t(i) * n + k];
          if(f != 0.0L) for(Index j = 0; j < n; ++j) { a[std::size_t(i) * n + j] -= f * a[std::size_t(k) * n + j]; inv[std::size_t(i) * n + j] -= f * inv[std::size_t(k) * n + j]; }
        }
      }
      if(ok)
      {
        LD na = 0, ni = 0;
        for(Index i = 0; i < n; ++i) { LD ra = 0, ri = 0; for(Index j = 0; j < n; ++j) { ra += std::fabs((LD)A.at(i, j)); ri += std::fabs(inv[std::size_t(i) * n + j]); } na = std::max(na, ra); ni = std::max(ni, ri); }
        const LD kappa = na * ni;
        // normwise forward error of Gauss-Jordan: <= c*n*u*kappa*|A^-1| ; S carries kappa*||A^-1||_inf
        std::vector<LD> Sv(std::size_t(n) * n, kappa * ni);
        DM m1 = make_dm<DT, IT>(A), m2 = make_dm<DT, IT>(A);
        Purity pu(c, "dense.inverse"); pu.add("this", m2);
        c.set_op("dense.invert"); m1.invert(); c.event();
        check_mat("dense.invert", "A^-1", m1, n, n, inv, Sv, n);
        c.set_op("dense.inverse"); DM m3 = m2.inverse(); c.event(); pu.check();
        check_mat("dense.inverse", "A^-1", m3, n, n, inv, Sv, n);
        c.count("inverted");
      }
    }
  }
} // namespace c03
