// C03 -- matrix algebra operations equal their dense definitions: family registry + main
#include <common/vh_lafem.hpp>
namespace c03
{
  template<typename DT, typename IT> void csr_elem_case(vh::Ctx&, long edge);
  extern template void csr_elem_case<double, std::uint64_t>(vh::Ctx&, long);
  extern template void csr_elem_case<double, std::uint32_t>(vh::Ctx&, long);
  extern template void csr_elem_case<float, std::uint64_t>(vh::Ctx&, long);
  extern template void csr_elem_case<float, std::uint32_t>(vh::Ctx&, long);
}
#define C03_DECL(fn) \
  namespace c03 { template<typename DT, typename IT> void fn(vh::Ctx&, long edge); \
  extern template void fn<double, std::uint64_t>(vh::Ctx&, long); extern template void fn<double, std::uint32_t>(vh::Ctx&, long); \
  extern template void fn<float, std::uint64_t>(vh::Ctx&, long); extern template void fn<float, std::uint32_t>(vh::Ctx&, long); }
C03_DECL(csr_prod_case)
C03_DECL(dense_case)
#define C03_DECL3(fn) \
  namespace c03 { template<typename DT, typename IT> void fn(vh::Ctx&, long edge, int bsel); \
  extern template void fn<double, std::uint64_t>(vh::Ctx&, long, int); extern template void fn<double, std::uint32_t>(vh::Ctx&, long, int); \
  extern template void fn<float, std::uint64_t>(vh::Ctx&, long, int); extern template void fn<float, std::uint32_t>(vh::Ctx&, long, int); }
C03_DECL3(bcsr_elem_dispatch)
C03_DECL3(bcsr_prod_dispatch)
namespace
{
  // the first 4*edge_corpus_size() cases run the deterministic edge corpus once per (DT,IT) combination, the rest is random
  void split(vh::Ctx& c, int& combo, long& edge, std::uint64_t nedge = vl::edge_corpus_size())
  {
    if(c.k < 4 * nedge) { combo = int(c.k / nedge); edge = long(c.k % nedge); }
    else { combo = int(c.rng.below(4)); edge = -1; }
  }
}
VH_FAMILY(csr_elem)
{
  int combo; long edge; split(c, combo, edge);
  switch(combo)
  {
  case 0: c03::csr_elem_case<double, std::uint64_t>(c, edge); break;
  case 1: c03::csr_elem_case<double, std::uint32_t>(c, edge); break;
  case 2: c03::csr_elem_case<float, std::uint64_t>(c, edge); break;
  default: c03::csr_elem_case<float, std::uint32_t>(c, edge); break;
  }
}
VH_FAMILY(csr_prod)
{
  int combo; long edge; split(c, combo, edge, 300);
  switch(combo)
  {
  case 0: c03::csr_prod_case<double, std::uint64_t>(c, edge); break;
  case 1: c03::csr_prod_case<double, std::uint32_t>(c, edge); break;
  case 2: c03::csr_prod_case<float, std::uint64_t>(c, edge); break;
  default: c03::csr_prod_case<float, std::uint32_t>(c, edge); break;
  }
}
VH_FAMILY(bcsr_elem)
{
  // edge corpus: 14 block patterns x 6 block sizes x 4 type combinations, then random
  const std::uint64_t ne = vl::edge_corpus_size();
  int combo, bsel; long edge;
  if(c.k < ne * 24) { edge = long(c.k % ne); bsel = int((c.k / ne) % 6); combo = int(c.k / (ne * 6)); }
  else { edge = -1; bsel = int(c.rng.below(6)); combo = int(c.rng.below(4)); }
  switch(combo)
  {
  case 0: c03::bcsr_elem_dispatch<double, std::uint64_t>(c, edge, bsel); break;
  case 1: c03::bcsr_elem_dispatch<double, std::uint32_t>(c, edge, bsel); break;
  case 2: c03::bcsr_elem_dispatch<float, std::uint64_t>(c, edge, bsel); break;
  default: c03::bcsr_elem_dispatch<float, std::uint32_t>(c, edge, bsel); break;
  }
}
VH_FAMILY(bcsr_prod)
{
  // edge corpus (600 cases): for <double,u64> and <float,u32>: 2x2 products of both overloads (100 each) + the five trace
  // block shapes (20 each); then random
  int combo, sel; long edge;
  if(c.k < 600)
  {
    combo = c.k < 300 ? 0 : 3;
    const std::uint64_t r = c.k % 300;
    if(r < 200) { sel = int(r / 100) * 2; edge = long(r % 100); }
    else { sel = 4 + int((r - 200) / 20); edge = long((r - 200) % 20); }
  }
  else { edge = -1; combo = int(c.rng.below(4)); sel = int(c.rng.below(12)); if(sel >= 9) sel -= 9; }
  switch(combo)
  {
  case 0: c03::bcsr_prod_dispatch<double, std::uint64_t>(c, edge, sel); break;
  case 1: c03::bcsr_prod_dispatch<double, std::uint32_t>(c, edge, sel); break;
  case 2: c03::bcsr_prod_dispatch<float, std::uint64_t>(c, edge, sel); break;
  default: c03::bcsr_prod_dispatch<float, std::uint32_t>(c, edge, sel); break;
  }
}
VH_FAMILY(dense)
{
  int combo; long edge; split(c, combo, edge, 6);
  switch(combo)
  {
  case 0: c03::dense_case<double, std::uint64_t>(c, edge); break;
  case 1: c03::dense_case<double, std::uint32_t>(c, edge); break;
  case 2: c03::dense_case<float, std::uint64_t>(c, edge); break;
  default: c03::dense_case<float, std::uint32_t>(c, edge); break;
  }
}
VH_FEAT_MAIN
