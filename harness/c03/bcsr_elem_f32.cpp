// explicit instantiation of the bcsr_elem dispatcher for <float, std::uint32_t>
#include "bcsr_elem.hpp"
namespace c03 { template void bcsr_elem_dispatch<float, std::uint32_t>(vh::Ctx&, long, int); }
