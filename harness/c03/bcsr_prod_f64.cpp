// explicit instantiation of the bcsr_prod dispatcher for <float, std::uint64_t>
#include "bcsr_prod.hpp"
namespace c03 { template void bcsr_prod_dispatch<float, std::uint64_t>(vh::Ctx&, long, int); }
