// explicit instantiations of the dense case for DT=double
#include "dense.hpp"
namespace c03
{
  template void dense_case<double, std::uint64_t>(vh::Ctx&, long);
  template void dense_case<double, std::uint32_t>(vh::Ctx&, long);
}
