// bcsr_prod.hpp -- C03 family bcsr_prod: SparseMatrixBCSR::add_double_mat_product (BCSR*BCSR*BCSR and CSR*BCSR*CSR) onto a
// prescribed block pattern and add_trace_double_mat_mult.  Included by the instantiating TUs only.
#pragma once
#include "csr_prod.hpp"

namespace c03
{
  // Kronecker expansion D (x) I_bs of a scalar spec (for the CSR * BCSR * CSR overload)
  inline MatSpec kron_identity(const MatSpec& m, int bs)
  {
    MatSpec o; o.rows = m.rows * Index(bs); o.cols = m.cols * Index(bs); o.vstyle = m.vstyle;
    for(auto& e : m.t) for(int q = 0; q < bs; ++q) o.t.push_back({e.r * Index(bs) + Index(q), e.c * Index(bs) + Index(q), e.v});
    o.sort_unique();
    return o;
  }
  inline Index bprod_dim(vh::Ctx& c)
  {
    static const Index small[] = {1, 1, 2, 2, 3, 3, 4, 5, 7, 8};
    vh::Rng& r = c.rng;
    if(r.coin(0.6)) return small[r.below(sizeof(small) / sizeof(small[0]))];
    Index mx = 14;
    if(c.thorough()) { double u = r.unit(); mx = u < 0.85 ? 14 : 40; }
    return Index(r.range(1, long(mx)));
  }
  inline void clear_spec(MatSpec& m) { m.t.clear(); m.tags.clear(); m.classify(); }

  // which: 0 = BCSR*BCSR*BCSR, 1 = CSR*BCSR*CSR ; square blocks BS x BS (XASSERT(BlockHeight_ == BlockWidth_))
  template<typename DT, typename IT, int BS>
  void bcsr_prod_case(vh::Ctx& c, long edge, int which)
  {
    typedef SparseMatrixBCSR<DT, IT, BS, BS> BMat;
    typedef SparseMatrixCSR<DT, IT> SMat;
    vh::Rng& rng = c.rng;
    const std::string op = which == 0 ? "bcsr.add_double_mat_product" : "bcsr.add_double_mat_product_csr";
    const int vstyle = int(rng.below(4));
    Index M = bprod_dim(c), K = bprod_dim(c), L = bprod_dim(c), N = bprod_dim(c);
    if(edge >= 0)
    {
      static const Index dims[][4] = {{1, 1, 1, 1}, {2, 3, 3, 2}, {3, 1, 2, 3}, {1, 4, 4, 1}, {4, 4, 4, 4}};
      const Index* d = dims[edge % 5]; M = d[0]; K = d[1]; L = d[2]; N = d[3];
    }
    const bool ef_ok = edge >= 0 || rng.coin(0.12);
    MatSpec Db = gen_operand(rng, M, K, vstyle, ef_ok), Ab = gen_operand(rng, K, L, vstyle, ef_ok), Bb = gen_operand(rng, L, N, vstyle, ef_ok);
    if(edge >= 0)
    {
      int ef_role = int((edge / 20) % 5);
      if(ef_role == 1) clear_spec(Db);
      if(ef_role == 2) clear_spec(Ab);
      if(ef_role == 3) clear_spec(Bb);
    }
    const double alpha = pick_alpha(rng);
    // block-level structural product pattern
    ProdRef Pb = ref_product(Db, &Ab, nullptr, Bb, 1.0L);
    int mode = int(rng.below(10)); mode = mode < 3 ? 0 : (mode < 5 ? 1 : (mode < 8 ? 2 : 3));
    if(edge >= 0) mode = int((edge / 5) % 4);
    XPattern xp = gen_xpattern(rng, Pb, mode, vstyle);
    if(edge >= 0 && (edge / 20) % 5 == 4)
    {
      clear_spec(xp.x); xp.tags.clear(); xp.incomplete = false;
      for(char p : Pb.pat) if(p) xp.incomplete = true;
      if(mode <= 1 && xp.incomplete) mode = 2;
    }
    if(mode == 1 && std::find(xp.tags.begin(), xp.tags.end(), "superset_impossible") != xp.tags.end()) { mode = 0; xp.tags.clear(); }
    if(mode == 3 && !xp.incomplete) mode = 0;
    if(mode == 2 && !xp.incomplete) mode = xp.tags.empty() ? 0 : 1;
    const bool allow = mode == 2 ? true : (mode == 3 ? false : rng.coin(0.5));
    static const char* mn[] = {"x:exact", "x:superset", "x:incomplete_allowed", "x:incomplete_forbidden"};
    c.tag(mn[mode]); c.tag(allow ? "allow_incomplete:1" : "allow_incomplete:0");
    for(auto& t : xp.tags) c.tag(t);
    role_tags(c, "d", Db); role_tags(c, "a", Ab); role_tags(c, "b", Bb); role_tags(c, "x", xp.x);
    if(edge >= 0) c.tag("edge_corpus");
    c.tag("bs:" + std::to_string(BS) + "x" + std::to_string(BS));
    c.tag(std::string("dt:") + vl::dt_name<DT>()); c.tag(std::string("it:") + vl::it_name<IT>());
    c.tag("vstyle:" + std::to_string(vstyle));

    // values
    BSpec As = gen_bspec(rng, Ab, BS, BS, vstyle), Xs = gen_bspec(rng, xp.x, BS, BS, vstyle);
    BSpec Ds, Bs;                  // which == 0
    MatSpec Dsc = Db, Bsc = Bb;    // which == 1: scalar CSR factors (values of the generated specs)
    MatSpec Dexp, Bexp;
    if(which == 0) { Ds = gen_bspec(rng, Db, BS, BS, vstyle); Bs = gen_bspec(rng, Bb, BS, BS, vstyle); Dexp = Ds.scalar(); Bexp = Bs.scalar(); }
    else { Dexp = kron_identity(Dsc, BS); Bexp = kron_identity(Bsc, BS); }
    MatSpec Aexp = As.scalar();
    ProdRef P = ref_product(Dexp, &Aexp, nullptr, Bexp, (LD)alpha);
    c.desc = vh::J().kv("op", op).kv("alpha", alpha).kv("allow_incomplete", allow).kv("mode", mode).kv("bs", BS)
      .raw("D_blocks", Db.describe(24)).raw("A_blocks", Ab.describe(24)).raw("B_blocks", Bb.describe(24)).raw("X_blocks", xp.x.describe(24))
      .raw("A_pod", vh::jarr(As.pod, 36)).raw("X_pod", vh::jarr(Xs.pod, 36)).str();
    const bool risky = Db.t.empty() || Ab.t.empty() || Bb.t.empty() || xp.x.t.empty();

    c.set_op(op);
    BMat a = make_bcsr<DT, IT, BS, BS>(As), x = make_bcsr<DT, IT, BS, BS>(Xs);
    BMat db, bb; SMat ds, bsm;
    if(which == 0) { db = make_bcsr<DT, IT, BS, BS>(Ds); bb = make_bcsr<DT, IT, BS, BS>(Bs); }
    else { ds = vl::make_csr<DT, IT>(Dsc); bsm = vl::make_csr<DT, IT>(Bsc); }
    auto call = [&]()
    {
      if(which == 0) x.add_double_mat_product(db, a, bb, DT(alpha), allow);
      else x.add_double_mat_product(ds, a, bsm, DT(alpha), allow);
    };
    if(mode == 3)
    {
      warm_symbolizer();
      vh::ForkResult r = vh::run_forked(call);
      c.event(); c.count("expected_abort_cases");
      if(r.clean())
        c.viol(op, "silent-incomplete", vh::J().kv("why", "call returned normally although product blocks are missing in the output pattern and allow_incomplete=false").str());
      else if(!r.err_has("Incomplete output matrix structure"))
        c.viol(op, crash_kind(r), vh::J().kv("expected", "abort with 'Incomplete output matrix structure'").kv("stderr", tail(r.err)).str());
      return;
    }
    Purity pu(c, op); pu.add("a", a); pu.add_layout("this", x);
    if(which == 0) { pu.add("d", db); pu.add("b", bb); } else { pu.add("d", ds); pu.add("b", bsm); }
    if(risky && !probe(c, op, call)) return;
    call(); c.event();
    pu.check();
    int budget = 6;
    const DT* xv = x.template val<Perspective::pod>();
    for(std::size_t p = 0; p < Xs.pod.size(); ++p)
    {
      Index i, j; Xs.pos(p, i, j); const std::size_t q = std::size_t(i) * P.cols + j;
      const LD x0 = (LD)DT(Xs.pod[p]);
      if(P.n[q] == 0) cmp_exact<DT>(c, op, "entry outside the product pattern", xv[p], x0, i, j, budget);
      else cmp<DT>(c, op, "entry", xv[p], x0 + P.v[q], std::fabs(x0) + P.s[q], P.n[q] + 2, i, j, budget);
    }
  }

  // v <- v + alpha * diag( D * diag(a) * B ), B = this (BH x BW blocks), D has BW x BH blocks (so that D*B has square blocks)
  template<typename DT, typename IT, int BH, int BW>
  void bcsr_trace_case(vh::Ctx& c, long edge)
  {
    typedef SparseMatrixBCSR<DT, IT, BH, BW> BMatB;
    typedef SparseMatrixBCSR<DT, IT, BW, BH> BMatD;
    typedef typename BMatD::VectorTypeL VecV;
    vh::Rng& rng = c.rng;
    const std::string op = "bcsr.add_trace_double_mat_mult";
    const int vstyle = int(rng.below(4));
    Index M = bprod_dim(c), L = bprod_dim(c);
    if(edge >= 0) { static const Index dims[][2] = {{1, 1}, {2, 3}, {3, 1}, {1, 4}, {4, 4}}; M = dims[edge % 5][0]; L = dims[edge % 5][1]; }
    const bool ef_ok = edge >= 0 || rng.coin(0.12);
    MatSpec Db = gen_operand(rng, M, L, vstyle, ef_ok), Bb = gen_operand(rng, L, M, vstyle, ef_ok);
    if(edge >= 0)
    {
      int ef_role = int((edge / 5) % 4);
      if(ef_role == 1) clear_spec(Db);
      if(ef_role == 2) clear_spec(Bb);
      if(ef_role == 3) { Bb = Db.transposed(); Bb.tags.clear(); Bb.classify(); }   // B with the pattern of D^T: every D block meets a B block
    }
    else if(rng.coin(0.3)) { Bb = Db.transposed(); for(auto& e : Bb.t) e.v = vl::gen_value(rng, vstyle); Bb.tags.clear(); Bb.classify(); }
    const double alpha = pick_alpha(rng);
    BSpec Ds = gen_bspec(rng, Db, BW, BH, vstyle), Bs = gen_bspec(rng, Bb, BH, BW, vstyle);
    std::vector<double> av = vl::gen_vec(rng, L * Index(BH), vstyle), v0 = vl::gen_vec(rng, M * Index(BW), vstyle);
    role_tags(c, "d", Db); role_tags(c, "b", Bb);
    if(edge >= 0) c.tag("edge_corpus");
    c.tag("bs:" + std::to_string(BH) + "x" + std::to_string(BW));
    c.tag(std::string("dt:") + vl::dt_name<DT>()); c.tag(std::string("it:") + vl::it_name<IT>());
    c.tag("vstyle:" + std::to_string(vstyle));
    c.desc = vh::J().kv("op", op).kv("alpha", alpha).kv("bh", BH).kv("bw", BW).raw("D_blocks", Db.describe(24)).raw("B_blocks", Bb.describe(24))
      .raw("D_pod", vh::jarr(Ds.pod, 36)).raw("B_pod", vh::jarr(Bs.pod, 36)).raw("a", vh::jarr(av, 24)).raw("v", vh::jarr(v0, 24)).str();
    const bool risky = Db.t.empty() || Bb.t.empty();

    // reference
    MatSpec Dx = Ds.scalar(), Bx = Bs.scalar();
    const Index SV = M * Index(BW);
    std::vector<LD> ref(SV), S(SV); std::vector<unsigned> cnt(SV, 0);
    for(Index s = 0; s < SV; ++s) { ref[s] = (LD)DT(v0[s]); S[s] = std::fabs(ref[s]); }
    {
      std::map<std::pair<Index, Index>, double> bmap;
      for(auto& e : Bx.t) bmap[{e.r, e.c}] = e.v;
      for(auto& e : Dx.t)
      {
        auto it = bmap.find({e.c, e.r});
        if(it == bmap.end()) continue;
        const LD t = (LD)alpha * (LD)e.v * (LD)av[e.c] * (LD)it->second;
        ref[e.r] += t; S[e.r] += std::fabs(t); ++cnt[e.r];
      }
    }
    c.set_op(op);
    BMatD d = make_bcsr<DT, IT, BW, BH>(Ds);
    BMatB b = make_bcsr<DT, IT, BH, BW>(Bs);
    DenseVectorBlocked<DT, IT, BH> a(L); fill_pod(a, av);
    VecV v(M); fill_pod(v, v0);
    auto call = [&]() { b.template add_trace_double_mat_mult<BW>(v, d, a, DT(alpha)); };
    Purity pu(c, op); pu.add("d", d); pu.add("a", a); pu.add("this", b);
    if(risky && !probe(c, op, call)) return;
    call(); c.event();
    pu.check();
    int budget = 6;
    const DT* g = pod(v);
    for(Index s = 0; s < SV; ++s)
    {
      if(cnt[s] == 0) cmp_exact<DT>(c, op, "component without contribution", g[s], ref[s], s, 0, budget);
      else cmp<DT>(c, op, "component", g[s], ref[s], S[s], cnt[s] + 2, s, 0, budget);
    }
  }

  // sel: 0,1 -> BCSR^3 with 2x2 / 3x3 ; 2,3 -> CSR*BCSR*CSR with 2x2 / 3x3 ; 4.. -> trace with (BH,BW) = (2,1),(3,1),(2,2),(3,2),(2,3)
  template<typename DT, typename IT>
  void bcsr_prod_dispatch(vh::Ctx& c, long edge, int sel)
  {
    switch(sel)
    {
    case 0: bcsr_prod_case<DT, IT, 2>(c, edge, 0); break;
    case 1: bcsr_prod_case<DT, IT, 3>(c, edge, 0); break;
    case 2: bcsr_prod_case<DT, IT, 2>(c, edge, 1); break;
    case 3: bcsr_prod_case<DT, IT, 3>(c, edge, 1); break;
    case 4: bcsr_trace_case<DT, IT, 2, 1>(c, edge); break;
    case 5: bcsr_trace_case<DT, IT, 3, 1>(c, edge); break;
    case 6: bcsr_trace_case<DT, IT, 2, 2>(c, edge); break;
    case 7: bcsr_trace_case<DT, IT, 3, 2>(c, edge); break;
    default: bcsr_trace_case<DT, IT, 2, 3>(c, edge); break;
    }
  }
} // namespace c03
