// explicit instantiations of the csr_elem case for DT=float
#include "csr_elem.hpp"
namespace c03
{
  template void csr_elem_case<float, std::uint64_t>(vh::Ctx&, long);
  template void csr_elem_case<float, std::uint32_t>(vh::Ctx&, long);
}
