// c03.hpp -- shared helpers of the C03 harness (matrix algebra == dense definitions)
#pragma once
#include <common/vh_lafem.hpp>
#include <kernel/util/tiny_algebra.hpp>
#if defined(__SANITIZE_ADDRESS__)
#include <sanitizer/common_interface_defs.h>
#endif
#include <execinfo.h>
#include <dlfcn.h>

namespace c03
{
  using namespace FEAT;
  using namespace FEAT::LAFEM;
  using vl::LD; using vl::MatSpec; using vl::Trip;

  // ------------------------------------------------------------------ crash classification (mirrors vlib/sup.py classify_stderr)
  inline std::string crash_kind(const vh::ForkResult& r)
  {
    const std::string& t = r.err;
    auto p = t.find("ERROR: AddressSanitizer");
    if(p != std::string::npos)
    {
      std::size_t q = p + std::strlen("ERROR: AddressSanitizer");
      while(q < t.size() && (t[q] == ':' || t[q] == ' ')) ++q;
      std::string w; while(q < t.size() && (std::isalnum((unsigned char)t[q]) || t[q] == '_' || t[q] == '-')) w += t[q++];
      return "asan:" + (w.empty() ? std::string("report") : w);
    }
    if(t.find("runtime error:") != std::string::npos) return "ubsan";
    if(t.find("FATAL ERROR") != std::string::npos || (t.find("Assertion") != std::string::npos && t.find("failed") != std::string::npos)
      || t.find("ABORT") != std::string::npos) return "abort";
    if(t.find("terminate called") != std::string::npos) return "uncaught";
    if(t.find("VH-CHILD-EXCEPTION") != std::string::npos) return "exception";
    if(!r.exited) return "signal:" + std::to_string(r.sig);
    return "exit:" + std::to_string(r.code);
  }
  inline std::string tail(const std::string& s, std::size_t n = 1500)
  {
    // keep the informative head of a sanitizer report (first lines) rather than the very end
    std::string o = s.size() > n ? s.substr(0, n) : s;
    return o;
  }
  // The sanitizer run-time symbolizes the report of a crashing child; loading the debug information costs ~100 ms per
  // fresh process. Symbolizing one (discarded) stack trace in the parent lets every forked child inherit the loaded state.
  inline void warm_symbolizer()
  {
#if defined(__SANITIZE_ADDRESS__)
    static bool done = false;
    if(done) return;
    done = true;
    std::fflush(stderr);
    int save = dup(2), nul = open("/dev/null", O_WRONLY);
    if(save >= 0 && nul >= 0)
    {
      dup2(nul, 2);
      __sanitizer_print_stack_trace();
      // libubsan.so carries its own copy of the symbolizer: warm that one, too
      if(void* h = dlopen("libubsan.so.1", RTLD_LAZY | RTLD_NOLOAD))
      {
        typedef void (*fn_t)(void*, const char*, char*, std::size_t);
        char buf[256];
        if(fn_t f = (fn_t)dlsym(h, "__sanitizer_symbolize_pc")) f((void*)&vh::main_impl, "%f", buf, sizeof(buf));
      }
      // the slow (DWARF) unwinder and glibc's backtrace() are used by UBSan reports and by FEAT's Runtime::abort
      try { throw 1; } catch(int) {}
      void* bt[8]; int nb = backtrace(bt, 8); char** sy = backtrace_symbols(bt, nb); if(sy) std::free(sy);
      dup2(save, 2);
    }
    if(save >= 0) close(save);
    if(nul >= 0) close(nul);
#endif
  }
  // runs fn in a forked child first; records the crash as a violation of `op` and returns false if the child died
  inline bool probe(vh::Ctx& c, const std::string& op, const std::function<void()>& fn)
  {
    warm_symbolizer();
    vh::ForkResult r = vh::run_forked(fn);
    c.count("probes");
    if(r.clean()) return true;
    c.count("probe_crashes");
    c.viol(op, crash_kind(r), vh::J().kv("probe", true).kv("stderr", tail(r.err)).str());
    return false;
  }

  // ------------------------------------------------------------------ sizes
  inline Index pick_max_dim(vh::Ctx& c, Index big)
  {
    if(!c.thorough()) return 40;
    double u = c.rng.unit();
    if(u < 0.80) return 40;
    if(u < 0.97) return 100;
    return big;
  }
  inline double pick_alpha(vh::Rng& r)
  {
    switch(int(r.below(8)))
    {
    case 0: return 1.0;
    case 1: return -1.0;
    case 2: return 0.0;
    case 3: return 2.0;
    case 4: return double(float(r.real(-3.0, 3.0)));
    case 5: return double(float(r.real(-1.0, 1.0) * 1e-3));
    case 6: return double(float(r.real(-1.0, 1.0) * 1e3));
    default: return 0.5;
    }
  }

  // row index over the sorted triplets of a spec
  struct Rows
  {
    std::vector<std::size_t> ptr;
    explicit Rows(const MatSpec& m) : ptr(m.rows + 1, 0)
    {
      for(auto& e : m.t) ++ptr[e.r + 1];
      for(Index i = 0; i < m.rows; ++i) ptr[i + 1] += ptr[i];
    }
  };

  // same positions as m, fresh values
  inline MatSpec same_layout(vh::Rng& r, const MatSpec& m, int vstyle = -1)
  {
    MatSpec o = m; if(vstyle >= 0) o.vstyle = vstyle;
    for(auto& e : o.t) e.v = vl::gen_value(r, o.vstyle);
    return o;
  }

  // ------------------------------------------------------------------ hashes of parts of a container
  template<typename Cont> std::uint64_t index_hash(const Cont& a)
  {
    typedef typename Cont::IndexType IT;
    std::uint64_t h = 1469598103934665603ull;
    const auto& in = a.get_indices(); const auto& is = a.get_indices_size();
    for(std::size_t i = 0; i < in.size(); ++i) if(in[i] && is[i]) h = vh::hash_bytes(in[i], is[i] * sizeof(IT), h);
    const auto& sc = a.get_scalar_index();
    for(auto v : sc) { std::uint64_t q = v; h = vh::hash_bytes(&q, sizeof(q), h); }
    return h;
  }

  struct Purity
  {
    vh::Ctx& c; std::string op;
    std::vector<std::pair<std::string, std::function<std::uint64_t()>>> items;
    std::vector<std::uint64_t> before;
    Purity(vh::Ctx& cc, const std::string& o) : c(cc), op(o) {}
    template<typename Cont> void add(const std::string& name, const Cont& a)
    { const Cont* p = &a; items.push_back({name, [p]() { return vl::container_hash(*p); }}); before.push_back(vl::container_hash(a)); }
    template<typename Cont> void add_layout(const std::string& name, const Cont& a)
    { const Cont* p = &a; items.push_back({name, [p]() { return index_hash(*p); }}); before.push_back(index_hash(a)); }
    void check()
    {
      for(std::size_t i = 0; i < items.size(); ++i)
      {
        c.event();
        if(items[i].second() != before[i])
          c.viol(op, "input-modified", vh::J().kv("operand", items[i].first).str());
      }
    }
  };

  // ------------------------------------------------------------------ value comparison helpers
  template<typename DT>
  inline void cmp(vh::Ctx& c, const std::string& op, const char* what, LD got, LD ref, LD S, std::size_t len, Index i, Index j, int& budget)
  {
    c.event();
    LD ex = 0;
    if(!vl::close_enough<DT>(got, ref, S, len, &ex) && budget-- > 0)
      c.viol(op, "wrong-value", vh::J().kv("what", what).kv("row", (unsigned long)i).kv("col", (unsigned long)j).kv("got", got)
        .kv("expected", ref).kv("S", S).kv("len", (unsigned long)len).kv("err_over_bound", ex).str());
  }
  template<typename DT>
  inline void cmp_exact(vh::Ctx& c, const std::string& op, const char* what, LD got, LD ref, Index i, Index j, int& budget)
  {
    c.event();
    if(!(got == ref) && budget-- > 0)
      c.viol(op, "wrong-value", vh::J().kv("what", what).kv("row", (unsigned long)i).kv("col", (unsigned long)j).kv("got", got)
        .kv("expected", ref).kv("exact", true).str());
  }

  // ------------------------------------------------------------------ BCSR construction with generator-owned values
  // bm: block pattern; pod: values in FEAT's storage order (block-major, each block row-major); sm: scalar truth
  struct BSpec
  {
    MatSpec bm;                 // block pattern (values ignored)
    int bh = 1, bw = 1;
    std::vector<double> pod;    // nnzb*bh*bw values
    MatSpec scalar() const
    {
      MatSpec s; s.rows = bm.rows * Index(bh); s.cols = bm.cols * Index(bw); s.vstyle = bm.vstyle; s.pattern = bm.pattern;
      for(std::size_t i = 0; i < bm.t.size(); ++i) for(int a = 0; a < bh; ++a) for(int b = 0; b < bw; ++b)
        s.t.push_back({bm.t[i].r * Index(bh) + Index(a), bm.t[i].c * Index(bw) + Index(b), pod[i * std::size_t(bh * bw) + std::size_t(a * bw + b)]});
      s.sort_unique();
      return s;
    }
    // scalar (row, col) of pod index p
    void pos(std::size_t p, Index& r, Index& cidx) const
    {
      std::size_t blk = p / std::size_t(bh * bw), q = p % std::size_t(bh * bw);
      r = bm.t[blk].r * Index(bh) + Index(q / std::size_t(bw)); cidx = bm.t[blk].c * Index(bw) + Index(q % std::size_t(bw));
    }
  };
  inline BSpec gen_bspec(vh::Rng& r, const MatSpec& bm, int bh, int bw, int vstyle = -1)
  {
    BSpec b; b.bm = bm; b.bh = bh; b.bw = bw; if(vstyle >= 0) b.bm.vstyle = vstyle;
    b.pod.resize(bm.t.size() * std::size_t(bh * bw));
    for(auto& v : b.pod) v = vl::gen_value(r, b.bm.vstyle);
    return b;
  }
  template<typename DT, typename IT, int BH, int BW>
  SparseMatrixBCSR<DT, IT, BH, BW> make_bcsr(const BSpec& b)
  {
    const MatSpec& bm = b.bm;
    if(bm.t.empty()) return SparseMatrixBCSR<DT, IT, BH, BW>(bm.rows, bm.cols);
    const Index nb = Index(bm.t.size());
    DenseVector<IT, IT> col(nb), rp(bm.rows + 1);
    DenseVector<DT, IT> val(nb * Index(BH * BW));
    std::vector<Index> cnt(bm.rows + 1, 0);
    for(Index i = 0; i < nb; ++i) { col(i, IT(bm.t[i].c)); ++cnt[bm.t[i].r + 1]; }
    for(std::size_t p = 0; p < b.pod.size(); ++p) val(Index(p), DT(b.pod[p]));
    for(Index i = 0; i < bm.rows; ++i) cnt[i + 1] += cnt[i];
    for(Index i = 0; i <= bm.rows; ++i) rp(i, IT(cnt[i]));
    return SparseMatrixBCSR<DT, IT, BH, BW>(bm.rows, bm.cols, col, val, rp);
  }

  // generic pod access of DenseVector / DenseVectorBlocked
  template<typename V> auto* pod(V& v) { return v.template elements<Perspective::pod>(); }
  template<typename V> Index pod_size(const V& v) { return v.template size<Perspective::pod>(); }
  template<typename V> void fill_pod(V& v, const std::vector<double>& d)
  {
    typedef typename V::DataType DT;
    DT* e = pod(v);
    for(std::size_t i = 0; i < d.size(); ++i) e[i] = DT(d[i]);
  }

  // ------------------------------------------------------------------ sparse product reference on scalar specs
  // R = alpha * D * [A | diag(a) | I] * B accumulated densely (rows(D) x cols(B)) with S and term counts
  struct ProdRef
  {
    Index rows = 0, cols = 0;
    std::vector<LD> v, s; std::vector<unsigned> n;    // value, sum |terms|, number of terms
    std::vector<char> pat;                             // structural product pattern
    LD& V(Index i, Index j) { return v[std::size_t(i) * cols + j]; }
  };
  inline ProdRef ref_product(const MatSpec& D, const MatSpec* A, const std::vector<double>* adiag, const MatSpec& B, LD alpha)
  {
    ProdRef o; o.rows = D.rows; o.cols = B.cols;
    const std::size_t N = std::size_t(o.rows) * o.cols;
    o.v.assign(N, 0.0L); o.s.assign(N, 0.0L); o.n.assign(N, 0u); o.pat.assign(N, 0);
    Rows rb(B);
    if(A)
    {
      Rows ra(*A);
      for(auto& d : D.t)
        for(std::size_t p = ra.ptr[d.c]; p < ra.ptr[d.c + 1]; ++p)
        {
          const Trip& a = A->t[p];
          for(std::size_t q = rb.ptr[a.c]; q < rb.ptr[a.c + 1]; ++q)
          {
            const Trip& b = B.t[q];
            const std::size_t x = std::size_t(d.r) * o.cols + b.c;
            const LD t = alpha * (LD)d.v * (LD)a.v * (LD)b.v;
            o.v[x] += t; o.s[x] += std::fabs(t); ++o.n[x]; o.pat[x] = 1;
          }
        }
    }
    else
    {
      for(auto& d : D.t)
      {
        const LD f = adiag ? (LD)(*adiag)[d.c] : 1.0L;
        for(std::size_t q = rb.ptr[d.c]; q < rb.ptr[d.c + 1]; ++q)
        {
          const Trip& b = B.t[q];
          const std::size_t x = std::size_t(d.r) * o.cols + b.c;
          const LD t = alpha * (LD)d.v * f * (LD)b.v;
          o.v[x] += t; o.s[x] += std::fabs(t); ++o.n[x]; o.pat[x] = 1;
        }
      }
    }
    return o;
  }

  // ------------------------------------------------------------------ output pattern generator for the products
  // mode 0 exact, 1 strict superset, 2 subset/mixed (to be used with allow_incomplete=true), 3 incomplete (must abort)
  struct XPattern { MatSpec x; std::vector<std::string> tags; bool incomplete = false; };
  inline XPattern gen_xpattern(vh::Rng& r, const ProdRef& P, int mode, int vstyle)
  {
    XPattern o; MatSpec& x = o.x; x.rows = P.rows; x.cols = P.cols; x.vstyle = vstyle; x.pattern = "product";
    const Index R = P.rows, C = P.cols;
    std::vector<char> keep(P.pat);
    std::set<std::string> tg;
    auto rowcols = [&](Index i) { std::vector<Index> v; for(Index j = 0; j < C; ++j) if(P.pat[std::size_t(i) * C + j]) v.push_back(j); return v; };
    if(mode == 1 || (mode == 2 && r.coin(0.4)))
    {
      // add entries: before the first / after the last / between product entries / into empty rows
      bool any = false;
      for(int attempt = 0; attempt < 4 && !any; ++attempt)
        for(Index i = 0; i < R; ++i)
        {
          if(!r.coin(attempt == 0 ? 0.5 : 1.0)) continue;
          std::vector<Index> pc = rowcols(i);
          int how = int(r.below(4));
          Index j = C;
          if(pc.empty()) { j = Index(r.below(C)); how = 3; }
          else if(how == 0) { if(pc.front() > 0) j = Index(r.below(pc.front())); }
          else if(how == 1) { if(pc.back() + 1 < C) j = pc.back() + 1 + Index(r.below(C - pc.back() - 1)); }
          else if(how == 2) { for(std::size_t q = 0; q + 1 < pc.size(); ++q) if(pc[q] + 1 < pc[q + 1]) { j = pc[q] + 1 + Index(r.below(pc[q + 1] - pc[q] - 1)); if(r.coin(0.5)) break; } }
          else j = Index(r.below(C));
          if(j < C && !keep[std::size_t(i) * C + j])
          {
            keep[std::size_t(i) * C + j] = 1; any = true;
            static const char* nm[] = {"add:front", "add:end", "add:mid", "add:emptyrow"};
            tg.insert(pc.empty() ? nm[3] : (how < 3 ? nm[how] : "add:random"));
          }
        }
      if(mode == 1 && !any) o.tags.push_back("superset_impossible");
    }
    if(mode == 2 || mode == 3)
    {
      bool any = false;
      for(int attempt = 0; attempt < 4 && !any; ++attempt)
        for(Index i = 0; i < R; ++i)
        {
          std::vector<Index> pc = rowcols(i);
          if(pc.empty() || !r.coin(attempt == 0 ? 0.4 : 1.0)) continue;
          int how = int(r.below(5));
          std::vector<Index> rm;
          if(how == 0) rm.push_back(pc.front());
          else if(how == 1) rm.push_back(pc.back());
          else if(how == 2) { if(pc.size() >= 3) rm.push_back(pc[1 + r.below(pc.size() - 2)]); else rm.push_back(pc[r.below(pc.size())]); }
          else if(how == 3) rm = pc;
          else for(Index j : pc) if(r.coin(0.5)) rm.push_back(j);
          for(Index j : rm) { keep[std::size_t(i) * C + j] = 0; any = true; }
          static const char* nm[] = {"rm:front", "rm:end", "rm:mid", "rm:row", "rm:random"};
          if(!rm.empty()) tg.insert(nm[how]);
        }
      o.incomplete = any;
    }
    for(Index i = 0; i < R; ++i) for(Index j = 0; j < C; ++j) if(keep[std::size_t(i) * C + j]) x.t.push_back({i, j, vl::gen_value(r, vstyle)});
    x.sort_unique(); x.classify();
    for(auto& t : tg) o.tags.push_back(t);
    return o;
  }
} // namespace c03
