// csr_elem.hpp -- C03 family csr_elem: element-wise / reduction algebra of SparseMatrixCSR against dense definitions.
// Included by the instantiating TUs csr_elem_*.cpp only.
#pragma once
#include "c03.hpp"

namespace c03
{
  template<typename DT, typename IT>
  void csr_elem_case(vh::Ctx& c, long edge)
  {
    typedef SparseMatrixCSR<DT, IT> Mat;
    typedef DenseVector<DT, IT> Vec;
    vh::Rng& rng = c.rng;
    vl::GenOpt o; o.max_dim = pick_max_dim(c, 300);
    const bool want_square = edge < 0 && rng.coin(0.4);
    o.square = want_square;
    MatSpec m = edge >= 0 ? vl::edge_matrix(std::size_t(edge)) : vl::gen_matrix(rng, o);
    // entry-free inputs need one forked probe per operation: keep their share at ~3% of the random cases
    if(edge < 0 && m.t.empty() && rng.coin(0.7)) { o.allow_entry_free = false; m = vl::gen_matrix(rng, o); }
    for(auto& t : m.tags) c.tag(t);
    c.tag(std::string("dt:") + vl::dt_name<DT>()); c.tag(std::string("it:") + vl::it_name<IT>());
    c.tag("vstyle:" + std::to_string(m.vstyle));
    c.desc = m.describe();
    const bool risky = m.t.empty();   // entry-free: the container owns no arrays
    const Index R = m.rows, C = m.cols, NZ = m.nnz();
    const bool square = R == C;
    Rows rows(m);
    int budget = 6;

    c.set_op("csr.build");
    Mat a = vl::make_csr<DT, IT>(m);
    {
      std::vector<LD> d; std::vector<char> mask; std::string why;
      c.event();
      if(!vl::decode_csr(a, d, mask, why) || !vl::same_image<DT>(m, d, &mask, why)) { c.viol("csr.build", "image", vh::J().kv("why", why).str()); return; }
    }

    // runs one monitored FEAT call; entry-free inputs are probed in a child first
    auto run = [&](const char* op, const std::function<void()>& fn) -> bool
    {
      c.set_op(op);
      if(risky && !probe(c, op, fn)) return false;
      fn(); c.event();
      return true;
    };
    // reads the values of a matrix with the layout of m from its raw array (layout verified separately)
    auto values = [&](const Mat& x) { std::vector<LD> v(NZ); const DT* p = x.val(); for(Index i = 0; i < NZ; ++i) v[i] = (LD)p[i]; return v; };
    // in-place results were built with the index arrays of `a` (by value): dims and index arrays must still be identical
    const std::uint64_t lay0 = index_hash(a);
    auto layout_ok = [&](const char* op, const Mat& x)
    {
      c.event();
      if(x.rows() != R || x.columns() != C || x.used_elements() != NZ) { c.viol(op, "dims", vh::J().kv("rows", (unsigned long)x.rows()).kv("cols", (unsigned long)x.columns()).kv("used", (unsigned long)x.used_elements()).str()); return false; }
      if(index_hash(x) != lay0) { c.viol(op, "pattern-changed", "{}"); return false; }
      return true;
    };

    // ---------------------------------------------------------------- axpy: y <- y + alpha*x
    {
      MatSpec ys = same_layout(rng, m);
      Mat y = vl::make_csr<DT, IT>(ys);
      const double alpha = pick_alpha(rng);
      Purity pu(c, "csr.axpy"); pu.add("x", a); pu.add_layout("this", y);
      if(run("csr.axpy", [&] { y.axpy(a, DT(alpha)); }) && layout_ok("csr.axpy", y))
      {
        pu.check();
        auto g = values(y);
        for(Index p = 0; p < NZ; ++p)
          cmp<DT>(c, "csr.axpy", "entry", g[p], (LD)ys.t[p].v + (LD)alpha * (LD)m.t[p].v, std::fabs((LD)ys.t[p].v) + std::fabs((LD)alpha * (LD)m.t[p].v), 2, m.t[p].r, m.t[p].c, budget);
      }
      // aliased: y <- y + alpha*y
      if(rng.coin(0.3))
      {
        Mat z = vl::make_csr<DT, IT>(ys);
        Purity pz(c, "csr.axpy"); pz.add_layout("this", z);
        if(run("csr.axpy", [&] { z.axpy(z, DT(alpha)); }) && layout_ok("csr.axpy", z))
        {
          pz.check();
          auto g = values(z);
          for(Index p = 0; p < NZ; ++p)
            cmp<DT>(c, "csr.axpy", "entry(alias this==x)", g[p], (1.0L + (LD)alpha) * (LD)ys.t[p].v, std::fabs((LD)ys.t[p].v) * (1.0L + std::fabs((LD)alpha)), 2, m.t[p].r, m.t[p].c, budget);
        }
      }
    }
    // ---------------------------------------------------------------- scale: y <- alpha*x
    {
      MatSpec ys = same_layout(rng, m);
      Mat y = vl::make_csr<DT, IT>(ys);
      const double alpha = pick_alpha(rng);
      const bool alias = rng.coin(0.3);
      Purity pu(c, "csr.scale"); if(!alias) pu.add("x", a); pu.add_layout("this", y);
      const MatSpec& src = alias ? ys : m;
      if(run("csr.scale", [&] { if(alias) y.scale(y, DT(alpha)); else y.scale(a, DT(alpha)); }) && layout_ok("csr.scale", y))
      {
        pu.check();
        auto g = values(y);
        for(Index p = 0; p < NZ; ++p)
          cmp<DT>(c, "csr.scale", alias ? "entry(alias)" : "entry", g[p], (LD)alpha * (LD)src.t[p].v, std::fabs((LD)alpha * (LD)src.t[p].v), 1, m.t[p].r, m.t[p].c, budget);
      }
    }
    // ---------------------------------------------------------------- scale_rows / scale_cols
    for(int which = 0; which < 2; ++which)
    {
      const char* op = which == 0 ? "csr.scale_rows" : "csr.scale_cols";
      MatSpec ys = same_layout(rng, m);
      Mat y = vl::make_csr<DT, IT>(ys);
      std::vector<double> sv = vl::gen_vec(rng, which == 0 ? R : C, int(rng.below(4)));
      Vec s = vl::make_dv<DT, IT>(sv);
      const bool alias = rng.coin(0.3);
      const MatSpec& src = alias ? ys : m;
      Purity pu(c, op); if(!alias) pu.add("x", a); pu.add("s", s); pu.add_layout("this", y);
      if(run(op, [&] { if(which == 0) { if(alias) y.scale_rows(y, s); else y.scale_rows(a, s); } else { if(alias) y.scale_cols(y, s); else y.scale_cols(a, s); } })
        && layout_ok(op, y))
      {
        pu.check();
        auto g = values(y);
        for(Index p = 0; p < NZ; ++p)
        {
          const LD f = (LD)sv[which == 0 ? m.t[p].r : m.t[p].c];
          cmp<DT>(c, op, alias ? "entry(alias)" : "entry", g[p], f * (LD)src.t[p].v, std::fabs(f * (LD)src.t[p].v), 1, m.t[p].r, m.t[p].c, budget);
        }
      }
    }
    // ---------------------------------------------------------------- norms
    {
      Purity pu(c, "csr.norm_frobenius"); pu.add("this", a);
      DT got = DT(0);
      if(run("csr.norm_frobenius", [&] { got = a.norm_frobenius(); }))
      {
        pu.check();
        LD s2 = 0; for(auto& e : m.t) s2 += (LD)e.v * (LD)e.v;
        const LD ref = std::sqrt(s2);
        cmp<DT>(c, "csr.norm_frobenius", "norm", got, ref, ref, NZ, 0, 0, budget);
      }
    }
    {
      std::vector<LD> r2(R, 0.0L);
      for(auto& e : m.t) r2[e.r] += (LD)e.v * (LD)e.v;
      const std::size_t len = vl::max_row_len(m, false);
      {
        Vec rn(R, DT(777));
        Purity pu(c, "csr.row_norm2"); pu.add("this", a);
        if(run("csr.row_norm2", [&] { a.row_norm2(rn); }))
        {
          pu.check();
          auto g = vl::read_dv(rn);
          for(Index i = 0; i < R; ++i) cmp<DT>(c, "csr.row_norm2", "row", g[i], std::sqrt(r2[i]), std::sqrt(r2[i]), len, i, 0, budget);
        }
      }
      {
        Vec rn(R, DT(777));
        Purity pu(c, "csr.row_norm2sqr"); pu.add("this", a);
        if(run("csr.row_norm2sqr", [&] { a.row_norm2sqr(rn); }))
        {
          pu.check();
          auto g = vl::read_dv(rn);
          for(Index i = 0; i < R; ++i) cmp<DT>(c, "csr.row_norm2sqr", "row", g[i], r2[i], r2[i], len, i, 0, budget);
        }
      }
      {
        // documented: row_norms_i = sum_j scal_j * a_ij^2 with scal a right-vector (size == columns)
        std::vector<double> sv = vl::gen_vec(rng, C, int(rng.below(4)));
        Vec s = vl::make_dv<DT, IT>(sv);
        Vec rn(R, DT(777));
        std::vector<LD> ref(R, 0.0L), S(R, 0.0L);
        for(auto& e : m.t) { LD t = (LD)sv[e.c] * (LD)e.v * (LD)e.v; ref[e.r] += t; S[e.r] += std::fabs(t); }
        Purity pu(c, "csr.row_norm2sqr_scaled"); pu.add("this", a); pu.add("scal", s);
        if(run("csr.row_norm2sqr_scaled", [&] { a.row_norm2sqr(rn, s); }))
        {
          pu.check();
          auto g = vl::read_dv(rn);
          for(Index i = 0; i < R; ++i) cmp<DT>(c, "csr.row_norm2sqr_scaled", "row", g[i], ref[i], S[i], len, i, 0, budget);
        }
      }
    }
    // ---------------------------------------------------------------- max / min elements (contract: at least one stored entry)
    if(NZ > 0)
    {
      LD mx = (LD)m.t[0].v, mn = (LD)m.t[0].v, mxa = std::fabs((LD)m.t[0].v), mna = mxa;
      for(auto& e : m.t) { LD v = (LD)e.v; mx = std::max(mx, v); mn = std::min(mn, v); mxa = std::max(mxa, std::fabs(v)); mna = std::min(mna, std::fabs(v)); }
      Purity pu(c, "csr.minmax"); pu.add("this", a);
      DT g = DT(0);
      c.set_op("csr.max_abs_element"); g = a.max_abs_element(); cmp_exact<DT>(c, "csr.max_abs_element", "value", g, mxa, 0, 0, budget);
      c.set_op("csr.min_abs_element"); g = a.min_abs_element(); cmp_exact<DT>(c, "csr.min_abs_element", "value", g, mna, 0, 0, budget);
      c.set_op("csr.max_element"); g = a.max_element(); cmp_exact<DT>(c, "csr.max_element", "value", g, mx, 0, 0, budget);
      c.set_op("csr.min_element"); g = a.min_element(); cmp_exact<DT>(c, "csr.min_element", "value", g, mn, 0, 0, budget);
      pu.check();
    }
    // ---------------------------------------------------------------- lump_rows (both overloads)
    {
      std::vector<LD> ref(R, 0.0L), S(R, 0.0L);
      for(auto& e : m.t) { ref[e.r] += (LD)e.v; S[e.r] += std::fabs((LD)e.v); }
      const std::size_t len = vl::max_row_len(m, false);
      Vec l1(R, DT(777)), l2;
      Purity pu(c, "csr.lump_rows"); pu.add("this", a);
      if(run("csr.lump_rows", [&] { a.lump_rows(l1); l2 = a.lump_rows(); }))
      {
        pu.check();
        c.event();
        if(l2.size() != R) c.viol("csr.lump_rows", "dims", vh::J().kv("size", (unsigned long)l2.size()).str());
        else
        {
          auto g1 = vl::read_dv(l1), g2 = vl::read_dv(l2);
          for(Index i = 0; i < R; ++i)
          {
            cmp<DT>(c, "csr.lump_rows", "row", g1[i], ref[i], S[i], len, i, 0, budget);
            cmp<DT>(c, "csr.lump_rows", "row(returning overload)", g2[i], ref[i], S[i], len, i, 0, budget);
          }
        }
      }
    }
    // ---------------------------------------------------------------- extract_diag (+ index helper); square only
    if(square)
    {
      std::vector<LD> dref(R, 0.0L); std::vector<Index> iref(R, NZ);
      for(Index p = 0; p < NZ; ++p) if(m.t[p].r == m.t[p].c) { dref[m.t[p].r] = (LD)DT(m.t[p].v); iref[m.t[p].r] = p; }
      DenseVector<IT, IT> di(R, IT(12345)), di2;
      Purity pu(c, "csr.extract_diag"); pu.add("this", a);
      if(run("csr.extract_diag_indices", [&] { a.extract_diag_indices(di); di2 = a.extract_diag_indices(); }))
      {
        c.event();
        if(di2.size() != R) c.viol("csr.extract_diag_indices", "dims", "{}");
        else for(Index i = 0; i < R; ++i)
        {
          cmp_exact<DT>(c, "csr.extract_diag_indices", "index", (LD)di.elements()[i], (LD)iref[i], i, i, budget);
          cmp_exact<DT>(c, "csr.extract_diag_indices", "index(returning overload)", (LD)di2.elements()[i], (LD)iref[i], i, i, budget);
        }
      }
      Vec d1(R, DT(777)), d2(R, DT(777)), d3;
      // the (diag, indices) overload gets harness-made indices, so that it is judged independently of the helper
      DenseVector<IT, IT> myi(R); for(Index i = 0; i < R; ++i) myi(i, IT(iref[i]));
      if(run("csr.extract_diag", [&] { a.extract_diag(d1, myi); a.extract_diag(d2); d3 = a.extract_diag(); }))
      {
        pu.check();
        c.event();
        if(d3.size() != R) c.viol("csr.extract_diag", "dims", "{}");
        else
        {
          auto g1 = vl::read_dv(d1), g2 = vl::read_dv(d2), g3 = vl::read_dv(d3);
          for(Index i = 0; i < R; ++i)
          {
            cmp_exact<DT>(c, "csr.extract_diag", "diag(given indices)", g1[i], dref[i], i, i, budget);
            cmp_exact<DT>(c, "csr.extract_diag", "diag", g2[i], dref[i], i, i, budget);
            cmp_exact<DT>(c, "csr.extract_diag", "diag(returning overload)", g3[i], dref[i], i, i, budget);
          }
        }
      }
    }
    // ---------------------------------------------------------------- shrink(eps): drops |v| < eps
    {
      std::vector<double> av; for(auto& e : m.t) av.push_back(std::fabs(e.v));
      std::sort(av.begin(), av.end());
      double eps = 0.0;
      switch(int(rng.below(5)))
      {
      case 0: eps = 0.0; break;
      case 1: eps = av.empty() ? 1.0 : av[av.size() / 2]; break;                        // a value that occurs: ">= eps" is kept
      case 2: eps = av.empty() ? 1.0 : double(float(av.back() * 2.0 + 1.0)); break;     // drops everything
      case 3: eps = 1e-30; break;                                                       // drops exact zeros only
      default: eps = av.empty() ? 0.5 : double(float(av[rng.below(av.size())] * 1.0000001 + 1e-12)); break;
      }
      const DT epsd = DT(eps);
      Mat y = a.clone(CloneMode::Deep);
      Purity pu(c, "csr.shrink"); pu.add("original(deep-cloned from)", a);
      if(run("csr.shrink", [&] { y.shrink(epsd); }))
      {
        pu.check();
        MatSpec e; e.rows = R; e.cols = C;
        for(auto& t : m.t) if(std::fabs(DT(t.v)) >= epsd) e.t.push_back(t);
        std::vector<LD> d; std::vector<char> mask; std::string why; c.event();
        if(y.rows() != R || y.columns() != C || y.used_elements() != e.nnz())
          c.viol("csr.shrink", "dims", vh::J().kv("rows", (unsigned long)y.rows()).kv("cols", (unsigned long)y.columns()).kv("used", (unsigned long)y.used_elements())
            .kv("expected_used", (unsigned long)e.nnz()).kv("eps", eps).str());
        else if(!vl::decode_csr(y, d, mask, why)) c.viol("csr.shrink", "structure", vh::J().kv("why", why).str());
        else if(!vl::same_image<DT>(e, d, &mask, why)) c.viol("csr.shrink", "wrong-value", vh::J().kv("why", why).kv("eps", eps).str());
      }
    }
  }
} // namespace c03
