// csr_prod.hpp -- C03 family csr_prod: add_mat_mat_product / add_double_mat_product (matrix and diagonal-vector overload)
// of SparseMatrixCSR onto a prescribed output pattern.  Included by the instantiating TUs only.
#pragma once
#include "c03.hpp"

namespace c03
{
  // operand generator for the products: small inner dimensions, forced empty rows, entry-free operands
  inline MatSpec gen_operand(vh::Rng& r, Index rows, Index cols, int vstyle, bool allow_entry_free)
  {
    MatSpec m; m.rows = rows; m.cols = cols; m.vstyle = vstyle;
    int pat = int(r.below(12));
    if(pat == 0 && !allow_entry_free) pat = 3;
    auto val = [&]() { return vl::gen_value(r, vstyle); };
    switch(pat)
    {
    case 0: m.pattern = "entry_free"; break;
    case 1: m.pattern = "diagonal"; for(Index i = 0; i < std::min(rows, cols); ++i) m.t.push_back({i, i, val()}); break;
    case 2: { m.pattern = "banded"; long bw = r.range(0, 2);
        for(Index i = 0; i < rows; ++i) for(long d = -bw; d <= bw; ++d) { long j = long(i) + d; if(j >= 0 && j < long(cols)) m.t.push_back({i, Index(j), val()}); } break; }
    case 3: case 4: case 5: case 6: { double dens = r.pick<double>({0.08, 0.2, 0.5, 0.9}); m.pattern = "uniform";
        for(Index i = 0; i < rows; ++i) for(Index j = 0; j < cols; ++j) if(r.coin(dens)) m.t.push_back({i, j, val()}); break; }
    case 7: m.pattern = "full"; for(Index i = 0; i < rows; ++i) for(Index j = 0; j < cols; ++j) m.t.push_back({i, j, val()}); break;
    case 8: case 9: { m.pattern = "empty_rows_cols";
        std::vector<char> er(rows, 0), ec(cols, 0); for(auto& x : er) x = r.coin(0.4); for(auto& x : ec) x = r.coin(0.3);
        for(Index i = 0; i < rows; ++i) for(Index j = 0; j < cols; ++j) if(!er[i] && !ec[j] && r.coin(0.6)) m.t.push_back({i, j, val()}); break; }
    case 10: { m.pattern = "first_last_cols"; // entries only at the front and the end of the rows
        for(Index i = 0; i < rows; ++i) { if(r.coin(0.7)) m.t.push_back({i, 0, val()}); if(cols > 1 && r.coin(0.7)) m.t.push_back({i, cols - 1, val()}); } break; }
    default: { m.pattern = "single_entry_rows"; for(Index i = 0; i < rows; ++i) if(r.coin(0.7)) m.t.push_back({i, Index(r.below(cols)), val()}); break; }
    }
    m.sort_unique(); m.classify();
    return m;
  }
  inline void role_tags(vh::Ctx& c, const char* role, const MatSpec& m)
  {
    for(auto& t : m.tags)
      if(t == "entry_free" || t == "empty_row" || t == "empty_col" || t == "full" || t == "stored_zero")
      { c.tag(std::string(role) + ":" + t); if(t == "entry_free") c.tag("entry_free"); }
  }
  inline Index prod_dim(vh::Ctx& c)
  {
    static const Index small[] = {1, 1, 2, 2, 3, 3, 4, 5, 7, 8, 9};
    vh::Rng& r = c.rng;
    if(r.coin(0.6)) return small[r.below(sizeof(small) / sizeof(small[0]))];
    Index mx = 24;
    if(c.thorough()) { double u = r.unit(); mx = u < 0.8 ? 24 : (u < 0.98 ? 60 : 150); }
    return Index(r.range(1, long(mx)));
  }

  // which: 0 add_mat_mat_product, 1 add_double_mat_product(D,A,B), 2 add_double_mat_product(D,diag a,B)
  template<typename DT, typename IT>
  void csr_prod_case(vh::Ctx& c, long edge)
  {
    typedef SparseMatrixCSR<DT, IT> Mat;
    typedef DenseVector<DT, IT> Vec;
    vh::Rng& rng = c.rng;
    const int which = edge >= 0 ? int(edge % 3) : int(rng.below(3));
    static const char* opn[] = {"csr.add_mat_mat_product", "csr.add_double_mat_product", "csr.add_double_mat_product_diag"};
    const std::string op = opn[which];
    const int vstyle = int(rng.below(4));
    Index M = prod_dim(c), K = prod_dim(c), L = which == 1 ? prod_dim(c) : K, N = prod_dim(c);
    bool alias_db = false;
    if(edge >= 0)
    {
      // deterministic edge corpus: tiny dimensions, entry-free operands in every role
      static const Index dims[][4] = {{1, 1, 1, 1}, {2, 3, 3, 2}, {3, 1, 1, 3}, {1, 4, 4, 1}, {4, 4, 4, 4}};
      const Index* d = dims[(edge / 3) % 5]; M = d[0]; K = d[1]; L = which == 1 ? d[2] : K; N = d[3];
    }
    else if(which != 1 && rng.coin(0.08)) { N = K; M = K; alias_db = true; } // X += alpha * D * D (same object for d and b)
    const bool ef_ok = edge >= 0 || rng.coin(0.12);   // entry-free operands in a quarter of the cases only
    MatSpec D = gen_operand(rng, M, K, vstyle, ef_ok);
    MatSpec A; std::vector<double> adiag;
    if(which == 1) A = gen_operand(rng, K, L, vstyle, ef_ok);
    if(which == 2) adiag = vl::gen_vec(rng, K, vstyle);
    MatSpec B = alias_db ? D : gen_operand(rng, L, N, vstyle, ef_ok);
    if(edge >= 0)
    {
      // role of the entry-free operand cycles through none, D, A/B, B, X(handled below)
      int ef_role = int((edge / 60) % 5);
      if(ef_role == 1) { D.t.clear(); D.tags.clear(); D.classify(); }
      if(ef_role == 2) { if(which == 1) { A.t.clear(); A.tags.clear(); A.classify(); } else { B.t.clear(); B.tags.clear(); B.classify(); } }
      if(ef_role == 3) { B.t.clear(); B.tags.clear(); B.classify(); }
    }
    const double alpha = pick_alpha(rng);
    ProdRef P = ref_product(D, which == 1 ? &A : nullptr, which == 2 ? &adiag : nullptr, B, (LD)alpha);
    // output pattern mode
    int mode = int(rng.below(10)); mode = mode < 3 ? 0 : (mode < 5 ? 1 : (mode < 8 ? 2 : 3));
    if(edge >= 0) mode = int((edge / 15) % 4);
    XPattern xp = gen_xpattern(rng, P, mode, vstyle);
    if(edge >= 0 && (edge / 60) % 5 == 4)
    {
      // entry-free output matrix
      xp.x.t.clear(); xp.x.tags.clear(); xp.x.classify(); xp.tags.clear(); xp.incomplete = false;
      for(char p : P.pat) if(p) xp.incomplete = true;
      if(mode <= 1 && xp.incomplete) mode = 2;
    }
    if(mode == 1 && std::find(xp.tags.begin(), xp.tags.end(), "superset_impossible") != xp.tags.end()) { mode = 0; xp.tags.clear(); }
    if(mode == 3 && !xp.incomplete) mode = 0;         // nothing could be removed (empty product): complete pattern after all
    if(mode == 2 && !xp.incomplete) mode = xp.tags.empty() ? 0 : 1;
    const bool allow = mode == 2 ? true : (mode == 3 ? false : rng.coin(0.5)); // complete patterns: both flag values must work
    static const char* mn[] = {"x:exact", "x:superset", "x:incomplete_allowed", "x:incomplete_forbidden"};
    c.tag(mn[mode]); c.tag(allow ? "allow_incomplete:1" : "allow_incomplete:0");
    for(auto& t : xp.tags) c.tag(t);
    role_tags(c, "d", D); if(which == 1) role_tags(c, "a", A); role_tags(c, "b", B); role_tags(c, "x", xp.x);
    if(alias_db) c.tag("alias:d==b");
    if(edge >= 0) c.tag("edge_corpus");
    c.tag(std::string("dt:") + vl::dt_name<DT>()); c.tag(std::string("it:") + vl::it_name<IT>());
    c.tag("vstyle:" + std::to_string(vstyle));
    {
      vh::J j; j.kv("op", op).kv("alpha", alpha).kv("allow_incomplete", allow).kv("mode", mode).raw("D", D.describe(30));
      if(which == 1) j.raw("A", A.describe(30));
      if(which == 2) j.raw("a", vh::jarr(adiag, 30));
      j.raw("B", B.describe(30)).raw("X", xp.x.describe(30));
      c.desc = j.str();
    }
    const MatSpec& X = xp.x;
    const bool risky = D.t.empty() || B.t.empty() || X.t.empty() || (which == 1 && A.t.empty());

    c.set_op(op);
    Mat d = vl::make_csr<DT, IT>(D), b0;
    if(!alias_db) b0 = vl::make_csr<DT, IT>(B);
    Mat& b = alias_db ? d : b0;
    Mat a; Vec av;
    if(which == 1) a = vl::make_csr<DT, IT>(A);
    if(which == 2) av = vl::make_dv<DT, IT>(adiag);
    Mat x = vl::make_csr<DT, IT>(X);
    auto call = [&]()
    {
      switch(which)
      {
      case 0: x.add_mat_mat_product(d, b, DT(alpha), allow); break;
      case 1: x.add_double_mat_product(d, a, b, DT(alpha), allow); break;
      default: x.add_double_mat_product(d, av, b, DT(alpha), allow); break;
      }
    };

    if(mode == 3)
    {
      // incomplete pattern with allow_incomplete=false: the call must be refused loudly
      warm_symbolizer();
      vh::ForkResult r = vh::run_forked(call);
      c.event(); c.count("expected_abort_cases");
      if(r.clean())
        c.viol(op, "silent-incomplete", vh::J().kv("why", "call returned normally although product entries are missing in the output pattern and allow_incomplete=false").str());
      else if(!r.err_has("Incomplete output matrix structure"))
        c.viol(op, crash_kind(r), vh::J().kv("expected", "abort with 'Incomplete output matrix structure'").kv("stderr", tail(r.err)).str());
      return;
    }

    Purity pu(c, op); pu.add("d", d); if(!alias_db) pu.add("b", b0); if(which == 1) pu.add("a", a); if(which == 2) pu.add("a", av); pu.add_layout("this", x);
    if(risky && !probe(c, op, call)) return;
    call(); c.event();
    pu.check();
    // result: x0 + product restricted to the pattern of X
    int budget = 6;
    const DT* xv = x.val();
    for(Index p = 0; p < X.nnz(); ++p)
    {
      const Index i = X.t[p].r, j = X.t[p].c; const std::size_t q = std::size_t(i) * P.cols + j;
      const LD x0 = (LD)DT(X.t[p].v);
      if(P.n[q] == 0) cmp_exact<DT>(c, op, "entry outside the product pattern", xv[p], x0, i, j, budget);
      else cmp<DT>(c, op, "entry", xv[p], x0 + P.v[q], std::fabs(x0) + P.s[q], P.n[q] + 1, i, j, budget);
    }
  }
} // namespace c03
