// explicit instantiation of the bcsr_elem dispatcher for <double, std::uint64_t>
#include "bcsr_elem.hpp"
namespace c03 { template void bcsr_elem_dispatch<double, std::uint64_t>(vh::Ctx&, long, int); }
