// explicit instantiation of the bcsr_prod dispatcher for <double, std::uint32_t>
#include "bcsr_prod.hpp"
namespace c03 { template void bcsr_prod_dispatch<double, std::uint32_t>(vh::Ctx&, long, int); }
