// C11 -- mesh/config files round-trip; malformed input is rejected without crashing.
// Shape-independent part: structural model of a mesh node (filled by the shape TUs through the
// *public* FEAT API), type-erased node handles, outcome of one parse, the comparer.
#pragma once
#include <common/vh.hpp>
#include <memory>
#include <string>
#include <vector>
#include <cstdint>

namespace c11
{
  typedef std::uint64_t Idx;

  // ------------------------------------------------------------------ structural model
  struct IdxSet
  {
    int cell_dim = 0, face_dim = 0, nidx = 0;
    Idx n = 0, bound = 0;
    std::vector<Idx> v; // n * nidx
  };
  struct AttrModel { std::string name; int dim = 0; Idx n = 0; std::vector<double> v; };
  struct PartModel
  {
    std::string name, chart;
    bool has_topo = false, chart_linked = false;
    int shape_dim = 0;
    Idx num[4] = {0, 0, 0, 0};
    std::vector<Idx> trg[4];
    std::vector<IdxSet> topo;
    std::vector<AttrModel> attrs;
  };
  struct ChartModel { std::string name, type; std::vector<std::string> tokens; bool can_explicit = false; };
  struct PartitionModel
  {
    std::string name; int prio = 0, level = 0; Idx nranks = 0, nelems = 0;
    std::vector<std::vector<Idx>> patches;
  };
  struct NodeModel
  {
    bool has_mesh = false;
    int shape_dim = 0, world_dim = 0;
    Idx num[4] = {0, 0, 0, 0};
    std::vector<double> coords; // num[0] * world_dim
    std::vector<IdxSet> topo;   // all <cell_dim, face_dim> index sets
    std::vector<PartModel> parts;
    std::vector<ChartModel> charts;
    std::vector<PartitionModel> partitions;
  };

  struct WriteOpts { int precision = 0; bool indent = true; bool scientific = false; };

  // ------------------------------------------------------------------ type-erased node
  class NodeHandle
  {
  public:
    virtual ~NodeHandle() {}
    virtual int shape_id() const = 0;
    virtual std::string write(const WriteOpts&) const = 0;
    virtual void model(NodeModel&) const = 0;
    // problems found by the structural-validity monitor (empty = valid)
    virtual std::vector<std::string> validate() const = 0;
    // refined once (AdaptMode::none); partitions and atlas are shared
    virtual std::unique_ptr<NodeHandle> refine() const = 0;
    virtual bool has_mesh() const = 0;
  };

  // ------------------------------------------------------------------ outcome of one parse
  enum class Status { accepted, rejected, resource, foreign, redispatch, unsupported };
  struct Outcome
  {
    Status status = Status::rejected;
    std::string ex_class;  // xml-syntax | xml-grammar | xml-content | xml-error | linker | feat-exception | bad_alloc | length_error | <typeid>
    std::string what;
    std::string typestr;   // mesh type string of the root markup
    std::unique_ptr<NodeHandle> node;
  };

  enum { SH_QUAD = 0, SH_TRIA = 1, SH_HEXA = 2, SH_TETRA = 3, SH_COUNT = 4 };

  struct GenOpts { bool thorough = false; bool with_surface_mesh = true; int max_cells_1d = 0; };

  struct ShapeOps
  {
    const char* name;     // quad ...
    const char* typestr;  // conformal:hypercube:2:2 ...
    // parses 'text' as this shape; Status::redispatch if the root markup names another mesh type
    // 'extra' (may be null) = text of a companion file (charts) that is read as a first stream
    void (*parse)(const std::string& text, const std::string* extra, Outcome& out);
    // generator-made node (mesh + harness-made parts + charts + partitions); appends class tags
    std::unique_ptr<NodeHandle> (*generate)(vh::Rng& rng, const GenOpts& o, std::vector<std::string>& tags);
  };
  const ShapeOps& ops(int shape_id);
  int shape_of_typestr(const std::string& ts); // -1 if unsupported

  // parse with re-dispatch on the root markup's mesh type (what applications do); hint = shape to use if the
  // root markup carries no mesh type
  void parse_any(const std::string& text, int hint_shape, Outcome& out, const std::string* extra = nullptr);

  // ------------------------------------------------------------------ comparer (harness-side)
  // compares the model of the written node (a) with the model of the parsed node (b); reals must agree to the
  // printed precision (prec significant digits); everything else exactly. Returns descriptions of differences.
  std::vector<std::string> compare_models(const NodeModel& a, const NodeModel& b, int prec);
  std::vector<std::string> model_tags(const NodeModel& m);
  std::string model_desc(const NodeModel& m);

  // allocation guard statistics (alloc.cpp)
  std::uint64_t big_alloc_refusals();

  void warm_symbolizer();
} // namespace c11
