// C11 -- shape-independent helpers: shape table, re-dispatching parse, structural comparer, tags.
#include "c11.hpp"
#include <cmath>
#include <cstring>
#include <dlfcn.h>
#include <execinfo.h>

#if defined(__SANITIZE_ADDRESS__)
extern "C" void __sanitizer_print_stack_trace(void);
#elif defined(__has_feature)
#if __has_feature(address_sanitizer)
#define C11_CLANG_ASAN 1
extern "C" void __sanitizer_print_stack_trace(void);
#endif
#endif

namespace c11
{
  extern const ShapeOps ops_quad, ops_tria, ops_hexa, ops_tetra;

  const ShapeOps& ops(int sid)
  {
    switch(sid)
    {
    case SH_QUAD: return ops_quad;
    case SH_TRIA: return ops_tria;
    case SH_HEXA: return ops_hexa;
    default: return ops_tetra;
    }
  }
  int shape_of_typestr(const std::string& ts)
  {
    for(int i = 0; i < SH_COUNT; ++i) if(ts == ops(i).typestr) return i;
    return -1;
  }

  void parse_any(const std::string& text, int hint, Outcome& out, const std::string* extra)
  {
    if(hint < 0 || hint >= SH_COUNT) hint = SH_QUAD;
    ops(hint).parse(text, extra, out);
    if(out.status != Status::redispatch) return;
    int s = shape_of_typestr(out.typestr);
    if(s < 0) { out.status = Status::unsupported; return; }
    std::string ts = out.typestr;
    ops(s).parse(text, extra, out);
    if(out.status == Status::redispatch) { out.status = Status::unsupported; out.typestr = ts; }
  }

  // ------------------------------------------------------------------ comparer
  static bool close_real(double a, double b, int prec, double scale = 0.0)
  {
    if(a == b) return true;
    if(!(a == a) || !(b == b)) return false;
    if(prec <= 0) prec = 6;
    double m = std::fabs(a);
    double tol = 0.0;
    if(m > 0.0) tol = std::pow(10.0, std::floor(std::log10(m)) - double(prec) + 1.0);
    tol += 4.0 * 2.220446049250313e-16 * std::max(m, scale) + 5e-324;
    return std::fabs(a - b) <= tol;
  }
  static bool is_number(const std::string& s, double& v)
  {
    if(s.empty()) return false;
    char* e = nullptr; v = std::strtod(s.c_str(), &e);
    return e != nullptr && *e == 0 && e != s.c_str();
  }

  static void cmp_topo(const std::string& where, const std::vector<IdxSet>& a, const std::vector<IdxSet>& b, std::vector<std::string>& d)
  {
    if(a.size() != b.size()) { d.push_back("[" + where + "-topo] " + where + ": number of index sets differs"); return; }
    for(std::size_t i = 0; i < a.size(); ++i)
    {
      const IdxSet& x = a[i]; const IdxSet& y = b[i];
      std::string w = "[" + where + "-topo<" + std::to_string(x.cell_dim) + "," + std::to_string(x.face_dim) + ">] " + where + " index set <" + std::to_string(x.cell_dim) + "," + std::to_string(x.face_dim) + ">";
      if(x.n != y.n || x.nidx != y.nidx) { d.push_back(w + ": entity count " + std::to_string(x.n) + " vs " + std::to_string(y.n)); continue; }
      if(x.bound != y.bound) d.push_back(w + ": index bound " + std::to_string(x.bound) + " vs " + std::to_string(y.bound));
      for(std::size_t k = 0; k < x.v.size(); ++k)
        if(x.v[k] != y.v[k]) { d.push_back(w + ": entity " + std::to_string(k / std::size_t(x.nidx)) + " local " + std::to_string(k % std::size_t(x.nidx)) + ": " + std::to_string(x.v[k]) + " vs " + std::to_string(y.v[k])); break; }
    }
  }

  std::vector<std::string> compare_models(const NodeModel& a, const NodeModel& b, int prec)
  {
    std::vector<std::string> d;
    if(a.has_mesh != b.has_mesh) { d.push_back("[mesh] root mesh presence differs"); return d; }
    if(a.shape_dim != b.shape_dim || a.world_dim != b.world_dim) d.push_back("[mesh] dimensions differ");
    if(a.has_mesh)
    {
      for(int k = 0; k < 4; ++k) if(a.num[k] != b.num[k]) d.push_back("[mesh-counts] mesh: entity count dim " + std::to_string(k) + ": " + std::to_string(a.num[k]) + " vs " + std::to_string(b.num[k]));
      if(a.coords.size() != b.coords.size()) d.push_back("[mesh-coords] mesh: coordinate count differs");
      else for(std::size_t i = 0; i < a.coords.size(); ++i)
        if(!close_real(a.coords[i], b.coords[i], prec))
        { d.push_back("[mesh-coords] mesh: vertex " + std::to_string(i / std::size_t(a.world_dim)) + " coord " + std::to_string(i % std::size_t(a.world_dim)) + ": " + vh::jnum(a.coords[i]) + " vs " + vh::jnum(b.coords[i])); break; }
      cmp_topo("mesh", a.topo, b.topo, d);
    }
    // mesh parts
    if(a.parts.size() != b.parts.size()) d.push_back("[parts] number of mesh parts: " + std::to_string(a.parts.size()) + " vs " + std::to_string(b.parts.size()));
    for(std::size_t i = 0; i < a.parts.size() && i < b.parts.size(); ++i)
    {
      const PartModel& x = a.parts[i]; const PartModel& y = b.parts[i];
      std::string w = "[part] meshpart '" + x.name + "'";
      if(x.name != y.name) { d.push_back(w + ": name vs '" + y.name + "'"); continue; }
      if(x.chart != y.chart) d.push_back(w + ": chart name '" + x.chart + "' vs '" + y.chart + "'");
      if(x.chart_linked != y.chart_linked) d.push_back(w + ": chart link differs");
      if(x.has_topo != y.has_topo) d.push_back(w + ": topology presence differs");
      for(int k = 0; k <= x.shape_dim; ++k)
      {
        if(x.num[k] != y.num[k]) d.push_back(w + ": entity count dim " + std::to_string(k));
        if(x.trg[k] != y.trg[k]) d.push_back(w + ": target set dim " + std::to_string(k) + " differs");
      }
      if(x.has_topo && y.has_topo) cmp_topo("part", x.topo, y.topo, d);
      if(x.attrs.size() != y.attrs.size()) { d.push_back(w + ": attribute count " + std::to_string(x.attrs.size()) + " vs " + std::to_string(y.attrs.size())); continue; }
      for(std::size_t k = 0; k < x.attrs.size(); ++k)
      {
        const AttrModel& p = x.attrs[k]; const AttrModel& q = y.attrs[k];
        if(p.name != q.name || p.dim != q.dim || p.n != q.n || p.v.size() != q.v.size()) { d.push_back(w + ": attribute '" + p.name + "' header differs"); continue; }
        for(std::size_t j = 0; j < p.v.size(); ++j)
          if(!close_real(p.v[j], q.v[j], prec)) { d.push_back(w + ": attribute '" + p.name + "' value " + std::to_string(j) + ": " + vh::jnum(p.v[j]) + " vs " + vh::jnum(q.v[j])); break; }
      }
    }
    // charts
    if(a.charts.size() != b.charts.size()) d.push_back("[charts] number of charts: " + std::to_string(a.charts.size()) + " vs " + std::to_string(b.charts.size()));
    for(std::size_t i = 0; i < a.charts.size() && i < b.charts.size(); ++i)
    {
      const ChartModel& x = a.charts[i]; const ChartModel& y = b.charts[i];
      std::string w = "[chart:" + x.type + "] chart '" + x.name + "'";
      if(x.name != y.name) { d.push_back(w + ": name vs '" + y.name + "'"); continue; }
      if(x.type != y.type) { d.push_back(w + ": type " + x.type + " vs " + y.type); continue; }
      if(x.can_explicit != y.can_explicit) d.push_back(w + ": can_explicit differs");
      if(x.tokens.size() != y.tokens.size()) { d.push_back(w + ": parameter count differs"); continue; }
      double scale = 0.0, v = 0.0, u = 0.0;
      for(auto& t : x.tokens) if(is_number(t, v)) scale = std::max(scale, std::fabs(v));
      for(std::size_t k = 0; k < x.tokens.size(); ++k)
      {
        bool na = is_number(x.tokens[k], v), nb = is_number(y.tokens[k], u);
        if(na != nb || (!na && x.tokens[k] != y.tokens[k]) || (na && !close_real(v, u, prec, scale)))
        { d.push_back(w + ": token " + std::to_string(k) + ": '" + x.tokens[k] + "' vs '" + y.tokens[k] + "'"); break; }
      }
    }
    // partitions
    if(a.partitions.size() != b.partitions.size()) d.push_back("[partitions] number of partitions differs");
    for(std::size_t i = 0; i < a.partitions.size() && i < b.partitions.size(); ++i)
    {
      const PartitionModel& x = a.partitions[i]; const PartitionModel& y = b.partitions[i];
      std::string w = "[partitions] partition #" + std::to_string(i) + " '" + x.name + "'";
      if(x.name != y.name) d.push_back(w + ": name vs '" + y.name + "'");
      if(x.prio != y.prio) d.push_back(w + ": priority");
      if(x.level != y.level) d.push_back(w + ": level");
      if(x.nranks != y.nranks || x.nelems != y.nelems) d.push_back(w + ": sizes");
      if(x.patches != y.patches) d.push_back(w + ": patches differ");
    }
    if(d.size() > 12) d.resize(12);
    return d;
  }

  static const char* bucket(std::size_t n)
  {
    if(n == 0) return "0"; if(n == 1) return "1"; if(n <= 4) return "2-4"; if(n <= 16) return "5-16"; if(n <= 256) return "17-256"; return ">256";
  }
  std::vector<std::string> model_tags(const NodeModel& m)
  {
    std::vector<std::string> t;
    auto add = [&](const std::string& s) { if(std::find(t.begin(), t.end(), s) == t.end()) t.push_back(s); };
    add(m.has_mesh ? "mesh" : "nomesh");
    if(m.has_mesh) add(std::string("cells:") + bucket(std::size_t(m.num[m.shape_dim])));
    add(std::string("parts:") + bucket(m.parts.size()));
    bool topo = false, attr = false, linked = false, empty = false;
    for(auto& p : m.parts) { topo |= p.has_topo; attr |= !p.attrs.empty(); linked |= !p.chart.empty(); empty |= (p.num[0] == 0); }
    if(topo) add("part-topology"); if(attr) add("attributes"); if(linked) add("part-chart-link"); if(empty) add("empty-part");
    for(auto& c : m.charts)
    {
      std::string s = "chart:" + c.type;
      for(auto& tk : c.tokens)
        for(const char* f : {"domain", "angles", "origin", "offset", "Params", "orientation", "Circle", "Bezier"})
          if(tk == f && (c.type == "extrude" || (std::strcmp(f, "Circle") != 0 && std::strcmp(f, "Bezier") != 0))) { std::string x = std::string("+") + f; if(s.find(x) == std::string::npos) s += x; }
      add(s);
    }
    if(!m.partitions.empty()) add(std::string("partitions:") + bucket(m.partitions.size()));
    return t;
  }
  std::string model_desc(const NodeModel& m)
  {
    vh::J j;
    j.kv("has_mesh", m.has_mesh).kv("shape_dim", m.shape_dim).kv("verts", (unsigned long long)m.num[0]).kv("cells", (unsigned long long)m.num[m.shape_dim]);
    vh::J pa('['); for(auto& p : m.parts) pa.add(p.name + (p.has_topo ? "[topo]" : "") + (p.chart.empty() ? "" : "->" + p.chart));
    vh::J ch('['); for(auto& c : m.charts) ch.add(c.name + ":" + c.type);
    j.raw("parts", pa.str()).raw("charts", ch.str()).kv("partitions", (unsigned long long)m.partitions.size());
    return j.str();
  }

  // ------------------------------------------------------------------ symbolizer warm-up (before the first fork)
  void warm_symbolizer()
  {
    static bool done = false;
    if(done) return;
    done = true;
#if defined(__SANITIZE_ADDRESS__) || defined(C11_CLANG_ASAN)
    std::fflush(stderr);
    int save = dup(2), nul = open("/dev/null", O_WRONLY);
    if(save >= 0 && nul >= 0)
    {
      dup2(nul, 2);
      __sanitizer_print_stack_trace();
      if(void* h = dlopen("libubsan.so.1", RTLD_LAZY | RTLD_NOLOAD))
      {
        typedef void (*fn_t)(void*, const char*, char*, std::size_t);
        char buf[256];
        if(fn_t f = (fn_t)dlsym(h, "__sanitizer_symbolize_pc")) f((void*)&warm_symbolizer, "%f", buf, sizeof(buf));
      }
      try { throw 1; } catch(int) {}
      void* bt[8]; int nb = backtrace(bt, 8); char** sy = backtrace_symbols(bt, nb); if(sy) std::free(sy);
      dup2(save, 2);
    }
    if(save >= 0) close(save);
    if(nul >= 0) close(nul);
#endif
  }
} // namespace c11
