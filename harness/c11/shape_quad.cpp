#include "shape_impl.hpp"
C11_DEFINE_SHAPE(0, quad, "conformal:hypercube:2:2", FEAT::Shape::Hypercube<2>, 2)
