// C11 -- allocation-size guard (DESIGN 6.11): a tiny file may declare an absurd entity count; the reader allocates
// before reading the lines and ASan/libFuzzer would abort on the allocation size. No clause of C11 speaks about
// allocation size, so global operator new is malloc-backed here and throws std::bad_alloc above the cap; such
// parses are counted as rejected-by-resource-limit. (run with ASAN_OPTIONS=alloc_dealloc_mismatch=0)
#include <cstdlib>
#include <cstdint>
#include <new>
#include <atomic>

#ifndef C11_NEW_CAP_MB
#define C11_NEW_CAP_MB 1024
#endif

namespace c11
{
  static std::atomic<std::uint64_t> g_refusals(0);
  std::uint64_t big_alloc_refusals() { return g_refusals.load(); }
}

static inline void* c11_alloc(std::size_t n)
{
  if(n > (std::size_t(C11_NEW_CAP_MB) << 20)) { ++c11::g_refusals; throw std::bad_alloc(); }
  void* p = std::malloc(n ? n : 1);
  if(!p) { ++c11::g_refusals; throw std::bad_alloc(); }
  return p;
}
static inline void* c11_alloc_nt(std::size_t n) noexcept
{
  if(n > (std::size_t(C11_NEW_CAP_MB) << 20)) { ++c11::g_refusals; return nullptr; }
  return std::malloc(n ? n : 1);
}
static inline void* c11_alloc_al(std::size_t n, std::size_t al)
{
  if(n > (std::size_t(C11_NEW_CAP_MB) << 20)) { ++c11::g_refusals; throw std::bad_alloc(); }
  void* p = nullptr;
  if(al < sizeof(void*)) al = sizeof(void*);
  if(posix_memalign(&p, al, n ? n : 1) != 0 || !p) { ++c11::g_refusals; throw std::bad_alloc(); }
  return p;
}

void* operator new(std::size_t n) { return c11_alloc(n); }
void* operator new[](std::size_t n) { return c11_alloc(n); }
void* operator new(std::size_t n, const std::nothrow_t&) noexcept { return c11_alloc_nt(n); }
void* operator new[](std::size_t n, const std::nothrow_t&) noexcept { return c11_alloc_nt(n); }
void* operator new(std::size_t n, std::align_val_t a) { return c11_alloc_al(n, std::size_t(a)); }
void* operator new[](std::size_t n, std::align_val_t a) { return c11_alloc_al(n, std::size_t(a)); }
void operator delete(void* p) noexcept { std::free(p); }
void operator delete[](void* p) noexcept { std::free(p); }
void operator delete(void* p, std::size_t) noexcept { std::free(p); }
void operator delete[](void* p, std::size_t) noexcept { std::free(p); }
void operator delete(void* p, const std::nothrow_t&) noexcept { std::free(p); }
void operator delete[](void* p, const std::nothrow_t&) noexcept { std::free(p); }
void operator delete(void* p, std::align_val_t) noexcept { std::free(p); }
void operator delete[](void* p, std::align_val_t) noexcept { std::free(p); }
void operator delete(void* p, std::size_t, std::align_val_t) noexcept { std::free(p); }
void operator delete[](void* p, std::size_t, std::align_val_t) noexcept { std::free(p); }
