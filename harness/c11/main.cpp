// C11 -- families: roundtrip (mesh nodes: write -> parse -> compare -> write, byte identical),
// pmap_roundtrip (PropertyMap write/read), graph_roundtrip (Graph::serialize / Graph(buffer)),
// mutants (seeded mutation engine over valid mesh / INI texts, each parse in a forked child under a CPU budget).
#include "c11.hpp"
#include "mutate.hpp"
#include <kernel/runtime.hpp>
#include <kernel/util/property_map.hpp>
#include <kernel/adjacency/graph.hpp>
#include <dirent.h>
#include <sys/stat.h>
#include <fstream>
#include <sstream>
#include <csignal>
#include <typeinfo>
#include <cerrno>

using namespace c11;

namespace
{
  // ------------------------------------------------------------------ corpus
  struct CorpusFile { std::string name, path; std::size_t size = 0; };
  const std::vector<CorpusFile>& corpus()
  {
    static std::vector<CorpusFile> v; static bool done = false;
    if(done) return v;
    done = true;
    const char* repo = std::getenv("VERIF_REPO");
    std::string dir = std::string(repo ? repo : "/repo") + "/data/meshes";
    if(DIR* dp = opendir(dir.c_str()))
    {
      while(dirent* e = readdir(dp))
      {
        std::string n = e->d_name;
        if(n.size() < 5 || n.substr(n.size() - 4) != ".xml") continue;
        struct stat st; std::string p = dir + "/" + n;
        if(stat(p.c_str(), &st) != 0) continue;
        v.push_back({n, p, std::size_t(st.st_size)});
      }
      closedir(dp);
    }
    std::sort(v.begin(), v.end(), [](const CorpusFile& a, const CorpusFile& b) { return a.name < b.name; });
    return v;
  }
  std::string slurp(const std::string& path)
  {
    std::ifstream f(path, std::ios::binary); std::ostringstream s; s << f.rdbuf(); return s.str();
  }
  int hint_of_text(const std::string& t)
  {
    if(t.find("<SurfaceMesh") != std::string::npos || t.find("<Sphere") != std::string::npos || t.find("<Extrude") != std::string::npos) return SH_HEXA;
    return SH_QUAD;
  }

  // ------------------------------------------------------------------ roundtrip case list
  struct RtCase { int file = -1; bool refined = false; int variant = 0; };
  const std::vector<RtCase>& rt_corpus_cases()
  {
    static std::vector<RtCase> v; static bool done = false;
    if(done) return v;
    done = true;
    const auto& c = corpus();
    const bool th = vh::thorough();
    for(int i = 0; i < int(c.size()); ++i)
    {
      if(!th && c[std::size_t(i)].size > (2u << 20)) continue;
      const int nplain = th ? 3 : 1;
      for(int k = 0; k < nplain; ++k) v.push_back({i, false, k});
      const std::size_t lim = th ? (400u << 10) : (130u << 10);
      if(c[std::size_t(i)].size <= lim) for(int k = 0; k < (th ? 2 : 1); ++k) v.push_back({i, true, k});
    }
    return v;
  }
  std::uint64_t rt_generated() { return vh::thorough() ? 6000 : 220; }

  WriteOpts pick_opts(vh::Rng& r)
  {
    WriteOpts o;
    o.precision = r.pick({0, 0, 9, 12, 16, 17});
    o.indent = r.coin(0.7);
    o.scientific = (o.precision != 0 && o.precision < 17 && r.coin(0.1));
    return o;
  }
  std::string first_diff(const std::string& a, const std::string& b)
  {
    std::size_t i = 0; while(i < a.size() && i < b.size() && a[i] == b[i]) ++i;
    std::size_t ln = 1; for(std::size_t k = 0; k < i && k < a.size(); ++k) if(a[k] == '\n') ++ln;
    auto ctx = [&](const std::string& s) { std::size_t s0 = s.rfind('\n', i ? i - 1 : 0); s0 = (s0 == std::string::npos) ? 0 : s0 + 1; std::size_t e = s.find('\n', i); if(e == std::string::npos) e = s.size(); return s.substr(s0, std::min<std::size_t>(e - s0, 200)); };
    return vh::J().kv("byte", (unsigned long long)i).kv("line", (unsigned long long)ln).kv("len_first", (unsigned long long)a.size()).kv("len_second", (unsigned long long)b.size())
      .kv("first", ctx(a)).kv("second", ctx(b)).str();
  }

  // the monitored chain for one node
  void roundtrip_node(vh::Ctx& c, const NodeHandle& h0, const WriteOpts& o)
  {
    const int prec = o.precision > 0 ? o.precision : 6;
    c.set_op("mesh.write");
    std::string A = h0.write(o);
    c.event();
    NodeModel M0; h0.model(M0);
    if(c.verbose()) std::printf("--- first output (%zu bytes) ---\n%s\n", A.size(), A.size() < 6000 ? A.c_str() : "(large)");
    c.set_op("mesh.parse");
    Outcome out; parse_any(A, h0.shape_id(), out);
    c.event();
    if(out.status != Status::accepted)
    {
      c.viol("mesh.parse", "own-output-rejected", vh::J().kv("status", int(out.status)).kv("exception", out.ex_class).kv("what", out.what).str());
      return;
    }
    NodeModel M1; out.node->model(M1);
    auto diffs = compare_models(M0, M1, prec);
    c.event();
    if(!diffs.empty())
    {
      vh::J a('['); for(auto& s : diffs) a.add(s);
      // which components differ (input-independent class of the failure, matched by known findings)
      std::set<std::string> cats; for(auto& s : diffs) { std::size_t e = s.find("] "); if(s[0] == '[' && e != std::string::npos) cats.insert(s.substr(1, e - 1)); }
      std::string all; for(auto& s : cats) { if(!all.empty()) all += "+"; all += s; }
      c.viol("mesh.roundtrip", "structure-differs", vh::J().raw("differences", a.str()).kv("precision", prec).str(), {"differs:" + all});
    }
    auto bad = out.node->validate();
    if(!bad.empty()) { vh::J a('['); for(auto& s : bad) a.add(s); c.viol("mesh.parse", "accepted-invalid", vh::J().raw("problems", a.str()).str()); }
    c.set_op("mesh.rewrite");
    std::string B = out.node->write(o);
    c.event();
    if(A != B) c.viol("mesh.rewrite", "not-byte-identical", first_diff(A, B));
    c.count("bytes_written", A.size());
  }
}

VH_COUNT(roundtrip) { return std::uint64_t(rt_corpus_cases().size()) + rt_generated(); }

VH_FAMILY(roundtrip)
{
  const auto& cases = rt_corpus_cases();
  WriteOpts o = pick_opts(c.rng);
  std::unique_ptr<NodeHandle> h;
  std::string src;
  if(c.k < cases.size())
  {
    const RtCase& rc = cases[c.k];
    const CorpusFile& f = corpus()[std::size_t(rc.file)];
    src = f.name;
    c.tag("src:corpus");
    c.set_op("mesh.parse");
    std::string text = slurp(f.path);
    Outcome out; parse_any(text, hint_of_text(text), out);
    c.event();
    if(out.status == Status::rejected && out.ex_class == "linker")
    {
      // the mesh parts refer to charts that live in a companion file: read that one as a first stream
      for(const auto& cf : corpus())
      {
        if(cf.name.find("_chart_") == std::string::npos || cf.size > (vh::thorough() ? (4u << 20) : (200u << 10))) continue;
        std::string extra = slurp(cf.path);
        Outcome o2; parse_any(text, hint_of_text(text + extra), o2, &extra);
        c.event();
        if(o2.status == Status::accepted) { out = std::move(o2); src += "+" + cf.name; c.tag("two-streams"); break; }
      }
    }
    if(out.status != Status::accepted)
    {
      c.inconclusive("shipped file " + f.name + " not accepted by the reader: " + out.ex_class + " " + out.what);
      c.trivial = true; return;
    }
    h = std::move(out.node);
    c.tag(std::string("shape:") + ops(h->shape_id()).name);
    if(rc.refined && h->has_mesh()) { c.tag("refined"); c.set_op("node.refine"); h = h->refine(); }
  }
  else
  {
    const std::uint64_t g = c.k - cases.size();
    const int sid = int(g % SH_COUNT);
    c.tag("src:gen"); c.tag("topo:from_top");
    c.tag(std::string("shape:") + ops(sid).name);
    std::vector<std::string> gt;
    GenOpts go; go.thorough = c.thorough();
    c.set_op("node.generate");
    h = ops(sid).generate(c.rng, go, gt);
    for(auto& t : gt) c.tag("g:" + t);
    src = "generated";
    if(c.rng.coin(0.35)) { c.tag("refined"); c.set_op("node.refine"); h = h->refine(); }
  }
  c.tag(std::string("shape:") + ops(h->shape_id()).name);
  c.tag("prec:" + std::to_string(o.precision > 0 ? o.precision : 6) + (o.precision > 0 ? "" : "d"));
  c.tag(o.indent ? "indent" : "noindent");
  if(o.scientific) c.tag("scientific");
  {
    NodeModel M; h->model(M);
    for(auto& t : model_tags(M)) c.tag(t);
    // charts whose written parameters are re-derived from a transformed internal representation
    if((o.precision >= 15)) c.tag("hiprec");
    for(auto& ch : M.charts) for(auto& tk : ch.tokens) { if(tk == "angles") c.tag("extrude-angles"); if(tk == "domain") c.tag("circle-domain"); }
    c.desc = vh::J().kv("source", src).kv("shape", ops(h->shape_id()).name).kv("precision", o.precision).kv("indent", o.indent).kv("scientific", o.scientific)
      .raw("node", model_desc(M)).str();
    // class signature: what the node contains, not how big it is
    std::string sig = std::string("rt|") + ops(h->shape_id()).name;
    for(auto& t : c.tags) if(t.rfind("chart:", 0) == 0 || t == "refined" || t.rfind("prec:", 0) == 0 || t == "part-topology" || t == "attributes" || t.rfind("partitions", 0) == 0 || t == "noindent" || t == "nomesh" || t == "scientific" || t == "src:gen") sig += "|" + t;
    c.sig = sig;
  }
  roundtrip_node(c, *h, o);
}

// ====================================================================== PropertyMap
namespace
{
  struct PmSpec
  {
    std::map<std::string, std::pair<std::string, std::string>> entries;   // lower(key) -> (key, value)
    std::map<std::string, std::pair<std::string, std::unique_ptr<PmSpec>>> sections; // lower(name) -> (name, sub)
  };
  std::string lower(std::string s) { for(auto& ch : s) ch = char(std::tolower((unsigned char)ch)); return s; }
  // characters the documented INI format can carry: printable ASCII; '#' starts a comment; a key ends at the first '='
  std::string rnd_text(vh::Rng& r, int minlen, int maxlen, const char* forbidden, bool odd)
  {
    static const char plain[] = "abcdefghijklmnopqrstuvwxyzABCDEFGHIJKLMNOPQRSTUVWXYZ0123456789_";
    static const char oddc[] = " \t-.:;,/\\()<>|!~*+?$%^'\"`@[]{}&=";
    int n = int(r.range(minlen, maxlen)); std::string s;
    for(int i = 0; i < n; ++i)
    {
      char ch = (odd && r.coin(0.3)) ? oddc[r.below(sizeof(oddc) - 1)] : plain[r.below(sizeof(plain) - 1)];
      if(std::strchr(forbidden, ch) != nullptr) ch = 'x';
      s += ch;
    }
    // both ends are trimmed by the parser: no whitespace there
    while(!s.empty() && (s.front() == ' ' || s.front() == '\t')) s.erase(s.begin());
    while(!s.empty() && (s.back() == ' ' || s.back() == '\t')) s.pop_back();
    return s;
  }
  std::string rnd_key(vh::Rng& r, bool odd)
  {
    for(;;)
    {
      std::string s = rnd_text(r, 1, 12, "=#", odd);
      if(s.empty()) continue;
      if(s.front() == '[' || s.front() == '@' || s == "{" || s == "}") continue; // would read as a section marker / keyword / brace
      return s;
    }
  }
  std::string rnd_value(vh::Rng& r, bool odd)
  {
    if(r.coin(0.1)) return "";
    for(;;)
    {
      std::string s = rnd_text(r, 0, 24, "#", odd);
      if(!s.empty() && s.back() == '&') continue; // would be a line continuation
      return s;
    }
  }
  std::string rnd_section(vh::Rng& r, bool odd)
  {
    for(;;) { std::string s = rnd_text(r, 1, 10, "#", odd); if(!s.empty()) return s; }
  }
  void gen_pm(vh::Rng& r, FEAT::PropertyMap& pm, PmSpec& sp, int depth, bool odd, int& nent, int& nsec, int& maxdepth)
  {
    maxdepth = std::max(maxdepth, depth);
    int ne = int(r.below(6));
    for(int i = 0; i < ne; ++i)
    {
      std::string k = rnd_key(r, odd), v = rnd_value(r, odd);
      if(r.coin(0.1) && !sp.entries.empty()) { k = sp.entries.begin()->second.first; for(auto& ch : k) if(r.coin()) ch = char(std::toupper((unsigned char)ch)); } // same key, other case
      pm.add_entry(k, v);
      auto it = sp.entries.find(lower(k));
      if(it == sp.entries.end()) sp.entries[lower(k)] = {k, v}; else it->second.second = v;
      ++nent;
    }
    if(depth >= 3) return;
    int ns = int(r.below(depth == 0 ? 4 : 3));
    for(int i = 0; i < ns; ++i)
    {
      std::string n = rnd_section(r, odd);
      FEAT::PropertyMap* sub = pm.add_section(n);
      auto it = sp.sections.find(lower(n));
      if(it == sp.sections.end()) { sp.sections[lower(n)] = {n, std::unique_ptr<PmSpec>(new PmSpec)}; it = sp.sections.find(lower(n)); }
      ++nsec;
      gen_pm(r, *sub, *it->second.second, depth + 1, odd, nent, nsec, maxdepth);
    }
  }
  void cmp_pm(const FEAT::PropertyMap& pm, const PmSpec& sp, const std::string& path, std::vector<std::string>& d)
  {
    if(pm.get_entry_map().size() != sp.entries.size()) d.push_back(path + ": " + std::to_string(pm.get_entry_map().size()) + " entries, expected " + std::to_string(sp.entries.size()));
    for(auto& e : sp.entries)
    {
      auto q = pm.get_entry(e.second.first);
      if(!q.second) d.push_back(path + ": key '" + e.second.first + "' missing");
      else if(std::string(q.first) != e.second.second) d.push_back(path + ": key '" + e.second.first + "' = '" + std::string(q.first) + "', expected '" + e.second.second + "'");
    }
    std::size_t ns = 0; for(auto it = pm.begin_section(); it != pm.end_section(); ++it) ++ns;
    if(ns != sp.sections.size()) d.push_back(path + ": " + std::to_string(ns) + " sections, expected " + std::to_string(sp.sections.size()));
    for(auto& s : sp.sections)
    {
      const FEAT::PropertyMap* sub = pm.get_sub_section(s.second.first);
      if(sub == nullptr) { d.push_back(path + ": section '" + s.second.first + "' missing"); continue; }
      cmp_pm(*sub, *s.second.second, path + "/" + s.second.first, d);
    }
  }
  std::string gen_ini_text(vh::Rng& r)
  {
    FEAT::PropertyMap pm; PmSpec sp; int a = 0, b = 0, dmax = 0;
    gen_pm(r, pm, sp, 0, r.coin(0.6), a, b, dmax);
    std::ostringstream os; pm.write(os); return os.str();
  }
}

VH_FAMILY(pmap_roundtrip)
{
  FEAT::PropertyMap pm; PmSpec sp;
  const bool odd = c.rng.coin(0.6);
  int nent = 0, nsec = 0, dmax = 0;
  if(c.k == 0) { c.tag("empty"); }
  else gen_pm(c.rng, pm, sp, 0, odd, nent, nsec, dmax);
  c.tag(odd ? "odd-chars" : "plain-chars"); c.tag("depth:" + std::to_string(dmax));
  c.tag(std::string("entries:") + (nent == 0 ? "0" : nent < 5 ? "1-4" : nent < 20 ? "5-19" : ">=20"));
  c.tag(std::string("sections:") + (nsec == 0 ? "0" : nsec < 4 ? "1-3" : ">=4"));
  c.set_op("pmap.write");
  std::ostringstream os1; pm.write(os1); std::string A = os1.str();
  c.event();
  c.desc = vh::J().kv("entries", nent).kv("sections", nsec).kv("depth", dmax).kv("text", A.size() < 1500 ? A : A.substr(0, 1500) + "...").str();
  if(c.verbose()) std::printf("--- first output ---\n%s\n", A.c_str());
  c.set_op("pmap.read");
  FEAT::PropertyMap pm2;
  std::istringstream is(A);
  pm2.read(is);
  c.event();
  std::vector<std::string> d;
  cmp_pm(pm2, sp, "!", d);
  if(!d.empty()) { vh::J a('['); for(std::size_t i = 0; i < d.size() && i < 8; ++i) a.add(d[i]); c.viol("pmap.roundtrip", "structure-differs", vh::J().raw("differences", a.str()).str()); }
  c.set_op("pmap.rewrite");
  std::ostringstream os2; pm2.write(os2);
  c.event();
  if(os2.str() != A) c.viol("pmap.rewrite", "not-byte-identical", first_diff(A, os2.str()));
}

// ====================================================================== Graph serialisation
VH_FAMILY(graph_roundtrip)
{
  using FEAT::Index; using FEAT::Adjacency::Graph;
  std::unique_ptr<Graph> g;
  Index nd = 0, ni = 0; std::vector<Index> ptr(1, 0), idx;
  if(c.k == 0) { c.tag("default-constructed"); g.reset(new Graph()); }
  else
  {
    nd = (c.k == 1) ? 0 : Index(c.rng.below(c.thorough() ? 60 : 20));
    ni = (c.k == 2) ? 0 : Index(c.rng.below(c.thorough() ? 60 : 20));
    double dens = c.rng.pick({0.0, 0.1, 0.5, 1.0});
    const bool dup = c.rng.coin(0.3), unsorted = c.rng.coin(0.5);
    for(Index i = 0; i < nd; ++i)
    {
      std::vector<Index> row;
      for(Index j = 0; j < ni; ++j) if(c.rng.coin(dens)) { row.push_back(j); if(dup && c.rng.coin(0.2)) row.push_back(j); }
      if(unsorted) c.rng.shuffle(row);
      for(Index j : row) idx.push_back(j);
      ptr.push_back(Index(idx.size()));
    }
    g.reset(new Graph(nd, ni, Index(idx.size()), ptr.data(), idx.data()));
    c.tag(nd == 0 ? "domain:0" : "domain:>0"); c.tag(ni == 0 ? "image:0" : "image:>0"); c.tag(idx.empty() ? "edges:0" : "edges:>0");
    if(dup) c.tag("duplicates"); if(unsorted) c.tag("unsorted");
  }
  c.desc = vh::J().kv("domain", (unsigned long long)nd).kv("image", (unsigned long long)ni).raw("ptr", vh::jarr(ptr)).raw("idx", vh::jarr(idx)).str();
  c.set_op("graph.serialize");
  std::vector<char> A = g->serialize();
  c.event();
  c.set_op("graph.deserialize");
  Graph h(A);
  c.event();
  bool same = (h.get_num_nodes_domain() == g->get_num_nodes_domain()) && (h.get_num_nodes_image() == g->get_num_nodes_image()) && (h.get_num_indices() == g->get_num_indices());
  if(same && c.k != 0)
  {
    if(h.get_num_nodes_domain() != nd || h.get_num_nodes_image() != ni || h.get_num_indices() != Index(idx.size())) same = false;
    for(Index i = 0; same && i <= nd && nd > 0; ++i) if(h.get_domain_ptr()[i] != ptr[i]) same = false;
    for(Index i = 0; same && i < Index(idx.size()); ++i) if(h.get_image_idx()[i] != idx[i]) same = false;
  }
  if(!same) c.viol("graph.roundtrip", "structure-differs", vh::J().kv("domain", (unsigned long long)h.get_num_nodes_domain()).kv("image", (unsigned long long)h.get_num_nodes_image()).kv("indices", (unsigned long long)h.get_num_indices()).str());
  c.set_op("graph.reserialize");
  std::vector<char> B = h.serialize();
  c.event();
  if(A != B) c.viol("graph.reserialize", "not-byte-identical", vh::J().kv("len_first", (unsigned long long)A.size()).kv("len_second", (unsigned long long)B.size()).str());
}

// ====================================================================== mutants
namespace
{
  struct Base { std::string name; int hint = 0; bool corpus = false; c11m::Doc doc; };
  struct Pool { std::vector<Base> mesh; std::vector<std::size_t> smallest; };

  const Pool& pool()
  {
    static Pool p; static bool done = false;
    if(done) return p;
    done = true;
    for(const auto& f : corpus())
    {
      if(f.size > (16u << 10)) continue;
      Base b; b.name = f.name; b.corpus = true; std::string t = slurp(f.path); b.hint = hint_of_text(t); b.doc = c11m::scan(t);
      p.mesh.push_back(std::move(b));
    }
    // generator-made texts (fixed seeds: the pool does not depend on VERIF_SEED); small meshes, all features
    for(int i = 0; i < 32; ++i)
    {
      vh::Rng r(0xC11000 + std::uint64_t(i));
      GenOpts go; go.max_cells_1d = 2;
      std::vector<std::string> tg;
      auto h = ops(i % SH_COUNT).generate(r, go, tg);
      if(i % 8 >= 4) h = h->refine();
      WriteOpts o; o.precision = (i % 3 == 0) ? 17 : 0; o.indent = (i % 5 != 0);
      std::string wt = h->write(o);
      Base b; b.name = "gen" + std::to_string(i) + "-" + ops(i % SH_COUNT).name; b.hint = i % SH_COUNT; b.doc = c11m::scan(wt);
      if(b.doc.text.size() > (40u << 10)) continue;
      p.mesh.push_back(std::move(b));
    }
    // every base text must be valid (accepted) -- otherwise the must-reject labels mean nothing
    std::vector<Base> ok;
    for(auto& b : p.mesh)
    {
      Outcome o; parse_any(b.doc.text, b.hint, o);
      if(o.status == Status::accepted && b.doc.balanced) { if(o.node) b.hint = o.node->shape_id(); ok.push_back(std::move(b)); }
    }
    p.mesh.swap(ok);
    std::vector<std::size_t> ord(p.mesh.size()); for(std::size_t i = 0; i < ord.size(); ++i) ord[i] = i;
    std::sort(ord.begin(), ord.end(), [&](std::size_t a, std::size_t b) { return p.mesh[a].doc.text.size() < p.mesh[b].doc.text.size(); });
    // the smallest text of each shape / flavour first
    for(std::size_t i : ord) if(p.smallest.size() < 8) p.smallest.push_back(i);
    return p;
  }

  std::string crash_kind(const vh::ForkResult& r)
  {
    const std::string& t = r.err;
    if(t.find("ERROR: AddressSanitizer") != std::string::npos)
    {
      std::size_t p = t.find("ERROR: AddressSanitizer"); p = t.find_first_not_of(": ", p + 23);
      std::size_t e = t.find_first_of(" \n", p); return "asan:" + (p == std::string::npos ? std::string("report") : t.substr(p, e - p));
    }
    if(t.find("runtime error:") != std::string::npos) return "ubsan";
    if(t.find("FATAL ERROR") != std::string::npos || t.find("ABORT") != std::string::npos) return "abort";
    if(t.find("terminate called") != std::string::npos) return "uncaught";
    if(!r.exited) return "signal:" + std::to_string(r.sig);
    return "exit:" + std::to_string(r.code);
  }
  std::string tail(const std::string& s, std::size_t n = 3500) { return s.size() <= n ? s : s.substr(s.size() - n); }
  std::string field(const std::string& err, const std::string& key)
  {
    std::size_t p = err.find(key); if(p == std::string::npos) return "";
    p += key.size(); std::size_t e = err.find('\n', p); return err.substr(p, e == std::string::npos ? e : e - p);
  }
  // first lines of the FEAT abort block / sanitizer summary: stable part of the crash message
  std::string crash_headline(const std::string& err)
  {
    for(const char* k : {"Message....: ", "Message: ", "Expression.: ", "SUMMARY: ", "runtime error: "})
    { std::string f = field(err, k); if(!f.empty()) return std::string(k) + f.substr(0, 200); }
    return "";
  }

}

VH_FAMILY(mutants)
{
  const Pool& P = pool();
  if(P.mesh.empty()) { c.inconclusive("no valid base texts"); c.trivial = true; return; }
  // ---------------- INI texts (one case in ten): terminate with an object or the documented exception
  if(c.k % 10 == 9)
  {
    std::string base = gen_ini_text(c.rng);
    c11m::Doc d = c11m::scan(base), d2 = c11m::scan(gen_ini_text(c.rng));
    c11m::Mutant m; c11m::Engine e(d, c.rng, m);
    bool ok = false;
    for(int t = 0; t < 20 && !ok; ++t)
    {
      m = c11m::Mutant();
      switch(int(c.rng.below(7)))
      {
      case 0: ok = e.g_truncate(false); break;
      case 1: ok = e.g_byte_flip(); break;
      case 2: ok = e.g_bit_flip(); break;
      case 3: ok = e.g_token_swap(); break;
      case 4: ok = e.g_line_op(); break;
      case 5: { static const char* j[] = {"{", "}", "[", "]", "[]", "[ ]", "=", "= x", "&", "a = b &", "#", "@include x", "[a] {", "} x"}; std::size_t p = c.rng.below(base.size() + 1); while(p < base.size() && base[p] != '\n') ++p; m.text = base.substr(0, p) + "\n" + j[c.rng.below(14)] + base.substr(p); m.kind = "junk_line"; ok = true; break; }
      default: ok = e.g_splice(d2); if(!ok) ok = e.g_truncate(true); break;
      }
    }
    if(!ok) { m.text = base + "{"; m.kind = "junk_line"; }
    c.tag("ini"); c.tag("mut:" + m.kind);
    c.sig = "ini|" + m.kind;
    c.desc = vh::J().kv("format", "ini").kv("mutation", m.kind).kv("note", m.note).kv("text", m.text.size() < 1200 ? m.text : m.text.substr(0, 1200) + "...").str();
    c.set_op("pmap.read");
    warm_symbolizer();
    const std::string& text = m.text;
    vh::ForkResult r = vh::run_forked([&] {
      std::string st = "ok", cls, what;
      try { FEAT::PropertyMap pm; std::istringstream is(text); pm.read(is); std::ostringstream os; pm.write(os); }
      catch(const FEAT::Exception& ex) { st = "rejected"; cls = "feat-exception"; what = ex.what(); }
      catch(const std::bad_alloc&) { st = "resource"; }
      catch(const std::exception& ex) { st = "foreign"; cls = typeid(ex).name(); what = ex.what(); }
      catch(...) { st = "foreign"; cls = "unknown"; }
      std::fprintf(stderr, "\nC11-STATUS: %s\nC11-CLASS: %s\nC11-WHAT: %s\n", st.c_str(), cls.c_str(), what.substr(0, 300).c_str());
    }, 20);
    c.event();
    if(!r.exited && (r.sig == SIGXCPU || r.sig == SIGKILL)) { c.viol("pmap.read", "hang", vh::J().kv("cpu_budget_s", 20).str()); return; }
    if(!r.clean()) { c.viol("pmap.read", crash_kind(r), vh::J().kv("headline", crash_headline(r.err)).kv("stderr", tail(r.err)).str()); return; }
    std::string st = field(r.err, "C11-STATUS: ");
    c.count("ini_" + st);
    if(st == "foreign") c.viol("pmap.read", "foreign-exception", vh::J().kv("class", field(r.err, "C11-CLASS: ")).kv("what", field(r.err, "C11-WHAT: ")).str());
    else if(st.empty()) c.inconclusive("child produced no status line");
    return;
  }

  // ---------------- mesh texts
  const Base* b = nullptr;
  c11m::Mutant m;
  const std::uint64_t nsm = P.smallest.size();
  if(c.k < 100 * nsm && (c.k % 10) != 9 && (c.k % 10) != 8)
  {
    // edge corpus: truncation after every line of the smallest base texts
    b = &P.mesh[P.smallest[c.k % nsm]];
    std::uint64_t li = c.k / nsm; std::uint64_t seen = 0; const c11m::Line* ln = nullptr;
    for(auto& l : b->doc.lines) if(l.kind != c11m::L_BLANK) { if(seen == li) { ln = &l; break; } ++seen; }
    if(ln != nullptr) { c11m::Engine e(b->doc, c.rng, m); e.truncate_at(c.rng.coin(0.5) ? ln->end : ln->beg + c.rng.below(ln->end - ln->beg + 1), "truncate:line"); }
  }
  if(m.kind.empty() && (c.k % 10) == 8)
  {
    // attribute sweep: case 10*j+8 deletes the j-th attribute (counted over all markups of all smallest base texts, then
    // over the other base texts; wraps around) -- a missing attribute must be rejected or be harmless, never a crash
    std::vector<const Base*> order; for(std::uint64_t q : P.smallest) order.push_back(&P.mesh[q]);
    for(auto& bb : P.mesh) if(std::find(order.begin(), order.end(), &bb) == order.end()) order.push_back(&bb);
    std::uint64_t total = 0; for(auto* bb : order) for(auto& l : bb->doc.lines) if(l.kind == c11m::L_OPEN || l.kind == c11m::L_CLOSED) total += l.attrs.size();
    if(total > 0)
    {
      std::uint64_t j = (c.k / 10) % total;
      for(auto* bb : order)
      {
        bool done = false;
        for(int i = 0; i < int(bb->doc.lines.size()) && !done; ++i)
        {
          const auto& l = bb->doc.lines[std::size_t(i)];
          if(l.kind != c11m::L_OPEN && l.kind != c11m::L_CLOSED) continue;
          if(j < l.attrs.size()) { b = bb; c11m::Engine e(bb->doc, c.rng, m); if(!e.attr_delete_at(i, int(j))) m.kind.clear(); else c.tag("attr_sweep"); done = true; }
          else j -= l.attrs.size();
        }
        if(done) break;
      }
    }
  }
  if(m.kind.empty())
  {
    b = &P.mesh[c.rng.below(P.mesh.size())];
    const Base& o = P.mesh[c.rng.below(P.mesh.size())];
    c11m::mutate(b->doc, o.doc, c.rng, m);
    // a second, generic edit on top (not for must-reject mutants: a later edit may undo the violation)
    if(!m.must_reject && c.rng.coin(0.25))
    {
      c11m::Doc d2 = c11m::scan(m.text); c11m::Mutant m2; c11m::Engine e2(d2, c.rng, m2); bool ok2 = false;
      switch(int(c.rng.below(4))) { case 0: ok2 = e2.g_byte_flip(); break; case 1: ok2 = e2.g_line_op(); break; case 2: ok2 = e2.g_token_swap(); break; default: ok2 = e2.g_number(); break; }
      if(ok2) { m.text = m2.text; m.kind += "+" + m2.kind; m.note += " ; " + m2.note; m.must_reject = false; }
    }
  }
  const c11m::Doc md = c11m::scan(m.text);
  c.tag(std::string("shape:") + ops(b->hint).name);
  c.tag(b->corpus ? "base:corpus" : "base:gen");
  c.tag("mut:" + m.kind);
  if(m.must_reject) c.tag("must-reject");
  { std::vector<std::string> it; c11m::input_tags(md, it); for(auto& t : it) c.tag(t); }
  c.sig = std::string("mesh|") + ops(b->hint).name + "|" + m.kind + (m.must_reject ? "|MR" : "");
  c.desc = vh::J().kv("base", b->name).kv("mutation", m.kind).kv("must_reject", m.must_reject).kv("note", m.note).kv("bytes", (unsigned long long)m.text.size())
    .kv("text", m.text.size() <= 1500 ? m.text : std::string("(large; replay the case with --verbose to print it)")).str();
  if(c.verbose()) std::printf("--- mutant text (%zu bytes) ---\n%s\n--- end ---\n", m.text.size(), m.text.c_str());
  c.set_op("mesh.parse");
  warm_symbolizer();
  const std::string& text = m.text; const int hint = b->hint;
  vh::ForkResult r = vh::run_forked([&] {
    Outcome o; parse_any(text, hint, o);
    const char* st = "rejected";
    switch(o.status) { case Status::accepted: st = "accepted"; break; case Status::rejected: st = "rejected"; break; case Status::resource: st = "resource"; break;
      case Status::foreign: st = "foreign"; break; default: st = "unsupported"; break; }
    std::string w = o.what.substr(0, 300); for(auto& ch : w) if(ch == '\n') ch = ' ';
    std::fprintf(stderr, "\nC11-STATUS: %s\nC11-CLASS: %s\nC11-WHAT: %s\nC11-TYPE: %s\n", st, o.ex_class.c_str(), w.c_str(), o.typestr.c_str());
    if(o.status == Status::accepted)
    {
      auto bad = o.node->validate();
      std::string all; for(auto& s : bad) { all += s; all += " ;; "; }
      std::fprintf(stderr, "C11-INVALID: %zu\nC11-PROBLEMS: %s\n", bad.size(), all.c_str());
      std::fflush(stderr);
      std::fprintf(stderr, "C11-STAGE: write\n"); std::fflush(stderr);
      std::string ws = "ok", wc;
      try { WriteOpts wo; std::string out = o.node->write(wo); (void)out; }
      catch(const std::bad_alloc&) { ws = "resource"; }
      catch(const std::exception& ex) { ws = "exception"; wc = ex.what(); }
      std::fprintf(stderr, "C11-WRITE: %s %s\n", ws.c_str(), wc.c_str());
      std::fprintf(stderr, "C11-STAGE: destroy\n"); std::fflush(stderr);
      o.node.reset();
    }
    std::fprintf(stderr, "C11-DONE: 1\n");
  }, 20);
  c.event();
  auto crash_detail = [&](const std::string& stage) {
    return vh::J().kv("stage", stage).kv("headline", crash_headline(r.err)).kv("stack", [&] { // function names of the first frames
        std::string k; std::size_t p = 0; int n = 0; while(n < 5 && (p = r.err.find(" in ", p)) != std::string::npos) { p += 4; std::size_t e = r.err.find_first_of(" (\n", p); std::string f = r.err.substr(p, e - p); if(f.rfind("__", 0) != 0 && f.find("sanitizer") == std::string::npos && f != "abort" && f != "raise" && f.find("Runtime") == std::string::npos) { k += f + "|"; ++n; } }
        return k; }()).kv("stderr", tail(r.err)).str();
  };
  const std::string stage = r.err.find("C11-STAGE: destroy") != std::string::npos ? "destroy-after-accept" : (r.err.find("C11-STAGE: write") != std::string::npos ? "write-after-accept" : "parse");
  if(!r.exited && (r.sig == SIGXCPU || r.sig == SIGKILL))
  { c.viol("mesh.parse", "hang", vh::J().kv("cpu_budget_s", 20).kv("stage", stage).str()); return; }
  if(!r.clean())
  {
    c.count("crashes");
    c.viol(stage == "parse" ? "mesh.parse" : "mesh.write_accepted", crash_kind(r), crash_detail(stage));
    return;
  }
  const std::string st = field(r.err, "C11-STATUS: ");
  if(st.empty() || field(r.err, "C11-DONE: ").empty()) { c.inconclusive("child produced no status line: " + tail(r.err, 300)); return; }
  c.count("outcome_" + st);
  if(st == "rejected") c.count("rejected_" + field(r.err, "C11-CLASS: "));
  if(st == "resource") { c.count("rejected_by_resource_limit_" + field(r.err, "C11-CLASS: ")); return; }
  if(st == "unsupported") { c.trivial = true; return; }
  if(st == "foreign")
  {
    c.viol("mesh.parse", "foreign-exception", vh::J().kv("class", field(r.err, "C11-CLASS: ")).kv("what", field(r.err, "C11-WHAT: ")).str());
    return;
  }
  if(st == "accepted")
  {
    if(field(r.err, "C11-INVALID: ") != "0")
      c.viol("mesh.parse", "accepted-invalid", vh::J().kv("problems", field(r.err, "C11-PROBLEMS: ")).str());
    if(m.must_reject)
      c.viol("mesh.parse", "must-reject-accepted", vh::J().kv("mutation", m.kind).kv("note", m.note).str());
    std::string w = field(r.err, "C11-WRITE: ");
    if(w.rfind("exception", 0) == 0) c.viol("mesh.write_accepted", "exception", vh::J().kv("what", w).str());
    if(m.kind.rfind("truncate", 0) == 0 && !m.must_reject) c.count("harmless_truncations_accepted");
  }
}

int main(int argc, char** argv)
{
  FEAT::Runtime::ScopeGuard guard(argc, argv);
  return vh::main_impl(argc, argv);
}
