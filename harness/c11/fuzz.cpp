// C11 -- libFuzzer target (thorough tier): parse -> (if accepted) structural validity -> write.
// Hard failures (FEAT abort, sanitizer report, signal, timeout) end the libFuzzer process and leave an artifact that the
// python runner (vlib/run_c11.py) re-runs one per process to classify. Soft failures (undocumented exception,
// accepted-but-invalid object) are written to $C11_FUZZ_SOFT_DIR (a few per class) and fuzzing goes on.
#include "c11.hpp"
#include "mutate.hpp"
#include <cstdio>
#include <cstdlib>
#include <string>
#include <map>
#include <fstream>

using namespace c11;

namespace
{
  int hint_of_text(const std::string& t)
  {
    if(t.find("<SurfaceMesh") != std::string::npos || t.find("<Sphere") != std::string::npos || t.find("<Extrude") != std::string::npos) return SH_HEXA;
    return SH_QUAD;
  }
  std::string tags_of(const std::string& text)
  {
    std::vector<std::string> t; c11m::input_tags(c11m::scan(text), t);
    std::string s; for(auto& x : t) { if(!s.empty()) s += ","; s += x; }
    return s;
  }
  void soft(const std::string& kind, const std::string& cls, const std::string& detail, const std::string& text)
  {
    static std::map<std::string, int> seen;
    static const char* dir = std::getenv("C11_FUZZ_SOFT_DIR");
    std::string tg = tags_of(text);
    std::string key = kind + "|" + cls + "|" + tg;
    if(std::getenv("C11_FUZZ_REPLAY")) std::fprintf(stderr, "C11-SOFT: %s\nC11-CLASS: %s\nC11-DETAIL: %s\n", kind.c_str(), cls.c_str(), detail.c_str());
    if(dir == nullptr || ++seen[key] > 3) return;
    char name[64]; std::snprintf(name, sizeof(name), "%016llx", (unsigned long long)vh::hash_str(text));
    std::string base = std::string(dir) + "/" + name;
    { std::ofstream f(base + ".xml", std::ios::binary); f.write(text.data(), std::streamsize(text.size())); }
    { std::ofstream f(base + ".txt"); f << kind << "\n" << cls << "\n" << tg << "\n" << detail << "\n"; }
  }
}

extern "C" int LLVMFuzzerTestOneInput(const std::uint8_t* data, std::size_t size)
{
  const std::string text(reinterpret_cast<const char*>(data), size);
  static const bool replay = (std::getenv("C11_FUZZ_REPLAY") != nullptr);
  if(replay) { std::fprintf(stderr, "C11-TAGS: %s\n", tags_of(text).c_str()); std::fflush(stderr); }
  Outcome o;
  parse_any(text, hint_of_text(text), o);
  if(replay) { std::fprintf(stderr, "C11-STATUS: %d %s %s\n", int(o.status), o.ex_class.c_str(), o.what.substr(0, 200).c_str()); std::fflush(stderr); }
  if(o.status == Status::foreign) { soft("foreign-exception", o.ex_class, o.what.substr(0, 300), text); return 0; }
  if(o.status != Status::accepted) return 0;
  auto bad = o.node->validate();
  if(!bad.empty()) { std::string all; for(auto& s : bad) { all += s; all += " ;; "; } soft("accepted-invalid", "", all.substr(0, 600), text); }
  if(replay) { std::fprintf(stderr, "C11-STAGE: write\n"); std::fflush(stderr); }
  try { WriteOpts wo; std::string out = o.node->write(wo); (void)out; }
  catch(const std::bad_alloc&) {}
  catch(const std::exception& e) { soft("write-exception", "", e.what(), text); }
  if(replay) { std::fprintf(stderr, "C11-STAGE: destroy\n"); std::fflush(stderr); }
  o.node.reset();
  return 0;
}
