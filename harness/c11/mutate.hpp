// C11 -- seeded mutation engine over valid mesh-file texts (harness-side; no FEAT dependency).
// A tolerant line scanner locates markups / attributes / content lines; structure-aware edits that make the file
// violate its declared counts, dimensions or index ranges are labelled must-reject; generic edits (truncation, byte
// flips, token swaps, line deletion/duplication, splices) are judged by "terminates + accepted => valid" only
// (a truncation is must-reject iff it removes a non-whitespace byte of the root element).
#pragma once
#include <common/vh.hpp>
#include <string>
#include <vector>
#include <map>
#include <cerrno>
#include <cstdint>

namespace c11m
{
  struct Attr { std::string key; std::size_t vbeg = 0, vend = 0; std::string val; };
  enum { L_BLANK = 0, L_CONTENT, L_OPEN, L_CLOSED, L_TERM, L_COMMENT };
  struct Line
  {
    std::size_t beg = 0, end = 0; // [beg,end) excludes the newline
    int kind = L_BLANK;
    std::string name;
    std::vector<Attr> attrs;
    int parent = -1;              // line index of the enclosing element's opening markup
    const Attr* attr(const std::string& k) const { for(auto& a : attrs) if(a.key == k) return &a; return nullptr; }
  };
  struct Doc
  {
    std::string text;
    std::vector<Line> lines;
    std::size_t root_beg = std::string::npos, root_end = std::string::npos; // [first '<' of the root, one past '>' of its terminator)
    bool balanced = false;
  };

  inline bool is_ws(char c) { return c == ' ' || c == '\t' || c == '\n' || c == '\r' || c == '\f' || c == '\v' || c == '\a' || c == '\b'; }

  inline Doc scan(const std::string& text)
  {
    Doc d; d.text = text;
    std::vector<int> stack;
    std::size_t pos = 0; const std::size_t n = text.size();
    while(pos <= n)
    {
      std::size_t e = text.find('\n', pos); if(e == std::string::npos) e = n;
      Line l; l.beg = pos; l.end = e; l.parent = stack.empty() ? -1 : stack.back();
      std::size_t a = pos, b = e;
      while(a < b && is_ws(text[a])) ++a;
      while(b > a && is_ws(text[b - 1])) --b;
      if(a < b)
      {
        if(text.compare(a, 4, "<!--") == 0) l.kind = L_COMMENT;
        else if(text[a] == '<' && text[b - 1] == '>' && b - a >= 3)
        {
          std::size_t p = a + 1, q = b - 1;
          while(p < q && is_ws(text[p])) ++p;
          bool term = (p < q && text[p] == '/'); if(term) ++p;
          while(q > p && is_ws(text[q - 1])) --q;
          bool closed = (!term && q > p && text[q - 1] == '/'); if(closed) --q;
          std::size_t s = p; while(s < q && !is_ws(text[s])) ++s;
          l.name = text.substr(p, s - p);
          l.kind = term ? L_TERM : (closed ? L_CLOSED : L_OPEN);
          // attributes key="value"
          std::size_t x = s;
          while(!term && x < q)
          {
            std::size_t eq = text.find('=', x); if(eq == std::string::npos || eq >= q) break;
            std::size_t q1 = text.find('"', eq); if(q1 == std::string::npos || q1 >= q) break;
            std::size_t q2 = text.find('"', q1 + 1); if(q2 == std::string::npos || q2 >= q) break;
            Attr at; std::size_t k0 = x, k1 = eq; while(k0 < k1 && is_ws(text[k0])) ++k0; while(k1 > k0 && is_ws(text[k1 - 1])) --k1;
            at.key = text.substr(k0, k1 - k0); at.vbeg = q1 + 1; at.vend = q2; at.val = text.substr(q1 + 1, q2 - q1 - 1);
            l.attrs.push_back(at);
            x = q2 + 1;
          }
          if(l.kind == L_OPEN)
          {
            if(d.root_beg == std::string::npos && stack.empty()) d.root_beg = a;
            stack.push_back(int(d.lines.size()));
          }
          else if(l.kind == L_TERM)
          {
            if(!stack.empty()) { stack.pop_back(); l.parent = stack.empty() ? -1 : stack.back(); if(stack.empty() && d.root_end == std::string::npos) { d.root_end = b; d.balanced = true; } }
          }
        }
        else l.kind = L_CONTENT;
      }
      d.lines.push_back(l);
      if(e == n) break;
      pos = e + 1;
    }
    return d;
  }

  struct Tok { std::size_t beg, end; };
  inline std::vector<Tok> tokens(const std::string& t, std::size_t a, std::size_t b)
  {
    std::vector<Tok> v; std::size_t i = a;
    while(i < b) { while(i < b && is_ws(t[i])) ++i; if(i >= b) break; std::size_t j = i; while(j < b && !is_ws(t[j])) ++j; v.push_back({i, j}); i = j; }
    return v;
  }
  inline bool to_u64(const std::string& s, unsigned long long& v)
  {
    if(s.empty() || s.size() > 18) return false;
    for(char c : s) if(c < '0' || c > '9') return false;
    v = std::strtoull(s.c_str(), nullptr, 10); return true;
  }

  struct Mutant
  {
    std::string text, kind, note;
    bool must_reject = false;
    std::vector<std::string> tags;
  };

  struct Engine
  {
    const Doc& d; vh::Rng& r; Mutant& m;
    Engine(const Doc& d_, vh::Rng& r_, Mutant& m_) : d(d_), r(r_), m(m_) {}

    std::string splice(std::size_t a, std::size_t b, const std::string& rep) const { return d.text.substr(0, a) + rep + d.text.substr(b); }
    int lineno(int i) const { return i + 1; }
    std::vector<int> find_open(const std::string& name, bool also_closed = false) const
    { std::vector<int> v; for(int i = 0; i < int(d.lines.size()); ++i) if((d.lines[i].kind == L_OPEN || (also_closed && d.lines[i].kind == L_CLOSED)) && d.lines[i].name == name) v.push_back(i); return v; }
    std::vector<int> content_of(int open) const
    { std::vector<int> v; for(int i = open + 1; i < int(d.lines.size()); ++i) { if(d.lines[i].parent == open && d.lines[i].kind == L_CONTENT) v.push_back(i); if(d.lines[i].kind == L_TERM && d.lines[i].parent == d.lines[open].parent && i > open && d.lines[i].name == d.lines[open].name) break; } return v; }
    int term_of(int open) const
    { for(int i = open + 1; i < int(d.lines.size()); ++i) if(d.lines[i].kind == L_TERM && d.lines[i].parent == d.lines[open].parent && d.lines[i].name == d.lines[open].name) return i; return -1; }
    int pick(const std::vector<int>& v) { return v[r.below(v.size())]; }
    std::vector<unsigned long long> nums(const Attr& a) const
    { std::vector<unsigned long long> v; for(auto& t : tokens(d.text, a.vbeg, a.vend)) { unsigned long long x = 0; if(!to_u64(d.text.substr(t.beg, t.end - t.beg), x)) return {}; v.push_back(x); } return v; }
    std::vector<unsigned long long> mesh_sizes() const
    { auto v = find_open("Mesh"); if(v.empty()) return {}; const Attr* a = d.lines[v[0]].attr("size"); return a ? nums(*a) : std::vector<unsigned long long>(); }

    // replaces token #ti of an attribute value by a number
    bool set_attr_token(int line, const std::string& key, std::size_t ti, const std::string& rep)
    {
      const Attr* a = d.lines[line].attr(key); if(!a) return false;
      auto tk = tokens(d.text, a->vbeg, a->vend); if(ti >= tk.size()) return false;
      m.note += "line " + std::to_string(lineno(line)) + " <" + d.lines[line].name + "> " + key + "[" + std::to_string(ti) + "]: " + d.text.substr(tk[ti].beg, tk[ti].end - tk[ti].beg) + " -> " + rep;
      m.text = splice(tk[ti].beg, tk[ti].end, rep);
      return true;
    }
    // declared count +-1 on attribute 'key' of a random element named 'elem'
    bool count_pm1(const std::string& elem, const std::string& key, const std::string& kind, bool mr_plus, bool mr_minus)
    {
      auto v = find_open(elem); if(v.empty()) return false;
      int li = pick(v);
      const Attr* a = d.lines[li].attr(key); if(!a) return false;
      auto nv = nums(*a); if(nv.empty()) return false;
      std::size_t ti = r.below(nv.size());
      bool plus = r.coin(0.5); if(nv[ti] == 0) plus = true;
      if(!set_attr_token(li, key, ti, std::to_string(plus ? nv[ti] + 1 : nv[ti] - 1))) return false;
      m.kind = kind + (plus ? "+1" : "-1"); m.must_reject = plus ? mr_plus : mr_minus;
      return true;
    }

    // ---------------------------------------------------------------- structure-aware edits
    bool s_mesh_size() { return count_pm1("Mesh", "size", "mesh_size", true, true); }
    bool s_part_size() { return count_pm1("MeshPart", "size", "part_size", true, true); }
    bool s_patch_size() { return count_pm1("Patch", "size", "patch_size", true, true); }
    bool s_bezier_size() { return count_pm1("Bezier", "size", "bezier_size", true, true); }
    bool s_surfmesh_size() { return count_pm1("SurfaceMesh", r.coin() ? "verts" : "trias", "surfmesh_size", true, true); }
    bool s_partition_size()
    {
      auto v = find_open("Partition"); if(v.empty()) return false;
      int li = pick(v); const Attr* a = d.lines[li].attr("size"); if(!a) return false;
      auto nv = nums(*a); if(nv.size() != 2) return false;
      std::size_t ti = r.below(2); bool plus = r.coin(0.5); if(nv[ti] == 0) plus = true;
      // -1 makes a present rank / element index fall out of the declared range only if it is used
      bool mr = false;
      if(!plus)
      {
        int te = term_of(li);
        for(int i = li + 1; i < (te < 0 ? int(d.lines.size()) : te); ++i)
        {
          const Line& l = d.lines[i];
          if(ti == 0 && l.kind == L_OPEN && l.name == "Patch") { const Attr* ra = l.attr("rank"); unsigned long long x = 0; if(ra && to_u64(ra->val, x) && x == nv[0] - 1) mr = true; }
          if(ti == 1 && l.kind == L_CONTENT) { auto tk = tokens(d.text, l.beg, l.end); unsigned long long x = 0; if(tk.size() == 1 && to_u64(d.text.substr(tk[0].beg, tk[0].end - tk[0].beg), x) && x == nv[1] - 1) mr = true; }
        }
      }
      if(!set_attr_token(li, "size", ti, std::to_string(plus ? nv[ti] + 1 : nv[ti] - 1))) return false;
      m.kind = std::string("partition_size") + (ti == 0 ? "_ranks" : "_elems") + (plus ? "+1" : "-1"); m.must_reject = mr;
      return true;
    }
    bool s_attr_dim()
    {
      auto v = find_open("Attribute"); if(v.empty()) return false;
      int li = pick(v); const Attr* a = d.lines[li].attr("dim"); if(!a) return false;
      auto nv = nums(*a); if(nv.size() != 1) return false;
      bool plus = r.coin(0.5);
      bool has_lines = !content_of(li).empty();
      if(!set_attr_token(li, "dim", 0, std::to_string(plus ? nv[0] + 1 : nv[0] - 1))) return false;
      m.kind = std::string("attr_dim") + (plus ? "+1" : "-1"); m.must_reject = has_lines || (!plus && nv[0] == 1);
      return true;
    }
    // wrong number of tokens on a content line of an element
    bool token_count(const std::vector<std::string>& elems, const std::string& kind)
    {
      std::vector<int> cand;
      for(auto& e : elems) for(int o : find_open(e)) for(int c : content_of(o)) cand.push_back(c);
      if(cand.empty()) return false;
      int li = pick(cand); const Line& l = d.lines[li];
      auto tk = tokens(d.text, l.beg, l.end); if(tk.empty()) return false;
      if(r.coin(0.5) && tk.size() >= 2)
      { std::size_t ti = r.below(tk.size()); std::size_t a = (ti == 0) ? tk[0].beg : tk[ti - 1].end; std::size_t b = (ti == 0) ? tk[1].beg : tk[ti].end; m.text = splice(a, b, ""); m.kind = kind + "-1"; }
      else
      { std::size_t ti = r.below(tk.size()); m.text = splice(tk[ti].end, tk[ti].end, " " + d.text.substr(tk[ti].beg, tk[ti].end - tk[ti].beg)); m.kind = kind + "+1"; }
      m.note = "line " + std::to_string(lineno(li)) + " in <" + d.lines[l.parent].name + ">: '" + d.text.substr(l.beg, l.end - l.beg) + "'";
      m.must_reject = true;
      return true;
    }
    bool s_coord_count() { return token_count({"Vertices"}, "coord_count"); }
    bool s_index_count() { return token_count({"Topology", "Triangles"}, "index_count"); }

    std::string bad_index(unsigned long long bound, std::string& which)
    {
      switch(int(r.below(5)))
      {
      case 0: which = "=bound"; return std::to_string(bound);
      case 1: which = "-1"; return "-1";
      case 2: which = "2^32"; return "4294967296";
      case 3: which = "2^64-1"; return "18446744073709551615";
      default: which = "overflow"; return "99999999999999999999";
      }
    }
    bool replace_content_token(int li, const std::string& rep, const std::string& what)
    {
      const Line& l = d.lines[li];
      auto tk = tokens(d.text, l.beg, l.end); if(tk.empty()) return false;
      std::size_t ti = r.below(tk.size());
      m.note = "line " + std::to_string(lineno(li)) + " in <" + d.lines[l.parent].name + ">: token " + std::to_string(ti) + " of '" + d.text.substr(l.beg, l.end - l.beg) + "' -> " + rep + " (" + what + ")";
      m.text = splice(tk[ti].beg, tk[ti].end, rep);
      return true;
    }
    // vertex index out of range in a Topology of the root mesh / of a mesh part / in a SurfaceMesh
    bool s_topo_index()
    {
      std::vector<std::pair<int, unsigned long long>> cand; // (content line, bound)
      for(int o : find_open("Topology"))
      {
        int par = d.lines[o].parent; if(par < 0) continue;
        const Attr* a = d.lines[par].attr("size"); if(!a) continue;
        auto nv = nums(*a); if(nv.empty()) continue;
        for(int c : content_of(o)) cand.push_back({c, nv[0]});
      }
      for(int o : find_open("Triangles"))
      {
        int par = d.lines[o].parent; if(par < 0) continue;
        const Attr* a = d.lines[par].attr("verts"); if(!a) continue;
        auto nv = nums(*a); if(nv.size() != 1) continue;
        for(int c : content_of(o)) cand.push_back({c, nv[0]});
      }
      if(cand.empty()) return false;
      auto pc = cand[r.below(cand.size())];
      std::string which; std::string rep = bad_index(pc.second, which);
      if(!replace_content_token(pc.first, rep, "bound " + std::to_string(pc.second))) return false;
      const std::string& en = d.lines[d.lines[pc.first].parent].name;
      const std::string& pn = d.lines[d.lines[d.lines[pc.first].parent].parent].name;
      m.kind = "index_oob:" + (en == "Triangles" ? std::string("surfmesh") : (pn == "Mesh" ? std::string("mesh") : std::string("part_topo"))) + which;
      m.must_reject = true;
      return true;
    }
    // target index of a mesh part out of the parent's range
    bool s_mapping_index()
    {
      auto ms = mesh_sizes(); if(ms.empty()) return false;
      std::vector<std::pair<int, unsigned long long>> cand;
      for(int o : find_open("Mapping"))
      {
        const Attr* a = d.lines[o].attr("dim"); if(!a) continue;
        auto nv = nums(*a); if(nv.size() != 1 || nv[0] >= ms.size()) continue;
        for(int c : content_of(o)) cand.push_back({c, ms[nv[0]]});
      }
      if(cand.empty()) return false;
      auto pc = cand[r.below(cand.size())];
      std::string which; std::string rep = bad_index(pc.second, which);
      if(!replace_content_token(pc.first, rep, "parent entities " + std::to_string(pc.second))) return false;
      m.kind = "index_oob:mapping" + which; m.must_reject = true;
      return true;
    }
    bool s_patch_index()
    {
      std::vector<std::pair<int, unsigned long long>> cand;
      for(int o : find_open("Patch"))
      {
        int par = d.lines[o].parent; if(par < 0) continue;
        const Attr* a = d.lines[par].attr("size"); if(!a) continue;
        auto nv = nums(*a); if(nv.size() != 2) continue;
        for(int c : content_of(o)) cand.push_back({c, nv[1]});
      }
      if(cand.empty()) return false;
      auto pc = cand[r.below(cand.size())];
      std::string which; std::string rep = bad_index(pc.second, which);
      if(!replace_content_token(pc.first, rep, "elements " + std::to_string(pc.second))) return false;
      m.kind = "index_oob:patch" + which; m.must_reject = true;
      return true;
    }
    // dimension / shape string of the Mesh markup (or of the root markup) swapped
    bool s_type_swap()
    {
      auto v = find_open("Mesh"); if(v.empty()) return false;
      int li = v[0]; const Attr* a = d.lines[li].attr("type"); if(!a) return false;
      std::string t = a->val; std::vector<std::string> p; { std::size_t i = 0; while(true) { std::size_t j = t.find(':', i); p.push_back(t.substr(i, j == std::string::npos ? j : j - i)); if(j == std::string::npos) break; i = j + 1; } }
      if(p.size() != 4) return false;
      int what = int(r.below(5)); std::string nt;
      if(what == 0) { p[1] = (p[1] == "hypercube") ? "simplex" : "hypercube"; m.kind = "type_swap:shape"; }
      else if(what == 1) { p[2] = (p[2] == "2") ? "3" : "2"; m.kind = "type_swap:shape_dim"; }
      else if(what == 2) { p[3] = (p[3] == "2") ? "3" : "2"; m.kind = "type_swap:world_dim"; }
      else if(what == 3) { p[2] = (p[2] == "2") ? "3" : "2"; p[3] = p[2]; m.kind = "type_swap:both_dims"; }
      else
      {
        // root markup names another supported mesh type; the Mesh markup keeps the old one
        if(d.lines.empty()) return false;
        int ri = -1; for(int i = 0; i < int(d.lines.size()); ++i) if(d.lines[i].kind == L_OPEN) { ri = i; break; }
        if(ri < 0) return false; const Attr* ra = d.lines[ri].attr("mesh"); if(!ra) return false;
        static const char* ts[] = {"conformal:hypercube:2:2", "conformal:simplex:2:2", "conformal:hypercube:3:3", "conformal:simplex:3:3"};
        std::string n2 = ts[r.below(4)]; if(n2 == ra->val) n2 = ts[(r.below(3) + 1 + (std::find(ts, ts + 4, ra->val) - ts)) % 4];
        m.text = splice(ra->vbeg, ra->vend, n2); m.kind = "type_swap:root"; m.note = "root mesh: " + ra->val + " -> " + n2; m.must_reject = true; return true;
      }
      nt = p[0] + ":" + p[1] + ":" + p[2] + ":" + p[3];
      m.text = splice(a->vbeg, a->vend, nt); m.note = "Mesh type: " + t + " -> " + nt; m.must_reject = true;
      return true;
    }
    // dim attribute of a Topology / Mapping changed: yields a duplicate or an out-of-range dimension
    bool s_dim_attr()
    {
      std::vector<int> cand; for(auto& n : {"Topology", "Mapping"}) for(int o : find_open(n)) cand.push_back(o);
      if(cand.empty()) return false;
      int li = pick(cand); const Attr* a = d.lines[li].attr("dim"); if(!a) return false;
      auto nv = nums(*a); if(nv.size() != 1) return false;
      // shape dimension from the enclosing element's size attribute count is unknown for parts with short size lists: use the root type
      unsigned long long nd = nv[0];
      switch(int(r.below(4))) { case 0: nd = nv[0] + 1; break; case 1: nd = (nv[0] > 0 ? nv[0] - 1 : 7); break; case 2: nd = 4; break; default: nd = nv[0] + 2; }
      if(!set_attr_token(li, "dim", 0, std::to_string(nd))) return false;
      m.kind = "dim_attr:" + d.lines[li].name; m.must_reject = true;
      return true;
    }
    // missing closing markup
    bool s_drop_close()
    {
      std::vector<int> cand; for(int i = 0; i < int(d.lines.size()); ++i) if(d.lines[i].kind == L_TERM) cand.push_back(i);
      if(cand.empty()) return false;
      int li = pick(cand); const Line& l = d.lines[li];
      std::size_t b = (l.end < d.text.size()) ? l.end + 1 : l.end;
      m.text = splice(l.beg, b, ""); m.kind = "drop_close"; m.note = "removed line " + std::to_string(lineno(li)) + " '</" + l.name + ">'"; m.must_reject = true;
      return true;
    }
    // closing markup replaced by a self-closing opening or '/' dropped
    bool s_break_close()
    {
      std::vector<int> cand; for(int i = 0; i < int(d.lines.size()); ++i) if(d.lines[i].kind == L_TERM) cand.push_back(i);
      if(cand.empty()) return false;
      int li = pick(cand); const Line& l = d.lines[li];
      std::size_t sl = d.text.find('/', l.beg); if(sl == std::string::npos || sl >= l.end) return false;
      m.text = splice(sl, sl + 1, ""); m.kind = "break_close"; m.note = "line " + std::to_string(lineno(li)) + ": '</" + l.name + ">' -> '<" + l.name + ">'"; m.must_reject = true;
      return true;
    }
    bool dup_block(const std::string& elem, const std::string& kind)
    {
      auto v = find_open(elem); if(v.empty()) return false;
      int li = pick(v); int te = term_of(li); if(te < 0) return false;
      std::size_t a = d.lines[li].beg, b = std::min(d.text.size(), d.lines[te].end + 1);
      std::string blk = d.text.substr(a, b - a); if(blk.empty() || blk.back() != '\n') blk += '\n';
      m.text = splice(b, b, blk); m.kind = kind; m.note = "duplicated <" + elem + "> block of line " + std::to_string(lineno(li));
      return true;
    }
    // a whole child block removed (declared size without the data)
    bool s_drop_block()
    {
      static const char* names[] = {"Points", "Params", "Vertices", "Topology", "Mapping", "Triangles", "Attribute", "Patch"};
      std::vector<int> cand; for(auto& n : names) for(int o : find_open(n)) cand.push_back(o);
      if(cand.empty()) return false;
      int li = pick(cand); int te = term_of(li); if(te < 0) return false;
      const std::string& n = d.lines[li].name;
      m.text = splice(d.lines[li].beg, std::min(d.text.size(), d.lines[te].end + 1), "");
      m.kind = "drop_block:" + n; m.note = "removed <" + n + "> block of lines " + std::to_string(lineno(li)) + "-" + std::to_string(lineno(te));
      m.must_reject = (n == "Points" || n == "Vertices" || n == "Topology" || n == "Mapping" || n == "Triangles");
      return true;
    }
    // control point count of a Bezier point line far beyond the tokens on the line
    bool s_bezier_ctrl()
    {
      std::vector<int> cand; for(int o : find_open("Points")) { auto c = content_of(o); for(std::size_t i = 1; i < c.size(); ++i) cand.push_back(c[i]); }
      if(cand.empty()) return false;
      int li = pick(cand); const Line& l = d.lines[li];
      auto tk = tokens(d.text, l.beg, l.end); if(tk.empty()) return false;
      std::string rep = r.pick({"9223372036854775807", "4611686018427387904", "2147483648", "7", "18446744073709551615"});
      bool whole = r.coin(0.5);
      m.text = whole ? splice(tk.front().beg, tk.back().end, rep) : splice(tk[0].beg, tk[0].end, rep);
      m.kind = "bezier_ctrl_count"; m.note = "line " + std::to_string(lineno(li)) + " in <Points>: control point count -> " + rep + (whole ? " (alone on the line)" : ""); m.must_reject = true;
      return true;
    }
    bool s_dup_chart() { return dup_block("Chart", "dup_chart"); }
    bool s_dup_part() { return dup_block("MeshPart", "dup_part"); }
    bool s_dup_mesh() { return dup_block("Mesh", "dup_mesh"); }
    // special values in numeric attributes of charts / attributes
    bool s_attr_value()
    {
      std::vector<std::pair<int, int>> cand;
      for(int i = 0; i < int(d.lines.size()); ++i) if(d.lines[i].kind == L_OPEN || d.lines[i].kind == L_CLOSED) for(int k = 0; k < int(d.lines[i].attrs.size()); ++k) cand.push_back({i, k});
      if(cand.empty()) return false;
      auto pc = cand[r.below(cand.size())]; const Attr& a = d.lines[pc.first].attrs[std::size_t(pc.second)];
      static const char* vals[] = {"0", "-1", "1", "2", "3", "4", "7", "65536", "2147483648", "4294967295", "4294967296", "18446744073709551615", "9223372036854775807", "1e-9", "-0.5", "1e308", "nan", "inf", "", "x", "0 0", "1 2 3 4 5"};
      auto tk = tokens(d.text, a.vbeg, a.vend);
      std::string rep = vals[r.below(sizeof(vals) / sizeof(vals[0]))];
      if(tk.empty() || r.coin(0.3)) m.text = splice(a.vbeg, a.vend, rep);
      else { std::size_t ti = r.below(tk.size()); m.text = splice(tk[ti].beg, tk[ti].end, rep); }
      m.kind = "attr_value"; m.note = "line " + std::to_string(lineno(pc.first)) + " <" + d.lines[pc.first].name + "> " + a.key + "=\"" + a.val + "\" -> " + rep;
      return true;
    }

    // ---------------------------------------------------------------- generic edits
    bool g_truncate(bool structural)
    {
      std::size_t p;
      if(structural)
      {
        std::vector<std::size_t> b;
        for(auto& l : d.lines) { if(l.kind == L_BLANK) continue; b.push_back(l.beg); b.push_back(l.end); b.push_back(std::min(d.text.size(), l.end + 1));
          for(auto& a : l.attrs) { b.push_back(a.vbeg); b.push_back(a.vend); b.push_back(a.vend + 1); } }
        if(b.empty()) return false;
        p = b[r.below(b.size())];
      }
      else p = r.below(d.text.size() + 1);
      return truncate_at(p, structural ? "truncate:boundary" : "truncate:byte");
    }
    bool truncate_at(std::size_t p, const std::string& kind)
    {
      if(p > d.text.size()) p = d.text.size();
      m.text = d.text.substr(0, p); m.kind = kind; m.note = "cut at byte " + std::to_string(p) + " of " + std::to_string(d.text.size());
      bool removes = false;
      if(d.balanced) for(std::size_t i = p; i < d.root_end && i < d.text.size(); ++i) if(!is_ws(d.text[i])) { removes = true; break; }
      m.must_reject = removes;
      return true;
    }
    bool g_byte_flip()
    {
      if(d.text.empty()) return false;
      m.text = d.text; int n = int(r.range(1, 3));
      static const char special[] = {'<', '>', '/', '"', '=', ' ', '\n', '0', '1', '9', '-', '.', 'e', '\0', '\xff', '\t', ':', '&', ';', '\r'};
      for(int i = 0; i < n; ++i)
      {
        std::size_t p = r.below(m.text.size());
        char c = r.coin(0.6) ? special[r.below(sizeof(special))] : char(r.below(256));
        m.note += "byte " + std::to_string(p) + ": " + std::to_string(int((unsigned char)m.text[p])) + "->" + std::to_string(int((unsigned char)c)) + " ";
        m.text[p] = c;
      }
      m.kind = "byte_flip";
      return true;
    }
    bool g_bit_flip()
    {
      if(d.text.empty()) return false;
      m.text = d.text; std::size_t p = r.below(m.text.size()); m.text[p] = char(m.text[p] ^ char(1u << r.below(8)));
      m.kind = "bit_flip"; m.note = "byte " + std::to_string(p);
      return true;
    }
    bool g_token_swap()
    {
      std::vector<int> cand; for(int i = 0; i < int(d.lines.size()); ++i) if(d.lines[i].kind != L_BLANK) cand.push_back(i);
      if(cand.size() < 2) return false;
      int l1 = pick(cand), l2 = r.coin(0.5) ? l1 : pick(cand);
      auto t1 = tokens(d.text, d.lines[l1].beg, d.lines[l1].end), t2 = tokens(d.text, d.lines[l2].beg, d.lines[l2].end);
      if(t1.empty() || t2.empty()) return false;
      Tok a = t1[r.below(t1.size())], b = t2[r.below(t2.size())];
      if(a.beg == b.beg) return false;
      if(a.beg > b.beg) std::swap(a, b);
      if(a.end > b.beg) return false;
      m.text = d.text.substr(0, a.beg) + d.text.substr(b.beg, b.end - b.beg) + d.text.substr(a.end, b.beg - a.end) + d.text.substr(a.beg, a.end - a.beg) + d.text.substr(b.end);
      m.kind = "token_swap"; m.note = "lines " + std::to_string(lineno(l1)) + "," + std::to_string(lineno(l2));
      return true;
    }
    bool g_line_op()
    {
      std::vector<int> cand; for(int i = 0; i < int(d.lines.size()); ++i) if(d.lines[i].kind != L_BLANK) cand.push_back(i);
      if(cand.size() < 2) return false;
      int li = pick(cand); const Line& l = d.lines[li];
      std::size_t b = std::min(d.text.size(), l.end + 1);
      std::string ln = d.text.substr(l.beg, b - l.beg); if(ln.empty() || ln.back() != '\n') ln += '\n';
      switch(int(r.below(4)))
      {
      case 0: m.text = splice(l.beg, b, ""); m.kind = "line_delete"; break;
      case 1: m.text = splice(b, b, ln); m.kind = "line_dup"; break;
      case 2: { int lj = pick(cand); const Line& k = d.lines[lj]; if(lj == li) return false; std::size_t kb = std::min(d.text.size(), k.end + 1);
                m.text = splice(kb, kb, ln); m.kind = "line_copy"; m.note = "to after line " + std::to_string(lineno(lj)) + "; "; break; }
      default: { int lj = pick(cand); if(lj == li) return false; const Line& k = d.lines[lj];
                 const Line& x = (li < lj) ? l : k; const Line& y = (li < lj) ? k : l;
                 m.text = d.text.substr(0, x.beg) + d.text.substr(y.beg, y.end - y.beg) + d.text.substr(x.end, y.beg - x.end) + d.text.substr(x.beg, x.end - x.beg) + d.text.substr(y.end);
                 m.kind = "line_swap"; m.note = "with line " + std::to_string(lineno(lj)) + "; "; break; }
      }
      m.note += "line " + std::to_string(lineno(li)) + " '" + d.text.substr(l.beg, std::min<std::size_t>(l.end - l.beg, 60)) + "'";
      return true;
    }
    bool g_number()
    {
      // a random numeric token anywhere -> special value
      std::vector<int> cand; for(int i = 0; i < int(d.lines.size()); ++i) if(d.lines[i].kind == L_CONTENT) cand.push_back(i);
      if(cand.empty()) return false;
      int li = pick(cand);
      static const char* vals[] = {"0", "-1", "-0", "1", "4294967295", "4294967296", "18446744073709551615", "99999999999999999999", "1e400", "-1e400", "nan", "inf", "0x10", "1.5", "1e3", "+1", "١", "", "1 1"};
      std::string rep = vals[r.below(sizeof(vals) / sizeof(vals[0]))];
      if(!replace_content_token(li, rep, "special")) return false;
      m.kind = "number";
      return true;
    }
    bool g_junk()
    {
      static const char* junk[] = {"<", ">", "</>", "<>", "< />", "<a", "a>", "<a b>", "<a b=>", "<a b=\"", "<a b=\"c\" b=\"d\">", "<!--", "<!-- x", "-->", "<?xml version=\"1.0\"?>", "<Mesh>", "</Mesh>", "<Chart name=\"\">", "<Chart>", "<Info>", "</Info>", "<FeatMeshFile version=\"1\">", "</FeatMeshFile>", "<Vertices>", "<Topology dim=\"1\">", "<Mapping dim=\"0\">", "<Patch rank=\"0\" size=\"1\">", "0", "0 0 0 0 0 0 0 0 0", "&amp;", "\xef\xbb\xbf", "<Partition size=\"1 1\" />", "<Partition size=\"-1 1\">", "<Partition size=\"1 -1\">", "<Bezier dim=\"2\" size=\"2\" orientation=\"2\">", "<Extrude>", "</Extrude>", "<Circle radius=\"1\" midpoint=\"0 0\" />", "<Circle radius=\"1\" midpoint=\"0 0\" domain=\"0 0\" />", "<Sphere radius=\"1\" midpoint=\"0 0 0\" />", "<Attribute name=\"a\" dim=\"1\">", "<Attribute name=\"a\" dim=\"2147483648\">"};
      std::vector<int> cand; for(int i = 0; i < int(d.lines.size()); ++i) if(d.lines[i].kind != L_BLANK) cand.push_back(i);
      if(cand.empty()) return false;
      int li = pick(cand); const Line& l = d.lines[li];
      std::string j = junk[r.below(sizeof(junk) / sizeof(junk[0]))];
      if(r.coin(0.7)) { std::size_t b = std::min(d.text.size(), l.end + 1); m.text = splice(b, b, j + "\n"); m.kind = "junk_line"; }
      else { std::size_t p = l.beg + r.below(l.end - l.beg + 1); m.text = splice(p, p, j); m.kind = "junk_inline"; }
      m.note = "'" + j + "' at line " + std::to_string(lineno(li));
      return true;
    }
    bool g_attr_op()
    {
      std::vector<std::pair<int, int>> cand;
      for(int i = 0; i < int(d.lines.size()); ++i) if(d.lines[i].kind == L_OPEN || d.lines[i].kind == L_CLOSED) for(int k = 0; k < int(d.lines[i].attrs.size()); ++k) cand.push_back({i, k});
      if(cand.empty()) return false;
      auto pc = cand[r.below(cand.size())]; const Line& l = d.lines[pc.first]; const Attr& a = l.attrs[std::size_t(pc.second)];
      std::size_t kb = d.text.rfind(a.key, a.vbeg); if(kb == std::string::npos || kb < l.beg) return false;
      std::string whole = d.text.substr(kb, a.vend + 1 - kb);
      switch(int(r.below(4)))
      {
      case 0: m.text = splice(kb, a.vend + 1, ""); m.kind = "attr_delete"; break;
      case 1: m.text = splice(a.vend + 1, a.vend + 1, " " + whole); m.kind = "attr_dup"; break;
      case 2: m.text = splice(kb, kb + a.key.size(), a.key + "x"); m.kind = "attr_rename"; break;
      default: m.text = splice(a.vbeg - 1, a.vbeg, ""); m.kind = "attr_unquote"; break;
      }
      m.note = "line " + std::to_string(lineno(pc.first)) + " <" + l.name + "> " + whole;
      return true;
    }
    // deterministic variant: delete attribute k of line i (sweep over every attribute of a base text)
    bool attr_delete_at(int i, int k)
    {
      if(i < 0 || i >= int(d.lines.size()) || k < 0 || k >= int(d.lines[i].attrs.size())) return false;
      const Line& l = d.lines[i]; const Attr& a = l.attrs[std::size_t(k)];
      std::size_t kb = d.text.rfind(a.key, a.vbeg); if(kb == std::string::npos || kb < l.beg) return false;
      std::string whole = d.text.substr(kb, a.vend + 1 - kb);
      m.text = splice(kb, a.vend + 1, ""); m.kind = "attr_delete";
      m.note = "line " + std::to_string(lineno(i)) + " <" + l.name + "> " + whole + " (attribute sweep)";
      return true;
    }
    bool g_splice(const Doc& other)
    {
      // a block of lines of another valid text inserted at a random line boundary
      std::vector<int> ca; for(int i = 0; i < int(d.lines.size()); ++i) if(d.lines[i].kind != L_BLANK) ca.push_back(i);
      std::vector<int> cb; for(int i = 0; i < int(other.lines.size()); ++i) if(other.lines[i].kind == L_OPEN && other.lines[i].parent >= 0) cb.push_back(i);
      if(ca.empty() || cb.empty()) return false;
      int lo = cb[r.below(cb.size())]; int te = -1;
      for(int i = lo + 1; i < int(other.lines.size()); ++i) if(other.lines[i].kind == L_TERM && other.lines[i].parent == other.lines[lo].parent && other.lines[i].name == other.lines[lo].name) { te = i; break; }
      if(te < 0) return false;
      std::string blk = other.text.substr(other.lines[lo].beg, std::min(other.text.size(), other.lines[te].end + 1) - other.lines[lo].beg);
      if(blk.size() > 20000) return false;
      if(blk.empty() || blk.back() != '\n') blk += '\n';
      int li = pick(ca); std::size_t b = std::min(d.text.size(), d.lines[li].end + 1);
      m.text = splice(b, b, blk); m.kind = "splice_block"; m.note = "<" + other.lines[lo].name + "> block after line " + std::to_string(lineno(li));
      return true;
    }
  };

  // all chart names occurring more than once (input-derived tag for the known duplicate-chart abort)
  inline bool has_dup_chart_name(const Doc& d)
  {
    std::map<std::string, int> cnt;
    for(auto& l : d.lines) if((l.kind == L_OPEN) && l.name == "Chart") if(const Attr* a = l.attr("name"))
    { std::size_t x = 0, y = a->val.size(); while(x < y && is_ws(a->val[x])) ++x; while(y > x && is_ws(a->val[y - 1])) --y; if(++cnt[a->val.substr(x, y - x)] > 1) return true; }
    return false;
  }

  // how 'istream >> unsigned long' (String::parse(Index&)) reads a token: 0 = no number, 1 = value, 2 = negative (wraps
  // to a huge value), 3 = overflow (fails)
  inline int prefix_index(const std::string& s, unsigned long long& v)
  {
    std::size_t i = 0; bool neg = false;
    if(i < s.size() && (s[i] == '+' || s[i] == '-')) { neg = (s[i] == '-'); ++i; }
    std::size_t j = i; while(j < s.size() && s[j] >= '0' && s[j] <= '9') ++j;
    if(j == i) return 0;
    errno = 0;
    v = std::strtoull(s.substr(i, j - i).c_str(), nullptr, 10);
    if(errno == ERANGE) return 3;
    return neg ? (v == 0 ? 1 : 2) : 1;
  }

  inline bool attr_index(const Attr* a, unsigned long long& x)
  {
    if(a == nullptr) return false;
    std::string v = a->val; while(!v.empty() && is_ws(v[0])) v.erase(v.begin());
    return prefix_index(v, x) == 1;
  }

  // input-derived tags naming the structural fact that a known finding depends on
  inline void input_tags(const Doc& d, std::vector<std::string>& tags)
  {
    if(has_dup_chart_name(d)) tags.push_back("dup_chart_name");
    // root shape dimension
    int sdim = 0;
    std::vector<unsigned long long> msz;
    for(auto& l : d.lines)
    {
      if(l.kind != L_OPEN) continue;
      if(sdim == 0) if(const Attr* a = l.attr("mesh")) { std::size_t p = a->val.rfind(':'); if(p != std::string::npos && p >= 1) sdim = a->val[p - 1] - '0'; }
      if(l.name == "Mesh" && msz.empty()) if(const Attr* a = l.attr("size")) for(auto& t : tokens(d.text, a->vbeg, a->vend)) { unsigned long long x = 0; if(to_u64(d.text.substr(t.beg, t.end - t.beg), x)) msz.push_back(x); }
    }
    bool map_dim = false, map_idx = false, tri_idx = false, attr_dim = false, bez_ori = false, neg_size = false, nonmanifold = false, topo_parent = false;
    std::map<std::pair<int, std::pair<unsigned long long, unsigned long long>>, int> edge_use;
    for(std::size_t i = 0; i < d.lines.size(); ++i)
    {
      const Line& l = d.lines[i];
      if(l.kind == L_OPEN || l.kind == L_CLOSED)
      {
        if(l.name == "Mapping") { unsigned long long x = 0; if(attr_index(l.attr("dim"), x) && sdim > 0 && x == (unsigned long long)(sdim + 1)) map_dim = true; }
        if(l.name == "Attribute") if(const Attr* a = l.attr("dim")) { unsigned long long x = 0; std::string v = a->val; while(!v.empty() && is_ws(v[0])) v.erase(v.begin()); int pr = prefix_index(v, x); if(pr == 2) x = 0ull - x; if((pr == 1 || pr == 2) && x != 0 && std::int32_t(std::uint32_t(x)) <= 0) attr_dim = true; }
        if(l.name == "Bezier") if(const Attr* a = l.attr("orientation")) { if(a->val != "1" && a->val != "-1") bez_ori = true; }
        if(l.name == "Partition") if(const Attr* a = l.attr("size")) if(a->val.find('-') != std::string::npos) neg_size = true;
        if(l.name == "MeshPart") if(const Attr* a = l.attr("topology")) if(a->val.find("parent") != std::string::npos) topo_parent = true;
      }
      if(l.kind == L_CONTENT && l.parent >= 0)
      {
        const Line& p = d.lines[std::size_t(l.parent)];
        if(p.name == "Mapping" || p.name == "Triangles")
        {
          unsigned long long bound = ~0ull;
          if(p.name == "Mapping") { unsigned long long x = 0; if(attr_index(p.attr("dim"), x) && x < msz.size()) bound = msz[x]; }
          else if(p.parent >= 0) { unsigned long long x = 0; if(attr_index(d.lines[std::size_t(p.parent)].attr("verts"), x)) bound = x; }
          std::vector<unsigned long long> tri;
          for(auto& t : tokens(d.text, l.beg, l.end))
          {
            std::string s = d.text.substr(t.beg, t.end - t.beg); unsigned long long x = 0;
            int pr = prefix_index(s, x);
            bool oob = (pr == 2) || (pr == 1 && x >= bound);
            if(oob) { if(p.name == "Mapping") map_idx = true; else tri_idx = true; }
            if(pr == 1) tri.push_back(x);
          }
          if(p.name == "Triangles" && tri.size() == 3)
            for(int e = 0; e < 3; ++e) { auto a = tri[std::size_t(e)], b = tri[std::size_t((e + 1) % 3)]; if(++edge_use[{l.parent, {std::min(a, b), std::max(a, b)}}] > 2 || a == b) nonmanifold = true; }
        }
      }
    }
    if(map_dim) tags.push_back("mapping_dim_oob");
    if(map_idx) tags.push_back("mapping_index_oob");
    if(tri_idx) tags.push_back("surfmesh_index_oob");
    if(attr_dim) tags.push_back("attr_dim_not_int");
    if(bez_ori) tags.push_back("bezier_orientation_odd");
    if(neg_size) tags.push_back("partition_size_negative");
    if(nonmanifold) tags.push_back("surfmesh_nonmanifold");
    // Bezier charts without any point line / with an absurd control point count
    for(std::size_t i = 0; i < d.lines.size(); ++i)
    {
      const Line& l = d.lines[i];
      if(l.kind == L_OPEN && l.name == "Bezier")
      {
        bool pts = false;
        for(std::size_t j = i + 1; j < d.lines.size(); ++j)
        {
          const Line& q = d.lines[j];
          if(q.kind == L_TERM && q.name == "Bezier") break;
          if(q.kind == L_CONTENT && q.parent >= 0 && d.lines[std::size_t(q.parent)].name == "Points") { pts = true; break; }
        }
        if(!pts) { tags.push_back("bezier_without_points"); break; }
      }
    }
    for(auto& l : d.lines)
      if(l.kind == L_CONTENT && l.parent >= 0 && d.lines[std::size_t(l.parent)].name == "Points")
      {
        auto tk = tokens(d.text, l.beg, l.end); unsigned long long x = 0;
        if(!tk.empty()) { int pr = prefix_index(d.text.substr(tk[0].beg, tk[0].end - tk[0].beg), x); if(pr == 2 || (pr == 1 && x >= (1ull << 31))) { tags.push_back("bezier_ctrl_overflow"); break; } }
      }
    if(topo_parent) tags.push_back("topology_parent");
    // a Partition none of whose patches lists an element
    for(std::size_t i = 0; i < d.lines.size(); ++i)
    {
      const Line& l = d.lines[i];
      if((l.kind != L_OPEN && l.kind != L_CLOSED) || l.name != "Partition") continue;
      bool any = false;
      if(l.kind == L_OPEN) for(std::size_t j = i + 1; j < d.lines.size(); ++j)
      {
        const Line& q = d.lines[j];
        if(q.kind == L_TERM && q.name == "Partition") break;
        if(q.kind == L_CONTENT) { any = true; break; }
      }
      if(!any) { tags.push_back("partition_without_elements"); break; }
    }
  }

  // one mutant of 'base'; 'other' = another valid text (for splices)
  inline void mutate(const Doc& base, const Doc& other, vh::Rng& r, Mutant& m)
  {
    for(int tries = 0; tries < 40; ++tries)
    {
      m = Mutant();
      Engine e(base, r, m);
      bool ok = false;
      if(r.coin(0.5))
      {
        switch(int(r.below(20)))
        {
        case 0: ok = e.s_mesh_size(); break;
        case 1: ok = e.s_part_size(); break;
        case 2: ok = e.s_patch_size(); break;
        case 3: ok = e.s_partition_size(); break;
        case 4: ok = r.coin() ? e.s_bezier_size() : e.s_surfmesh_size(); break;
        case 5: ok = e.s_attr_dim(); break;
        case 6: ok = e.s_coord_count(); break;
        case 7: ok = e.s_index_count(); break;
        case 8: case 9: ok = e.s_topo_index(); break;
        case 10: ok = e.s_mapping_index(); break;
        case 11: ok = e.s_patch_index(); break;
        case 12: ok = e.s_type_swap(); break;
        case 13: ok = e.s_dim_attr(); break;
        case 14: ok = e.s_drop_close(); break;
        case 15: ok = e.s_break_close(); break;
        case 16: ok = e.s_dup_chart(); break;
        case 17: ok = r.coin() ? e.s_dup_part() : e.s_dup_mesh(); break;
        case 18: ok = r.coin(0.7) ? e.s_drop_block() : e.s_bezier_ctrl(); break;
        default: ok = e.s_attr_value(); break;
        }
      }
      else
      {
        switch(int(r.below(12)))
        {
        case 0: case 1: ok = e.g_truncate(true); break;
        case 2: ok = e.g_truncate(false); break;
        case 3: case 4: ok = e.g_byte_flip(); break;
        case 5: ok = e.g_bit_flip(); break;
        case 6: ok = e.g_token_swap(); break;
        case 7: ok = e.g_line_op(); break;
        case 8: ok = e.g_number(); break;
        case 9: ok = e.g_junk(); break;
        case 10: ok = e.g_attr_op(); break;
        default: ok = e.g_splice(other); break;
        }
      }
      if(ok && m.text != base.text) return;
    }
    // fall back: cut the last byte of the root element
    Engine e(base, r, m); m = Mutant();
    e.truncate_at(base.balanced ? base.root_end - 1 : base.text.size() / 2, "truncate:boundary");
  }
} // namespace c11m
