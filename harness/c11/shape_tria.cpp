#include "shape_impl.hpp"
C11_DEFINE_SHAPE(1, tria, "conformal:simplex:2:2", FEAT::Shape::Simplex<2>, 2)
