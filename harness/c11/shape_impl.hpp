// C11 -- per-shape implementation (included by shape_quad/tria/hexa/tetra.cpp, one instantiation each):
// parse (with exception classification), model extraction and structural-validity monitor through the public
// FEAT API, writer call, refinement, generator of nodes with harness-made mesh parts / charts / partitions.
#pragma once
#include "c11.hpp"
#include <common/vh_mesh.hpp>
#include <kernel/geometry/mesh_file_reader.hpp>
#include <kernel/geometry/mesh_file_writer.hpp>
#include <kernel/geometry/partition_set.hpp>
#include <kernel/adjacency/graph.hpp>
#include <sstream>
#include <iomanip>
#include <typeinfo>
#include <stdexcept>
#include <new>

namespace c11
{
  using namespace FEAT;

  // ------------------------------------------------------------------ compile-time loops
  template<int dim_, int cd_ = 1, int fd_ = 0>
  struct IdxLoop
  {
    template<typename ISH_, typename F_>
    static void run(const ISH_& ish, F_&& f)
    {
      f(cd_, fd_, ish.template get_index_set<cd_, fd_>());
      if constexpr(fd_ + 1 < cd_) IdxLoop<dim_, cd_, fd_ + 1>::run(ish, f);
      else if constexpr(cd_ + 1 <= dim_) IdxLoop<dim_, cd_ + 1, 0>::run(ish, f);
    }
  };
  template<int dim_, int d_ = 0>
  struct TrgLoop
  {
    template<typename TSH_, typename F_>
    static void run(TSH_& tsh, F_&& f)
    {
      f(d_, tsh.template get_target_set<d_>());
      if constexpr(d_ < dim_) TrgLoop<dim_, d_ + 1>::run(tsh, f);
    }
  };

  template<typename ISH_, int dim_>
  void extract_topo(const ISH_& ish, std::vector<IdxSet>& out)
  {
    IdxLoop<dim_>::run(ish, [&](int cd, int fd, const auto& is) {
      IdxSet s; s.cell_dim = cd; s.face_dim = fd; s.nidx = is.num_indices; s.n = is.get_num_entities(); s.bound = is.get_index_bound();
      s.v.reserve(std::size_t(s.n) * std::size_t(s.nidx));
      for(Index i = 0; i < is.get_num_entities(); ++i) for(int j = 0; j < is.num_indices; ++j) s.v.push_back(is[i][j]);
      out.push_back(std::move(s));
    });
  }

  // tokens of a chart's own output: names, '=' and quotes are separate tokens, numbers stand alone
  inline std::vector<std::string> chart_tokens(const std::string& s)
  {
    std::vector<std::string> t; std::string cur;
    auto flush = [&]() { if(!cur.empty()) { t.push_back(cur); cur.clear(); } };
    for(char ch : s)
    {
      if(ch == ' ' || ch == '\n' || ch == '\t' || ch == '\r') flush();
      else if(ch == '"' || ch == '=' || ch == '<' || ch == '>' || ch == '/') { flush(); t.push_back(std::string(1, ch)); }
      else cur += ch;
    }
    flush();
    return t;
  }

  // ------------------------------------------------------------------ handle
  template<typename Mesh_>
  class NodeHandleT : public NodeHandle
  {
  public:
    typedef Mesh_ MeshType;
    typedef typename Mesh_::ShapeType ShapeType;
    static constexpr int sdim = Mesh_::shape_dim;
    static constexpr int wdim = Mesh_::world_dim;
    typedef Geometry::MeshAtlas<Mesh_> AtlasType;
    typedef Geometry::RootMeshNode<Mesh_> RootNodeType;
    typedef Geometry::MeshPart<Mesh_> PartType;

    int sid;
    std::shared_ptr<AtlasType> atlas;
    std::shared_ptr<Geometry::PartitionSet> parts;
    std::unique_ptr<RootNodeType> node; // destroyed before the atlas it points to

    explicit NodeHandleT(int sid_) : sid(sid_) {}
    virtual ~NodeHandleT() { node.reset(); }
    virtual int shape_id() const override { return sid; }

    virtual std::string write(const WriteOpts& o) const override
    {
      std::ostringstream os;
      if(o.precision > 0) os << std::setprecision(o.precision);
      if(o.scientific) os << std::scientific;
      Geometry::MeshFileWriter w(os, o.indent);
      w.write(node.get(), atlas.get(), parts.get());
      return os.str();
    }

    virtual void model(NodeModel& m) const override
    {
      m = NodeModel();
      m.shape_dim = sdim; m.world_dim = wdim;
      const Mesh_* mesh = node->get_mesh();
      if(mesh != nullptr)
      {
        m.has_mesh = true;
        for(int d = 0; d <= sdim; ++d) m.num[d] = mesh->get_num_entities(d);
        const auto& vtx = mesh->get_vertex_set();
        m.coords.reserve(std::size_t(vtx.get_num_vertices()) * std::size_t(wdim));
        for(Index i = 0; i < vtx.get_num_vertices(); ++i) for(int j = 0; j < wdim; ++j) m.coords.push_back(double(vtx[i][j]));
        extract_topo<typename Mesh_::IndexSetHolderType, sdim>(mesh->get_index_set_holder(), m.topo);
      }
      std::deque<String> names = node->get_mesh_part_names();
      for(const auto& nm : names)
      {
        const PartType* p = node->find_mesh_part(nm);
        if(p == nullptr) continue;
        PartModel pm; pm.name = nm; pm.chart = node->find_mesh_part_chart_name(nm);
        pm.chart_linked = (node->find_mesh_part_chart(nm) != nullptr);
        pm.has_topo = p->has_topology(); pm.shape_dim = sdim;
        for(int d = 0; d <= sdim; ++d) pm.num[d] = p->get_num_entities(d);
        TrgLoop<sdim>::run(p->get_target_set_holder(), [&](int d, const auto& ts) {
          pm.trg[d].reserve(std::size_t(ts.get_num_entities()));
          for(Index i = 0; i < ts.get_num_entities(); ++i) pm.trg[d].push_back(ts[i]);
        });
        if(p->has_topology()) extract_topo<typename PartType::IndexSetHolderType, sdim>(*p->get_topology(), pm.topo);
        for(const auto& a : p->get_mesh_attributes())
        {
          AttrModel am; am.name = a.first; am.dim = a.second->get_dimension(); am.n = a.second->get_num_values();
          for(Index i = 0; i < a.second->get_num_values(); ++i) for(int j = 0; j < a.second->get_dimension(); ++j) am.v.push_back(double((*a.second)(i, j)));
          pm.attrs.push_back(std::move(am));
        }
        m.parts.push_back(std::move(pm));
      }
      if(atlas)
      {
        for(const auto& nm : atlas->get_chart_names())
        {
          const auto* ch = atlas->find_mesh_chart(nm);
          if(ch == nullptr) continue;
          ChartModel cm; cm.name = nm; cm.type = ch->get_type(); cm.can_explicit = ch->can_explicit();
          std::ostringstream os; os << std::setprecision(17);
          ch->write(os, "");
          cm.tokens = chart_tokens(os.str());
          m.charts.push_back(std::move(cm));
        }
      }
      if(parts)
      {
        for(const auto& p : parts->get_partitions())
        {
          PartitionModel pm; pm.name = p.get_name(); pm.prio = p.get_priority(); pm.level = p.get_level();
          pm.nranks = p.get_num_patches(); pm.nelems = p.get_num_elements();
          const Adjacency::Graph& g = p.get_patches();
          for(Index i = 0; i < g.get_num_nodes_domain(); ++i)
          {
            std::vector<Idx> pa;
            for(auto it = g.image_begin(i); it != g.image_end(i); ++it) pa.push_back(*it);
            pm.patches.push_back(std::move(pa));
          }
          m.partitions.push_back(std::move(pm));
        }
      }
    }

    // "accepted => structurally valid": all indices in range, counts consistent
    virtual std::vector<std::string> validate() const override
    {
      std::vector<std::string> bad;
      auto add = [&](const std::string& s) { if(bad.size() < 8) bad.push_back(s); };
      const Mesh_* mesh = node->get_mesh();
      Index mnum[4] = {0, 0, 0, 0};
      if(mesh != nullptr)
      {
        for(int d = 0; d <= sdim; ++d) mnum[d] = mesh->get_num_entities(d);
        if(mesh->get_vertex_set().get_num_vertices() != mnum[0]) add("mesh: vertex set size != num_entities(0)");
        IdxLoop<sdim>::run(mesh->get_index_set_holder(), [&](int cd, int fd, const auto& is) {
          if(is.get_num_entities() != mnum[cd]) add("mesh: index set <" + std::to_string(cd) + "," + std::to_string(fd) + "> has " + std::to_string(is.get_num_entities()) + " entities, mesh declares " + std::to_string(mnum[cd]));
          for(Index i = 0; i < is.get_num_entities(); ++i) for(int j = 0; j < is.num_indices; ++j)
            if(is[i][j] >= mnum[fd]) { add("mesh: index set <" + std::to_string(cd) + "," + std::to_string(fd) + "> entry (" + std::to_string(i) + "," + std::to_string(j) + ") = " + std::to_string(is[i][j]) + " >= " + std::to_string(mnum[fd])); return; }
        });
      }
      for(const auto& nm_ : node->get_mesh_part_names())
      {
        const std::string nm(nm_);
        const PartType* p = node->find_mesh_part(nm_);
        if(p == nullptr) { add("meshpart '" + nm + "' listed but not found"); continue; }
        Index pnum[4] = {0, 0, 0, 0};
        for(int d = 0; d <= sdim; ++d) pnum[d] = p->get_num_entities(d);
        TrgLoop<sdim>::run(p->get_target_set_holder(), [&](int d, const auto& ts) {
          if(ts.get_num_entities() != pnum[d]) add("meshpart '" + nm + "': target set " + std::to_string(d) + " size mismatch");
          if(mesh != nullptr)
            for(Index i = 0; i < ts.get_num_entities(); ++i)
              if(ts[i] >= mnum[d]) { add("meshpart '" + nm + "': target index dim " + std::to_string(d) + " entry " + std::to_string(i) + " = " + std::to_string(ts[i]) + " >= " + std::to_string(mnum[d]) + " parent entities"); break; }
        });
        if(p->has_topology())
        {
          IdxLoop<sdim>::run(*p->get_topology(), [&](int cd, int fd, const auto& is) {
            if(is.get_num_entities() != pnum[cd]) add("meshpart '" + nm + "': topology <" + std::to_string(cd) + "," + std::to_string(fd) + "> entity count mismatch");
            for(Index i = 0; i < is.get_num_entities(); ++i) for(int j = 0; j < is.num_indices; ++j)
              if(is[i][j] >= pnum[fd]) { add("meshpart '" + nm + "': topology <" + std::to_string(cd) + "," + std::to_string(fd) + "> entry " + std::to_string(is[i][j]) + " >= " + std::to_string(pnum[fd])); return; }
          });
        }
        for(const auto& a : p->get_mesh_attributes())
        {
          if(a.second->get_num_values() != pnum[0]) add("meshpart '" + nm + "': attribute '" + std::string(a.first) + "' value count mismatch");
          if(a.second->get_dimension() <= 0 && pnum[0] > 0) add("meshpart '" + nm + "': attribute '" + std::string(a.first) + "' dimension <= 0");
        }
        String cn = node->find_mesh_part_chart_name(nm_);
        if(!cn.empty() && (!atlas || atlas->find_mesh_chart(cn) == nullptr)) add("meshpart '" + nm + "': chart '" + std::string(cn) + "' not in atlas");
      }
      if(parts)
      {
        for(const auto& p : parts->get_partitions())
        {
          const Adjacency::Graph& g = p.get_patches();
          if(g.get_num_nodes_domain() != p.get_num_patches()) add("partition: patch count mismatch");
          for(Index i = 0; i < g.get_num_nodes_domain(); ++i)
            for(auto it = g.image_begin(i); it != g.image_end(i); ++it)
              if(*it >= p.get_num_elements()) { add("partition '" + std::string(p.get_name()) + "': element index " + std::to_string(*it) + " >= " + std::to_string(p.get_num_elements())); break; }
        }
      }
      return bad;
    }

    virtual bool has_mesh() const override { return node && node->get_mesh() != nullptr; }
    virtual std::unique_ptr<NodeHandle> refine() const override
    {
      std::unique_ptr<NodeHandleT> h(new NodeHandleT(sid));
      h->atlas = atlas; h->parts = parts;
      h->node = node->refine_unique(Geometry::AdaptMode::none);
      return h;
    }
  };

  // ------------------------------------------------------------------ parse with exception classification
  template<typename Mesh_>
  void parse_text(int sid, const char* my_typestr, const std::string& text, const std::string* extra, Outcome& out)
  {
    out = Outcome();
    std::unique_ptr<NodeHandleT<Mesh_>> h(new NodeHandleT<Mesh_>(sid));
    try
    {
      std::istringstream iss(text), iss_extra(extra ? *extra : std::string());
      Geometry::MeshFileReader reader;
      if(extra) reader.add_stream(iss_extra);
      reader.add_stream(iss);
      reader.read_root_markup();
      out.typestr = reader.get_meshtype_string();
      if(!out.typestr.empty() && out.typestr != my_typestr) { out.status = Status::redispatch; return; }
      h->atlas = std::make_shared<Geometry::MeshAtlas<Mesh_>>();
      h->parts = std::make_shared<Geometry::PartitionSet>();
      h->node = Geometry::RootMeshNode<Mesh_>::make_unique(nullptr, h->atlas.get());
      reader.parse(*h->node, *h->atlas, h->parts.get());
      out.status = Status::accepted;
      out.node = std::move(h);
      return;
    }
    catch(const Xml::SyntaxError& e) { out.status = Status::rejected; out.ex_class = "xml-syntax"; out.what = e.what(); }
    catch(const Xml::GrammarError& e) { out.status = Status::rejected; out.ex_class = "xml-grammar"; out.what = e.what(); }
    catch(const Xml::ContentError& e) { out.status = Status::rejected; out.ex_class = "xml-content"; out.what = e.what(); }
    catch(const Xml::Error& e) { out.status = Status::rejected; out.ex_class = "xml-error"; out.what = e.what(); }
    catch(const Geometry::MeshNodeLinkerError& e) { out.status = Status::rejected; out.ex_class = "linker"; out.what = e.what(); }
    catch(const FEAT::Exception& e) { out.status = Status::rejected; out.ex_class = "feat-exception"; out.what = e.what(); }
    catch(const std::bad_alloc& e) { out.status = Status::resource; out.ex_class = "bad_alloc"; out.what = e.what(); }
    catch(const std::length_error& e) { out.status = Status::resource; out.ex_class = "length_error"; out.what = e.what(); }
    catch(const std::exception& e) { out.status = Status::foreign; out.ex_class = typeid(e).name(); out.what = e.what(); }
    catch(...) { out.status = Status::foreign; out.ex_class = "unknown"; out.what = "non-std exception"; }
    // partially built objects are destroyed here (h goes out of scope)
  }

  // ------------------------------------------------------------------ generator
  inline std::string pick_name(vh::Rng& r, const char* stem, int i)
  {
    static const char* odd[] = {"", "-a", ".b", ":c", " d", "_e", "+f", "(g)", "[h]", "#i", "@j", "'k'", "&l", ";m", "%n", "~o"};
    return std::string(stem) + std::to_string(i) + odd[r.below(sizeof(odd) / sizeof(odd[0]))];
  }

  template<typename Mesh_>
  struct Gen
  {
    typedef typename Mesh_::ShapeType ShapeType;
    typedef typename Mesh_::CoordType CoordType;
    static constexpr int sdim = Mesh_::shape_dim;
    static constexpr int wdim = Mesh_::world_dim;
    typedef Geometry::MeshPart<Mesh_> PartType;
    typedef Geometry::Atlas::ChartBase<Mesh_> ChartBaseType;

    static double rnd_real(vh::Rng& r)
    {
      switch(int(r.below(8)))
      {
      case 0: return 0.0;
      case 1: return double(r.range(-5, 5));
      case 2: return double(float(r.real(-3.0, 3.0)));
      case 3: return r.real(-1.0, 1.0) * 1e-7;
      case 4: return r.real(-1.0, 1.0) * 1e9;
      case 5: return double(r.range(-1000, 1000)) / 8.0;
      default: return r.real(-10.0, 10.0);
      }
    }

    template<typename SubMesh_>
    static std::unique_ptr<Geometry::Atlas::Circle<SubMesh_>> make_circle(vh::Rng& r, std::vector<std::string>& tags)
    {
      double mx = rnd_real(r), my = rnd_real(r), rad = r.pick({0.5, 1.0, 0.2, 2.25, 1e-3, 1e4, 0.3333333333333333, 1.0 / 7.0});
      if(r.coin(0.5))
      {
        double l = r.pick({0.0, -1.0, 0.25, 1.5, 0.1}), w = r.pick({1.0, 4.0, 6.283185307179586, -1.0, 0.7, 360.0, 1.0 / 3.0});
        tags.push_back("chart:circle+domain");
        return std::unique_ptr<Geometry::Atlas::Circle<SubMesh_>>(new Geometry::Atlas::Circle<SubMesh_>(CoordType(mx), CoordType(my), CoordType(rad), CoordType(l), CoordType(l + w)));
      }
      tags.push_back("chart:circle");
      return std::unique_ptr<Geometry::Atlas::Circle<SubMesh_>>(new Geometry::Atlas::Circle<SubMesh_>(CoordType(mx), CoordType(my), CoordType(rad)));
    }
    template<typename SubMesh_>
    static std::unique_ptr<Geometry::Atlas::Bezier<SubMesh_>> make_bezier(vh::Rng& r, std::vector<std::string>& tags)
    {
      typedef Geometry::Atlas::Bezier<SubMesh_> BT;
      bool closed = r.coin(0.4); double ori = r.coin(0.3) ? -1.0 : 1.0;
      std::unique_ptr<BT> b(new BT(closed, CoordType(ori)));
      int nv = int(r.range(2, 6)); bool params = r.coin(0.5);
      typename BT::WorldPoint p; typename BT::ParamPoint q;
      double t = rnd_real(r);
      for(int i = 0; i < nv; ++i)
      {
        if(i > 0) { int nc = int(r.below(3)); for(int k = 0; k < nc; ++k) { p[0] = CoordType(rnd_real(r)); p[1] = CoordType(rnd_real(r)); b->push_control(p); } }
        p[0] = CoordType(rnd_real(r)); p[1] = CoordType(rnd_real(r)); b->push_vertex(p);
        if(params) { q[0] = CoordType(t); b->push_param(q); t += r.pick({1.0, 0.5, 0.1, 2.75, 1.0 / 3.0}); }
      }
      tags.push_back(std::string("chart:bezier") + (closed ? "+closed" : "") + (params ? "+params" : "") + (ori < 0 ? "+neg" : ""));
      return b;
    }
    static std::unique_ptr<ChartBaseType> make_chart(vh::Rng& r, const GenOpts& o, std::vector<std::string>& tags)
    {
      if constexpr(wdim == 2)
      {
        (void)o;
        if(r.coin(0.5)) return make_circle<Mesh_>(r, tags);
        return make_bezier<Mesh_>(r, tags);
      }
      else
      {
        typedef typename Shape::FaceTraits<ShapeType, 2>::ShapeType SubShape;
        typedef Geometry::ConformalMesh<SubShape, 2, CoordType> SubMesh;
        int kind = int(r.below(o.with_surface_mesh ? 4 : 3));
        if(kind == 0)
        {
          tags.push_back("chart:sphere");
          return std::unique_ptr<ChartBaseType>(new Geometry::Atlas::Sphere<Mesh_>(CoordType(rnd_real(r)), CoordType(rnd_real(r)), CoordType(rnd_real(r)), CoordType(r.pick({0.5, 1.0, 2.5, 1e-3, 1.0 / 3.0}))));
        }
        if(kind == 1 || kind == 2)
        {
          std::vector<std::string> sub; std::string t = "chart:extrude";
          auto finish = [&](auto ext) -> std::unique_ptr<ChartBaseType> {
            if(r.coin(0.5)) { ext->set_origin(CoordType(rnd_real(r)), CoordType(rnd_real(r))); t += "+origin"; }
            if(r.coin(0.5)) { ext->set_offset(CoordType(rnd_real(r)), CoordType(rnd_real(r)), CoordType(rnd_real(r))); t += "+offset"; }
            if(r.coin(0.5))
            {
              // angles in radians; the file holds revolutions
              double y = r.pick({0.0, 0.25, -0.125, 0.1, 0.3333333333333333, 0.49}) * 6.283185307179586, pch = r.pick({0.0, 0.1, -0.2, 0.25, -0.25, 0.05}) * 6.283185307179586, ro = r.pick({0.0, 0.125, -0.3, 0.2}) * 6.283185307179586;
              ext->set_angles(CoordType(y), CoordType(pch), CoordType(ro)); t += "+angles";
            }
            return std::unique_ptr<ChartBaseType>(std::move(ext));
          };
          if(kind == 1)
          {
            auto c = make_circle<SubMesh>(r, sub);
            std::unique_ptr<Geometry::Atlas::Extrude<Mesh_, Geometry::Atlas::Circle<SubMesh>>> ext(new Geometry::Atlas::Extrude<Mesh_, Geometry::Atlas::Circle<SubMesh>>(std::move(c)));
            auto res = finish(std::move(ext)); tags.push_back(t + "|" + sub[0]); return res;
          }
          auto b = make_bezier<SubMesh>(r, sub);
          std::unique_ptr<Geometry::Atlas::Extrude<Mesh_, Geometry::Atlas::Bezier<SubMesh>>> ext(new Geometry::Atlas::Extrude<Mesh_, Geometry::Atlas::Bezier<SubMesh>>(std::move(b)));
          auto res = finish(std::move(ext)); tags.push_back(t + "|" + sub[0]); return res;
        }
        // small closed triangulated surface (tetrahedron / octahedron)
        typedef typename Geometry::Atlas::SurfaceMesh<Mesh_>::SurfaceMeshType SM;
        bool octa = r.coin(0.5);
        Index ne[3] = {Index(octa ? 6 : 4), 0, Index(octa ? 8 : 4)};
        std::unique_ptr<SM> sm(new SM(ne));
        auto& vtx = sm->get_vertex_set(); auto& idx = sm->template get_index_set<2, 0>();
        if(!octa)
        {
          double V[4][3] = {{0, 0, 0}, {1, 0, 0}, {0, 1, 0}, {0, 0, 1}}; Index T[4][3] = {{0, 2, 1}, {0, 1, 3}, {0, 3, 2}, {1, 2, 3}};
          for(int i = 0; i < 4; ++i) for(int j = 0; j < 3; ++j) { vtx[Index(i)][j] = CoordType(V[i][j] + 0.01 * rnd_real(r) * 1e-3); idx[Index(i)][j] = T[i][j]; }
        }
        else
        {
          double V[6][3] = {{1, 0, 0}, {-1, 0, 0}, {0, 1, 0}, {0, -1, 0}, {0, 0, 1}, {0, 0, -1}};
          Index T[8][3] = {{0, 2, 4}, {2, 1, 4}, {1, 3, 4}, {3, 0, 4}, {2, 0, 5}, {1, 2, 5}, {3, 1, 5}, {0, 3, 5}};
          for(int i = 0; i < 6; ++i) for(int j = 0; j < 3; ++j) vtx[Index(i)][j] = CoordType(V[i][j] * 1.25);
          for(int i = 0; i < 8; ++i) for(int j = 0; j < 3; ++j) idx[Index(i)][j] = T[i][j];
        }
        sm->deduct_topology_from_top();
        tags.push_back("chart:surfacemesh");
        return std::unique_ptr<ChartBaseType>(new Geometry::Atlas::SurfaceMesh<Mesh_>(std::move(sm)));
      }
    }

    static vm::MeshSpec<ShapeType> make_spec(vh::Rng& r, const GenOpts& o)
    {
      vm::MeshSpec<ShapeType> s;
      const long mx = o.max_cells_1d > 0 ? o.max_cells_1d : (o.thorough ? 6 : 4);
      if constexpr(std::is_same<ShapeType, Shape::Hypercube<2>>::value)
      {
        if(r.coin(0.2)) s = vm::quad_star(Index(r.range(3, 7)));
        else s = vm::quad_grid(Index(r.range(1, mx)), Index(r.range(1, mx)));
      }
      else if constexpr(std::is_same<ShapeType, Shape::Simplex<2>>::value) s = vm::tria_grid(Index(r.range(1, mx)), Index(r.range(1, mx)), &r);
      else if constexpr(std::is_same<ShapeType, Shape::Hypercube<3>>::value) s = vm::hexa_grid(Index(r.range(1, (mx + 1) / 2)), Index(r.range(1, (mx + 1) / 2)), Index(r.range(1, (mx + 1) / 2)));
      else s = vm::tetra_grid(Index(r.range(1, 2)), Index(r.range(1, 2)), Index(r.range(1, 2)));
      const bool star = (s.kind.rfind("star", 0) == 0);
      if(r.coin(0.5)) vm::permute_vertices(s, r);
      if(r.coin(0.5)) vm::permute_cells(s, r);
      if(r.coin(0.5)) vm::reorient_cells(s, r);
      if(!star && r.coin(0.4)) vm::distort_interior(s, r, 1.0 / double(mx + 1));
      if(r.coin(0.4)) vm::affine_map(s, r);
      // coordinate magnitude classes
      switch(int(r.below(6)))
      {
      case 0: for(auto& v : s.verts) for(auto& x : v) x *= 1e-7; s.tag("coords:tiny"); break;
      case 1: for(auto& v : s.verts) for(auto& x : v) x *= 1e9; s.tag("coords:huge"); break;
      case 2: for(auto& v : s.verts) for(auto& x : v) x = double(float(x)); s.tag("coords:float"); break;
      case 3: for(auto& v : s.verts) for(auto& x : v) x = -x * 123.456; s.tag("coords:neg"); break;
      default: break;
      }
      return s;
    }

    // closure of a cell subset: all sub-entities of the chosen cells, per dimension
    static void closure(const Mesh_& mesh, const std::vector<Index>& cells, std::vector<Index> (&ent)[4])
    {
      std::vector<char> mark[4];
      for(int d = 0; d <= sdim; ++d) mark[d].assign(std::size_t(mesh.get_num_entities(d)), 0);
      for(Index c : cells) mark[sdim][c] = 1;
      IdxLoop<sdim>::run(mesh.get_index_set_holder(), [&](int cd, int fd, const auto& is) {
        if(cd != sdim) return;
        for(Index c : cells) for(int j = 0; j < is.num_indices; ++j) mark[fd][is[c][j]] = 1;
      });
      for(int d = 0; d <= sdim; ++d) { ent[d].clear(); for(Index i = 0; i < Index(mark[d].size()); ++i) if(mark[d][i]) ent[d].push_back(i); }
    }

    static std::unique_ptr<PartType> make_part(vh::Rng& r, const Mesh_& mesh, std::string& kind)
    {
      std::vector<Index> ent[4];
      const Index nc = mesh.get_num_entities(sdim), nv = mesh.get_num_entities(0);
      int k = int(r.below(6));
      bool topo = false;
      if(k == 0) { kind = "empty"; }
      else if(k == 1) { kind = "verts"; for(Index i = 0; i < nv; ++i) if(r.coin(0.4)) ent[0].push_back(i); }
      else
      {
        std::vector<Index> cells;
        if(k == 2) { kind = "all"; for(Index i = 0; i < nc; ++i) cells.push_back(i); }
        else { kind = "cells"; for(Index i = 0; i < nc; ++i) if(r.coin(0.35)) cells.push_back(i); if(cells.empty()) cells.push_back(Index(r.below(nc))); }
        closure(mesh, cells, ent);
        if(r.coin(0.5)) { kind += "+lowdim"; ent[sdim].clear(); } // a "boundary-like" part without cells
        topo = r.coin(0.5);
        // FEAT documents (XASSERT "TargetSet refinement not implemented for Hexahedra/Tetrahedra") that mesh parts with
        // a topology cannot contain 3D cells when refined: keep such parts cell-free
        if(topo && sdim == 3 && !ent[sdim].empty()) { ent[sdim].clear(); kind += "+lowdim"; }
      }
      if(r.coin(0.5)) { for(int d = 0; d <= sdim; ++d) r.shuffle(ent[d]); kind += "+shuffled"; }
      Index ne[4] = {0, 0, 0, 0};
      for(int d = 0; d <= sdim; ++d) ne[d] = Index(ent[d].size());
      std::unique_ptr<PartType> part(new PartType(ne, topo));
      TrgLoop<sdim>::run(part->get_target_set_holder(), [&](int d, auto& ts) { for(Index i = 0; i < ts.get_num_entities(); ++i) ts[i] = ent[d][i]; });
      if(topo) { part->deduct_topology(*mesh.get_topology()); kind += "+topo"; }
      int na = int(r.below(3));
      for(int a = 0; a < na; ++a)
      {
        int dim = int(r.range(1, 3));
        std::unique_ptr<typename PartType::AttributeSetType> at(new typename PartType::AttributeSetType(ne[0], dim));
        for(Index i = 0; i < ne[0]; ++i) for(int j = 0; j < dim; ++j) (*at)(i, j) = CoordType(rnd_real(r));
        part->add_attribute(std::move(at), pick_name(r, "attr", a));
      }
      if(na > 0) kind += "+attr";
      return part;
    }

    static std::unique_ptr<NodeHandle> generate(int sid, vh::Rng& r, const GenOpts& o, std::vector<std::string>& tags)
    {
      std::unique_ptr<NodeHandleT<Mesh_>> h(new NodeHandleT<Mesh_>(sid));
      h->atlas = std::make_shared<Geometry::MeshAtlas<Mesh_>>();
      h->parts = std::make_shared<Geometry::PartitionSet>();
      vm::MeshSpec<ShapeType> spec = make_spec(r, o);
      for(auto& t : spec.tags) tags.push_back("mesh:" + t);
      tags.push_back("mesh:" + spec.kind.substr(0, 4));
      std::unique_ptr<Mesh_> mesh = vm::build<ShapeType, CoordType>(spec);
      const Mesh_& mref = *mesh;
      const Index ncells = mref.get_num_entities(sdim);
      // charts
      int nch = int(r.below(4));
      std::vector<String> chart_names;
      for(int i = 0; i < nch; ++i)
      {
        String nm = pick_name(r, "chart", i);
        h->atlas->add_mesh_chart(nm, make_chart(r, o, tags));
        chart_names.push_back(nm);
      }
      h->node = Geometry::RootMeshNode<Mesh_>::make_unique(std::move(mesh), h->atlas.get());
      // mesh parts
      int np = int(r.below(5));
      for(int i = 0; i < np; ++i)
      {
        std::string kind;
        auto part = make_part(r, mref, kind);
        tags.push_back("part:" + kind);
        String nm = pick_name(r, "part", i);
        if(!chart_names.empty() && r.coin(0.5))
        {
          const String& cn = chart_names[r.below(chart_names.size())];
          h->node->add_mesh_part(nm, std::move(part), cn, h->atlas->find_mesh_chart(cn));
          tags.push_back("part:linked");
        }
        else h->node->add_mesh_part(nm, std::move(part));
      }
      // partitions (sorted patches, every element on exactly one rank)
      int npa = int(r.below(3));
      for(int i = 0; i < npa; ++i)
      {
        Index nr = Index(r.range(1, 5));
        std::vector<std::vector<Index>> pat(nr);
        for(Index e = 0; e < ncells; ++e) pat[r.below(nr)].push_back(e);
        std::vector<Index> ptr(1, 0), idx;
        for(auto& p : pat) { for(Index e : p) idx.push_back(e); ptr.push_back(Index(idx.size())); }
        Adjacency::Graph g(nr, ncells, Index(idx.size()), ptr.data(), idx.data());
        String nm = r.pick({"", "auto", "my part", "p-1", "x.y:z"});
        h->parts->add_partition(Geometry::Partition(std::move(g), nm, int(r.range(-3, 12)), int(r.range(0, 4))));
        tags.push_back("partition");
      }
      return h;
    }
  };
} // namespace c11

#define C11_DEFINE_SHAPE(SID, NAME, TYPESTR, SHAPE, WDIM) \
  namespace c11 { \
    typedef FEAT::Geometry::ConformalMesh<SHAPE, WDIM, double> MeshT_##NAME; \
    static void parse_##NAME(const std::string& text, const std::string* extra, Outcome& out) { parse_text<MeshT_##NAME>(SID, TYPESTR, text, extra, out); } \
    static std::unique_ptr<NodeHandle> gen_##NAME(vh::Rng& r, const GenOpts& o, std::vector<std::string>& tags) { return Gen<MeshT_##NAME>::generate(SID, r, o, tags); } \
    extern const ShapeOps ops_##NAME; \
    const ShapeOps ops_##NAME = {#NAME, TYPESTR, parse_##NAME, gen_##NAME}; \
  }
