#include "shape_impl.hpp"
C11_DEFINE_SHAPE(3, tetra, "conformal:simplex:3:3", FEAT::Shape::Simplex<3>, 3)
