#include "shape_impl.hpp"
C11_DEFINE_SHAPE(2, hexa, "conformal:hypercube:3:3", FEAT::Shape::Hypercube<3>, 3)
