// C20 -- CSCR + its layout objects + CSR<->CSCR, DenseMatrix
#include "holder.hpp"
namespace c20
{
  template<typename DT, typename IT> static void reg_cd()
  {
    typedef SparseMatrixCSCR<DT, IT> S; typedef DenseMatrix<DT, IT> D;
    reg_kind<S>([](Env& e) -> P
    {
      switch(e.rng.below(5))
      {
      case 0: e.how = "cscr()"; return P(new Holder<S>());
      case 1: e.how = "cscr(r,c)"; return P(new Holder<S>(S(Index(e.rng.range(1, 8)), Index(e.rng.range(1, 8)))));
      default:
      {
        vl::MatSpec s = small_spec(e.rng, true);
        e.how = s.t.empty() ? "cscr(r,c)" : "cscr(r,c,dv,dv,dv,dv)";
        return P(new Holder<S>(vl::make_cscr<DT, IT>(s)));
      }
      }
    });
    // generic set_line route (both directions need a source with entries: XASSERT / array-constructor asserts)
    reg_conv<S, SparseMatrixCSR<DT, IT>>("cscr.convert<-csr", 0, 0, [](const AnyC& s) { Arr a = s.arrays(); return a.sc.size() == 4 && a.sc[3] > 0; });
    reg_conv<SparseMatrixCSR<DT, IT>, S>("csr.convert<-cscr", 0, 0, [](const AnyC& s) { Arr a = s.arrays(); return a.sc.size() == 5 && a.sc[3] > 0; });
    reg_kind<D>([](Env& e) -> P
    {
      const Index r = Index(e.rng.range(1, 8)), cc = Index(e.rng.range(1, 8));
      switch(e.rng.below(3))
      {
      case 0: e.how = "dense()"; return P(new Holder<D>());
      case 1: e.how = "dense(r,c)"; { P p(new Holder<D>(D(r, cc))); p->format(0.25); return p; }
      default: e.how = "dense(r,c,value)"; return P(new Holder<D>(D(r, cc, DT(4))));
      }
    });
  }
  static struct InitCD
  {
    InitCD()
    {
#define X(D, I) reg_cd<D, I>();
      C20_FOR_TYPES(X)
#undef X
      reg_type_convs<SparseMatrixCSCR>("cscr", false);
      reg_type_convs<DenseMatrix>("dense", false);
      reg_layout_kind<std::uint32_t, SparseLayoutId::lt_cscr>();
      reg_layout_kind<std::uint64_t, SparseLayoutId::lt_cscr>();
    }
  } init_cd;
}
