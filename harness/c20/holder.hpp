// C20 -- typed holders behind c20::AnyC
#pragma once
#include "c20.hpp"

namespace c20
{
  using namespace FEAT;
  using namespace FEAT::LAFEM;

  template<typename M> struct KT; // kind traits

  template<typename DT, typename IT> struct KT<DenseVector<DT, IT>> { static constexpr int kind = K_DV; static constexpr bool range = true, layout = false, sv = false; };
  template<typename DT, typename IT> struct KT<DenseVectorBlocked<DT, IT, DVB_BS>> { static constexpr int kind = K_DVB; static constexpr bool range = true, layout = false, sv = false; };
  template<typename DT, typename IT> struct KT<SparseVector<DT, IT>> { static constexpr int kind = K_SV; static constexpr bool range = false, layout = false, sv = true; };
  template<typename DT, typename IT> struct KT<SparseMatrixCSR<DT, IT>> { static constexpr int kind = K_CSR; static constexpr bool range = false, layout = true, sv = false; static constexpr int lkind = K_LAYOUT_CSR; };
  template<typename DT, typename IT> struct KT<SparseMatrixBCSR<DT, IT, BCSR_BH, BCSR_BW>> { static constexpr int kind = K_BCSR; static constexpr bool range = false, layout = true, sv = false; static constexpr int lkind = K_LAYOUT_CSR; };
  template<typename DT, typename IT> struct KT<SparseMatrixBanded<DT, IT>> { static constexpr int kind = K_BANDED; static constexpr bool range = false, layout = true, sv = false; static constexpr int lkind = K_LAYOUT_BANDED; };
  template<typename DT, typename IT> struct KT<SparseMatrixCSCR<DT, IT>> { static constexpr int kind = K_CSCR; static constexpr bool range = false, layout = true, sv = false; static constexpr int lkind = K_LAYOUT_CSCR; };
  template<typename DT, typename IT> struct KT<DenseMatrix<DT, IT>> { static constexpr int kind = K_DENSE; static constexpr bool range = false, layout = false, sv = false; };

  template<typename M> Key key_of()
  {
    Key k; k.kind = KT<M>::kind; k.dt = dt_id<typename M::DataType>(); k.it = it_id<typename M::IndexType>(); return k;
  }

  template<typename IT, SparseLayoutId LID> struct LayoutHolder;

  template<typename M>
  struct Holder : AnyC
  {
    typedef typename M::DataType DT; typedef typename M::IndexType IT;
    M m;
    Holder() { key = key_of<M>(); }
    explicit Holder(M&& x) : m(std::move(x)) { key = key_of<M>(); }

    Arr arrays() const override
    {
      Arr a;
      for(auto p : m.get_elements()) a.el.push_back((void*)p);
      for(auto p : m.get_indices()) a.ix.push_back((void*)p);
      a.els = m.get_elements_size(); a.ixs = m.get_indices_size(); a.sc = m.get_scalar_index();
      return a;
    }
    P make_default() const override { return P(new Holder<M>()); }
    P clone_new(int mode, int variant) const override
    {
      std::unique_ptr<Holder<M>> h(new Holder<M>());
      if(variant == 0) h->m = m.clone(CloneMode(mode)); else h->m.clone(m, CloneMode(mode));
      return P(h.release());
    }
    void clone_into(AnyC& t, int mode) const override { static_cast<Holder<M>&>(t).m.clone(m, CloneMode(mode)); t.foreign = false; t.view_base = nullptr; t.husk = false; }
    P move_construct() override
    {
      std::unique_ptr<Holder<M>> h(new Holder<M>(std::move(m)));
      h->foreign = foreign; h->view_base = view_base; husk = true; foreign = false; view_base = nullptr;
      return P(h.release());
    }
    void move_assign_to(AnyC& t) override
    {
      static_cast<Holder<M>&>(t).m = std::move(m);
      t.foreign = foreign; t.view_base = view_base; t.husk = false; husk = true; foreign = false; view_base = nullptr;
    }
    void self_move() override { M& r = m; m = std::move(r); }
    void clear() override { m.clear(); foreign = false; view_base = nullptr; husk = true; }
    void format(double v) override { m.format(DT(v)); }
    std::vector<char> serialize() const override { return m.serialize(); }
    void deserialize(const std::vector<char>& b) override { m.deserialize(b); foreign = false; view_base = nullptr; husk = false; }

    bool has_range() const override { return KT<M>::range; }
    Index native_size() const override { return m.size(); }
    P range(Index size, Index off) const override
    {
      if constexpr(KT<M>::range)
      {
        std::unique_ptr<Holder<M>> h(new Holder<M>(M(m, size, off)));
        h->foreign = true;
        return P(h.release());
      }
      else return P();
    }
    bool has_layout() const override { return KT<M>::layout; }
    P from_layout(int variant) const override
    {
      if constexpr(KT<M>::layout)
      {
        auto lay = m.layout();
        if(variant == 0) return P(new Holder<M>(M(lay)));
        std::unique_ptr<Holder<M>> h(new Holder<M>());
        if(variant == 2) h->m.clone(m, CloneMode::Deep);
        h->m = lay;
        return P(h.release());
      }
      else return P();
    }
    P layout_handle() const override
    {
      if constexpr(KT<M>::layout)
      {
        typedef LayoutHolder<IT, M::layout_id> LH;
        return P(new LH(m.layout()));
      }
      else return P();
    }
    bool sv_insert(Index idx, double v) override
    {
      if constexpr(KT<M>::sv) { m(idx, DT(v)); return true; } else return false;
    }
  };

  template<SparseLayoutId LID> struct LK;
  template<> struct LK<SparseLayoutId::lt_csr> { static constexpr int kind = K_LAYOUT_CSR; };
  template<> struct LK<SparseLayoutId::lt_banded> { static constexpr int kind = K_LAYOUT_BANDED; };
  template<> struct LK<SparseLayoutId::lt_cscr> { static constexpr int kind = K_LAYOUT_CSCR; };

  // a live SparseLayout object: holds one reference on every index array
  template<typename IT, SparseLayoutId LID>
  struct LayoutHolder : AnyC
  {
    typedef SparseLayout<IT, LID> L;
    L lay;
    LayoutHolder() { key.kind = LK<LID>::kind; key.dt = 0; key.it = it_id<IT>(); }
    explicit LayoutHolder(L&& l) : lay(std::move(l)) { key.kind = LK<LID>::kind; key.dt = 0; key.it = it_id<IT>(); }
    Arr arrays() const override
    {
      Arr a;
      for(auto p : lay.get_indices()) a.ix.push_back((void*)p);
      a.ixs = lay.get_indices_size(); a.sc = lay.get_scalar_index();
      return a;
    }
    P make_default() const override { return P(new LayoutHolder<IT, LID>()); }
    P move_construct() override { husk = true; return P(new LayoutHolder<IT, LID>(std::move(lay))); }
    void move_assign_to(AnyC& t) override { static_cast<LayoutHolder<IT, LID>&>(t).lay = std::move(lay); t.husk = false; husk = true; }
    std::vector<int> buildable_kinds() const override
    {
      if(LID == SparseLayoutId::lt_csr) return {K_CSR, K_BCSR};
      if(LID == SparseLayoutId::lt_banded) return {K_BANDED};
      return {K_CSCR};
    }
    template<typename DT> P build_dt(int kind) const
    {
      if constexpr(LID == SparseLayoutId::lt_csr)
      {
        if(kind == K_CSR) return P(new Holder<SparseMatrixCSR<DT, IT>>(SparseMatrixCSR<DT, IT>(lay)));
        return P(new Holder<SparseMatrixBCSR<DT, IT, BCSR_BH, BCSR_BW>>(SparseMatrixBCSR<DT, IT, BCSR_BH, BCSR_BW>(lay)));
      }
      else if constexpr(LID == SparseLayoutId::lt_banded) return P(new Holder<SparseMatrixBanded<DT, IT>>(SparseMatrixBanded<DT, IT>(lay)));
      else return P(new Holder<SparseMatrixCSCR<DT, IT>>(SparseMatrixCSCR<DT, IT>(lay)));
    }
    P build_from_layout(int kind, int dt) const override { return dt ? build_dt<double>(kind) : build_dt<float>(kind); }
  };

  // ------------------------------------------------------------------ registration helpers
  template<typename M, typename CtorFn>
  void reg_kind(CtorFn ctor)
  {
    Key k = key_of<M>();
    reg().keys[k.id()] = k;
    reg().defaults[k.id()] = []() -> P { return P(new Holder<M>()); };
    reg().ctors[k.id()] = ctor;
  }
  template<typename IT, SparseLayoutId LID>
  void reg_layout_kind()
  {
    LayoutHolder<IT, LID> h;
    reg().keys[h.key.id()] = h.key;
    reg().defaults[h.key.id()] = []() -> P { return P(new LayoutHolder<IT, LID>()); };
  }
  template<typename To, typename From>
  void reg_conv(const std::string& op, int share_el, int share_ix, std::function<bool(const AnyC&)> ok = nullptr)
  {
    Conv c; c.from = key_of<From>(); c.to = key_of<To>(); c.op = op; c.share_el = share_el; c.share_ix = share_ix; c.ok = ok;
    c.fn = [](const AnyC& s, AnyC& t)
    {
      static_cast<Holder<To>&>(t).m.convert(static_cast<const Holder<From>&>(s).m);
      t.foreign = false; t.view_base = nullptr; t.husk = false;
    };
    reg().convs.push_back(c);
  }
  template<typename To, typename From>
  void reg_xclone()
  {
    if constexpr(!std::is_same<To, From>::value)
    {
      XClone x; x.from = key_of<From>(); x.to = key_of<To>();
      x.fn = [](const AnyC& s, AnyC& t, int mode)
      {
        static_cast<Holder<To>&>(t).m.clone(static_cast<const Holder<From>&>(s).m, CloneMode(mode));
        t.foreign = false; t.view_base = nullptr; t.husk = false;
      };
      reg().xclones.push_back(x);
    }
  }
  // all DT/IT conversions inside one family F<DT,IT>; sharing per Container::assign (deep = always a deep copy)
  template<template<typename, typename> class F>
  void reg_type_convs(const std::string& kind, bool deep)
  {
    const std::string op = kind + ".convert<-" + kind;
#define C20_TC(D1, I1, D2, I2) reg_conv<F<D1, I1>, F<D2, I2>>(op, (!deep && std::is_same<D1, D2>::value) ? 1 : 0, (!deep && std::is_same<I1, I2>::value) ? 1 : 0); reg_xclone<F<D1, I1>, F<D2, I2>>();
#define C20_TC4(D1, I1) C20_TC(D1, I1, float, std::uint32_t) C20_TC(D1, I1, float, std::uint64_t) C20_TC(D1, I1, double, std::uint32_t) C20_TC(D1, I1, double, std::uint64_t)
    C20_TC4(float, std::uint32_t) C20_TC4(float, std::uint64_t) C20_TC4(double, std::uint32_t) C20_TC4(double, std::uint64_t)
#undef C20_TC4
#undef C20_TC
  }
#define C20_FOR_TYPES(X) X(float, std::uint32_t) X(float, std::uint64_t) X(double, std::uint32_t) X(double, std::uint64_t)

  // small random matrix spec for the constructors
  inline vl::MatSpec small_spec(vh::Rng& r, bool allow_entry_free)
  {
    vl::GenOpt o; o.max_dim = 9; o.allow_entry_free = allow_entry_free;
    return vl::gen_matrix(r, o);
  }
} // namespace c20
