// C20 -- CSR, BCSR<2,3>, layout objects of the csr layout family
#include "holder.hpp"
namespace c20
{
  template<typename DT, typename IT> using BC = SparseMatrixBCSR<DT, IT, BCSR_BH, BCSR_BW>;

  template<typename DT, typename IT> static void reg_csr()
  {
    typedef SparseMatrixCSR<DT, IT> C; typedef BC<DT, IT> B; typedef DenseVector<DT, IT> V;
    reg_kind<C>([](Env& e) -> P
    {
      switch(e.rng.below(6))
      {
      case 0: e.how = "csr()"; return P(new Holder<C>());
      case 1: e.how = "csr(r,c)"; return P(new Holder<C>(C(Index(e.rng.range(1, 8)), Index(e.rng.range(1, 8)))));
      case 2:
      {
        e.how = "csr(r,c,used)";
        const Index r = Index(e.rng.range(1, 6)), cc = Index(e.rng.range(1, 6)), u = Index(e.rng.range(1, long(r * cc)));
        P p(new Holder<C>(C(r, cc, u)));
        // the arrays are uninitialised: the harness writes a valid layout (u entries, row-major fill)
        auto& m = static_cast<Holder<C>&>(*p).m;
        Index k = 0, remaining = u; m.row_ptr()[0] = IT(0);
        for(Index i = 0; i < r; ++i)
        {
          const Index rows_left = r - i, take = std::min(cc, (remaining + rows_left - 1) / rows_left);
          for(Index j = 0; j < take; ++j) { m.col_ind()[k] = IT(j); m.val()[k] = DT(double(k)); ++k; }
          remaining -= take; m.row_ptr()[i + 1] = IT(k);
        }
        return p;
      }
      default:
      {
        vl::MatSpec s = small_spec(e.rng, true);
        if(s.t.empty()) { e.how = "csr(r,c)"; return P(new Holder<C>(vl::make_csr<DT, IT>(s))); }
        // from three DenseVectors (shared arrays); optionally keep the value vector alive in the pool
        DenseVector<IT, IT> col(Index(s.t.size())), rp(s.rows + 1); V val(Index(s.t.size()));
        std::vector<Index> cnt(s.rows + 1, 0);
        for(Index i = 0; i < Index(s.t.size()); ++i) { col(i, IT(s.t[i].c)); val(i, DT(s.t[i].v)); ++cnt[s.t[i].r + 1]; }
        for(Index i = 0; i < s.rows; ++i) cnt[i + 1] += cnt[i];
        for(Index i = 0; i <= s.rows; ++i) rp(i, IT(cnt[i]));
        e.how = "csr(r,c,dv,dv,dv)";
        P p(new Holder<C>(C(s.rows, s.cols, col, val, rp)));
        if(e.rng.coin(0.3) && e.pool.size() + 2 <= 12) { e.how += "+keep val dv"; e.extra.push_back(P(new Holder<V>(std::move(val)))); }
        return p;
      }
      }
    });
    reg_kind<B>([](Env& e) -> P
    {
      switch(e.rng.below(4))
      {
      case 0: e.how = "bcsr()"; return P(new Holder<B>());
      case 1: e.how = "bcsr(r,c)"; return P(new Holder<B>(B(Index(e.rng.range(1, 5)), Index(e.rng.range(1, 5)))));
      default:
      {
        vl::GenOpt o; o.max_dim = 5; vl::MatSpec bs = vl::gen_matrix(e.rng, o), sm;
        e.how = bs.t.empty() ? "bcsr(r,c)" : "bcsr(r,c,dv,dv,dv)";
        return P(new Holder<B>(vl::make_bcsr<DT, IT, BCSR_BH, BCSR_BW>(e.rng, bs, sm)));
      }
      }
    });
    reg_conv<C, B>("csr.convert<-bcsr", 0, 0);
  }

  static struct InitCsr
  {
    InitCsr()
    {
#define X(D, I) reg_csr<D, I>();
      C20_FOR_TYPES(X)
#undef X
      reg_type_convs<SparseMatrixCSR>("csr", false);
      reg_type_convs<BC>("bcsr", false);
      reg_layout_kind<std::uint32_t, SparseLayoutId::lt_csr>();
      reg_layout_kind<std::uint64_t, SparseLayoutId::lt_csr>();
    }
  } init_csr;
}
