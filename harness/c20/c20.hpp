// C20 -- container lifetimes: type-erased container handle, registry (one TU per container family).
#pragma once
#include <common/vh_lafem.hpp>
#include <kernel/lafem/sparse_vector.hpp>
#include <kernel/lafem/sparse_layout.hpp>
#include <memory>
#include <functional>

namespace c20
{
  using FEAT::Index;
  enum { K_DV = 0, K_DVB, K_SV, K_CSR, K_BCSR, K_BANDED, K_CSCR, K_DENSE, K_LAYOUT_CSR, K_LAYOUT_BANDED, K_LAYOUT_CSCR, K_COUNT };
  inline const char* kind_name(int k)
  {
    static const char* n[] = {"dv", "dvb", "sv", "csr", "bcsr", "banded", "cscr", "dense", "layout_csr", "layout_banded", "layout_cscr"};
    return n[k];
  }
  inline bool is_layout_kind(int k) { return k >= K_LAYOUT_CSR; }
  inline bool is_matrix_kind(int k) { return k >= K_CSR && k <= K_DENSE; }
  // block sizes used by the blocked kinds in this harness
  constexpr int DVB_BS = 3, BCSR_BH = 2, BCSR_BW = 3;

  struct Key
  {
    int kind = 0, dt = 1, it = 1;
    int id() const { return (kind * 2 + dt) * 2 + it; }
    bool operator==(const Key& o) const { return id() == o.id(); }
    bool operator!=(const Key& o) const { return id() != o.id(); }
    std::string name() const
    {
      std::string s = kind_name(kind);
      if(is_layout_kind(kind)) return s + (it ? "<u64>" : "<u32>");
      return s + (dt ? "<double," : "<float,") + (it ? "u64>" : "u32>");
    }
  };
  template<typename DT> inline int dt_id() { return std::is_same<DT, double>::value ? 1 : 0; }
  template<typename IT> inline int it_id() { return sizeof(IT) == 8 ? 1 : 0; }

  struct Arr
  {
    std::vector<void*> el, ix;
    std::vector<Index> els, ixs, sc;
  };

  struct AnyC;
  typedef std::unique_ptr<AnyC> P;

  struct AnyC
  {
    Key key;
    int uid = 0;               // harness-side identity (for the witness text)
    bool foreign = false;      // created by a range constructor (no reference counting)
    void* view_base = nullptr; // pool array a foreign view points into
    bool husk = false;         // moved-from or cleared: only valid as target / for destruction
    bool poisoned = false;     // a probe showed that using it as a source crashes (reported once); not used as source again
    virtual ~AnyC() {}
    virtual Arr arrays() const = 0;
    virtual P make_default() const { return P(); }
    virtual P clone_new(int /*mode*/, int /*variant*/) const { return P(); }
    virtual void clone_into(AnyC& /*target*/, int /*mode*/) const {}
    virtual P move_construct() = 0;
    virtual void move_assign_to(AnyC& target) = 0;
    virtual void self_move() {}
    virtual void clear() {}
    virtual void format(double) {}
    virtual std::vector<char> serialize() const { return std::vector<char>(); }
    virtual void deserialize(const std::vector<char>&) {}
    virtual bool has_range() const { return false; }
    virtual Index native_size() const { return 0; }
    virtual P range(Index /*size*/, Index /*offset*/) const { return P(); }
    virtual bool has_layout() const { return false; }
    virtual P from_layout(int /*variant*/) const { return P(); }   // matrix of the same type built from layout()
    virtual P layout_handle() const { return P(); }                // a live SparseLayout object
    virtual P build_from_layout(int /*kind*/, int /*dt*/) const { return P(); } // layout holders: matrix from the layout
    virtual std::vector<int> buildable_kinds() const { return std::vector<int>(); }
    virtual bool sv_insert(Index /*idx*/, double /*v*/) { return false; }
    std::string label() const { return "#" + std::to_string(uid) + ":" + key.name() + (foreign ? "(view)" : "") + (husk ? "(husk)" : ""); }
  };

  struct Env
  {
    vh::Rng& rng;
    std::vector<P>& pool;
    std::string how;                 // description of the constructor variant used
    std::vector<P> extra;            // additional containers the constructor wants to keep alive in the pool
    std::vector<AnyC*> mutated;      // pool members whose arrays the constructor is allowed to modify
    Env(vh::Rng& r, std::vector<P>& p) : rng(r), pool(p) {}
  };

  struct Conv
  {
    Key from, to;
    std::string op;
    int share_el = 0, share_ix = 0;                         // expected sharing of the arrays with the source
    std::function<bool(const AnyC&)> ok;                    // documented preconditions on the source
    std::function<void(const AnyC&, AnyC&)> fn;             // target.convert(source)
  };
  // cross-type clone target<DT2,IT2>.clone(source<DT,IT>, mode) (Container::clone template), same kind
  struct XClone
  {
    Key from, to;
    std::function<void(const AnyC&, AnyC&, int)> fn;
  };
  struct Registry
  {
    std::map<int, Key> keys;
    std::map<int, std::function<P()>> defaults;
    std::map<int, std::function<P(Env&)>> ctors;
    std::vector<Conv> convs;
    std::vector<XClone> xclones;
  };
  Registry& reg(); // hist.cpp
} // namespace c20
