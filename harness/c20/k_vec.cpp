// C20 -- vectors: DenseVector, DenseVectorBlocked<3>, SparseVector
#include "holder.hpp"
namespace c20
{
  template<typename DT, typename IT> using DVB = DenseVectorBlocked<DT, IT, DVB_BS>;

  // pool member owning a pool-allocated value array of data type dt with at least `min` elements; nullptr if none
  static AnyC* find_shareable(Env& e, int dt, Index min)
  {
    std::vector<AnyC*> c;
    for(auto& p : e.pool)
    {
      if(p->foreign || p->husk || p->key.dt != dt || is_layout_kind(p->key.kind)) continue;
      if(p->key.kind != K_DV && p->key.kind != K_DVB) continue;
      Arr a = p->arrays();
      if(a.el.size() == 1 && a.el[0] && a.els[0] >= min) c.push_back(p.get());
    }
    return c.empty() ? nullptr : c[e.rng.below(c.size())];
  }

  template<typename DT, typename IT> static void reg_vec()
  {
    typedef DenseVector<DT, IT> V; typedef DVB<DT, IT> B; typedef SparseVector<DT, IT> S;
    reg_kind<V>([](Env& e) -> P
    {
      const Index n = Index(e.rng.range(1, 24));
      switch(e.rng.below(6))
      {
      case 0: e.how = "dv(n)"; { P p(new Holder<V>(V(n))); p->format(1.5); return p; }
      case 1: e.how = "dv(n,value)"; return P(new Holder<V>(V(n, DT(2.5))));
      case 2: e.how = "dv(0)"; return P(new Holder<V>(V(Index(0))));
      case 3: e.how = "dv()"; return P(new Holder<V>());
      default:
        if(AnyC* o = find_shareable(e, dt_id<DT>(), 1))
        {
          Arr a = o->arrays();
          const Index m = Index(e.rng.range(1, long(a.els[0])));
          e.how = "dv(n,data) sharing " + o->label();
          return P(new Holder<V>(V(m, static_cast<DT*>(a.el[0]))));
        }
        e.how = "dv(n,value)"; return P(new Holder<V>(V(n, DT(-1))));
      }
    });
    reg_kind<B>([](Env& e) -> P
    {
      const Index n = Index(e.rng.range(1, 9));
      switch(e.rng.below(7))
      {
      case 0: e.how = "dvb(n)"; { P p(new Holder<B>(B(n))); p->format(0.5); return p; }
      case 1: e.how = "dvb(n,value)"; return P(new Holder<B>(B(n, DT(3))));
      case 2: e.how = "dvb(0)"; return P(new Holder<B>(B(Index(0))));
      case 3: e.how = "dvb()"; return P(new Holder<B>());
      case 4:
        for(auto& p : e.pool)
        {
          if(p->foreign || p->husk || p->key != key_of<V>()) continue;
          auto& src = static_cast<Holder<V>&>(*p).m;
          if(src.size() == 0 || src.size() % Index(DVB_BS) != 0) continue;
          e.how = "dvb(dv) sharing " + p->label();
          return P(new Holder<B>(B(src)));
        }
        // fall through
      default:
        if(AnyC* o = find_shareable(e, dt_id<DT>(), Index(DVB_BS)))
        {
          Arr a = o->arrays();
          const Index m = Index(e.rng.range(1, long(a.els[0] / Index(DVB_BS))));
          e.how = "dvb(n,data) sharing " + o->label();
          return P(new Holder<B>(B(m, static_cast<DT*>(a.el[0]))));
        }
        e.how = "dvb(n,value)"; return P(new Holder<B>(B(n, DT(-2))));
      }
    });
    reg_kind<S>([](Env& e) -> P
    {
      const Index n = Index(e.rng.range(1, 30));
      switch(e.rng.below(4))
      {
      case 0: e.how = "sv(n)"; return P(new Holder<S>(S(n)));
      case 1: e.how = "sv()"; return P(new Holder<S>());
      case 2:
      {
        e.how = "sv(n)+inserts";
        P p(new Holder<S>(S(n)));
        const int k = int(e.rng.range(1, 6));
        for(int i = 0; i < k; ++i) p->sv_insert(Index(e.rng.below(n)), double(e.rng.range(-5, 5)));
        return p;
      }
      default:
      {
        // from two DenseVectors (arrays are shared, then sorted in place); unsorted with duplicates half of the time
        const Index k = Index(e.rng.range(1, long(n)));
        const bool sorted = e.rng.coin(0.5);
        std::vector<Index> idx;
        if(sorted) { for(Index i = 0; i < n; ++i) idx.push_back(i); e.rng.shuffle(idx); idx.resize(k); std::sort(idx.begin(), idx.end()); }
        else for(Index i = 0; i < k; ++i) idx.push_back(Index(e.rng.below(n)));
        DenseVector<DT, IT> el(k); DenseVector<IT, IT> ix(k);
        for(Index i = 0; i < k; ++i) { el(i, DT(double(e.rng.range(-9, 9)))); ix(i, IT(idx[i])); }
        e.how = sorted ? "sv(n,dv,dv,sorted)" : "sv(n,dv,dv,unsorted)";
        P p(new Holder<S>(S(n, el, ix, sorted)));
        if(e.rng.coin(0.3) && e.pool.size() + 2 <= 12)
        {
          // keep the value vector alive as a sharing pool member
          e.how += "+keep dv";
          e.extra.push_back(P(new Holder<V>(std::move(el))));
        }
        return p;
      }
      }
    });
    auto has_arr = [](const AnyC& s) { Arr a = s.arrays(); return a.el.size() == 1 && a.el[0] != nullptr; };
    reg_conv<V, B>("dv.convert<-dvb", 1, 0, has_arr);
    reg_conv<B, V>("dvb.convert<-dv", 1, 0, [](const AnyC& s) { Arr a = s.arrays(); return a.el.size() == 1 && a.el[0] && a.els[0] % Index(DVB_BS) == 0; });
  }

  static struct InitVec
  {
    InitVec()
    {
#define X(D, I) reg_vec<D, I>();
      C20_FOR_TYPES(X)
#undef X
      reg_type_convs<DenseVector>("dv", false);
      reg_type_convs<DVB>("dvb", false);
      reg_type_convs<SparseVector>("sv", true);
    }
  } init_vec;
}
