// C20 -- driver: lifetime histories over a pool of <= 12 live containers; after EVERY step
//  (1) shadow reference-count model (multiset of array addresses referenced by the live non-foreign containers and
//      layout objects) == MemoryPool::verif_snapshot, exactly;
//  (2) every array of every live container is read over its full length (ASan watches) and is large enough in the pool;
//  (3) containers that are not operands of the step keep their bit hash; only sharing relatives of a mutated container
//      may change; expected sharing (shallow clone, same-type convert, shared layout, move) is checked by pointer;
//  (4) when the pool is empty: snapshot empty, allocated_memory()==0; a fraction of the histories is re-run in a forked
//      child that ends with MemoryPool::finalize() and an explicit LeakSanitizer check.
#include "c20.hpp"
#if defined(__SANITIZE_ADDRESS__)
#include <sanitizer/lsan_interface.h>
#define C20_HAVE_LSAN 1
#endif

namespace c20 { Registry& reg() { static Registry r; return r; } }
using namespace c20;

namespace
{
  const char* mode_name(int m) { static const char* n[] = {"shallow", "layout", "weak", "deep", "allocate"}; return n[m]; }
  const std::size_t MAXPOOL = 12;

  struct PoolEntry { Index count, bytes; };
  typedef std::map<void*, PoolEntry> Snap;
  Snap snapshot()
  {
    Snap s;
    FEAT::MemoryPool::verif_snapshot([&](void* a, Index cnt, Index bytes) { s[a] = PoolEntry{cnt, bytes}; });
    return s;
  }
  std::size_t dtsz(const Key& k) { return k.dt ? 8 : 4; }
  std::size_t itsz(const Key& k) { return k.it ? 8 : 4; }

  std::uint64_t hash_arr(const Key& k, const Arr& a)
  {
    std::uint64_t h = 1469598103934665603ull;
    for(std::size_t i = 0; i < a.el.size(); ++i) if(a.el[i] && a.els[i]) h = vh::hash_bytes(a.el[i], a.els[i] * dtsz(k), h);
    for(std::size_t i = 0; i < a.ix.size(); ++i) if(a.ix[i] && a.ixs[i]) h = vh::hash_bytes(a.ix[i], a.ixs[i] * itsz(k), h);
    for(auto v : a.sc) { std::uint64_t q = v; h = vh::hash_bytes(&q, sizeof(q), h); }
    for(auto v : a.els) { std::uint64_t q = v; h = vh::hash_bytes(&q, sizeof(q), h); }
    for(auto v : a.ixs) { std::uint64_t q = v; h = vh::hash_bytes(&q, sizeof(q), h); }
    return h;
  }
  struct Range { const char* b; const char* e; };
  std::vector<Range> ranges(const Key& k, const Arr& a)
  {
    std::vector<Range> r;
    for(std::size_t i = 0; i < a.el.size(); ++i) if(a.el[i] && a.els[i]) r.push_back({(const char*)a.el[i], (const char*)a.el[i] + a.els[i] * dtsz(k)});
    for(std::size_t i = 0; i < a.ix.size(); ++i) if(a.ix[i] && a.ixs[i]) r.push_back({(const char*)a.ix[i], (const char*)a.ix[i] + a.ixs[i] * itsz(k)});
    return r;
  }
  bool overlap(const std::vector<Range>& x, const std::vector<Range>& y)
  {
    for(auto& a : x) for(auto& b : y) if(a.b < b.e && b.b < a.e) return true;
    return false;
  }
  std::vector<void*> ptrs(const Arr& a)
  {
    std::vector<void*> p; for(auto x : a.el) if(x) p.push_back(x); for(auto x : a.ix) if(x) p.push_back(x); return p;
  }

  struct Hist
  {
    vh::Ctx& c;
    std::vector<P> pool;
    int next_uid = 1;
    Snap baseline;
    vh::J log{'['};
    int nsteps = 0;
    bool dead = false;
    std::set<std::string> ops_seen;

    explicit Hist(vh::Ctx& ctx) : c(ctx) {}

    void fail(const std::string& op, const std::string& kind, const vh::J& d) { c.viol(op, kind, d.str()); dead = true; }

    void add(P p) { p->uid = next_uid++; pool.push_back(std::move(p)); }
    AnyC* pick(const std::function<bool(const AnyC&)>& ok)
    {
      std::vector<AnyC*> v; for(auto& p : pool) if(ok(*p)) v.push_back(p.get());
      return v.empty() ? nullptr : v[c.rng.below(v.size())];
    }
    void erase(AnyC* x) { for(std::size_t i = 0; i < pool.size(); ++i) if(pool[i].get() == x) { pool.erase(pool.begin() + long(i)); return; } }

    std::map<void*, Index> model() const
    {
      std::map<void*, Index> m;
      for(auto& p : pool) if(!p->foreign) for(void* q : ptrs(p->arrays())) ++m[q];
      return m;
    }

    // The user contract of range views: a view must not outlive the array it points into.  Before a step lets `t`
    // drop the last reference of an array, the harness destroys the views into it.  Returns false if `keep` (an operand
    // of the step) is such a view -- the step would be a user error and is not generated.
    bool release_guard(AnyC& t, const AnyC* keep = nullptr)
    {
      if(t.foreign) return true;
      std::map<void*, Index> m = model(), own;
      for(void* q : ptrs(t.arrays())) ++own[q];
      std::vector<AnyC*> drop;
      for(auto& kv : own) if(m[kv.first] == kv.second)
        for(auto& p : pool) if(p->foreign && p->view_base == kv.first) drop.push_back(p.get());
      for(AnyC* d : drop) if(d == keep) return false;
      for(AnyC* d : drop) { note("harness destroys view " + d->label() + " before its array goes away"); erase(d); }
      return true;
    }

    void note(const std::string& s) { log.add(s); if(c.verbose()) { std::printf("  %s\n", s.c_str()); std::fflush(stdout); } }
    void begin(const std::string& op, const std::string& what)
    {
      ++nsteps;
      log.add(op + ": " + what);
      c.desc = vh::J().raw("history", log.str()).str();
      c.set_op(op);
      ops_seen.insert(op);
      if(c.verbose()) { std::printf("step %d %s: %s\n", nsteps, op.c_str(), what.c_str()); std::fflush(stdout); }
    }

    // ------------------------------------------------------------ monitors
    std::map<int, std::uint64_t> hashes() const
    {
      std::map<int, std::uint64_t> h; for(auto& p : pool) h[p->uid] = hash_arr(p->key, p->arrays()); return h;
    }
    std::set<int> relatives_of(const AnyC& x) const
    {
      std::set<int> s; auto rx = ranges(x.key, x.arrays());
      for(auto& p : pool) if(overlap(rx, ranges(p->key, p->arrays()))) s.insert(p->uid);
      s.insert(x.uid);
      return s;
    }

    void monitors(const std::string& op, const std::map<int, std::uint64_t>& pre, const std::set<int>& may_change)
    {
      // (1) shadow model == pool snapshot
      c.event();
      Snap s = snapshot();
      std::map<void*, Index> m = model();
      for(auto& kv : m)
      {
        auto it = s.find(kv.first);
        Index base = 0; auto ib = baseline.find(kv.first); if(ib != baseline.end()) base = ib->second.count;
        if(it == s.end())
        { fail(op, "refcount-too-low", vh::J().kv("why", "array referenced by a live container is not in the pool (released too early)").kv("references", (unsigned long)kv.second).kv("holders", holders(kv.first))); return; }
        if(it->second.count != kv.second + base)
        {
          fail(op, it->second.count > kv.second + base ? "refcount-too-high" : "refcount-too-low", vh::J().kv("pool_count", (unsigned long)it->second.count)
            .kv("live_references", (unsigned long)kv.second).kv("holders", holders(kv.first)));
          return;
        }
      }
      for(auto& kv : s)
      {
        if(m.count(kv.first)) continue;
        auto ib = baseline.find(kv.first);
        if(ib != baseline.end() && ib->second.count == kv.second.count) continue;
        fail(op, "refcount-too-high", vh::J().kv("why", "pool entry without any live reference (leak)").kv("pool_count", (unsigned long)kv.second.count).kv("bytes", (unsigned long)kv.second.bytes));
        return;
      }
      // (2) touch every array over its full length; pool allocation must be large enough
      volatile std::uint64_t sink = 0;
      for(auto& p : pool)
      {
        Arr a = p->arrays();
        c.event();
        if(a.el.size() != a.els.size() || a.ix.size() != a.ixs.size()) { fail(op, "array-list-mismatch", vh::J().kv("container", p->label())); return; }
        for(std::size_t i = 0; i < a.el.size(); ++i)
        {
          if(!a.el[i]) { if(a.els[i] != 0) { fail(op, "null-array", vh::J().kv("container", p->label()).kv("size", (unsigned long)a.els[i])); return; } continue; }
          if(!p->foreign) { auto it = s.find(a.el[i]); if(it != s.end() && it->second.bytes < a.els[i] * dtsz(p->key))
            { fail(op, "array-too-small", vh::J().kv("container", p->label()).kv("pool_bytes", (unsigned long)it->second.bytes).kv("needed", (unsigned long)(a.els[i] * dtsz(p->key)))); return; } }
          sink = sink ^ vh::hash_bytes(a.el[i], a.els[i] * dtsz(p->key));
        }
        for(std::size_t i = 0; i < a.ix.size(); ++i)
        {
          if(!a.ix[i]) { if(a.ixs[i] != 0) { fail(op, "null-array", vh::J().kv("container", p->label()).kv("size", (unsigned long)a.ixs[i])); return; } continue; }
          if(!p->foreign) { auto it = s.find(a.ix[i]); if(it != s.end() && it->second.bytes < a.ixs[i] * itsz(p->key))
            { fail(op, "array-too-small", vh::J().kv("container", p->label()).kv("pool_bytes", (unsigned long)it->second.bytes).kv("needed", (unsigned long)(a.ixs[i] * itsz(p->key)))); return; } }
          sink = sink ^ vh::hash_bytes(a.ix[i], a.ixs[i] * itsz(p->key));
        }
      }
      (void)sink;
      // (3) bystanders keep their bit hash
      for(auto& p : pool)
      {
        auto it = pre.find(p->uid);
        if(it == pre.end() || may_change.count(p->uid)) continue;
        c.event();
        if(hash_arr(p->key, p->arrays()) != it->second) { fail(op, "bystander-changed", vh::J().kv("container", p->label())); return; }
      }
      // (4) quiescence
      if(pool.empty()) quiescent(op);
    }
    std::string holders(void* q) const
    {
      std::string s;
      for(auto& p : pool) for(void* x : ptrs(p->arrays())) if(x == q) { if(!s.empty()) s += ","; s += p->label(); }
      return s;
    }
    void quiescent(const std::string& op)
    {
      c.event();
      Snap s = snapshot();
      Index bb = 0; for(auto& kv : baseline) bb += kv.second.bytes;
      if(s.size() != baseline.size() || FEAT::MemoryPool::allocated_memory() != bb)
        fail(op, "pool-not-empty", vh::J().kv("entries", (unsigned long)(s.size() - std::min(s.size(), baseline.size()))).kv("allocated_memory", (unsigned long)FEAT::MemoryPool::allocated_memory()).kv("baseline_bytes", (unsigned long)bb));
    }

    // expected sharing between a result and its source: el / ix arrays pairwise (same position)
    bool check_alias(const std::string& op, const Arr& src, const Arr& res, int share_el, int share_ix, const std::string& what)
    {
      c.event();
      for(std::size_t i = 0; i < std::min(src.el.size(), res.el.size()); ++i)
      {
        if(!src.el[i] || !res.el[i]) continue;
        if((src.el[i] == res.el[i]) != (share_el != 0))
        { fail(op, "alias", vh::J().kv("what", what).kv("array", "elements").kv("index", (unsigned long)i).kv("shared", src.el[i] == res.el[i]).kv("expected_shared", share_el != 0)); return false; }
      }
      for(std::size_t i = 0; i < std::min(src.ix.size(), res.ix.size()); ++i)
      {
        if(!src.ix[i] || !res.ix[i]) continue;
        if((src.ix[i] == res.ix[i]) != (share_ix != 0))
        { fail(op, "alias", vh::J().kv("what", what).kv("array", "indices").kv("index", (unsigned long)i).kv("shared", src.ix[i] == res.ix[i]).kv("expected_shared", share_ix != 0)); return false; }
      }
      return true;
    }
    bool check_disjoint(const std::string& op, const Arr& src, const Arr& res, const std::string& what)
    {
      c.event();
      for(void* a : ptrs(src)) for(void* b : ptrs(res)) if(a == b) { fail(op, "alias", vh::J().kv("what", what).kv("why", "result shares an array with the source but must not")); return false; }
      return true;
    }

    static bool has_null(const Arr& a)
    {
      for(auto p : a.el) if(!p) return true;
      for(auto p : a.ix) if(!p) return true;
      return false;
    }
    // A container that lists a null array pointer (size-0 allocation, e.g. a matrix built from the layout of an
    // entry-free matrix) is known to abort in Container::assign / clone(Shallow) on the pinned tree: such a step is
    // probed in a child first; a dying child is reported (once per container) and the history goes on without the step.
    bool probe(const std::string& op, AnyC& x, const std::function<void()>& fn)
    {
      if(!has_null(x.arrays())) return true;
      vh::ForkResult fr = vh::run_forked(fn);
      c.event();
      if(fr.clean()) return true;
      c.viol(op, "crash", vh::J().kv("source", x.label()).kv("exit", fr.code).kv("signal", fr.sig).kv("stderr", fr.err.substr(0, 600)).str(), {"null_array"});
      x.poisoned = true;
      note("  probe of " + op + " on " + x.label() + " died in the child; step skipped");
      return false;
    }

    // ------------------------------------------------------------ steps; each returns false if not applicable
    static bool usable(const AnyC& x) { return !x.husk; }
    static bool source(const AnyC& x) { return !x.husk && !x.poisoned; }
    static bool container(const AnyC& x) { return !is_layout_kind(x.key.kind); }

    bool op_construct()
    {
      if(pool.size() >= MAXPOOL) return false;
      std::vector<int> ids; for(auto& kv : reg().ctors) ids.push_back(kv.first);
      const Key key = reg().keys[ids[c.rng.below(ids.size())]];
      const std::string op = std::string(kind_name(key.kind)) + ".construct";
      auto pre = hashes();
      begin(op, key.name());
      Env e(c.rng, pool);
      P n = reg().ctors[key.id()](e);
      note("  -> " + e.how);
      std::set<int> may; for(AnyC* x : e.mutated) may.insert(x->uid);
      add(std::move(n));
      for(auto& x : e.extra) add(std::move(x));
      monitors(op, pre, may);
      return true;
    }

    bool op_clone()
    {
      AnyC* x = pick([](const AnyC& a) { return source(a) && container(a); });
      if(!x) return false;
      const int mode = x->foreign ? 3 : int(c.rng.below(5));
      const std::string op = std::string(kind_name(x->key.kind)) + ".clone";
      AnyC* t = nullptr;
      if(c.rng.coin(0.4)) t = pick([&](const AnyC& a) { return &a != x && a.key == x->key; });
      if(!t && pool.size() >= MAXPOOL) return false;
      if(t && !release_guard(*t, x)) return false;
      auto pre = hashes();
      const Arr ax = x->arrays();
      std::set<int> may;
      if(t)
      {
        begin(op, std::string(mode_name(mode)) + " of " + x->label() + " into " + t->label());
        may.insert(t->uid);
        if(!probe(op, *x, [&] { x->clone_into(*t, mode); })) return true;
        x->clone_into(*t, mode);
      }
      else
      {
        const int variant = int(c.rng.below(2));
        begin(op, std::string(mode_name(mode)) + " of " + x->label() + (variant ? " into default-constructed" : " by value"));
        if(!probe(op, *x, [&] { P q = x->clone_new(mode, variant); })) return true;
        P n = x->clone_new(mode, variant);
        t = n.get(); add(std::move(n));
      }
      if(mode == 4)
      {
        // Allocate leaves values AND index arrays unspecified: the user (harness) fills the layout before further use
        Arr as = x->arrays(), aa = t->arrays();
        for(std::size_t i = 0; i < std::min(as.ix.size(), aa.ix.size()); ++i)
          if(as.ix[i] && aa.ix[i] && as.ixs[i] == aa.ixs[i]) std::memcpy(aa.ix[i], as.ix[i], as.ixs[i] * itsz(x->key));
      }
      const Arr at = t->arrays();
      if(x->foreign) { if(!check_disjoint(op, ax, at, "deep clone of a range view")) return true; }
      else if(!check_alias(op, ax, at, mode == 0, mode <= 2, std::string("clone mode ") + mode_name(mode))) return true;
      monitors(op, pre, may);
      return true;
    }

    // cross-type clone: t<DT2,IT2>.clone(x<DT,IT>, mode); documented CloneMode semantics: Deep/Allocate share nothing
    // in any type combination; Shallow/Weak/Layout share exactly the arrays whose element type is unchanged
    bool op_xclone()
    {
      AnyC* x = pick([](const AnyC& a) { return source(a) && container(a) && !a.foreign; }); // the template assigns first: forbidden for views
      if(!x) return false;
      std::vector<const XClone*> cand;
      for(auto& xc : reg().xclones) if(xc.from == x->key) cand.push_back(&xc);
      if(cand.empty()) return false;
      const XClone& xc = *cand[c.rng.below(cand.size())];
      const int mode = int(c.rng.below(5));
      const std::string op = std::string(kind_name(x->key.kind)) + ".xclone";
      AnyC* t = nullptr;
      if(c.rng.coin(0.4)) t = pick([&](const AnyC& a) { return &a != x && a.key == xc.to; });
      if(!t && pool.size() >= MAXPOOL) return false;
      if(t && !release_guard(*t, x)) return false;
      auto pre = hashes();
      const Arr ax = x->arrays();
      std::set<int> may;
      if(t) { begin(op, std::string(mode_name(mode)) + " of " + x->label() + " into " + t->label()); may.insert(t->uid); }
      else { P n = reg().defaults[xc.to.id()](); t = n.get(); add(std::move(n)); begin(op, std::string(mode_name(mode)) + " of " + x->label() + " into new " + t->label()); }
      if(!probe(op, *x, [&] { xc.fn(*x, *t, mode); })) return true;
      xc.fn(*x, *t, mode);
      Arr at = t->arrays();
      if(mode == 4)
      {
        // Allocate leaves the index arrays unspecified: the harness fills the layout (converting the index type)
        for(std::size_t i = 0; i < std::min(ax.ix.size(), at.ix.size()); ++i)
          if(ax.ix[i] && at.ix[i] && ax.ixs[i] == at.ixs[i])
            for(Index k = 0; k < ax.ixs[i]; ++k)
            {
              const std::uint64_t v = x->key.it ? static_cast<std::uint64_t*>(ax.ix[i])[k] : std::uint64_t(static_cast<std::uint32_t*>(ax.ix[i])[k]);
              if(t->key.it) static_cast<std::uint64_t*>(at.ix[i])[k] = v; else static_cast<std::uint32_t*>(at.ix[i])[k] = std::uint32_t(v);
            }
      }
      const int share_el = (mode == 0 && xc.to.dt == xc.from.dt) ? 1 : 0, share_ix = (mode <= 2 && xc.to.it == xc.from.it) ? 1 : 0;
      if(share_el == 0 && share_ix == 0) { if(!check_disjoint(op, ax, at, std::string("cross-type clone mode ") + mode_name(mode))) return true; }
      else if(!check_alias(op, ax, at, share_el, share_ix, std::string("cross-type clone mode ") + mode_name(mode))) return true;
      monitors(op, pre, may);
      return true;
    }

    bool op_convert()
    {
      AnyC* x = pick([](const AnyC& a) { return source(a) && container(a) && !a.foreign; });
      if(!x) return false;
      std::vector<const Conv*> cand;
      for(auto& cv : reg().convs) if(cv.from == x->key && (!cv.ok || cv.ok(*x))) cand.push_back(&cv);
      if(cand.empty()) return false;
      const Conv& cv = *cand[c.rng.below(cand.size())];
      AnyC* t = nullptr;
      // never x.convert(x); SparseVector::convert sorts the target first, which needs a valid (not cleared / moved-from) target
      if(c.rng.coin(0.45)) t = pick([&](const AnyC& a) { return &a != x && a.key == cv.to && !(cv.to.kind == K_SV && a.husk); });
      if(!t && pool.size() >= MAXPOOL) return false;
      if(t && !release_guard(*t, x)) return false;
      auto pre = hashes();
      std::set<int> may;
      const Arr ax = x->arrays();
      if(t)
      {
        begin(cv.op, t->label() + ".convert(" + x->label() + ")");
        may.insert(t->uid);
        if(cv.to.kind == K_SV) for(int u : relatives_of(*t)) may.insert(u); // SparseVector::convert sorts the target's old arrays first
      }
      else
      {
        P n = reg().defaults[cv.to.id()]();
        t = n.get(); add(std::move(n));
        begin(cv.op, "new " + t->label() + ".convert(" + x->label() + ")");
      }
      if(!probe(cv.op, *x, [&] { cv.fn(*x, *t); })) return true;
      cv.fn(*x, *t);
      const Arr at = t->arrays();
      if(cv.share_el == 0 && cv.share_ix == 0) { if(!check_disjoint(cv.op, ax, at, "convert")) return true; }
      else if(!check_alias(cv.op, ax, at, cv.share_el, cv.share_ix, "convert")) return true;
      monitors(cv.op, pre, may);
      return true;
    }

    bool op_move_construct()
    {
      if(pool.size() >= MAXPOOL) return false;
      AnyC* x = pick([](const AnyC& a) { return usable(a); });
      if(!x) return false;
      const std::string op = std::string(kind_name(x->key.kind)) + ".move_construct";
      auto pre = hashes();
      begin(op, x->label());
      const std::vector<void*> before = ptrs(x->arrays());
      P n = x->move_construct();
      c.event();
      if(ptrs(n->arrays()) != before) { fail(op, "alias", vh::J().kv("why", "move-constructed container does not hold the source's arrays")); return true; }
      if(!ptrs(x->arrays()).empty()) { fail(op, "alias", vh::J().kv("why", "moved-from container still lists arrays")); return true; }
      std::set<int> may = {x->uid};
      add(std::move(n));
      if(c.rng.coin(0.5)) { note("  moved-from husk destroyed"); erase(x); }
      monitors(op, pre, may);
      return true;
    }

    bool op_move_assign()
    {
      AnyC* x = pick([](const AnyC& a) { return usable(a); });
      if(!x) return false;
      AnyC* t = pick([&](const AnyC& a) { return &a != x && a.key == x->key; });
      if(!t) return false;
      if(!release_guard(*t, x)) return false;
      const std::string op = std::string(kind_name(x->key.kind)) + ".move_assign";
      auto pre = hashes();
      begin(op, t->label() + " = move(" + x->label() + ")");
      const std::vector<void*> before = ptrs(x->arrays());
      x->move_assign_to(*t);
      c.event();
      if(ptrs(t->arrays()) != before) { fail(op, "alias", vh::J().kv("why", "move-assigned container does not hold the source's arrays")); return true; }
      if(!ptrs(x->arrays()).empty()) { fail(op, "alias", vh::J().kv("why", "moved-from container still lists arrays")); return true; }
      std::set<int> may = {x->uid, t->uid};
      if(c.rng.coin(0.5)) { note("  moved-from husk destroyed"); erase(x); }
      monitors(op, pre, may);
      return true;
    }

    bool op_self_move()
    {
      AnyC* x = pick([](const AnyC& a) { return usable(a) && container(a); });
      if(!x) return false;
      const std::string op = std::string(kind_name(x->key.kind)) + ".self_move";
      auto pre = hashes();
      begin(op, x->label());
      x->self_move();
      monitors(op, pre, {});
      return true;
    }

    bool op_range()
    {
      if(pool.size() >= MAXPOOL) return false;
      AnyC* x = pick([](const AnyC& a) { if(!usable(a) || !a.has_range() || a.native_size() < 1) return false; Arr r = a.arrays(); return r.el.size() == 1 && r.el[0] != nullptr; });
      if(!x) return false;
      const std::string op = std::string(kind_name(x->key.kind)) + ".range";
      const Index n = x->native_size(), s = Index(c.rng.range(1, long(n))), off = Index(c.rng.range(0, long(n - s)));
      auto pre = hashes();
      begin(op, "view of " + x->label() + " size " + std::to_string(s) + " offset " + std::to_string(off));
      P v = x->range(s, off);
      v->view_base = x->foreign ? x->view_base : x->arrays().el[0];
      add(std::move(v));
      monitors(op, pre, {});
      return true;
    }

    bool op_clear()
    {
      AnyC* t = pick([](const AnyC& a) { return container(a); });
      if(!t) return false;
      if(!release_guard(*t)) return false;
      const std::string op = std::string(kind_name(t->key.kind)) + ".clear";
      auto pre = hashes();
      begin(op, t->label());
      t->clear();
      monitors(op, pre, {t->uid});
      return true;
    }

    bool op_destroy()
    {
      if(pool.empty()) return false;
      AnyC* t = pool[c.rng.below(pool.size())].get();
      if(!release_guard(*t)) return false;
      const std::string op = std::string(kind_name(t->key.kind)) + ".destroy";
      auto pre = hashes();
      begin(op, t->label());
      erase(t);
      monitors(op, pre, {});
      return true;
    }

    bool op_format()
    {
      AnyC* x = pick([](const AnyC& a) { return usable(a) && container(a); });
      if(!x) return false;
      const std::string op = std::string(kind_name(x->key.kind)) + ".format";
      auto pre = hashes();
      std::set<int> may = relatives_of(*x);
      const double v = double(c.rng.range(-8, 8));
      begin(op, x->label() + " value " + std::to_string(int(v)));
      x->format(v);
      // the written value must be visible through every element array of x (and hence of its sharing relatives)
      Arr a = x->arrays();
      c.event();
      for(std::size_t i = 0; i < a.el.size(); ++i) if(a.el[i])
        for(Index k = 0; k < a.els[i]; ++k)
        {
          const double g = x->key.dt ? static_cast<double*>(a.el[i])[k] : double(static_cast<float*>(a.el[i])[k]);
          if(g != v) { fail(op, "format-not-applied", vh::J().kv("container", x->label()).kv("slot", (unsigned long)k)); return true; }
        }
      // sharing relatives change together: whoever lists the same value array sees the new value too
      for(auto& p : pool)
      {
        Arr b = p->arrays();
        for(std::size_t i = 0; i < b.el.size(); ++i) for(std::size_t j = 0; j < a.el.size(); ++j)
          if(b.el[i] && b.el[i] == a.el[j] && p->key.dt == x->key.dt)
            for(Index k = 0; k < std::min(b.els[i], a.els[j]); ++k)
            {
              const double g = p->key.dt ? static_cast<double*>(b.el[i])[k] : double(static_cast<float*>(b.el[i])[k]);
              if(g != v) { fail(op, "relative-not-updated", vh::J().kv("container", p->label())); return true; }
            }
      }
      monitors(op, pre, may);
      return true;
    }

    bool op_sv_insert()
    {
      AnyC* x = pick([](const AnyC& a) { if(!usable(a) || a.key.kind != K_SV) return false; Arr r = a.arrays(); return r.sc.size() == 5 && r.sc[0] >= 1; });
      if(!x) return false;
      const std::string op = "sv.insert";
      if(!release_guard(*x)) return false; // a re-allocation releases the old arrays (which may be shared DenseVector arrays with views)
      auto pre = hashes();
      std::set<int> may = relatives_of(*x);
      const Index n = x->arrays().sc[0];
      const int cnt = int(c.rng.range(1, 40)); // enough to force re-allocations (increment = min(size,1000))
      begin(op, x->label() + " x" + std::to_string(cnt));
      for(int i = 0; i < cnt; ++i) x->sv_insert(Index(c.rng.below(n)), double(c.rng.range(-3, 3)));
      monitors(op, pre, may);
      return true;
    }

    bool op_serialize()
    {
      AnyC* x = pick([](const AnyC& a) { return source(a) && container(a) && !a.foreign; });
      if(!x) return false;
      AnyC* t = nullptr;
      const int sel = int(c.rng.below(10));
      if(sel < 4) t = pick([&](const AnyC& a) { return &a != x && a.key == x->key; });
      else if(sel == 4) t = x; // x.deserialize(x.serialize())
      if(!t && pool.size() >= MAXPOOL) return false;
      if(t && !release_guard(*t, x)) return false;
      const std::string op = std::string(kind_name(x->key.kind)) + ".serialize";
      auto pre = hashes();
      std::set<int> may;
      const Arr ax = x->arrays();
      if(t) { begin(op, t->label() + ".deserialize(" + x->label() + ".serialize())"); may.insert(t->uid); }
      else { P n = x->make_default(); t = n.get(); add(std::move(n)); begin(op, "new " + t->label() + ".deserialize(" + x->label() + ".serialize())"); }
      if(!probe(op, *x, [&] { std::vector<char> b = x->serialize(); })) return true;
      std::vector<char> bytes = x->serialize();
      t->deserialize(bytes);
      if(t != x && !check_disjoint(op, ax, t->arrays(), "deserialised container")) return true;
      monitors(op, pre, may);
      return true;
    }

    bool op_layout()
    {
      if(pool.size() >= MAXPOOL) return false;
      const int sel = int(c.rng.below(3));
      if(sel == 2)
      {
        // matrix from a live layout object (any data type, CSR layouts also build BCSR)
        AnyC* l = pick([](const AnyC& a) { return usable(a) && is_layout_kind(a.key.kind); });
        if(!l) return false;
        auto kinds = l->buildable_kinds();
        const int kind = kinds[c.rng.below(kinds.size())], dt = int(c.rng.below(2));
        const std::string op = std::string(kind_name(kind)) + ".from_layout_object";
        auto pre = hashes();
        begin(op, std::string(kind_name(kind)) + (dt ? "<double>" : "<float>") + " from " + l->label());
        const Arr al = l->arrays();
        P n = l->build_from_layout(kind, dt);
        c.event();
        if(n->arrays().ix != al.ix) { fail(op, "alias", vh::J().kv("why", "matrix built from a layout object does not share its index arrays")); return true; }
        add(std::move(n));
        monitors(op, pre, {});
        return true;
      }
      AnyC* x = pick([](const AnyC& a) { return usable(a) && a.has_layout() && !a.foreign; });
      if(!x) return false;
      auto pre = hashes();
      const Arr ax = x->arrays();
      if(sel == 0)
      {
        const std::string op = std::string(kind_name(x->key.kind)) + ".layout_object";
        begin(op, "layout() of " + x->label() + " kept alive");
        P l = x->layout_handle();
        c.event();
        if(l->arrays().ix != ax.ix) { fail(op, "alias", vh::J().kv("why", "layout() does not reference the matrix' index arrays")); return true; }
        add(std::move(l));
        monitors(op, pre, {});
        return true;
      }
      const std::string op = std::string(kind_name(x->key.kind)) + ".from_layout";
      const int variant = int(c.rng.below(3));
      begin(op, "matrix from layout() of " + x->label() + " variant " + std::to_string(variant));
      P n = x->from_layout(variant);
      c.event();
      if(n->arrays().ix != ax.ix) { fail(op, "alias", vh::J().kv("why", "matrix built from layout() does not share the index arrays")); return true; }
      add(std::move(n));
      monitors(op, pre, {});
      return true;
    }

    void step()
    {
      for(int tries = 0; tries < 12; ++tries)
      {
        const int w = int(c.rng.below(100));
        bool done;
        if(pool.empty() || w < 16) done = op_construct();
        else if(w < 25) done = op_clone();
        else if(w < 30) done = op_xclone();
        else if(w < 44) done = op_convert();
        else if(w < 50) done = op_move_construct();
        else if(w < 58) done = op_move_assign();
        else if(w < 60) done = op_self_move();
        else if(w < 66) done = op_range();
        else if(w < 70) done = op_clear();
        else if(w < 80) done = op_destroy();
        else if(w < 84) done = op_format();
        else if(w < 87) done = op_sv_insert();
        else if(w < 93) done = op_serialize();
        else done = op_layout();
        if(done) return;
      }
    }

    void run(int len)
    {
      baseline = snapshot();
      for(int s = 0; s < len && !dead; ++s) step();
      // destroy everything in random order
      while(!pool.empty() && !dead) { if(!op_destroy()) { /* a view blocks: destroy views first */ AnyC* v = pick([](const AnyC& a) { return a.foreign; }); if(v) { begin("view.destroy", v->label()); auto pre = hashes(); erase(v); monitors("view.destroy", pre, {}); } } }
      if(!dead) quiescent("history.end");
      if(dead) repair_low();
      pool.clear();
      repair();
    }
    // after a reported violation the pool may hold too few references: destroying the containers would then abort in
    // release_memory (a consequence, not a new finding).  Missing references are added back; containers whose arrays
    // are gone altogether are abandoned (and hidden from LeakSanitizer).
    void repair_low()
    {
      Snap s = snapshot();
      std::map<void*, Index> m = model();
      std::set<void*> gone;
      for(auto& kv : m)
      {
        auto it = s.find(kv.first);
        if(it == s.end()) { gone.insert(kv.first); continue; }
        Index base = 0; auto ib = baseline.find(kv.first); if(ib != baseline.end()) base = ib->second.count;
        for(Index i = it->second.count; i < kv.second + base; ++i) FEAT::MemoryPool::increase_memory(kv.first);
      }
      if(gone.empty()) return;
      for(auto& p : pool)
      {
        bool hit = false; for(void* q : ptrs(p->arrays())) if(gone.count(q)) hit = true;
        if(hit && !p->foreign)
        {
          // the other arrays of this container lose one reference holder
          for(void* q : ptrs(p->arrays())) if(!gone.count(q)) FEAT::MemoryPool::release_memory(q);
          AnyC* raw = p.release();
#ifdef C20_HAVE_LSAN
          __lsan_ignore_object(raw);
#endif
          (void)raw;
        }
      }
      pool.erase(std::remove_if(pool.begin(), pool.end(), [](const P& p) { return !p; }), pool.end());
    }
    // after a reported leak the harness returns the leaked references so that later cases of this worker (and the
    // runtime shutdown of the worker) are judged on their own
    void repair()
    {
      Snap s = snapshot();
      for(auto& kv : s)
      {
        auto ib = baseline.find(kv.first);
        const Index keep = ib == baseline.end() ? 0 : ib->second.count;
        for(Index i = keep; i < kv.second.count; ++i) FEAT::MemoryPool::release_memory(kv.first);
      }
    }
  };
}

VH_FAMILY(history)
{
  const int len = 40;
  c.tag("len:40");
  // a fraction of the histories is first re-run in a forked child that ends with the runtime's shutdown check
  const bool forked = (c.k % 8 == 0);
  if(forked)
  {
    bool clean_base = true;
    FEAT::MemoryPool::verif_snapshot([&](void*, Index, Index) { clean_base = false; });
    if(clean_base)
    {
      c.tag("forked_shutdown");
      c.set_op("history.shutdown");
      vh::Ctx copy = c;
      vh::ForkResult fr = vh::run_forked([&]
      {
        Hist h(copy); h.run(len);
        FEAT::MemoryPool::finalize();           // prints an error and exit(1)s if the pool is not empty
#ifdef C20_HAVE_LSAN
        if(__lsan_do_recoverable_leak_check() != 0) { std::fprintf(stderr, "C20-CHILD: LeakSanitizer found leaks\n"); std::fflush(stderr); _exit(4); }
#endif
      });
      c.event();
      if(fr.died())
        c.viol("history.shutdown", fr.exited && fr.code == 1 ? "finalize-failed" : (fr.exited && fr.code == 4 ? "leak" : "crash"),
               vh::J().kv("exit", fr.code).kv("signal", fr.sig).kv("stderr", fr.err.substr(0, 1500)).str());
    }
  }
  Hist h(c);
  h.run(len);
  c.count("steps", std::uint64_t(h.nsteps));
  // class signature: the set of operation categories and of container kinds the history exercised
  std::set<std::string> cats, kinds;
  for(auto& o : h.ops_seen) { auto d = o.find('.'); kinds.insert(o.substr(0, d)); cats.insert(d == std::string::npos ? o : o.substr(d + 1, o.find('<') == std::string::npos ? std::string::npos : o.find('<') - d - 1)); }
  std::string sig; for(auto& x : cats) { sig += x; sig += ','; }
  c.sig = sig + "|kinds:" + std::to_string(kinds.size()) + (forked ? "|forked" : "");
}

VH_FEAT_MAIN
