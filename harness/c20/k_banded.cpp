// C20 -- Banded + its layout objects + CSR<->Banded
#include "holder.hpp"
namespace c20
{
  template<typename DT, typename IT> static void reg_banded()
  {
    typedef SparseMatrixBanded<DT, IT> B; typedef SparseMatrixCSR<DT, IT> C;
    reg_kind<B>([](Env& e) -> P
    {
      if(e.rng.coin(0.15)) { e.how = "banded()"; return P(new Holder<B>()); }
      vl::MatSpec s = small_spec(e.rng, true);
      e.how = "banded(r,c,dv,dv)";
      return P(new Holder<B>(vl::make_banded<DT, IT>(e.rng, s)));
    });
    reg_conv<B, C>("banded.convert<-csr", 0, 0, [](const AnyC& s) { Arr a = s.arrays(); return a.sc.size() == 4 && a.sc[3] > 0; });
    reg_conv<C, B>("csr.convert<-banded", 0, 0);
  }
  static struct InitBanded
  {
    InitBanded()
    {
#define X(D, I) reg_banded<D, I>();
      C20_FOR_TYPES(X)
#undef X
      reg_type_convs<SparseMatrixBanded>("banded", false);
      reg_layout_kind<std::uint32_t, SparseLayoutId::lt_banded>();
      reg_layout_kind<std::uint64_t, SparseLayoutId::lt_banded>();
    }
  } init_banded;
}
