// smoke test of the shared helpers: CSR apply against the triplet reference
#include <common/vh_lafem.hpp>
using namespace FEAT; using namespace FEAT::LAFEM;
VH_FAMILY(smoke)
{
  vl::MatSpec m = c.k < vl::edge_corpus_size() ? vl::edge_matrix(c.k) : vl::gen_matrix(c.rng);
  for(auto& t : m.tags) c.tag(t);
  c.set_op("csr.apply");
  c.desc = m.describe();
  auto a = vl::make_csr<double, Index>(m);
  std::vector<vl::LD> d; std::vector<char> mask; std::string why;
  if(!vl::decode_csr(a, d, mask, why) || !vl::same_image<double>(m, d, &mask, why)) c.viol("csr.build", "image", vh::J().kv("why", why).str());
  auto xv = vl::gen_vec(c.rng, m.cols, 1);
  auto x = vl::make_dv<double, Index>(xv);
  DenseVector<double, Index> r(m.rows, 777.0);
  a.apply(r, x);
  std::vector<vl::LD> xl(xv.begin(), xv.end());
  auto ref = vl::ref_apply(m, xl, nullptr, 1.0L, false);
  auto rv = vl::read_dv(r);
  for(Index i = 0; i < m.rows; ++i)
  {
    c.event();
    if(!vl::close_enough<double>(rv[i], ref.v[i], ref.s[i], vl::max_row_len(m, false)))
      c.viol("csr.apply", "wrong-value", vh::J().kv("row", (unsigned long)i).kv("got", rv[i]).kv("expected", ref.v[i]).str());
  }
  { vl::MatSpec b = m; vh::Rng r2 = c.rng; auto bm = vl::make_banded<double, Index>(r2, b); (void)bm; }
  { vl::MatSpec s; auto bm = vl::make_bcsr<double, Index, 2, 3>(c.rng, m, s); (void)bm; }
  { auto cm = vl::make_cscr<double, Index>(m); auto dm = vl::make_dense<double, Index>(m); (void)cm; (void)dm; }
}
VH_FEAT_MAIN
