// C12, family multilevel, shape TU: tetra
#include <c12/c12_multi.hpp>
void c12_multi_tetra(vh::Ctx& c) { c12::run_multilevel<FEAT::Shape::Simplex<3>>(c); }
