// C12, shape TU: quad
#include <c12/c12_cases.hpp>
void c12_random_quad(vh::Ctx& c) { c12::run_random<FEAT::Shape::Hypercube<2>>(c); }
void c12_parti_quad(vh::Ctx& c) { c12::run_parti<FEAT::Shape::Hypercube<2>>(c); }
void c12_file_quad(vh::Ctx& c, const std::string& path, const std::vector<std::string>& chart_files, std::size_t variant) { c12::run_file<FEAT::Shape::Hypercube<2>>(c, path, chart_files, variant); }
