// C12, shape TU: hexa
#include <c12/c12_cases.hpp>
void c12_random_hexa(vh::Ctx& c) { c12::run_random<FEAT::Shape::Hypercube<3>>(c); }
void c12_parti_hexa(vh::Ctx& c) { c12::run_parti<FEAT::Shape::Hypercube<3>>(c); }
void c12_file_hexa(vh::Ctx& c, const std::string& path, const std::vector<std::string>& chart_files, std::size_t variant) { c12::run_file<FEAT::Shape::Hypercube<3>>(c, path, chart_files, variant); }
