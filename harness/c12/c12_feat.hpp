// c12_feat.hpp -- C12: partitions cover each cell once; neighbouring patches agree on their interface.
// One process plays all ranks: RootMeshNode::extract_patch(comm_ranks, elems_at_rank, rank) is called for every rank
// (on the shared base node or on a fresh clone of it), the patch mesh-parts of all ranks are collected in one base node,
// then base node and all patch nodes are refined jointly.  After extraction and after every joint refinement all
// relations are recomputed from plain copies of the FEAT data (c10_core snapshots).
// Instantiated once per shape (c12_quad.cpp, ...).
#pragma once
#include <c10/c10_feat.hpp>
#include <kernel/geometry/parti_2lvl.hpp>
#include <kernel/geometry/parti_iterative.hpp>
#include <kernel/geometry/partition_set.hpp>
#include <kernel/adjacency/graph.hpp>
#include <kernel/util/dist.hpp>

namespace c12
{
  using namespace FEAT;
  using c10::Idx; using c10::ShapeTab; using c10::MeshSnap; using c10::PartSnap; using c10::Ty; using c10::ShapeSel; using c10::Rep;

  // ------------------------------------------------------------------------------------------ assignments
  struct Assignment
  {
    std::vector<std::vector<Idx>> cells;       // cells[rank] = base cells in patch order
    std::string source;                        // random / checker / stripes / parti2lvl / partiiterative / file
    std::size_t ranks() const { return cells.size(); }
    std::string json() const
    {
      vh::J a('[');
      for(std::size_t r = 0; r < cells.size() && r < 24; ++r) a.add_raw(vh::jarr(cells[r], 24));
      if(cells.size() > 24) a.add(std::string("...(") + std::to_string(cells.size()) + " ranks)");
      return a.str();
    }
  };
  inline Adjacency::Graph to_graph(const Assignment& a, Idx ncells)
  {
    Index tot = 0; for(auto& v : a.cells) tot += Index(v.size());
    Adjacency::Graph g(Index(a.ranks()), Index(ncells), tot);
    Index* ptr = g.get_domain_ptr(); Index* idx = g.get_image_idx();
    Index k = 0; ptr[0] = 0;
    for(std::size_t r = 0; r < a.ranks(); ++r) { for(Idx x : a.cells[r]) idx[k++] = Index(x); ptr[r + 1] = k; }
    return g;
  }
  inline Assignment from_graph(const Adjacency::Graph& g, const std::string& src)
  {
    Assignment a; a.source = src; a.cells.resize(g.get_num_nodes_domain());
    for(Index r = 0; r < g.get_num_nodes_domain(); ++r) for(auto it = g.image_begin(r); it != g.image_end(r); ++it) a.cells[r].push_back(Idx(*it));
    return a;
  }
  // is it an assignment of the cells to ranks (each cell exactly one rank, every rank non-empty)?
  inline bool is_assignment(const Assignment& a, Idx ncells, std::string& why)
  {
    std::vector<int> cnt(ncells, 0);
    for(std::size_t r = 0; r < a.ranks(); ++r)
    {
      if(a.cells[r].empty()) { why = "rank " + std::to_string(r) + " is empty"; return false; }
      for(Idx x : a.cells[r]) { if(x >= ncells) { why = "cell index " + std::to_string(x) + " out of range"; return false; } ++cnt[x]; }
    }
    for(Idx i = 0; i < ncells; ++i) if(cnt[i] != 1) { why = "cell " + std::to_string(i) + " is assigned " + std::to_string(cnt[i]) + " times"; return false; }
    return true;
  }
  // random surjective cell -> rank map
  inline Assignment random_assignment(vh::Rng& r, Idx ncells, Idx nranks, bool shuffle_within)
  {
    Assignment a; a.source = "random"; a.cells.resize(nranks);
    std::vector<Idx> perm(ncells); for(Idx i = 0; i < ncells; ++i) perm[i] = i;
    r.shuffle(perm);
    std::vector<Idx> rank(ncells);
    for(Idx i = 0; i < ncells; ++i) rank[perm[i]] = i < nranks ? i : Idx(r.below(nranks));   // the first nranks cells make it surjective
    for(Idx i = 0; i < ncells; ++i) a.cells[rank[i]].push_back(i);
    if(shuffle_within) for(auto& v : a.cells) r.shuffle(v);
    return a;
  }

  // ------------------------------------------------------------------------------------------ one level of all ranks
  struct Level
  {
    MeshSnap base;                              // base.parts: kind 2 = patch map of rank name
    std::vector<MeshSnap> patch;                // patch[r]: mesh of rank r; parts: kind 1 = halo for neighbour name
  };

  template<typename Shape_>
  void snap_level(const typename Ty<Shape_>::Node& base, const std::vector<std::unique_ptr<typename Ty<Shape_>::Node>>& pn, Level& L)
  {
    c10::snap_mesh<Shape_>(*base.get_mesh(), L.base, false);
    for(const auto& h : base.get_patch_map()) { PartSnap p; p.name = std::to_string(h.first); p.kind = 2; c10::snap_part<Shape_>(h.second.get(), p); L.base.parts.push_back(std::move(p)); }
    L.patch.resize(pn.size());
    for(std::size_t r = 0; r < pn.size(); ++r)
    {
      c10::snap_mesh<Shape_>(*pn[r]->get_mesh(), L.patch[r], false);
      for(const auto& h : pn[r]->get_halo_map()) { PartSnap p; p.name = std::to_string(h.first); p.kind = 1; c10::snap_part<Shape_>(h.second.get(), p); L.patch[r].parts.push_back(std::move(p)); }
    }
  }

  // all monitors of one level. comm[r] = comm_ranks returned by extract_patch for rank r
  inline void check_level(vh::Ctx& c, const ShapeTab& t, const Level& L, const std::vector<std::vector<int>>& comm, const std::string& where, const std::string& asg_json, const std::string& xop = "extract_patch")
  {
    Rep rep(c, where);
    const int dim = t.dim; const std::size_t P = L.patch.size();
    auto J = [&]() { return vh::J().raw("assignment", asg_json); };
    // patch maps by rank
    std::vector<const PartSnap*> pm(P, nullptr);
    for(const PartSnap& p : L.base.parts) { const long r = std::strtol(p.name.c_str(), nullptr, 10); if(r >= 0 && std::size_t(r) < P) pm[std::size_t(r)] = &p; }
    bool maps_ok = true;
    for(std::size_t r = 0; r < P; ++r)
    {
      if(pm[r] == nullptr || !pm[r]->present) { rep.bad(xop, "patch-map-missing", J().kv("rank", (unsigned long)r)); maps_ok = false; continue; }
      std::string why;
      if(!c10::part_ranges_ok(t, L.base, *pm[r], why)) { rep.bad(xop, "patch-map-range", J().kv("rank", (unsigned long)r).kv("why", why)); maps_ok = false; continue; }
      for(int d = 0; d <= dim; ++d) if(pm[r]->n[d] != L.patch[r].n[d])
      { rep.bad(xop, "patch-map-size", J().kv("rank", (unsigned long)r).kv("d", d).kv("map_entities", (unsigned long)pm[r]->n[d]).kv("patch_mesh_entities", (unsigned long)L.patch[r].n[d])); maps_ok = false; }
    }
    c.event();
    if(!maps_ok) return;
    // M1 exact cover of the cells
    {
      std::vector<int> cnt(L.base.n[dim], 0); std::vector<long> who(L.base.n[dim], -1);
      for(std::size_t r = 0; r < P; ++r) for(Idx x : pm[r]->trg[dim]) { ++cnt[x]; who[x] = long(r); }
      for(Idx i = 0; i < L.base.n[dim]; ++i) if(cnt[i] != 1)
      { rep.bad(xop, cnt[i] == 0 ? "cell-in-no-patch" : "cell-in-several-patches", J().kv("cell", (unsigned long)i).kv("count", cnt[i]).kv("last_rank", who[i])); break; }
      c.event();
    }
    // M2 injectivity of every entity map, M2b the map is an embedding (incidences are respected)
    std::vector<std::vector<std::vector<int>>> ranks_of(std::size_t(dim) + 1);     // ranks_of[d][base entity] = ranks containing it
    for(int d = 0; d <= dim; ++d) ranks_of[std::size_t(d)].resize(L.base.n[d]);
    for(std::size_t r = 0; r < P; ++r)
    {
      for(int d = 0; d <= dim; ++d)
      {
        std::vector<char> seen(L.base.n[d], 0);
        for(Idx i = 0; i < pm[r]->n[d]; ++i)
        {
          const Idx x = pm[r]->trg[d][i];
          if(seen[x]) { rep.bad(xop, "patch-map-not-injective", J().kv("rank", (unsigned long)r).kv("d", d).kv("patch_entity", (unsigned long)i).kv("base_entity", (unsigned long)x)); break; }
          seen[x] = 1; ranks_of[std::size_t(d)][x].push_back(int(r));
        }
      }
      bool bad = false;
      for(int d = 1; d <= dim && !bad; ++d)
      {
        const int nv = t.nv(d);
        for(Idx i = 0; i < L.patch[r].n[d]; ++i)
        {
          Idx a[8]; for(int k = 0; k < nv; ++k) a[k] = pm[r]->trg[0][L.patch[r].idx[d][0][i * Idx(nv) + Idx(k)]];
          if(!(c10::make_key(a, nv) == c10::make_key(&L.base.idx[d][0][pm[r]->trg[d][i] * Idx(nv)], nv)))
          {
            rep.bad(xop, "patch-map-not-an-embedding", J().kv("rank", (unsigned long)r).kv("d", d).kv("patch_entity", (unsigned long)i).kv("base_entity", (unsigned long)pm[r]->trg[d][i])
              .kv("mapped_vertices", c10::key_str(c10::make_key(a, nv))).kv("base_vertices", c10::key_str(c10::make_key(&L.base.idx[d][0][pm[r]->trg[d][i] * Idx(nv)], nv))));
            bad = true; break;
          }
        }
      }
      c.event(2);
    }
    // M3 neighbour relation: symmetric and complete (share >= 1 base vertex)
    std::vector<std::vector<char>> share(P, std::vector<char>(P, 0)), listed(P, std::vector<char>(P, 0));
    for(const auto& rs : ranks_of[0]) for(int a : rs) for(int b : rs) if(a != b) share[std::size_t(a)][std::size_t(b)] = 1;
    for(std::size_t r = 0; r < P; ++r)
    {
      for(int s : comm[r])
      {
        if(s < 0 || std::size_t(s) >= P || std::size_t(s) == r) { rep.bad(xop, "comm-rank-invalid", J().kv("rank", (unsigned long)r).kv("listed", s)); continue; }
        if(listed[r][std::size_t(s)]) rep.bad(xop, "comm-rank-listed-twice", J().kv("rank", (unsigned long)r).kv("listed", s));
        listed[r][std::size_t(s)] = 1;
      }
    }
    for(std::size_t r = 0; r < P; ++r) for(std::size_t s = 0; s < P; ++s) if(r != s)
    {
      if(listed[r][s] != listed[s][r]) rep.bad(xop, "neighbours-not-symmetric", J().kv("rank", (unsigned long)r).kv("other", (unsigned long)s).kv("r_lists_s", bool(listed[r][s])).kv("s_lists_r", bool(listed[s][r])));
      if(listed[r][s] && !share[r][s]) rep.bad(xop, "neighbour-without-shared-vertex", J().kv("rank", (unsigned long)r).kv("other", (unsigned long)s));
      if(!listed[r][s] && share[r][s]) rep.bad(xop, "neighbour-missing", J().kv("rank", (unsigned long)r).kv("other", (unsigned long)s));
    }
    c.event();
    // M4 halos
    std::vector<std::vector<const PartSnap*>> halos(P);
    for(std::size_t r = 0; r < P; ++r)
    {
      std::vector<const PartSnap*>& halo = halos[r]; halo.assign(P, nullptr);
      for(const PartSnap& h : L.patch[r].parts)
      {
        const long s = std::strtol(h.name.c_str(), nullptr, 10);
        if(s < 0 || std::size_t(s) >= P || !listed[r][std::size_t(s)]) { rep.bad(xop, "halo-for-non-neighbour", J().kv("rank", (unsigned long)r).kv("halo_rank", s)); continue; }
        halo[std::size_t(s)] = &h;
      }
      for(std::size_t s = 0; s < P; ++s) if(listed[r][s] && (halo[s] == nullptr || !halo[s]->present))
        rep.bad(xop, "halo-missing", J().kv("rank", (unsigned long)r).kv("neighbour", (unsigned long)s));
    }
    // shared[(r,s)][d] = base d-entities contained in patch r and in patch s (ascending), r < s
    std::unordered_map<std::uint64_t, std::array<std::vector<Idx>, 4>> shared;
    for(int d = 0; d <= dim; ++d) for(Idx e = 0; e < L.base.n[d]; ++e)
    {
      const auto& rs = ranks_of[std::size_t(d)][e];
      for(std::size_t i = 0; i < rs.size(); ++i) for(std::size_t j = 0; j < rs.size(); ++j) if(rs[i] < rs[j])
        shared[(std::uint64_t(rs[i]) << 32) | std::uint64_t(rs[j])][std::size_t(d)].push_back(e);
    }
    for(std::size_t r = 0; r < P; ++r) for(std::size_t s = r + 1; s < P; ++s) if(listed[r][s] && listed[s][r])
    {
      const PartSnap* hr = halos[r][s]; const PartSnap* hs = halos[s][r];
      if(!hr || !hs || !hr->present || !hs->present) continue;
      std::string why;
      if(!c10::part_ranges_ok(t, L.patch[r], *hr, why)) { rep.bad(xop, "halo-range", J().kv("rank", (unsigned long)r).kv("neighbour", (unsigned long)s).kv("why", why)); continue; }
      if(!c10::part_ranges_ok(t, L.patch[s], *hs, why)) { rep.bad(xop, "halo-range", J().kv("rank", (unsigned long)s).kv("neighbour", (unsigned long)r).kv("why", why)); continue; }
      for(int d = 0; d <= dim; ++d)
      {
        std::vector<Idx> a, b;
        for(Idx x : hr->trg[d]) a.push_back(pm[r]->trg[d][x]);
        for(Idx x : hs->trg[d]) b.push_back(pm[s]->trg[d][x]);
        if(a != b)
        {
          rep.bad(xop, "halo-sequences-differ", J().kv("rank", (unsigned long)r).kv("neighbour", (unsigned long)s).kv("d", d)
            .raw("base_entities_r_to_s", vh::jarr(a, 40)).raw("base_entities_s_to_r", vh::jarr(b, 40)));
          continue;
        }
        // the common sequence lists exactly the base entities contained in both patches, each once
        static const std::vector<Idx> none;
        auto itw = shared.find((std::uint64_t(r) << 32) | std::uint64_t(s));
        const std::vector<Idx>& want = itw == shared.end() ? none : itw->second[std::size_t(d)];
        std::sort(a.begin(), a.end());
        if(a != want)
          rep.bad(xop, "halo-is-not-the-shared-set", J().kv("rank", (unsigned long)r).kv("neighbour", (unsigned long)s).kv("d", d)
            .raw("halo_base_entities_sorted", vh::jarr(a, 40)).raw("shared_base_entities", vh::jarr(want, 40)));
      }
      c.event();
    }
  }

  // ------------------------------------------------------------------------------------------ driver
  // extracts all patches for the assignment, checks, refines jointly `levels` times, checks again
  template<typename Shape_>
  void run_assignment(vh::Ctx& c, std::unique_ptr<typename Ty<Shape_>::Node> base, const Assignment& asg, int levels, Geometry::AdaptMode mode, Idx cell_cap)
  {
    typedef typename Ty<Shape_>::Node NodeT; typedef typename Ty<Shape_>::Part PartT;
    const ShapeTab t = ShapeSel<Shape_>::tab(); const int dim = t.dim;
    const Idx ncells = Idx(base->get_mesh()->get_num_elements());
    const std::size_t P = asg.ranks();
    c.tag("asg:" + asg.source);
    c.tag(P == 1 ? "ranks:1" : P == 2 ? "ranks:2" : P <= 4 ? "ranks:3-4" : P <= 16 ? "ranks:5-16" : "ranks:17+");
    if(P == std::size_t(ncells) && P > 1) c.tag("one_cell_per_rank");
    const std::string aj = asg.json();
    const Adjacency::Graph graph = to_graph(asg, ncells);
    c.set_op("extract_patch");
    std::vector<std::unique_ptr<NodeT>> pn(P);
    std::vector<std::vector<int>> comm(P);
    const bool use_clones = c.rng.coin(0.5);
    c.tag(use_clones ? "extract_on_clones" : "extract_on_shared_base");
    for(std::size_t r = 0; r < P; ++r)
    {
      if(use_clones)
      {
        std::unique_ptr<NodeT> cl = base->clone_unique();
        pn[r] = cl->extract_patch(comm[r], graph, int(r));
        const PartT* pp = cl->get_patch(int(r));
        if(pp == nullptr) { c.viol("extract_patch", "patch-map-missing", vh::J().kv("rank", (unsigned long)r).raw("assignment", aj).str()); return; }
        base->add_patch(int(r), std::unique_ptr<PartT>(new PartT(pp->clone())));
      }
      else pn[r] = base->extract_patch(comm[r], graph, int(r));
      c.event();
    }
    // disconnected patches / patches touching in one vertex are classified for the evidence (harness-side, level 0)
    for(int lvl = 0; ; ++lvl)
    {
      Level L; snap_level<Shape_>(*base, pn, L);
      check_level(c, t, L, comm, "refinement level " + std::to_string(lvl), aj);
      if(c.nviol > 0 || lvl >= levels) { c.tag("joint_refinements:" + std::to_string(lvl)); break; }
      if(L.base.n[dim] * Idx(t.cc(dim, dim)) > cell_cap) { c.tag("joint_refinements:" + std::to_string(lvl)); break; }
      base = base->refine_unique(mode);
      for(std::size_t r = 0; r < P; ++r) pn[r] = pn[r]->refine_unique(mode);
      c.event(1 + P);
    }
  }

  // classification of an assignment for the evidence: disconnected patches, patches that meet in vertices only
  inline void classify(vh::Ctx& c, const ShapeTab& t, const MeshSnap& m, const Assignment& a)
  {
    const int dim = t.dim, nvc = t.nv(dim), fd = dim - 1, nfc = t.nf(dim, fd);
    std::vector<int> rank(m.n[dim], -1);
    for(std::size_t r = 0; r < a.ranks(); ++r) for(Idx x : a.cells[r]) rank[x] = int(r);
    // facet neighbours
    std::vector<std::vector<Idx>> cells_at_facet(m.n[fd]);
    for(Idx i = 0; i < m.n[dim]; ++i) for(int j = 0; j < nfc; ++j) cells_at_facet[m.idx[dim][fd][i * Idx(nfc) + Idx(j)]].push_back(i);
    // connected components per rank (facet connectivity)
    std::vector<Idx> comp(m.n[dim], c10::NONE); bool disconnected = false;
    std::vector<int> ncomp(a.ranks(), 0);
    for(Idx s = 0; s < m.n[dim]; ++s) if(comp[s] == c10::NONE)
    {
      ++ncomp[std::size_t(rank[s])]; std::vector<Idx> st{s}; comp[s] = s;
      while(!st.empty()) { Idx x = st.back(); st.pop_back(); for(int j = 0; j < nfc; ++j) for(Idx y : cells_at_facet[m.idx[dim][fd][x * Idx(nfc) + Idx(j)]]) if(comp[y] == c10::NONE && rank[y] == rank[x]) { comp[y] = s; st.push_back(y); } }
    }
    for(int n : ncomp) if(n > 1) disconnected = true;
    // pairs sharing vertices but no facet
    std::set<std::pair<int, int>> vshare, fshare;
    std::vector<std::vector<int>> rv(m.n[0]);
    for(Idx i = 0; i < m.n[dim]; ++i) for(int k = 0; k < nvc; ++k) rv[m.idx[dim][0][i * Idx(nvc) + Idx(k)]].push_back(rank[i]);
    for(auto& v : rv) for(int x : v) for(int y : v) if(x < y) vshare.insert({x, y});
    for(auto& v : cells_at_facet) if(v.size() == 2 && rank[v[0]] != rank[v[1]]) fshare.insert({std::min(rank[v[0]], rank[v[1]]), std::max(rank[v[0]], rank[v[1]])});
    if(disconnected) c.tag("disconnected_patch");
    if(vshare.size() > fshare.size()) c.tag("patches_touch_in_lower_dim_only");
  }
} // namespace c12
