// c12_multi.hpp -- C12, family `multilevel`: recursive (two-level) partitioning.
// Level 1: base mesh (with generated mesh parts) -> parent patches via extract_patch(comm_ranks, graph, rank).
// Level 2: every parent patch node is partitioned again (assignment of its cells to children):
//   route B (the way Control::Domain::PartiDomainControl does it): children via extract_patch(comm_ranks, graph_p, child)
//     on the PARENT node (sibling halos by PatchHaloFactory, mesh parts by one re-used PatchMeshPartSplitter), then the
//     parent halos are split with one Geometry::PatchHaloSplitter per child (add_halo for every parent halo, serialize,
//     intersect with the serialized data of the children behind that halo) -> one global two-level partition, judged by
//     the monitors of check_level with the child->parent->base maps composed harness-side; joint refinements follow.
//   route A: RootMeshNode::extract_patch(elements, split_meshparts, split_halos, split_patches) on a clone of the parent
//     node: one PatchMeshPartSplitter re-used over all mesh parts / all halos / all patches of the parent.
// Truth: the generator owns both assignments; the entity sets of a child are the closure of its cells, computed from
// plain copies of the (level-1 verified) parent data.
#pragma once
#include <c12/c12_cases.hpp>
#include <kernel/geometry/patch_halo_splitter.hpp>

namespace c12
{
  // in[d][e] = 1 iff entity e (dimension d) of mesh m is a sub-entity of one of the cells
  inline void cells_closure(const ShapeTab& t, const MeshSnap& m, const std::vector<Idx>& cells, std::vector<char> (&in)[4])
  {
    const int dim = t.dim;
    for(int d = 0; d <= dim; ++d) in[d].assign(m.n[d], 0);
    for(Idx x : cells)
    {
      in[dim][x] = 1;
      for(int d = 0; d < dim; ++d) { const int nf = t.nf(dim, d); for(int j = 0; j < nf; ++j) in[d][m.idx[dim][d][x * Idx(nf) + Idx(j)]] = 1; }
    }
  }

  // the map child-local -> parent-local of an extracted patch: sizes, range, injective, image = closure of the given
  // cells, embedding (vertex sets of every entity are respected)
  inline bool check_patch_map(Rep& rep, const std::string& op, const ShapeTab& t, const MeshSnap& par, const PartSnap* map, const MeshSnap& ch,
    const std::vector<char> (&in)[4], const std::function<vh::J()>& J)
  {
    const int dim = t.dim;
    if(map == nullptr || !map->present) { rep.bad(op, "patch-map-missing", J()); return false; }
    std::string why;
    if(!c10::part_ranges_ok(t, par, *map, why)) { rep.bad(op, "patch-map-range", J().kv("why", why)); return false; }
    bool ok = true;
    for(int d = 0; d <= dim; ++d) if(map->n[d] != ch.n[d])
    { rep.bad(op, "patch-map-size", J().kv("d", d).kv("map_entities", (unsigned long)map->n[d]).kv("patch_mesh_entities", (unsigned long)ch.n[d])); ok = false; }
    if(!ok) return false;
    for(int d = 0; d <= dim; ++d)
    {
      std::vector<char> seen(par.n[d], 0);
      for(Idx i = 0; i < map->n[d]; ++i)
      {
        const Idx x = map->trg[d][i];
        if(seen[x]) { rep.bad(op, "patch-map-not-injective", J().kv("d", d).kv("patch_entity", (unsigned long)i).kv("parent_entity", (unsigned long)x)); ok = false; break; }
        seen[x] = 1;
      }
      for(Idx e = 0; e < par.n[d]; ++e) if(bool(seen[e]) != bool(in[d][e]))
      { rep.bad(op, "patch-is-not-the-closure-of-its-cells", J().kv("d", d).kv("parent_entity", (unsigned long)e).kv("in_patch_map", bool(seen[e])).kv("in_closure_of_requested_cells", bool(in[d][e]))); ok = false; break; }
    }
    for(int d = 1; d <= dim && ok; ++d)
    {
      const int nv = t.nv(d);
      for(Idx i = 0; i < ch.n[d]; ++i)
      {
        Idx a[8]; for(int k = 0; k < nv; ++k) a[k] = map->trg[0][ch.idx[d][0][i * Idx(nv) + Idx(k)]];
        if(!(c10::make_key(a, nv) == c10::make_key(&par.idx[d][0][map->trg[d][i] * Idx(nv)], nv)))
        { rep.bad(op, "patch-map-not-an-embedding", J().kv("d", d).kv("patch_entity", (unsigned long)i).kv("parent_entity", (unsigned long)map->trg[d][i])); ok = false; break; }
      }
    }
    return ok;
  }

  // A part Q of the child (targets = child-local entities) must be the restriction of the part P of the parent (targets
  // = parent-local entities) to the child: for every dimension the parent entities listed by Q (through cmap) are
  // exactly the entries of P lying in the child, with multiplicities.  Q may be absent only if nothing of P is in the child.
  inline bool check_restriction(Rep& rep, const std::string& op, const std::string& what, const ShapeTab& t, const MeshSnap& ch, const PartSnap& P, const PartSnap* Q,
    const PartSnap& cmap, const std::vector<char> (&in)[4], const std::function<vh::J()>& J)
  {
    const int dim = t.dim;
    std::vector<Idx> want[4]; std::size_t tot = 0;
    if(P.present) for(int d = 0; d <= dim; ++d) { for(Idx x : P.trg[d]) if(in[d][x]) want[d].push_back(x); tot += want[d].size(); }
    if(Q == nullptr || !Q->present)
    {
      if(tot > 0) { rep.bad(op, what + "-missing", J().kv("parent_entities_inside_the_child", (unsigned long)tot)); return false; }
      return true;
    }
    std::string why;
    if(!c10::part_ranges_ok(t, ch, *Q, why)) { rep.bad(op, what + "-range", J().kv("why", why)); return false; }
    bool ok = true;
    for(int d = 0; d <= dim; ++d)
    {
      std::vector<Idx> got; got.reserve(Q->trg[d].size());
      for(Idx x : Q->trg[d]) got.push_back(cmap.trg[d][x]);
      std::vector<Idx> gs = got, ws = want[d]; std::sort(gs.begin(), gs.end()); std::sort(ws.begin(), ws.end());
      if(gs != ws)
      {
        rep.bad(op, what + "-is-not-the-restriction-of-the-parent's", J().kv("d", d).raw("parent_entities_listed_by_child_part", vh::jarr(got, 40))
          .raw("parent_part_entities_inside_the_child", vh::jarr(want[d], 40)).kv("parent_part_present", P.present));
        ok = false;
      }
    }
    return ok;
  }

  inline const PartSnap* find_part(const MeshSnap& m, int kind, const std::string& name)
  { for(const PartSnap& p : m.parts) if(p.kind == kind && p.name == name) return &p; return nullptr; }

  // generated mesh parts of the base node: names in random order, entities of one dimension only / closed / with topology
  template<typename Shape_>
  void attach_parts(vh::Ctx& c, typename Ty<Shape_>::Node& node, const MeshSnap& m)
  {
    const ShapeTab t = ShapeSel<Shape_>::tab(); const int dim = t.dim; vh::Rng& r = c.rng;
    const int np = int(r.range(0, 4));
    for(int ip = 0; ip < np; ++ip)
    {
      const int top = int(r.range(0, dim));
      const bool closure = top > 0 && r.coin(0.5);
      const bool topo = closure && top < 3 && r.coin(0.35);
      std::vector<Idx> trg[4];
      c10::random_targets(r, t, m, top, r.pick<double>({0.05, 0.3, 0.7, 1.0}), closure, r.coin(0.5), trg);
      const std::string name = std::string(1, char('a' + int(r.below(26)))) + std::to_string(ip) + "_d" + std::to_string(top);
      node.add_mesh_part(name, c10::make_part<Shape_>(*node.get_mesh(), trg, topo));
      c.tag(std::string("part:d") + std::to_string(top) + (closure ? "+closure" : "") + (topo ? "+topology" : ""));
    }
    if(r.coin(0.4))
    {
      Geometry::BoundaryFactory<typename Ty<Shape_>::Mesh> bf(*node.get_mesh());
      node.add_mesh_part(std::string(1, char('a' + int(r.below(26)))) + "_bnd", bf.make_unique()); c.tag("part:boundary");
    }
    if(np == 0) c.tag("part:none");
  }

  template<typename Shape_>
  void snap_parts(const typename Ty<Shape_>::Node& node, MeshSnap& s)
  {
    for(const auto& nm : node.get_mesh_part_names()) { PartSnap p; p.name = nm; p.kind = 0; c10::snap_part<Shape_>(node.find_mesh_part(nm), p); s.parts.push_back(std::move(p)); }
    for(const auto& h : node.get_halo_map()) { PartSnap p; p.name = std::to_string(h.first); p.kind = 1; c10::snap_part<Shape_>(h.second.get(), p); s.parts.push_back(std::move(p)); }
    for(const auto& h : node.get_patch_map()) { PartSnap p; p.name = std::to_string(h.first); p.kind = 2; c10::snap_part<Shape_>(h.second.get(), p); s.parts.push_back(std::move(p)); }
  }

  // mesh parts of a child node against the mesh parts of its parent node
  inline void check_mesh_parts(Rep& rep, const std::string& op, const ShapeTab& t, const MeshSnap& par, const MeshSnap& ch, const PartSnap& cmap, const std::vector<char> (&in)[4],
    bool requested, vh::Ctx& c, const std::function<vh::J()>& J)
  {
    std::vector<std::string> pn, cn;
    for(const PartSnap& p : par.parts) if(p.kind == 0) pn.push_back(p.name);
    for(const PartSnap& p : ch.parts) if(p.kind == 0) cn.push_back(p.name);
    if(!requested) { if(!cn.empty()) rep.bad(op, "mesh-parts-not-requested", J().raw("child_parts", vh::jarr(cn))); return; }
    if(pn != cn) { rep.bad(op, "mesh-part-names-differ", J().raw("parent_parts", vh::jarr(pn)).raw("child_parts", vh::jarr(cn))); return; }
    for(const std::string& nm : pn)
    {
      check_restriction(rep, op, "mesh-part", t, ch, *find_part(par, 0, nm), find_part(ch, 0, nm), cmap, in, [&]() { return J().kv("part", nm); });
      c.event();
    }
  }

  // level-1 assignment with neighbours touching in a face / an edge only / a single vertex
  inline Assignment structured_assignment(vh::Ctx& c, const std::vector<std::array<int, 3>>& pos, const Index* dims, int dim, int how)
  {
    vh::Rng& r = c.rng; Assignment a; const Idx n = Idx(pos.size());
    std::vector<int> key(n, 0);
    if(how == 0)
    {
      // blocks: every direction with >= 2 layers is cut once
      a.source = "blocks"; int cut[3] = {0, 0, 0}; int mul = 1, m[3] = {0, 0, 0};
      for(int k = 0; k < dim; ++k) if(dims[k] >= 2 && r.coin(0.85)) { cut[k] = int(r.range(1, long(dims[k]) - 1)); m[k] = mul; mul *= 2; }
      for(Idx i = 0; i < n; ++i) for(int k = 0; k < dim; ++k) if(cut[k] > 0 && pos[i][std::size_t(k)] >= cut[k]) key[i] += m[k];
    }
    else if(how == 1)
    {
      // 2^dim-colour checkerboard: all cells of one parity class; patches are disconnected and touch in vertices / edges
      a.source = "checker4";
      for(Idx i = 0; i < n; ++i) { int mul = 1; for(int k = 0; k < dim; ++k) { key[i] += mul * (pos[i][std::size_t(k)] % 2); mul *= 2; } }
    }
    else
    {
      a.source = "checkerboard";
      for(Idx i = 0; i < n; ++i) key[i] = (pos[i][0] + pos[i][1] + pos[i][2]) % 2;
    }
    // compress the keys and label the ranks in random order (the order of the halos in the maps follows the labels)
    std::vector<int> used; for(int x : key) if(std::find(used.begin(), used.end(), x) == used.end()) used.push_back(x);
    r.shuffle(used);
    a.cells.resize(used.size());
    for(Idx i = 0; i < n; ++i) a.cells[std::size_t(std::find(used.begin(), used.end(), key[i]) - used.begin())].push_back(i);
    if(r.coin(0.5)) for(auto& v : a.cells) r.shuffle(v);
    return a;
  }

  template<typename Shape_>
  void run_multilevel(vh::Ctx& c)
  {
    typedef typename Ty<Shape_>::Node NodeT; typedef typename Ty<Shape_>::Part PartT; typedef typename Ty<Shape_>::Mesh MeshT;
    vh::Rng& r = c.rng; const ShapeTab t = ShapeSel<Shape_>::tab(); const int dim = t.dim;
    c.tag(std::string("shape:") + t.name()); c.tag("multilevel");
    std::vector<int> col; std::vector<std::array<int, 3>> pos; Index dims[3] = {1, 1, 1};
    std::unique_ptr<NodeT> base = gen_base<Shape_>(c, &col, &pos, dims);
    const Idx ncells = Idx(base->get_mesh()->get_num_elements());
    MeshSnap s0; c10::snap_mesh<Shape_>(*base->get_mesh(), s0, false);
    attach_parts<Shape_>(c, *base, s0);

    // ---------------------------------------------------------------- level 1
    Assignment a1;
    const int how = int(r.below(6));
    if(how <= 3 && !pos.empty() && ncells >= 2) a1 = structured_assignment(c, pos, dims, dim, how <= 1 ? 0 : how - 1);
    else a1 = random_assignment(r, ncells, std::min<Idx>(pick_ranks(r, ncells), 8), r.coin(0.5));
    std::string why;
    if(!is_assignment(a1, ncells, why)) { c.inconclusive("harness assignment invalid: " + why); return; }
    classify(c, t, s0, a1);
    const std::size_t P = a1.ranks();
    c.tag("asg:" + a1.source);
    c.tag(P == 1 ? "ranks:1" : P == 2 ? "ranks:2" : P <= 4 ? "ranks:3-4" : "ranks:5+");
    const std::string a1j = a1.json();
    const Adjacency::Graph g1 = to_graph(a1, ncells);
    c.set_op("extract_patch");
    std::vector<std::unique_ptr<NodeT>> pn(P); std::vector<std::vector<int>> comm1(P);
    for(std::size_t p = 0; p < P; ++p) { pn[p] = base->extract_patch(comm1[p], g1, int(p)); c.event(); }
    Level L1; snap_level<Shape_>(*base, pn, L1);
    check_level(c, t, L1, comm1, "level 1", a1j);
    if(c.nviol > 0) return;
    MeshSnap sb = s0; snap_parts<Shape_>(*base, sb);                       // base mesh + mesh parts + patch maps
    std::vector<MeshSnap> sp(P);                                            // parent meshes + mesh parts + halos
    std::vector<const PartSnap*> pm(P, nullptr);
    {
      Rep rep(c, "level 1");
      for(std::size_t p = 0; p < P; ++p)
      {
        c10::snap_mesh<Shape_>(*pn[p]->get_mesh(), sp[p], false); snap_parts<Shape_>(*pn[p], sp[p]);
        pm[p] = find_part(sb, 2, std::to_string(p));
        // the patch of rank p consists of the cells assigned to p
        std::vector<Idx> x = pm[p]->trg[dim], y = a1.cells[p]; std::sort(x.begin(), x.end()); std::sort(y.begin(), y.end());
        if(x != y) { rep.bad("extract_patch", "patch-cells-differ-from-assignment", vh::J().kv("rank", (unsigned long)p).raw("patch_cells", vh::jarr(x, 40)).raw("assigned_cells", vh::jarr(y, 40)).raw("assignment", a1j)); continue; }
        // mesh parts of the parent = restriction of the base mesh parts (one splitter re-used over all parts)
        std::vector<char> in[4]; cells_closure(t, sb, a1.cells[p], in);
        check_mesh_parts(rep, "extract_patch", t, sb, sp[p], *pm[p], in, true, c, [&]() { return vh::J().kv("rank", (unsigned long)p).raw("assignment", a1j); });
      }
      if(c.nviol > 0) return;
    }

    // ---------------------------------------------------------------- level 2 assignments (parent-local cell indices)
    std::vector<Assignment> a2(P); std::vector<std::size_t> first(P + 1, 0);
    const int l2mode = int(r.below(5));
    c.tag(l2mode == 0 ? "children:one_per_parent" : l2mode == 1 ? "children:one_cell_each" : "children:random");
    for(std::size_t p = 0; p < P; ++p)
    {
      const Idx np = sp[p].n[dim];
      const Idx K = l2mode == 0 ? 1 : l2mode == 1 ? np : std::min<Idx>(pick_ranks(r, np), 6);
      a2[p] = random_assignment(r, np, K, r.coin(0.5));
      first[p + 1] = first[p] + a2[p].ranks();
    }
    const std::size_t G = first[P];
    if(G > 96) { c.trivial = true; c.count("too_many_children"); return; }
    c.tag(G == P ? "children:=parents" : G <= 8 ? "children:<=8" : G <= 24 ? "children:9-24" : "children:25+");
    std::string a2j; { vh::J a('['); for(std::size_t p = 0; p < P && p < 12; ++p) a.add_raw(a2[p].json()); a2j = a.str(); }
    auto JJ = [&]() { return vh::J().raw("assignment", a1j).raw("children_of_parents", a2j); };
    const std::string desc0 = c.desc;
    c.desc = vh::J().raw("base", desc0.empty() ? "{}" : desc0).raw("level1", a1j).raw("level2", a2j).str();

    // ---------------------------------------------------------------- route B: children via the partition graph
    struct Child { std::size_t p = 0, k = 0; std::vector<Idx> bcells; std::vector<char> inb[4], inp[4]; PartSnap cmap; MeshSnap snap; std::vector<int> comm; };
    std::vector<Child> ch(G); std::vector<std::unique_ptr<NodeT>> gn(G);
    std::vector<std::unique_ptr<Geometry::PatchHaloSplitter<MeshT>>> hs(G);
    std::vector<std::map<int, std::size_t>> hsize(G);
    for(std::size_t p = 0; p < P; ++p)
    {
      const std::size_t K = a2[p].ranks(); const Adjacency::Graph g2 = to_graph(a2[p], sp[p].n[dim]);
      std::vector<std::unique_ptr<NodeT>> cn(K); std::vector<std::vector<int>> comm2(K);
      c.set_op("extract_patch");
      for(std::size_t k = 0; k < K; ++k) { cn[k] = pn[p]->extract_patch(comm2[k], g2, int(k)); c.event(); }
      Level L2; snap_level<Shape_>(*pn[p], cn, L2);
      check_level(c, t, L2, comm2, "children of parent " + std::to_string(p), a2[p].json());
      if(c.nviol > 0) return;
      Rep rep(c, "children of parent " + std::to_string(p));
      for(std::size_t k = 0; k < K; ++k)
      {
        const std::size_t g = first[p] + k; Child& C = ch[g]; C.p = p; C.k = k;
        cells_closure(t, sp[p], a2[p].cells[k], C.inp);
        for(Idx x : a2[p].cells[k]) C.bcells.push_back(pm[p]->trg[dim][x]);
        cells_closure(t, sb, C.bcells, C.inb);
        C.cmap = *find_part(L2.base, 2, std::to_string(k));
        MeshSnap cs; c10::snap_mesh<Shape_>(*cn[k]->get_mesh(), cs, false); snap_parts<Shape_>(*cn[k], cs);
        auto Jc = [&]() { return JJ().kv("parent", (unsigned long)p).kv("child", (unsigned long)k); };
        if(!check_patch_map(rep, "extract_patch", t, sp[p], &C.cmap, cs, C.inp, Jc)) return;
        check_mesh_parts(rep, "extract_patch", t, sp[p], cs, C.cmap, C.inp, true, c, Jc);
        // split the parent halos for this child
        c.set_op("patch_halo_splitter");
        hs[g].reset(new Geometry::PatchHaloSplitter<MeshT>(*pn[p]->get_mesh(), *pn[p]->get_patch(int(k))));
        for(const auto& h : pn[p]->get_halo_map())
        {
          const std::size_t sz = hs[g]->add_halo(h.first, *h.second); c.event();
          // non-empty <=> the child contains an entity of the parent halo
          const PartSnap* hp = find_part(sp[p], 1, std::to_string(h.first)); bool touch = false;
          for(int d = 0; d <= dim; ++d) for(Idx x : hp->trg[d]) if(C.inp[d][x]) touch = true;
          if(touch != (sz > 0)) { rep.bad("patch_halo_splitter", "split-halo-emptiness", Jc().kv("halo", h.first).kv("returned_size", (unsigned long)sz).kv("child_touches_halo", touch)); }
          if(sz > 0) hsize[g][h.first] = sz;
        }
        for(int s : comm2[k]) C.comm.push_back(int(first[p]) + s);
        std::map<int, int> ren; for(std::size_t s = 0; s < K; ++s) ren[int(s)] = int(first[p] + s);
        cn[k]->rename_halos(ren);
        gn[g] = std::move(cn[k]);
      }
      if(c.nviol > 0) return;
    }
    // exchange: the children behind halo q of parent p are the children of parent q that touch their halo p
    {
      Rep rep(c, "halo exchange");
      c.set_op("patch_halo_splitter");
      for(std::size_t g = 0; g < G; ++g)
      {
        const std::size_t p = ch[g].p;
        for(const auto& hq : hsize[g])
        {
          const std::size_t q = std::size_t(hq.first);
          std::vector<Index> buf; std::vector<Index> offs;
          for(long j = long(r.below(3)); j > 0; --j) buf.push_back(Index(r.below(1000)));
          for(std::size_t g2 = first[q]; g2 < first[q + 1]; ++g2)
          {
            auto it = hsize[g2].find(int(p)); if(it == hsize[g2].end()) continue;
            std::vector<Index> d = hs[g2]->serialize_split_halo(int(p), int(g2));
            if(d.size() != it->second) rep.bad("patch_halo_splitter", "serialized-size-differs", JJ().kv("child", (unsigned long)g2).kv("halo", int(p)).kv("announced", (unsigned long)it->second).kv("serialized", (unsigned long)d.size()));
            offs.push_back(Index(buf.size())); buf.insert(buf.end(), d.begin(), d.end());
          }
          for(Index off : offs)
          {
            c.event();
            if(!hs[g]->intersect_split_halo(int(q), buf, off)) continue;
            const int nb = int(buf[off]);
            ch[g].comm.push_back(nb);
            gn[g]->add_halo(nb, hs[g]->make_unique());
          }
        }
      }
      if(c.nviol > 0) return;
    }
    // the global two-level partition: patch maps composed harness-side
    std::unique_ptr<NodeT> base2 = base->clone_unique(); base2->clear_patches();
    std::vector<std::vector<int>> commG(G);
    for(std::size_t g = 0; g < G; ++g)
    {
      std::vector<Idx> trg[4];
      for(int d = 0; d <= dim; ++d) for(Idx x : ch[g].cmap.trg[d]) trg[d].push_back(pm[ch[g].p]->trg[d][x]);
      base2->add_patch(int(g), c10::make_part<Shape_>(*base2->get_mesh(), trg, false));
      commG[g] = ch[g].comm;
    }
    {
      Assignment ag; ag.source = "two-level"; for(std::size_t g = 0; g < G; ++g) ag.cells.push_back(ch[g].bcells);
      const std::string agj = ag.json();
      const int levels = int(r.range(0, c.thorough() ? 2 : 1));
      for(int lvl = 0; ; ++lvl)
      {
        Level LG; snap_level<Shape_>(*base2, gn, LG);
        check_level(c, t, LG, commG, "two-level partition, refinement level " + std::to_string(lvl), agj, "two_level_partition");
        if(c.nviol > 0) return;
        if(lvl >= levels || LG.base.n[dim] * Idx(t.cc(dim, dim)) > (c.thorough() ? 20000u : 3000u)) { c.tag("joint_refinements:" + std::to_string(lvl)); break; }
        base2 = base2->refine_unique(Geometry::AdaptMode::none);
        for(std::size_t g = 0; g < G; ++g) gn[g] = gn[g]->refine_unique(Geometry::AdaptMode::none);
        c.event(1 + G);
      }
    }
    hs.clear();

    // ---------------------------------------------------------------- route A: extract_patch(elements, ...) on clones of the parents
    c.set_op("extract_patch_elements");
    const std::string opA = "extract_patch_elements";
    // seq[g][q][d] = base entities listed by the split halo of child g for parent neighbour q
    std::vector<std::map<int, std::array<std::vector<Idx>, 4>>> seq(G); std::vector<char> has_halos(G, 0);
    bool lowdim = false, vertex_only = false, any_halo_split = false;
    std::size_t budget = c.thorough() ? 48 : 24;
    for(std::size_t g = 0; g < G && budget > 0; ++g)
    {
      const std::size_t p = ch[g].p, k = ch[g].k; Child& C = ch[g];
      if(G > budget && r.coin(1.0 - double(budget) / double(G))) continue;
      --budget;
      Rep rep(c, "child " + std::to_string(k) + " of parent " + std::to_string(p));
      auto Jc = [&]() { return JJ().kv("parent", (unsigned long)p).kv("child", (unsigned long)k); };
      std::unique_ptr<NodeT> cl = pn[p]->clone_unique();
      // preconditions (add_halo / add_patch assert a non-empty intersection): the child has to touch every parent halo /
      // every patch of the parent node
      bool all_halos = true, all_patches = true;
      for(const PartSnap& h : sp[p].parts) if(h.kind == 1) { bool touch = false; for(int d = 0; d <= dim; ++d) for(Idx x : h.trg[d]) if(C.inp[d][x]) touch = true; if(!touch) all_halos = false; }
      MeshSnap spp; snap_parts<Shape_>(*cl, spp);                           // parts of the clone (incl. the sibling patches)
      for(const PartSnap& h : spp.parts) if(h.kind == 2) { bool touch = false; for(int d = 0; d <= dim; ++d) for(Idx x : h.trg[d]) if(C.inp[d][x]) touch = true; if(!touch) all_patches = false; }
      const bool s_parts = r.coin(0.8), s_halos = all_halos, s_patches = all_patches && r.coin(0.6);
      if(!s_patches && r.coin(0.5)) { cl->clear_patches(); spp.parts.erase(std::remove_if(spp.parts.begin(), spp.parts.end(), [](const PartSnap& x) { return x.kind == 2; }), spp.parts.end()); }
      std::vector<Index> elems; for(Idx x : a2[p].cells[k]) elems.push_back(Index(x));
      std::unique_ptr<NodeT> cnode = cl->extract_patch(std::move(elems), s_parts, s_halos, s_patches);
      c.event();
      if(!cnode || cnode->get_mesh() == nullptr) { rep.bad(opA, "no-patch-node", Jc()); continue; }
      MeshSnap cs; c10::snap_mesh<Shape_>(*cnode->get_mesh(), cs, false); snap_parts<Shape_>(*cnode, cs);
      PartSnap cmap; cmap.kind = 2; cmap.name = "-1"; c10::snap_part<Shape_>(cl->get_patch(-1), cmap);
      if(!check_patch_map(rep, opA, t, sp[p], &cmap, cs, C.inp, Jc)) continue;
      c.event();
      check_mesh_parts(rep, opA, t, sp[p], cs, cmap, C.inp, s_parts, c, Jc);
      // halos: same keys as the parent; each the restriction of the parent's halo
      {
        std::vector<std::string> hp, hc;
        for(const PartSnap& h : sp[p].parts) if(h.kind == 1) hp.push_back(h.name);
        for(const PartSnap& h : cs.parts) if(h.kind == 1) hc.push_back(h.name);
        if(!s_halos) { if(!hc.empty()) rep.bad(opA, "halos-not-requested", Jc().raw("child_halos", vh::jarr(hc))); }
        else if(hp != hc) rep.bad(opA, "split-halo-ranks-differ", Jc().raw("parent_halos", vh::jarr(hp)).raw("child_halos", vh::jarr(hc)));
        else
        {
          has_halos[g] = 1; if(!hp.empty()) any_halo_split = true;
          for(const std::string& nm : hp)
          {
            const PartSnap* Q = find_part(cs, 1, nm);
            const bool ok = check_restriction(rep, opA, "split-halo", t, cs, *find_part(sp[p], 1, nm), Q, cmap, C.inp, [&]() { return Jc().kv("halo", nm); });
            c.event();
            if(Q && Q->present && ok)
            {
              auto& sq = seq[g][int(std::strtol(nm.c_str(), nullptr, 10))];
              for(int d = 0; d <= dim; ++d) for(Idx x : Q->trg[d]) sq[std::size_t(d)].push_back(pm[p]->trg[d][cmap.trg[d][x]]);
              if(sq[std::size_t(dim - 1)].empty()) lowdim = true;
              bool vo = true; for(int d = 1; d <= dim; ++d) if(!sq[std::size_t(d)].empty()) vo = false;
              if(vo) vertex_only = true;
            }
          }
        }
      }
      // patches of the parent node (the siblings) restricted to the child
      {
        std::vector<std::string> pp2, pc;
        for(const PartSnap& h : spp.parts) if(h.kind == 2) pp2.push_back(h.name);
        for(const PartSnap& h : cs.parts) if(h.kind == 2) pc.push_back(h.name);
        if(!s_patches) { if(!pc.empty()) rep.bad(opA, "patches-not-requested", Jc().raw("child_patches", vh::jarr(pc))); }
        else if(pp2 != pc) rep.bad(opA, "split-patch-ranks-differ", Jc().raw("parent_patches", vh::jarr(pp2)).raw("child_patches", vh::jarr(pc)));
        else for(const std::string& nm : pp2)
        { check_restriction(rep, opA, "split-patch", t, cs, *find_part(spp, 2, nm), find_part(cs, 2, nm), cmap, C.inp, [&]() { return Jc().kv("patch", nm); }); c.event(); }
      }
      c.tag(std::string("split:") + (s_parts ? "P" : "-") + (s_halos ? "H" : "-") + (s_patches ? "S" : "-"));
    }
    if(any_halo_split) c.tag("halos_split");
    if(lowdim) c.tag("split_halo_without_facets");
    if(vertex_only) c.tag("split_halo_vertex_only");
    if(c.nviol > 0) return;
    // both sides of every child interface: the children g of parent p and g2 of parent q list, in their split halos for
    // q resp. p, the same sequence of common base entities, and that sequence is the set of base entities of both
    {
      Rep rep(c, "child interfaces");
      for(std::size_t g = 0; g < G; ++g) if(has_halos[g]) for(std::size_t g2 = g + 1; g2 < G; ++g2) if(has_halos[g2] && ch[g].p != ch[g2].p)
      {
        const int p = int(ch[g].p), q = int(ch[g2].p);
        auto ia = seq[g].find(q); auto ib = seq[g2].find(p);
        for(int d = 0; d <= dim; ++d)
        {
          std::vector<Idx> a, b, want;
          if(ia != seq[g].end()) for(Idx e : ia->second[std::size_t(d)]) if(ch[g2].inb[d][e]) a.push_back(e);
          if(ib != seq[g2].end()) for(Idx e : ib->second[std::size_t(d)]) if(ch[g].inb[d][e]) b.push_back(e);
          for(Idx e = 0; e < sb.n[d]; ++e) if(ch[g].inb[d][e] && ch[g2].inb[d][e]) want.push_back(e);
          auto Jp = [&]() { return JJ().kv("parent_a", p).kv("child_a", (unsigned long)ch[g].k).kv("parent_b", q).kv("child_b", (unsigned long)ch[g2].k).kv("d", d); };
          if(a != b) { rep.bad(opA, "split-halo-sequences-differ", Jp().raw("base_entities_a_to_b", vh::jarr(a, 40)).raw("base_entities_b_to_a", vh::jarr(b, 40))); continue; }
          std::sort(a.begin(), a.end());
          if(a != want) rep.bad(opA, "split-halo-is-not-the-shared-set", Jp().raw("halo_base_entities_sorted", vh::jarr(a, 40)).raw("shared_base_entities", vh::jarr(want, 40)));
        }
        c.event();
      }
    }
  }
} // namespace c12
