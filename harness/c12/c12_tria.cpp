// C12, shape TU: tria
#include <c12/c12_cases.hpp>
void c12_random_tria(vh::Ctx& c) { c12::run_random<FEAT::Shape::Simplex<2>>(c); }
void c12_parti_tria(vh::Ctx& c) { c12::run_parti<FEAT::Shape::Simplex<2>>(c); }
void c12_file_tria(vh::Ctx& c, const std::string& path, const std::vector<std::string>& chart_files, std::size_t variant) { c12::run_file<FEAT::Shape::Simplex<2>>(c, path, chart_files, variant); }
