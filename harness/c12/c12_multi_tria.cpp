// C12, family multilevel, shape TU: tria
#include <c12/c12_multi.hpp>
void c12_multi_tria(vh::Ctx& c) { c12::run_multilevel<FEAT::Shape::Simplex<2>>(c); }
