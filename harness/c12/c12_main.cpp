// C12 -- partitions cover each cell once; neighbouring patches agree on their interface.
// Families
//   random : explicit cell->rank assignments (random surjective maps with 1..#cells ranks, one cell per rank,
//            checkerboards, diagonal stripes) on generated quad/tria/hexa/tetra meshes
//   parti  : Geometry::Parti2Lvl and Geometry::PartiIterative outputs
//   files  : meshes of /repo/data/meshes: partitions stored in the files (PartitionSet) and random assignments
//   multilevel : two-level partitions (children of extracted patches): extract_patch(elements, ...), PatchMeshPartSplitter
//            and PatchHaloSplitter re-used over all halos / mesh parts / patches of a parent patch (c12_multi.hpp)
// see c12_feat.hpp for the monitors.
#include <common/vh.hpp>
#include <dirent.h>
#include <sys/stat.h>
#include <fstream>
#include <kernel/runtime.hpp>

#define C12_DECL(n) void c12_random_##n(vh::Ctx&); void c12_parti_##n(vh::Ctx&); void c12_file_##n(vh::Ctx&, const std::string&, const std::vector<std::string>&, std::size_t);
C12_DECL(quad) C12_DECL(tria) C12_DECL(hexa) C12_DECL(tetra)
void c12_multi_quad(vh::Ctx&); void c12_multi_tria(vh::Ctx&); void c12_multi_hexa(vh::Ctx&); void c12_multi_tetra(vh::Ctx&);

namespace
{
  struct FileEntry { std::string path, type; long size; };
  struct Corpus { std::vector<FileEntry> meshes; std::vector<std::string> charts; };
  std::string root_mesh_type(const std::string& path)
  {
    std::ifstream f(path); std::string line, head;
    while(std::getline(f, line) && head.size() < 4096) { head += line; head += ' '; if(head.find("<FeatMeshFile") != std::string::npos && head.find('>', head.find("<FeatMeshFile")) != std::string::npos) break; }
    std::size_t a = head.find("<FeatMeshFile"); if(a == std::string::npos) return "?";
    std::size_t e = head.find('>', a); std::string tag = head.substr(a, e - a);
    std::size_t m = tag.find("mesh=\""); if(m == std::string::npos) return "";
    m += 6; return tag.substr(m, tag.find('"', m) - m);
  }
  const Corpus& corpus()
  {
    static Corpus cp; static bool done = false;
    if(done) return cp; done = true;
    const char* env = std::getenv("VERIF_REPO");
    const std::string dir = std::string(env ? env : "/repo") + "/data/meshes";
    std::vector<std::string> names;
    if(DIR* d = opendir(dir.c_str())) { while(dirent* e = readdir(d)) { std::string n = e->d_name; if(n.size() > 4 && n.substr(n.size() - 4) == ".xml") names.push_back(n); } closedir(d); }
    std::sort(names.begin(), names.end());
    for(auto& n : names)
    {
      const std::string p = dir + "/" + n; struct stat st; long sz = stat(p.c_str(), &st) == 0 ? long(st.st_size) : -1;
      const std::string ty = root_mesh_type(p);
      if(ty.empty()) cp.charts.push_back(p); else if(ty != "?") cp.meshes.push_back({p, ty, sz});
    }
    return cp;
  }
}

VH_FAMILY(random)
{
  switch(c.k % 4) { case 0: c12_random_quad(c); break; case 1: c12_random_tria(c); break; case 2: c12_random_hexa(c); break; default: c12_random_tetra(c); break; }
}
VH_FAMILY(parti)
{
  switch(c.k % 4) { case 0: c12_parti_quad(c); break; case 1: c12_parti_tria(c); break; case 2: c12_parti_hexa(c); break; default: c12_parti_tetra(c); break; }
}
// recursive (two-level) partitioning: children of extracted patches, see c12_multi.hpp
VH_FAMILY(multilevel)
{
  switch(c.k % 4) { case 0: c12_multi_quad(c); break; case 1: c12_multi_hexa(c); break; case 2: c12_multi_tria(c); break; default: c12_multi_tetra(c); break; }
}
VH_FAMILY(files)
{
  const Corpus& cp = corpus();
  if(cp.meshes.empty()) { c.inconclusive("no mesh files found under data/meshes"); return; }
  const FileEntry& f = cp.meshes[c.k % cp.meshes.size()];
  c.tag("file:" + f.path.substr(f.path.rfind('/') + 1));
  if(f.size > (c.thorough() ? 400000 : 60000)) { c.trivial = true; c.count("large_file_skipped"); c.set_op("skip"); return; }
  if(f.type == "conformal:hypercube:2:2") c12_file_quad(c, f.path, cp.charts, std::size_t(c.k / cp.meshes.size()));
  else if(f.type == "conformal:simplex:2:2") c12_file_tria(c, f.path, cp.charts, std::size_t(c.k / cp.meshes.size()));
  else if(f.type == "conformal:hypercube:3:3") c12_file_hexa(c, f.path, cp.charts, std::size_t(c.k / cp.meshes.size()));
  else if(f.type == "conformal:simplex:3:3") c12_file_tetra(c, f.path, cp.charts, std::size_t(c.k / cp.meshes.size()));
  else { c.trivial = true; c.count("unsupported_mesh_type:" + f.type); }
}

int main(int argc, char** argv) { FEAT::Runtime::ScopeGuard guard(argc, argv); return vh::main_impl(argc, argv); }
