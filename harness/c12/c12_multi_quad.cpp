// C12, family multilevel, shape TU: quad
#include <c12/c12_multi.hpp>
void c12_multi_quad(vh::Ctx& c) { c12::run_multilevel<FEAT::Shape::Hypercube<2>>(c); }
