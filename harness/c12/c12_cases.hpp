// c12_cases.hpp -- case generators of C12 (templates over the shape), included by the shape TUs
#pragma once
#include <c12/c12_feat.hpp>

namespace c12
{
  // small generated base meshes (the number of cells bounds the number of ranks)
  template<typename Shape_> vm::MeshSpec<Shape_> gen_mesh(vh::Ctx& c, Index& nx, Index& ny, Index& nz);
  template<> inline vm::MeshSpec<Shape::Hypercube<2>> gen_mesh(vh::Ctx& c, Index& nx, Index& ny, Index& nz)
  {
    vh::Rng& r = c.rng; nz = 1; const long big = c.thorough() ? 9 : 6;
    switch(r.below(4))
    {
    case 0: { Index k = Index(r.range(3, 8)); nx = k; ny = 1; c.tag("mesh:star"); return vm::quad_star(k); }
    case 1: { nx = Index(r.range(1, r.coin(0.3) ? 40 : 2 * big)); ny = 1; c.tag("mesh:strip"); return vm::quad_grid(nx, ny); }
    default: { nx = Index(r.range(1, big)); ny = Index(r.range(1, big)); c.tag("mesh:grid"); return vm::quad_grid(nx, ny); }
    }
  }
  template<> inline vm::MeshSpec<Shape::Simplex<2>> gen_mesh(vh::Ctx& c, Index& nx, Index& ny, Index& nz)
  { vh::Rng& r = c.rng; nz = 1; const long big = c.thorough() ? 7 : 5; nx = Index(r.range(1, big)); ny = Index(r.range(1, big)); c.tag("mesh:grid"); return r.coin() ? vm::tria_grid(nx, ny, &r) : vm::tria_grid(nx, ny); }
  template<> inline vm::MeshSpec<Shape::Hypercube<3>> gen_mesh(vh::Ctx& c, Index& nx, Index& ny, Index& nz)
  {
    vh::Rng& r = c.rng; const long big = c.thorough() ? 4 : 3;
    if(r.coin(0.15)) { nx = Index(r.range(4, 16)); ny = nz = 1; c.tag("mesh:strip"); return vm::hexa_grid(nx, ny, nz); }
    nx = Index(r.range(1, big)); ny = Index(r.range(1, big)); nz = Index(r.range(1, big)); c.tag("mesh:grid"); return vm::hexa_grid(nx, ny, nz);
  }
  template<> inline vm::MeshSpec<Shape::Simplex<3>> gen_mesh(vh::Ctx& c, Index& nx, Index& ny, Index& nz)
  { vh::Rng& r = c.rng; nx = Index(r.range(1, 2)); ny = Index(r.range(1, 2)); nz = Index(r.range(1, c.thorough() ? 2 : 1)); c.tag("mesh:kuhn"); return vm::tetra_grid(nx, ny, nz); }

  inline Idx pick_ranks(vh::Rng& r, Idx ncells)
  {
    switch(r.below(6))
    {
    case 0: return 1;
    case 1: return std::min<Idx>(2, ncells);
    case 2: return ncells;                                   // one cell per rank
    case 3: return Idx(r.range(1, long(std::min<Idx>(ncells, 4))));
    default: return Idx(r.range(1, long(ncells)));
    }
  }

  template<typename Shape_>
  std::unique_ptr<typename Ty<Shape_>::Node> gen_base(vh::Ctx& c, std::vector<int>* checker, std::vector<std::array<int, 3>>* cellpos = nullptr, Index* dims = nullptr)
  {
    vh::Rng& r = c.rng;
    Index nx = 1, ny = 1, nz = 1;
    vm::MeshSpec<Shape_> ms = gen_mesh<Shape_>(c, nx, ny, nz);
    // checkerboard / stripe colouring by the cell centroid in the unit box (before the hostile transformations)
    const bool in_box = (ms.kind.find("star") == std::string::npos);
    std::vector<int> col(ms.cells.size(), 0);
    if(in_box) for(std::size_t i = 0; i < ms.cells.size(); ++i)
    {
      double ctr[3] = {0, 0, 0};
      for(int k = 0; k < vm::ShapeInfo<Shape_>::nv; ++k) for(int d = 0; d < 3; ++d) ctr[d] += ms.verts[ms.cells[i][std::size_t(k)]][std::size_t(d)] / double(vm::ShapeInfo<Shape_>::nv);
      const int ix = std::min<int>(int(ctr[0] * double(nx)), int(nx) - 1), iy = std::min<int>(int(ctr[1] * double(ny)), int(ny) - 1);
      const int iz = vm::ShapeInfo<Shape_>::dim == 3 ? std::min<int>(int(ctr[2] * double(nz)), int(nz) - 1) : 0;
      col[i] = ix + iy + iz;
      if(cellpos) { cellpos->resize(ms.cells.size()); (*cellpos)[i] = {{ix, iy, iz}}; }
    }
    if(dims) { dims[0] = nx; dims[1] = ny; dims[2] = nz; }
    if(cellpos && !in_box) cellpos->clear();
    // own cell permutation (keeps `col` attached to the cells)
    if(r.coin(0.6))
    {
      std::vector<std::size_t> p(ms.cells.size()); for(std::size_t i = 0; i < p.size(); ++i) p[i] = i;
      r.shuffle(p);
      auto oc = ms.cells; auto ocol = col;
      for(std::size_t i = 0; i < p.size(); ++i) { ms.cells[i] = oc[p[i]]; col[i] = ocol[p[i]]; }
      if(cellpos && !cellpos->empty()) { auto op = *cellpos; for(std::size_t i = 0; i < p.size(); ++i) (*cellpos)[i] = op[p[i]]; }
      ms.tag("perm_cells");
    }
    if(r.coin(0.5)) vm::reorient_cells(ms, r);
    if(r.coin(0.5)) vm::permute_vertices(ms, r);
    if(r.coin(0.3)) vm::affine_map(ms, r);
    for(auto& tg : ms.tags) c.tag(tg);
    if(checker) { if(in_box) *checker = col; else checker->clear(); }
    const int route = int(r.below(3));
    c.tag(route == 0 ? "topology:deducted" : route == 1 ? "topology:explicit" : "topology:explicit_random");
    std::unique_ptr<typename Ty<Shape_>::Mesh> mesh;
    if(route == 0) mesh = vm::build<Shape_>(ms);
    else { c10::FullFactory<Shape_> ff(ms, route == 2 ? &r : nullptr); mesh = ff.make_unique(); }
    c.desc = vh::J().raw("mesh", ms.describe()).raw("variant", vh::jarr(ms.tags)).str();
    return Ty<Shape_>::Node::make_unique(std::move(mesh));
  }

  // family `random`: explicit assignments
  template<typename Shape_>
  void run_random(vh::Ctx& c)
  {
    vh::Rng& r = c.rng; const ShapeTab t = ShapeSel<Shape_>::tab();
    c.tag(std::string("shape:") + t.name());
    std::vector<int> col;
    std::unique_ptr<typename Ty<Shape_>::Node> base = gen_base<Shape_>(c, &col);
    // optional pre-refinement: the partitioned mesh is then a refined (2-level numbered) mesh
    if(r.coin(0.25) && base->get_mesh()->get_num_elements() * Index(t.cc(t.dim, t.dim)) <= 600) { base = base->refine_unique(Geometry::AdaptMode::none); col.clear(); c.tag("prerefined"); }
    const Idx ncells = Idx(base->get_mesh()->get_num_elements());
    Assignment a;
    const int how = int(r.below(8));
    if(how == 0 && !col.empty() && ncells >= 2)
    {
      // checkerboard: two ranks, patches of one colour touch in vertices/edges only and are disconnected
      a.source = "checkerboard"; a.cells.resize(2);
      for(Idx i = 0; i < ncells; ++i) a.cells[std::size_t(col[i] % 2)].push_back(i);
      if(a.cells[1].empty()) { a.cells.pop_back(); }
    }
    else if(how == 1 && !col.empty())
    {
      // diagonal stripes: k ranks by colour class
      int mx = 0; for(int x : col) mx = std::max(mx, x);
      const int k = int(r.range(1, mx + 1));
      a.source = "stripes"; a.cells.resize(std::size_t(k));
      for(Idx i = 0; i < ncells; ++i) a.cells[std::size_t(col[i] % k)].push_back(i);
      for(std::size_t q = a.cells.size(); q-- > 0;) if(a.cells[q].empty()) a.cells.erase(a.cells.begin() + long(q));
    }
    else a = random_assignment(r, ncells, pick_ranks(r, ncells), r.coin(0.5));
    std::string why;
    if(!is_assignment(a, ncells, why)) { c.inconclusive("harness assignment invalid: " + why); return; }
    MeshSnap s0; c10::snap_mesh<Shape_>(*base->get_mesh(), s0, false);
    classify(c, t, s0, a);
    const int levels = int(r.range(0, c.thorough() ? 3 : 2)) + (r.coin(0.15) ? 1 : 0);
    run_assignment<Shape_>(c, std::move(base), a, levels, Geometry::AdaptMode::none, c.thorough() ? 60000 : 8000);
  }

  // checks the output of a partitioner: exactly `want` non-empty patches, every cell of the mesh exactly once
  inline bool judge_partitioner(vh::Ctx& c, const std::string& op, const Assignment& a, Idx want, Idx ncells)
  {
    c.event();
    if(a.ranks() != std::size_t(want)) { c.viol(op, "wrong-number-of-patches", vh::J().kv("requested", (unsigned long)want).kv("returned", (unsigned long)a.ranks()).raw("assignment", a.json()).str()); return false; }
    std::string why;
    if(!is_assignment(a, ncells, why)) { c.viol(op, "not-a-partition", vh::J().kv("requested", (unsigned long)want).kv("cells", (unsigned long)ncells).kv("why", why).raw("assignment", a.json()).str()); return false; }
    return true;
  }

  // Class tag for the PartiIterative cases: is it POSSIBLE that p distinct centre cells all lie farther than the
  // partitioner's exploration reach from some cell?  (reach = max(floor(n^(1/dim) + 1), n / p, 2) + 1 facet-neighbour
  // steps, parti_iterative.hpp.)  Computed from the facet-adjacency graph of the snapshot by breadth-first search.
  inline bool iterative_can_miss_cells(const ShapeTab& t, const MeshSnap& m, Idx p)
  {
    const int dim = t.dim, fd = dim - 1, nfc = t.nf(dim, fd); const Idx n = m.n[dim];
    if(n > 3000) return false;
    Idx thr = Idx(std::pow(double(n), 1.0 / double(dim)) + 1.0); thr = std::max<Idx>(thr, n / p); thr = std::max<Idx>(thr, 2);
    const Idx reach = thr + 1;
    std::vector<std::vector<Idx>> caf(m.n[fd]);
    for(Idx i = 0; i < n; ++i) for(int j = 0; j < nfc; ++j) caf[m.idx[dim][fd][i * Idx(nfc) + Idx(j)]].push_back(i);
    std::vector<Idx> dist(n), queue; queue.reserve(n);
    for(Idx x = 0; x < n; ++x)
    {
      std::fill(dist.begin(), dist.end(), c10::NONE); queue.clear(); queue.push_back(x); dist[x] = 0;
      for(std::size_t h = 0; h < queue.size(); ++h)
      {
        const Idx y = queue[h];
        for(int j = 0; j < nfc; ++j) for(Idx z : caf[m.idx[dim][fd][y * Idx(nfc) + Idx(j)]]) if(dist[z] == c10::NONE) { dist[z] = dist[y] + 1; queue.push_back(z); }
      }
      Idx far = 0; for(Idx y = 0; y < n; ++y) if(dist[y] == c10::NONE || dist[y] > reach) ++far;
      if(far >= p) return true;
    }
    return false;
  }

  // family `parti`: built-in partitioners
  template<typename Shape_>
  void run_parti(vh::Ctx& c)
  {
    vh::Rng& r = c.rng; const ShapeTab t = ShapeSel<Shape_>::tab(); const int dim = t.dim;
    c.tag(std::string("shape:") + t.name());
    std::unique_ptr<typename Ty<Shape_>::Node> base = gen_base<Shape_>(c, nullptr);
    const Idx n0 = Idx(base->get_mesh()->get_num_elements());
    const int levels = int(r.range(0, 2));
    if(r.coin(0.5))
    {
      // ---- Parti2Lvl: succeeds iff ranks = n * f^k (f = 2 for hypercubes, children per cell for simplices)
      c.tag("partitioner:2lvl");
      const Idx f = t.simplex ? Idx(t.cc(dim, dim)) : 2;
      Idx want;
      if(r.coin(0.7)) { want = n0; const int k = int(r.range(0, t.simplex ? 1 : 2 * dim)); for(int i = 0; i < k && want * f <= 1024; ++i) want *= f; }
      else want = Idx(r.range(1, long(4 * n0)));
      c.set_op("parti_2lvl");
      Geometry::Parti2Lvl<typename Ty<Shape_>::Mesh> parti(*base->get_mesh(), Index(want));
      c.event();
      if(!parti.success()) { c.tag("partitioner_reports_failure"); c.count("partitioner_reported_failure"); return; }
      const Idx lvl = Idx(parti.parti_level());
      for(Idx i = 0; i < lvl; ++i) base = base->refine_unique(Geometry::AdaptMode::none);
      const Idx ncells = Idx(base->get_mesh()->get_num_elements());
      Adjacency::Graph g = parti.build_elems_at_rank();
      if(Idx(g.get_num_nodes_image()) != ncells) { c.viol("parti_2lvl", "graph-image-size", vh::J().kv("graph_cells", (unsigned long)g.get_num_nodes_image()).kv("mesh_cells", (unsigned long)ncells).kv("level", (unsigned long)lvl).str()); return; }
      Assignment a = from_graph(g, "parti2lvl");
      if(!judge_partitioner(c, "parti_2lvl", a, want, ncells)) return;
      run_assignment<Shape_>(c, std::move(base), a, levels, Geometry::AdaptMode::none, c.thorough() ? 60000 : 8000);
    }
    else
    {
      // ---- PartiIterative: needs at least as many cells as patches; tiny time budgets (the output is judged, not the search)
      c.tag("partitioner:iterative");
      if(r.coin(0.5) && n0 * Idx(t.cc(dim, dim)) <= 400) { base = base->refine_unique(Geometry::AdaptMode::none); c.tag("prerefined"); }
      const Idx ncells = Idx(base->get_mesh()->get_num_elements());
      const Idx want = pick_ranks(r, ncells);
      { MeshSnap sm; c10::snap_mesh<Shape_>(*base->get_mesh(), sm, false); if(iterative_can_miss_cells(t, sm, want)) c.tag("unreached_cells_possible"); }
      c.set_op("parti_iterative");
      Dist::Comm comm = Dist::Comm::world();
      // (PartiIterative seeds its generator with time(nullptr): the search is not reproducible, so the witness carries
      //  everything needed to judge the outcome)
      Adjacency::Graph g;
      try
      {
        Geometry::PartiIterative<typename Ty<Shape_>::Mesh> parti(*base->get_mesh(), comm, Index(want), 0.0, r.coin() ? 0.0 : 0.003);
        g = parti.build_elems_at_rank();
      }
      catch(const std::exception& e)
      {
        // neither a partition nor a designed failure report (the class has none): an accidental exception
        c.viol("parti_iterative", "exception", vh::J().kv("what", e.what()).kv("requested_patches", (unsigned long)want).kv("cells", (unsigned long)ncells).str());
        return;
      }
      c.event();
      Assignment a = from_graph(g, "partiiterative");
      if(Idx(g.get_num_nodes_image()) != ncells) { c.viol("parti_iterative", "graph-image-size", vh::J().kv("graph_cells", (unsigned long)g.get_num_nodes_image()).kv("mesh_cells", (unsigned long)ncells).str()); return; }
      if(!judge_partitioner(c, "parti_iterative", a, want, ncells)) return;
      run_assignment<Shape_>(c, std::move(base), a, levels, Geometry::AdaptMode::none, c.thorough() ? 60000 : 8000);
    }
  }

  // family `files`: mesh files; partitions stored in the file (PartitionSet) and random assignments on file meshes
  template<typename Shape_>
  void run_file(vh::Ctx& c, const std::string& path, const std::vector<std::string>& chart_files, std::size_t variant)
  {
    vh::Rng& r = c.rng; const ShapeTab t = ShapeSel<Shape_>::tab(); const int dim = t.dim;
    c.tag(std::string("shape:") + t.name()); c.tag("mesh:file");
    const std::string fname = path.substr(path.rfind('/') + 1);
    c10::Loaded<Shape_> ld; std::string err;
    if(!c10::read_file<Shape_>(path, chart_files, ld, err)) { c.set_op("mesh_file_reader"); c.inconclusive("cannot read " + fname + ": " + err); c.trivial = true; return; }
    std::unique_ptr<typename Ty<Shape_>::Node>& base = ld.node;
    {
      MeshSnap s; c10::snap_mesh<Shape_>(*base->get_mesh(), s, false); c10::MeshInfo mi; Rep in(c, "input", true);
      c10::check_mesh(in, t, s, "input", mi);
      if(!in.ok()) { c.trivial = true; c.count("input_not_valid_conforming_mesh"); c.set_op("skip"); return; }
    }
    const auto& parts = ld.partitions.get_partitions();
    const std::size_t nfp = parts.size();
    // the family cycles through the files; `variant` (= round number) selects what to do with the file
    Assignment a; int pre = 0;
    if(nfp > 0 && variant % 2 == 0)
    {
      const Geometry::Partition& fp = parts[(variant / 2) % nfp];
      c.tag("asg_from_file"); pre = fp.get_level();
      a = from_graph(fp.get_patches(), "file");
      c.desc = vh::J().kv("file", fname).kv("partition", std::string(fp.get_name())).kv("level", pre).kv("patches", (unsigned long)fp.get_num_patches()).str();
    }
    else
      c.desc = vh::J().kv("file", fname).kv("partition", "random").str();
    if(pre > 3 || Idx(base->get_mesh()->get_num_elements()) * Idx(std::pow(double(t.cc(dim, dim)), pre)) > (c.thorough() ? 200000u : 30000u)) { c.trivial = true; c.count("file_partition_level_too_deep"); c.set_op("skip"); return; }
    for(int i = 0; i < pre; ++i) base = base->refine_unique(Geometry::AdaptMode::none);
    const Idx ncells = Idx(base->get_mesh()->get_num_elements());
    if(a.source == "file")
    {
      std::string why;
      if(Idx(parts[(variant / 2) % nfp].get_num_elements()) != ncells || !is_assignment(a, ncells, why))
      { c.trivial = true; c.count("file_partition_is_not_an_assignment"); c.note("partition of " + fname + " skipped: " + why); c.set_op("skip"); return; }
    }
    else a = random_assignment(r, ncells, std::min<Idx>(pick_ranks(r, ncells), 64), r.coin(0.5));
    c.sig = "file|" + fname + "|" + a.source;
    MeshSnap s0; c10::snap_mesh<Shape_>(*base->get_mesh(), s0, false);
    classify(c, t, s0, a);
    const int levels = int(r.range(0, 2));
    Geometry::AdaptMode mode = Geometry::AdaptMode::none;
    run_assignment<Shape_>(c, std::move(base), a, levels, mode, c.thorough() ? 100000 : 12000);
  }
} // namespace c12
