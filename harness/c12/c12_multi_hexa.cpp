// C12, family multilevel, shape TU: hexa
#include <c12/c12_multi.hpp>
void c12_multi_hexa(vh::Ctx& c) { c12::run_multilevel<FEAT::Shape::Hypercube<3>>(c); }
