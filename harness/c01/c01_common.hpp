// C01 -- matrix-vector products: shared monitor code of all C01 translation units.
//
// Every FEAT call `r := A x`, `r := y + alpha A x` (and the transposed twins) is reduced to
//   * a *scalar* matrix specification (vl::MatSpec, generator-owned triplets; composed matrices are
//     assembled block by block, block-scalar products A (x) I_bs are expanded),
//   * flat std::vector<double> operands which are scattered into the FEAT vector type of the overload
//     (DenseVector, DenseVectorBlocked, TupleVector / PowerVector compositions),
//   * a callable performing the FEAT call.
// The monitor checks: result == long double reference up to the DESIGN section 4 bound, leaf layout of the
// result unchanged (right length), x / y (if not aliased) / all matrix arrays bit-identical before and after.
#pragma once
#include <common/vh_lafem.hpp>
#include <kernel/lafem/power_vector.hpp>
#include <kernel/lafem/tuple_vector.hpp>
#include <functional>

namespace c01
{
  using vl::LD; using vl::Index; using vl::MatSpec; using vl::Trip;
  using namespace FEAT::LAFEM;

  // ------------------------------------------------------------------ vector adapters (shape = scalar size of each leaf)
  template<typename DT, typename IT>
  void vfill(DenseVector<DT, IT>& v, const double*& p, const Index*& sz)
  {
    const Index n = *sz++;
    DenseVector<DT, IT> t(n);
    DT* e = t.elements();
    for(Index i = 0; i < n; ++i) e[i] = DT(p[i]);
    p += n;
    v = std::move(t);
  }
  template<typename DT, typename IT, int BS>
  void vfill(DenseVectorBlocked<DT, IT, BS>& v, const double*& p, const Index*& sz)
  {
    const Index n = *sz++;
    DenseVectorBlocked<DT, IT, BS> t(n / Index(BS));
    DT* e = t.template elements<Perspective::pod>();
    for(Index i = 0; i < n; ++i) e[i] = DT(p[i]);
    p += n;
    v = std::move(t);
  }
  template<typename S, int N> void vfill(PowerVector<S, N>& v, const double*& p, const Index*& sz);
  template<typename F, typename... R> void vfill(TupleVector<F, R...>& v, const double*& p, const Index*& sz);
  template<typename S, int N>
  void vfill(PowerVector<S, N>& v, const double*& p, const Index*& sz)
  {
    vfill(v.first(), p, sz);
    if constexpr(N > 1) vfill(v.rest(), p, sz);
  }
  template<typename F, typename... R>
  void vfill(TupleVector<F, R...>& v, const double*& p, const Index*& sz)
  {
    vfill(v.first(), p, sz);
    if constexpr(sizeof...(R) > 0) vfill(v.rest(), p, sz);
  }

  // reads the scalars (harness-side, from the raw arrays), the leaf sizes and a bit hash
  template<typename DT, typename IT>
  void vread(const DenseVector<DT, IT>& v, std::vector<LD>& out, std::vector<Index>& shape, std::uint64_t& h)
  {
    const Index n = v.size(); const DT* e = v.elements();
    shape.push_back(n);
    if(n > 0 && e == nullptr) { shape.back() = Index(-1); return; }
    for(Index i = 0; i < n; ++i) out.push_back((LD)e[i]);
    h = vh::hash_bytes(e, std::size_t(n) * sizeof(DT), h); h = vh::mix64(h ^ n);
  }
  template<typename DT, typename IT, int BS>
  void vread(const DenseVectorBlocked<DT, IT, BS>& v, std::vector<LD>& out, std::vector<Index>& shape, std::uint64_t& h)
  {
    const Index n = v.template size<Perspective::pod>(); const DT* e = v.template elements<Perspective::pod>();
    shape.push_back(n);
    if(n > 0 && e == nullptr) { shape.back() = Index(-1); return; }
    for(Index i = 0; i < n; ++i) out.push_back((LD)e[i]);
    h = vh::hash_bytes(e, std::size_t(n) * sizeof(DT), h); h = vh::mix64(h ^ n);
  }
  template<typename S, int N> void vread(const PowerVector<S, N>& v, std::vector<LD>& out, std::vector<Index>& shape, std::uint64_t& h);
  template<typename F, typename... R> void vread(const TupleVector<F, R...>& v, std::vector<LD>& out, std::vector<Index>& shape, std::uint64_t& h);
  template<typename S, int N>
  void vread(const PowerVector<S, N>& v, std::vector<LD>& out, std::vector<Index>& shape, std::uint64_t& h)
  {
    vread(v.first(), out, shape, h);
    if constexpr(N > 1) vread(v.rest(), out, shape, h);
  }
  template<typename F, typename... R>
  void vread(const TupleVector<F, R...>& v, std::vector<LD>& out, std::vector<Index>& shape, std::uint64_t& h)
  {
    vread(v.first(), out, shape, h);
    if constexpr(sizeof...(R) > 0) vread(v.rest(), out, shape, h);
  }
  template<typename V> std::uint64_t vhash(const V& v)
  {
    std::vector<LD> o; std::vector<Index> s; std::uint64_t h = 1469598103934665603ull; vread(v, o, s, h);
    for(Index q : s) h = vh::mix64(h ^ q);
    return h;
  }
  template<typename V> V vmake(const std::vector<double>& vals, const std::vector<Index>& shape)
  {
    V v; const double* p = vals.data(); const Index* s = shape.data(); vfill(v, p, s); return v;
  }
  inline Index shape_total(const std::vector<Index>& s) { Index n = 0; for(Index q : s) n += q; return n; }
  inline std::string shape_str(const std::vector<Index>& s)
  { vh::J a('['); for(Index q : s) a.add((unsigned long)q); return a.str(); }

  // ------------------------------------------------------------------ block generators (prescribed dimensions)
  // random sparse block of prescribed dimensions (R, C >= 0); returns spec with class tags
  inline MatSpec gen_block(vh::Rng& r, Index R, Index C, int vstyle, bool allow_entry_free = true)
  {
    MatSpec m; m.rows = R; m.cols = C; m.vstyle = vstyle;
    auto val = [&]() { return vl::gen_value(r, vstyle); };
    int pat = int(r.below(8));
    if(!allow_entry_free && pat == 0) pat = 2;
    if(R > 0 && C > 0) switch(pat)
    {
    case 0: m.pattern = "entry_free"; break;
    case 1: m.pattern = "diagonal"; for(Index i = 0; i < std::min(R, C); ++i) m.t.push_back({i, i, val()}); break;
    case 2: case 3: case 4: { double dens = r.pick<double>({0.1, 0.4, 0.9}); m.pattern = "uniform";
        for(Index i = 0; i < R; ++i) for(Index j = 0; j < C; ++j) if(r.coin(dens)) m.t.push_back({i, j, val()}); break; }
    case 5: m.pattern = "full"; for(Index i = 0; i < R; ++i) for(Index j = 0; j < C; ++j) m.t.push_back({i, j, val()}); break;
    case 6: { m.pattern = "empty_rows_cols";
        std::vector<char> er(R, 0), ec(C, 0); for(auto& x : er) x = r.coin(0.4); for(auto& x : ec) x = r.coin(0.4);
        for(Index i = 0; i < R; ++i) for(Index j = 0; j < C; ++j) if(!er[i] && !ec[j] && r.coin(0.6)) m.t.push_back({i, j, val()}); break; }
    default: { m.pattern = "single_entry_rows"; for(Index i = 0; i < R; ++i) if(r.coin(0.7)) m.t.push_back({i, Index(r.below(C)), val()}); break; }
    }
    m.sort_unique(); m.classify();
    return m;
  }

  // global scalar spec of a composed matrix
  struct Assembler
  {
    MatSpec g; int n_blocks = 0, n_entry_free = 0;
    Assembler(Index rows, Index cols) { g.rows = rows; g.cols = cols; g.pattern = "composed"; }
    void place(const MatSpec& b, Index ro, Index co)
    {
      for(auto& e : b.t) g.t.push_back({e.r + ro, e.c + co, e.v});
      ++n_blocks; if(b.t.empty()) ++n_entry_free;
    }
    MatSpec finish()
    {
      g.sort_unique(); g.classify();
      if(n_entry_free > 0) g.tag("has_entry_free_block");
      if(n_entry_free == n_blocks) g.tag("all_blocks_entry_free");
      return g;
    }
  };

  // A (x) I_bs : the scalar image of a scalar matrix acting on blocked vectors (csrsb kernels)
  inline MatSpec kron_identity(const MatSpec& m, Index bs)
  {
    MatSpec k; k.rows = m.rows * bs; k.cols = m.cols * bs; k.vstyle = m.vstyle; k.pattern = m.pattern; k.tags = m.tags;
    for(auto& e : m.t) for(Index q = 0; q < bs; ++q) k.t.push_back({e.r * bs + q, e.c * bs + q, e.v});
    k.sort_unique();
    return k;
  }

  // ------------------------------------------------------------------ scalars
  struct Alpha { double v; const char* cls; };
  template<typename DT> inline Alpha gen_alpha(vh::Rng& r)
  {
    switch(r.below(8))
    {
    case 0: return {0.0, "alpha:0"};
    case 1: return {1.0, "alpha:1"};
    case 2: return {-1.0, "alpha:-1"};
    case 3: return {1e-20, "alpha:1e-20"};
    case 4: return {1e+6, "alpha:1e+6"};
    case 5: { double v = r.real(-1.0, 1.0) * std::pow(10.0, double(r.range(-3, 3))); if(v == 0.0) v = 0.5; return {double(DT(v)), "alpha:random"}; }
    default: { double v = r.real(-3.0, 3.0); if(v == 0.0) v = 0.5; return {double(DT(v)), "alpha:random"}; }
    }
  }

  // temporary (per call) tags: they are part of the crash marker and of every violation raised inside the scope
  struct OpTags
  {
    vh::Ctx& c; std::size_t n;
    OpTags(vh::Ctx& cc, std::initializer_list<std::string> l) : c(cc), n(cc.tags.size()) { for(auto& t : l) c.tags.push_back(t); }
    ~OpTags() { c.tags.resize(n); }
  };

  // ------------------------------------------------------------------ the monitor
  struct Env
  {
    vh::Ctx& c;
    const MatSpec& m;                        // scalar truth of the operator
    std::function<std::uint64_t()> mhash;    // bit hash of all matrix arrays
    std::size_t len_n = 0, len_t = 0;        // longest accumulation (row length / column length)
    Env(vh::Ctx& cc, const MatSpec& mm, std::function<std::uint64_t()> h) : c(cc), m(mm), mhash(std::move(h))
    { len_n = vl::max_row_len(m, false); len_t = vl::max_row_len(m, true); }
  };

  template<typename DT>
  void compare(Env& e, const std::string& op, const std::vector<LD>& got, const vl::RefVec& ref, bool tr, LD alpha)
  {
    vh::Ctx& c = e.c;
    const std::size_t len = (tr ? e.len_t : e.len_n) + 1;
    int reported = 0;
    for(std::size_t i = 0; i < ref.v.size() && i < got.size(); ++i)
    {
      LD ex = 0;
      if(!vl::close_enough<DT>(got[i], ref.v[i], ref.s[i], len, &ex))
      {
        if(reported++ < 3)
          c.viol(op, "wrong-value", vh::J().kv("component", (unsigned long)i).kv("got", got[i]).kv("expected", ref.v[i])
            .kv("sum_abs_terms", ref.s[i]).kv("error_over_bound", ex).kv("alpha", alpha).kv("dt", vl::dt_name<DT>()).str());
      }
    }
    if(reported > 3) c.count("further_wrong_components", std::uint64_t(reported - 3));
  }

  inline std::vector<LD> to_ld(const std::vector<double>& v) { return std::vector<LD>(v.begin(), v.end()); }

  // garbage for output vectors: finite, large, recognisable
  inline std::vector<double> garbage(vh::Rng& r, Index n)
  {
    std::vector<double> g(n);
    for(auto& x : g) x = double(float((r.coin() ? 1.0 : -1.0) * (777.0 + double(r.below(1000)))));
    return g;
  }

  // r := op(A) x      f(VR& r, const VX& x)
  template<typename DT, typename VR, typename VX, typename F>
  void run_plain(Env& e, const std::string& op, bool tr, const std::vector<Index>& shape_r, const std::vector<Index>& shape_x, F f)
  {
    vh::Ctx& c = e.c;
    const Index nr = shape_total(shape_r), nx = shape_total(shape_x);
    const int xs = int(c.rng.below(4));
    std::vector<double> xv = vl::gen_vec(c.rng, nx, xs), gv = garbage(c.rng, nr);
    VX x = vmake<VX>(xv, shape_x);
    VR r = vmake<VR>(gv, shape_r);
    OpTags ot(c, {"form:plain"});
    const std::uint64_t hx = vhash(x), hm = e.mhash();
    c.set_op(op);
    f(r, static_cast<const VX&>(x));
    c.event(); c.count("form:plain");
    std::vector<LD> got; std::vector<Index> sr; std::uint64_t h = 0; vread(r, got, sr, h);
    if(sr != shape_r) { c.viol(op, "dims", vh::J().raw("result_layout", shape_str(sr)).raw("expected_layout", shape_str(shape_r)).str()); return; }
    if(vhash(x) != hx) c.viol(op, "input-modified", vh::J().kv("which", "x").str());
    if(e.mhash() != hm) c.viol(op, "input-modified", vh::J().kv("which", "matrix").str());
    vl::RefVec ref = vl::ref_apply(e.m, to_ld(xv), nullptr, 1.0L, tr);
    compare<DT>(e, op, got, ref, tr, 1.0L);
  }

  // r := y + alpha op(A) x     f(VR& r, const VX& x, const VY& y, DT alpha); r aliases y in about half of the calls if VR == VY
  template<typename DT, typename VR, typename VX, typename VY, typename F>
  void run_axpy(Env& e, const std::string& op, bool tr, const std::vector<Index>& shape_r, const std::vector<Index>& shape_x,
                const std::vector<Index>& shape_y, F f)
  {
    vh::Ctx& c = e.c;
    const Index nr = shape_total(shape_r), nx = shape_total(shape_x);
    const Alpha al = gen_alpha<DT>(c.rng);
    const DT alpha = DT(al.v);
    const int xs = int(c.rng.below(4)), ys = int(c.rng.below(4));
    std::vector<double> xv = vl::gen_vec(c.rng, nx, xs), yv = vl::gen_vec(c.rng, nr, ys), gv = garbage(c.rng, nr);
    bool alias = false;
    if constexpr(std::is_same<VR, VY>::value) alias = c.rng.coin();
    VX x = vmake<VX>(xv, shape_x);
    VY y = vmake<VY>(yv, shape_y);
    OpTags ot(c, {"form:axpy", al.cls, alias ? "alias:r==y" : "alias:none"});
    const std::uint64_t hx = vhash(x), hy = vhash(y), hm = e.mhash();
    std::vector<LD> got; std::vector<Index> sr; std::uint64_t h = 0;
    c.set_op(op);
    if constexpr(std::is_same<VR, VY>::value)
    {
      if(alias)
      {
        f(y, static_cast<const VX&>(x), static_cast<const VY&>(y), alpha);
        vread(y, got, sr, h);
      }
    }
    if(!alias)
    {
      VR r = vmake<VR>(gv, shape_r);
      f(r, static_cast<const VX&>(x), static_cast<const VY&>(y), alpha);
      vread(r, got, sr, h);
      if(vhash(y) != hy) c.viol(op, "input-modified", vh::J().kv("which", "y").str());
    }
    c.event(); c.count(std::string("form:axpy|") + al.cls + (alias ? "|r==y" : "|distinct"));
    if(sr != shape_r) { c.viol(op, "dims", vh::J().raw("result_layout", shape_str(sr)).raw("expected_layout", shape_str(shape_r)).str()); return; }
    if(vhash(x) != hx) c.viol(op, "input-modified", vh::J().kv("which", "x").str());
    if(e.mhash() != hm) c.viol(op, "input-modified", vh::J().kv("which", "matrix").str());
    std::vector<LD> yl = to_ld(yv);
    vl::RefVec ref = vl::ref_apply(e.m, to_ld(xv), &yl, (LD)alpha, tr);
    compare<DT>(e, op, got, ref, tr, (LD)alpha);
  }

  // the four call forms of a matrix type M with L-vector VL (rows) and R-vector VR (columns)
  template<typename DT, typename VL, typename VR, typename M>
  void op_n_plain(Env& e, const std::string& pre, const std::vector<Index>& sl, const std::vector<Index>& sr, const M& a)
  { run_plain<DT, VL, VR>(e, pre + ".apply", false, sl, sr, [&](VL& r, const VR& x) { a.apply(r, x); }); }
  template<typename DT, typename VL, typename VR, typename M>
  void op_n_axpy(Env& e, const std::string& pre, const std::vector<Index>& sl, const std::vector<Index>& sr, const M& a)
  { run_axpy<DT, VL, VR, VL>(e, pre + ".apply_axpy", false, sl, sr, sl, [&](VL& r, const VR& x, const VL& y, DT al) { a.apply(r, x, y, al); }); }
  template<typename DT, typename VL, typename VR, typename M>
  void op_t_plain(Env& e, const std::string& pre, const std::vector<Index>& sl, const std::vector<Index>& sr, const M& a)
  { run_plain<DT, VR, VL>(e, pre + ".apply_transposed", true, sr, sl, [&](VR& r, const VL& x) { a.apply_transposed(r, x); }); }
  template<typename DT, typename VL, typename VR, typename M>
  void op_t_axpy(Env& e, const std::string& pre, const std::vector<Index>& sl, const std::vector<Index>& sr, const M& a)
  { run_axpy<DT, VR, VL, VR>(e, pre + ".apply_transposed_axpy", true, sr, sl, sr, [&](VR& r, const VL& x, const VR& y, DT al) { a.apply_transposed(r, x, y, al); }); }
  template<typename DT, typename VL, typename VR, typename M>
  void ops_all(Env& e, const std::string& pre, const std::vector<Index>& sl, const std::vector<Index>& sr, const M& a)
  {
    op_n_plain<DT, VL, VR>(e, pre, sl, sr, a); op_n_axpy<DT, VL, VR>(e, pre, sl, sr, a);
    op_t_plain<DT, VL, VR>(e, pre, sl, sr, a); op_t_axpy<DT, VL, VR>(e, pre, sl, sr, a);
  }

  // tags + signature bookkeeping of a case
  template<typename DT, typename IT>
  inline void begin_case(vh::Ctx& c, const MatSpec& m, const char* family)
  {
    for(auto& t : m.tags) c.tag(t);
    c.tag(std::string("dt:") + vl::dt_name<DT>()); c.tag(std::string("it:") + vl::it_name<IT>());
    c.desc = m.describe(30);
    (void)family;
  }
  inline void end_case(vh::Ctx& c, const char* family)
  {
    auto t = c.tags; std::sort(t.begin(), t.end());
    c.sig = family; for(auto& x : t) { c.sig += '|'; c.sig += x; }
  }

  inline Index tier_max(vh::Ctx& c, Index quick, Index thorough_small, Index thorough_big)
  {
    if(!c.thorough()) return quick;
    return c.rng.coin(0.12) ? thorough_big : thorough_small;
  }
}
