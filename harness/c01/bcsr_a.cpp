// C01 -- BCSR family (registration) + square block sizes
#include "bcsr_impl.hpp"
namespace c01
{
  void bcsr_2x2(vh::Ctx& c) { bcsr_dispatch<2, 2>(c); }
  void bcsr_3x3(vh::Ctx& c) { bcsr_dispatch<3, 3>(c); }
}
VH_FAMILY(bcsr)
{
  switch(c.k % 6)
  {
  case 0: c01::bcsr_2x2(c); break;
  case 1: c01::bcsr_3x3(c); break;
  case 2: c01::bcsr_2x3(c); break;
  case 3: c01::bcsr_3x2(c); break;
  case 4: c01::bcsr_1x3(c); break;
  default: c01::bcsr_3x1(c); break;
  }
}
