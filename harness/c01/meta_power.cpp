// C01 -- PowerDiagMatrix, PowerFullMatrix, PowerRowMatrix, PowerColMatrix over CSR blocks: the overloads taking the
// composed (PowerVector) operands and the overloads taking one flat DenseVector
#include "c01_common.hpp"
#include <kernel/lafem/power_diag_matrix.hpp>
#include <kernel/lafem/power_full_matrix.hpp>
#include <kernel/lafem/power_row_matrix.hpp>
#include <kernel/lafem/power_col_matrix.hpp>
using namespace c01;

namespace
{
  // block dimensions + deterministic edge modes shared by the four kinds
  struct Blocks
  {
    std::vector<Index> R, C;          // row-block heights, column-block widths
    int edge = -1;                    // >= 0: deterministic edge mode
    int vstyle = 0;
    Index roff(std::size_t i) const { Index o = 0; for(std::size_t q = 0; q < i; ++q) o += R[q]; return o; }
    Index coff(std::size_t j) const { Index o = 0; for(std::size_t q = 0; q < j; ++q) o += C[q]; return o; }
    Index rows() const { return roff(R.size()); }
    Index cols() const { return coff(C.size()); }
  };
  const int n_edge_modes = 5;

  inline Index block_dim(vh::Ctx& c, Index maxd)
  {
    static const Index small[] = {1, 1, 2, 2, 3, 4, 5, 7, 8, 9};
    if(c.rng.coin(0.6)) return std::min(maxd, small[c.rng.below(sizeof(small) / sizeof(small[0]))]);
    return Index(c.rng.range(1, long(maxd)));
  }

  // nr row blocks, nc column blocks; square_blocks: block (i,i) is R[i] x R[i] with C == R (diag kinds may be rectangular too)
  inline Blocks draw_blocks(vh::Ctx& c, std::size_t nr, std::size_t nc, std::uint64_t edge_index)
  {
    Blocks b; b.vstyle = int(c.rng.below(4));
    const Index maxd = tier_max(c, 12, 16, 90);
    if(edge_index < std::uint64_t(n_edge_modes))
    {
      b.edge = int(edge_index); b.vstyle = 0;
      for(std::size_t i = 0; i < nr; ++i) b.R.push_back(b.edge == 1 ? 1 : Index(2 + i));
      for(std::size_t j = 0; j < nc; ++j) b.C.push_back(b.edge == 1 ? 1 : Index(3 + (j % 2)));
      return b;
    }
    for(std::size_t i = 0; i < nr; ++i) b.R.push_back(block_dim(c, maxd));
    for(std::size_t j = 0; j < nc; ++j) b.C.push_back(block_dim(c, maxd));
    return b;
  }

  // spec of block number `idx` of `n` blocks (R x C)
  inline MatSpec draw_block(vh::Ctx& c, const Blocks& b, Index R, Index C, std::size_t idx, std::size_t n)
  {
    MatSpec m; m.rows = R; m.cols = C; m.vstyle = b.vstyle;
    auto full = [&]() { for(Index i = 0; i < R; ++i) for(Index j = 0; j < C; ++j) m.t.push_back({i, j, double(int((i * 3 + j * 5 + idx) % 7) - 3) == 0.0 ? 2.0 : double(int((i * 3 + j * 5 + idx) % 7) - 3)}); };
    switch(b.edge)
    {
    case 0: break;                                            // every block entry-free
    case 1: full(); break;                                    // 1x1 blocks
    case 2: if(idx != 0) full(); break;                       // first block entry-free
    case 3: if(idx + 1 != n) full(); break;                   // last block entry-free
    case 4: m.t.push_back({R - 1, 0, 3.0}); break;            // single entry, last row / first column
    default: return gen_block(c.rng, R, C, b.vstyle);
    }
    m.sort_unique(); m.classify();
    return m;
  }

  template<typename DT, typename IT> using Leaf = SparseMatrixCSR<DT, IT>;
  template<typename DT, typename IT> using DV = DenseVector<DT, IT>;

  // run the composed-operand overloads and the flat DenseVector overloads of a matrix
  template<typename DT, typename IT, typename M>
  void run_both(vh::Ctx& c, const MatSpec& g, const Blocks& b, const M& a, const std::string& pre, std::function<std::uint64_t()> mh,
                const std::vector<Index>& sl, const std::vector<Index>& sr)
  {
    typedef typename M::VectorTypeL VL; typedef typename M::VectorTypeR VR;
    Env e(c, g, mh);
    ops_all<DT, VL, VR>(e, pre, sl, sr, a);
    ops_all<DT, DV<DT, IT>, DV<DT, IT>>(e, pre + ".dv", {b.rows()}, {b.cols()}, a);
  }

  template<typename DT, typename IT>
  void diag_case(vh::Ctx& c, std::uint64_t ei)
  {
    constexpr int N = 3;
    typedef PowerDiagMatrix<Leaf<DT, IT>, N> M;
    Blocks b = draw_blocks(c, N, N, ei);
    Assembler as(b.rows(), b.cols());
    M a;
    for(int i = 0; i < N; ++i)
    {
      MatSpec s = draw_block(c, b, b.R[i], b.C[i], std::size_t(i), N);
      a.get(i, i) = vl::make_csr<DT, IT>(s);
      as.place(s, b.roff(i), b.coff(i));
    }
    MatSpec g = as.finish(); if(b.edge >= 0) g.tag("edge_corpus");
    begin_case<DT, IT>(c, g, "power"); c.tag("kind:PowerDiag3");
    run_both<DT, IT>(c, g, b, a, "powerdiag", [&]() { std::uint64_t h = 0; for(int i = 0; i < N; ++i) h = vh::mix64(h ^ vl::container_hash(a.get(i, i))); return h; }, b.R, b.C);
  }

  template<typename DT, typename IT>
  void full_case(vh::Ctx& c, std::uint64_t ei)
  {
    constexpr int W = 3, H = 2;
    typedef PowerFullMatrix<Leaf<DT, IT>, W, H> M;
    Blocks b = draw_blocks(c, H, W, ei);
    Assembler as(b.rows(), b.cols());
    M a;
    for(int i = 0; i < H; ++i) for(int j = 0; j < W; ++j)
    {
      MatSpec s = draw_block(c, b, b.R[i], b.C[j], std::size_t(i * W + j), H * W);
      a.get(i, j) = vl::make_csr<DT, IT>(s);
      as.place(s, b.roff(i), b.coff(j));
    }
    MatSpec g = as.finish(); if(b.edge >= 0) g.tag("edge_corpus");
    begin_case<DT, IT>(c, g, "power"); c.tag("kind:PowerFull3x2");
    run_both<DT, IT>(c, g, b, a, "powerfull", [&]() { std::uint64_t h = 0; for(int i = 0; i < H; ++i) for(int j = 0; j < W; ++j) h = vh::mix64(h ^ vl::container_hash(a.get(i, j))); return h; }, b.R, b.C);
  }

  template<typename DT, typename IT>
  void row_case(vh::Ctx& c, std::uint64_t ei)
  {
    constexpr int N = 3;
    typedef PowerRowMatrix<Leaf<DT, IT>, N> M;
    Blocks b = draw_blocks(c, 1, N, ei);
    Assembler as(b.rows(), b.cols());
    M a;
    for(int j = 0; j < N; ++j)
    {
      MatSpec s = draw_block(c, b, b.R[0], b.C[j], std::size_t(j), N);
      a.get(0, j) = vl::make_csr<DT, IT>(s);
      as.place(s, 0, b.coff(j));
    }
    MatSpec g = as.finish(); if(b.edge >= 0) g.tag("edge_corpus");
    begin_case<DT, IT>(c, g, "power"); c.tag("kind:PowerRow3");
    run_both<DT, IT>(c, g, b, a, "powerrow", [&]() { std::uint64_t h = 0; for(int j = 0; j < N; ++j) h = vh::mix64(h ^ vl::container_hash(a.get(0, j))); return h; }, b.R, b.C);
  }

  template<typename DT, typename IT>
  void col_case(vh::Ctx& c, std::uint64_t ei)
  {
    constexpr int N = 2;
    typedef PowerColMatrix<Leaf<DT, IT>, N> M;
    Blocks b = draw_blocks(c, N, 1, ei);
    Assembler as(b.rows(), b.cols());
    M a;
    for(int i = 0; i < N; ++i)
    {
      MatSpec s = draw_block(c, b, b.R[i], b.C[0], std::size_t(i), N);
      a.get(i, 0) = vl::make_csr<DT, IT>(s);
      as.place(s, b.roff(i), 0);
    }
    MatSpec g = as.finish(); if(b.edge >= 0) g.tag("edge_corpus");
    begin_case<DT, IT>(c, g, "power"); c.tag("kind:PowerCol2");
    run_both<DT, IT>(c, g, b, a, "powercol", [&]() { std::uint64_t h = 0; for(int i = 0; i < N; ++i) h = vh::mix64(h ^ vl::container_hash(a.get(i, 0))); return h; }, b.R, b.C);
  }

  template<typename DT, typename IT>
  void power_case(vh::Ctx& c)
  {
    // k % 4 = type, (k / 4) % 4 = kind, k / 16 = edge mode index
    const std::uint64_t ei = c.k / 16;
    switch((c.k / 4) % 4)
    {
    case 0: diag_case<DT, IT>(c, ei); break;
    case 1: full_case<DT, IT>(c, ei); break;
    case 2: row_case<DT, IT>(c, ei); break;
    default: col_case<DT, IT>(c, ei); break;
    }
    end_case(c, "power");
  }
}

VH_FAMILY(power)
{
  switch(c.k % 4)
  {
  case 0: power_case<double, std::uint64_t>(c); break;
  case 1: power_case<float, std::uint64_t>(c); break;
  case 2: power_case<double, std::uint32_t>(c); break;
  default: power_case<float, std::uint32_t>(c); break;
  }
}
