// C01 -- BCSR block sizes (2,3) and (3,2)
#include "bcsr_impl.hpp"
namespace c01
{
  void bcsr_2x3(vh::Ctx& c) { bcsr_dispatch<2, 3>(c); }
  void bcsr_3x2(vh::Ctx& c) { bcsr_dispatch<3, 2>(c); }
}
