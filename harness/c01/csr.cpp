// C01 -- SparseMatrixCSR (scalar and blocked-vector overloads) and SparseMatrixCSCR
#include "c01_common.hpp"
using namespace c01;

namespace
{
  // edge corpus shared by the formats that can be built with a zero dimension: vl::edge_matrix + dim0 shapes
  inline std::size_t ext_edge_size() { return vl::edge_corpus_size() + 3; }
  inline MatSpec ext_edge(std::size_t i)
  {
    if(i < vl::edge_corpus_size()) return vl::edge_matrix(i);
    MatSpec m; m.vstyle = 0; m.pattern = "edge";
    switch(i - vl::edge_corpus_size()) { case 0: m.rows = 0; m.cols = 0; break; case 1: m.rows = 0; m.cols = 3; break; default: m.rows = 3; m.cols = 0; break; }
    m.classify(); m.tag("edge_corpus");
    return m;
  }

  template<typename DT, typename IT>
  MatSpec draw(vh::Ctx& c)
  {
    const std::size_t e = std::size_t(c.k / 4);
    if(e < ext_edge_size()) return ext_edge(e);
    vl::GenOpt o; o.max_dim = tier_max(c, 40, 48, 400); o.allow_dim0 = true;
    return vl::gen_matrix(c.rng, o);
  }

  template<typename DT, typename IT, int BS>
  void csr_blocked(vh::Ctx& c, const MatSpec& m, const SparseMatrixCSR<DT, IT>& a)
  {
    typedef DenseVectorBlocked<DT, IT, BS> VB;
    MatSpec k = kron_identity(m, Index(BS));
    Env e(c, k, [&]() { return vl::container_hash(a); });
    OpTags ot(c, {"vbs:" + std::to_string(BS)});
    const std::vector<Index> sl{m.rows * Index(BS)}, sr{m.cols * Index(BS)};
    op_n_plain<DT, VB, VB>(e, "csr.blocked", sl, sr, a);
    op_n_axpy<DT, VB, VB>(e, "csr.blocked", sl, sr, a);
  }

  template<typename DT, typename IT>
  void csr_case(vh::Ctx& c)
  {
    MatSpec m = draw<DT, IT>(c);
    begin_case<DT, IT>(c, m, "csr");
    auto a = vl::make_csr<DT, IT>(m);
    typedef DenseVector<DT, IT> V;
    {
      Env e(c, m, [&]() { return vl::container_hash(a); });
      ops_all<DT, V, V>(e, "csr", {m.rows}, {m.cols}, a);
    }
    switch(c.rng.below(4))
    {
    case 0: csr_blocked<DT, IT, 1>(c, m, a); break;
    case 1: csr_blocked<DT, IT, 2>(c, m, a); break;
    case 2: csr_blocked<DT, IT, 3>(c, m, a); break;
    default: csr_blocked<DT, IT, 4>(c, m, a); break;
    }
    end_case(c, "csr");
  }

  template<typename DT, typename IT>
  void cscr_case(vh::Ctx& c)
  {
    MatSpec m = draw<DT, IT>(c);
    begin_case<DT, IT>(c, m, "cscr");
    auto a = vl::make_cscr<DT, IT>(m);
    typedef DenseVector<DT, IT> V;
    Env e(c, m, [&]() { return vl::container_hash(a); });
    ops_all<DT, V, V>(e, "cscr", {m.rows}, {m.cols}, a);
    end_case(c, "cscr");
  }
}

VH_FAMILY(csr)
{
  switch(c.k % 4)
  {
  case 0: csr_case<double, std::uint64_t>(c); break;
  case 1: csr_case<float, std::uint64_t>(c); break;
  case 2: csr_case<double, std::uint32_t>(c); break;
  default: csr_case<float, std::uint32_t>(c); break;
  }
}

VH_FAMILY(cscr)
{
  switch(c.k % 4)
  {
  case 0: cscr_case<double, std::uint64_t>(c); break;
  case 1: cscr_case<float, std::uint64_t>(c); break;
  case 2: cscr_case<double, std::uint32_t>(c); break;
  default: cscr_case<float, std::uint32_t>(c); break;
  }
}
