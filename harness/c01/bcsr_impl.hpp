// C01 -- SparseMatrixBCSR: all overload pairs (dense / blocked r and x, dense y with blocked r and x)
#pragma once
#include "c01_common.hpp"

namespace c01
{
  inline std::size_t bcsr_edge_size() { return vl::edge_corpus_size() + 3; }
  inline MatSpec bcsr_edge(std::size_t i)
  {
    if(i < vl::edge_corpus_size()) return vl::edge_matrix(i);
    MatSpec m; m.vstyle = 0; m.pattern = "edge";
    switch(i - vl::edge_corpus_size()) { case 0: m.rows = 0; m.cols = 0; break; case 1: m.rows = 0; m.cols = 3; break; default: m.rows = 3; m.cols = 0; break; }
    m.classify(); m.tag("edge_corpus");
    return m;
  }

  template<typename DT, typename IT, int BH, int BW>
  void bcsr_case(vh::Ctx& c)
  {
    // case index layout: k % 6 = block size, (k / 6) % 4 = data/index type, k / 24 = edge corpus index
    const std::size_t ei = std::size_t(c.k / 24);
    MatSpec bm;
    if(ei < bcsr_edge_size()) bm = bcsr_edge(ei);
    else { vl::GenOpt o; o.max_dim = tier_max(c, 14, 16, 134); o.allow_dim0 = true; bm = vl::gen_matrix(c.rng, o); }
    MatSpec m;
    auto a = vl::make_bcsr<DT, IT, BH, BW>(c.rng, bm, m);
    if(bm.rows == 0 || bm.cols == 0) m.tag("dim0");
    begin_case<DT, IT>(c, m, "bcsr");
    c.tag("bs:" + std::to_string(BH) + "x" + std::to_string(BW));
    typedef DenseVector<DT, IT> VD;
    typedef DenseVectorBlocked<DT, IT, BH> VBH;
    typedef DenseVectorBlocked<DT, IT, BW> VBW;
    Env e(c, m, [&]() { return vl::container_hash(a); });
    const std::vector<Index> sl{m.rows}, sr{m.cols};
    switch(c.rng.below(4))
    {
    case 0: // r dense, x dense
      ops_all<DT, VD, VD>(e, "bcsr.dd", sl, sr, a);
      break;
    case 1: // r blocked, x dense
      op_n_plain<DT, VBH, VD>(e, "bcsr.bd", sl, sr, a); op_n_axpy<DT, VBH, VD>(e, "bcsr.bd", sl, sr, a);
      op_t_plain<DT, VD, VBW>(e, "bcsr.bd", sl, sr, a); op_t_axpy<DT, VD, VBW>(e, "bcsr.bd", sl, sr, a);
      break;
    case 2: // r dense, x blocked
      op_n_plain<DT, VD, VBW>(e, "bcsr.db", sl, sr, a); op_n_axpy<DT, VD, VBW>(e, "bcsr.db", sl, sr, a);
      op_t_plain<DT, VBH, VD>(e, "bcsr.db", sl, sr, a); op_t_axpy<DT, VBH, VD>(e, "bcsr.db", sl, sr, a);
      break;
    default: // r blocked, x blocked (+ the overloads with a dense y)
      ops_all<DT, VBH, VBW>(e, "bcsr.bb", sl, sr, a);
      run_axpy<DT, VBH, VBW, VD>(e, "bcsr.bbd.apply_axpy", false, sl, sr, sl,
        [&](VBH& r, const VBW& x, const VD& y, DT al) { a.apply(r, x, y, al); });
      run_axpy<DT, VBW, VBH, VD>(e, "bcsr.bbd.apply_transposed_axpy", true, sr, sl, sr,
        [&](VBW& r, const VBH& x, const VD& y, DT al) { a.apply_transposed(r, x, y, al); });
      break;
    }
    end_case(c, "bcsr");
  }

  template<int BH, int BW>
  void bcsr_dispatch(vh::Ctx& c)
  {
    switch((c.k / 6) % 4)
    {
    case 0: bcsr_case<double, std::uint64_t, BH, BW>(c); break;
    case 1: bcsr_case<float, std::uint64_t, BH, BW>(c); break;
    case 2: bcsr_case<double, std::uint32_t, BH, BW>(c); break;
    default: bcsr_case<float, std::uint32_t, BH, BW>(c); break;
    }
  }

  // defined in bcsr_a.cpp / bcsr_b.cpp / bcsr_c.cpp
  void bcsr_2x2(vh::Ctx& c); void bcsr_3x3(vh::Ctx& c);
  void bcsr_2x3(vh::Ctx& c); void bcsr_3x2(vh::Ctx& c);
  void bcsr_1x3(vh::Ctx& c); void bcsr_3x1(vh::Ctx& c);
}
