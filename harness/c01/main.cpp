// C01 -- entry point shared by all C01 units (the families live in the other translation units)
#include <kernel/runtime.hpp>
#include <common/vh.hpp>
int main(int argc, char** argv)
{
  FEAT::Runtime::ScopeGuard guard(argc, argv);
  return vh::main_impl(argc, argv);
}
