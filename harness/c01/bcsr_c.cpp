// C01 -- BCSR block sizes (1,3) and (3,1)
#include "bcsr_impl.hpp"
namespace c01
{
  void bcsr_1x3(vh::Ctx& c) { bcsr_dispatch<1, 3>(c); }
  void bcsr_3x1(vh::Ctx& c) { bcsr_dispatch<3, 1>(c); }
}
