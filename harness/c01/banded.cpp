// C01 -- SparseMatrixBanded (generic sweep and the FEAT_UNROLL_BANDED twin) and DenseMatrix
#include "c01_common.hpp"
using namespace c01;

namespace
{
  // Builds a banded matrix with a prescribed number of offsets.  The spec is rewritten to the in-matrix band positions
  // (explicit zeros included) so that it stays the truth.  Out-of-matrix slots of the val array ("padding") hold a
  // recognisable non-zero sentinel: their content is unspecified in FEAT (allocated, never written), so a correct kernel
  // never lets them reach the result.
  template<typename DT, typename IT>
  SparseMatrixBanded<DT, IT> build_banded(vh::Rng& r, MatSpec& m, Index want_offsets, bool from_spec)
  {
    const Index R = m.rows, C = m.cols, nd = R + C - 1;
    std::set<Index> offs;
    if(from_spec) for(auto& x : m.t) offs.insert(Index(long(x.c) - long(x.r) + long(R) - 1));
    std::vector<Index> ov(offs.begin(), offs.end());
    if(want_offsets > nd) want_offsets = nd;
    if(want_offsets < 1) want_offsets = 1;
    while(ov.size() > want_offsets) ov.erase(ov.begin() + long(r.below(ov.size())));
    while(ov.size() < want_offsets)
    {
      Index o = Index(r.below(nd));
      // bias towards the neighbourhood of the main diagonal
      if(r.coin(0.5)) { long q = long(R) - 1 + r.range(-6, 6); if(q >= 0 && q < long(nd)) o = Index(q); }
      if(std::find(ov.begin(), ov.end(), o) == ov.end()) ov.push_back(o);
    }
    std::sort(ov.begin(), ov.end());
    const Index no = Index(ov.size());
    DenseVector<IT, IT> off(no);
    for(Index a = 0; a < no; ++a) off(a, IT(ov[a]));
    DenseVector<DT, IT> val(no * R, DT(0));
    std::map<std::pair<Index, Index>, double> want;
    for(auto& x : m.t) want[{x.r, x.c}] = x.v;
    std::vector<Trip> nt;
    bool has_padding = false;
    for(Index a = 0; a < no; ++a)
      for(Index l = 0; l < R; ++l)
      {
        long col = long(l) + long(ov[a]) + 1 - long(R);
        if(col < 0 || col >= long(C)) { val(a * R + l, DT(7777)); has_padding = true; continue; }
        auto it = want.find({l, Index(col)});
        double v = it != want.end() ? it->second : (r.coin(0.3) ? 0.0 : vl::gen_value(r, m.vstyle));
        val(a * R + l, DT(v));
        nt.push_back({l, Index(col), v});
      }
    m.t = nt; m.sort_unique(); m.tags.clear(); m.classify();
    m.tag("noffsets:" + std::to_string(no));
    if(no == 3 || no == 5 || no == 9 || no == 25) m.tag("unroll_count");
    if(has_padding) m.tag("padding");
    bool lower = false, upper = false, diag = false;
    for(Index o : ov) { if(o + 1 < R) lower = true; else if(o + 1 == R) diag = true; else upper = true; }
    if(!lower) m.tag("no_lower_band"); if(!upper) m.tag("no_upper_band"); if(!diag) m.tag("no_main_diag_band");
    m.pattern += "/banded";
    return SparseMatrixBanded<DT, IT>(R, C, val, off);
  }

  // deterministic banded edge corpus (in addition to vl::edge_matrix projected onto its own offsets)
  inline std::size_t banded_edge_extra() { return 10; }

  template<typename DT, typename IT>
  void banded_case(vh::Ctx& c)
  {
    const std::size_t ei = std::size_t(c.k / 4);
    MatSpec m; Index want = 0; bool from_spec = true;
    static const Index counts[] = {1, 2, 3, 3, 4, 5, 5, 6, 7, 8, 9, 9, 10, 13, 24, 25, 25, 26, 27};
    if(ei < vl::edge_corpus_size())
    {
      m = vl::edge_matrix(ei);
      std::set<long> d; for(auto& x : m.t) d.insert(long(x.c) - long(x.r));
      want = Index(std::max<std::size_t>(1, d.size()));
    }
    else if(ei < vl::edge_corpus_size() + banded_edge_extra())
    {
      // rectangular / square shapes with exactly 3, 5, 9, 25 offsets (the unrolled paths) and extreme offsets
      const std::size_t q = ei - vl::edge_corpus_size();
      static const Index er[] = {4, 7, 9, 30, 5, 12, 13, 1, 6, 20}, ec[] = {4, 5, 12, 30, 9, 12, 3, 9, 1, 14}, en[] = {3, 5, 9, 25, 3, 23, 15, 9, 6, 25};
      m.rows = er[q]; m.cols = ec[q]; m.vstyle = int(q % 4); m.pattern = "edge"; want = en[q]; from_spec = false;
      m.classify();
    }
    else
    {
      vl::GenOpt o; o.max_dim = tier_max(c, 40, 48, 400);
      m = vl::gen_matrix(c.rng, o);
      if(c.rng.coin(0.5)) { want = counts[c.rng.below(sizeof(counts) / sizeof(counts[0]))]; from_spec = c.rng.coin(0.5); }
      else { std::set<long> d; for(auto& x : m.t) d.insert(long(x.c) - long(x.r)); want = Index(std::max<std::size_t>(1, std::min<std::size_t>(d.size(), 27))); }
    }
    const bool edge = ei < vl::edge_corpus_size() + banded_edge_extra();
    auto a = build_banded<DT, IT>(c.rng, m, want, from_spec);
    if(edge) m.tag("edge_corpus");
    begin_case<DT, IT>(c, m, "banded");
    typedef DenseVector<DT, IT> V;
    Env e(c, m, [&]() { return vl::container_hash(a); });
    // apply_transposed of SparseMatrixBanded is XABORTM("not implemented"): the format does not offer it
    op_n_plain<DT, V, V>(e, "banded", {m.rows}, {m.cols}, a);
    op_n_axpy<DT, V, V>(e, "banded", {m.rows}, {m.cols}, a);
    if(c.rng.coin(0.5)) op_n_axpy<DT, V, V>(e, "banded", {m.rows}, {m.cols}, a);
    end_case(c, "banded");
  }

  template<typename DT, typename IT>
  void dense_case(vh::Ctx& c)
  {
    const std::size_t ei = std::size_t(c.k / 4);
    MatSpec m;
    if(ei < vl::edge_corpus_size()) m = vl::edge_matrix(ei);
    else { vl::GenOpt o; o.max_dim = tier_max(c, 40, 48, 250); m = vl::gen_matrix(c.rng, o); }
    // a dense matrix stores every position: the entries missing in the spec are stored zeros
    auto a = vl::make_dense<DT, IT>(m);
    begin_case<DT, IT>(c, m, "dense");
    typedef DenseVector<DT, IT> V;
    Env e(c, m, [&]() { return vl::container_hash(a); });
    e.len_n = m.cols; e.len_t = m.rows;
    ops_all<DT, V, V>(e, "dense", {m.rows}, {m.cols}, a);
    end_case(c, "dense");
  }
}

VH_FAMILY(banded)
{
  switch(c.k % 4)
  {
  case 0: banded_case<double, std::uint64_t>(c); break;
  case 1: banded_case<float, std::uint64_t>(c); break;
  case 2: banded_case<double, std::uint32_t>(c); break;
  default: banded_case<float, std::uint32_t>(c); break;
  }
}

VH_FAMILY(dense)
{
  switch(c.k % 4)
  {
  case 0: dense_case<double, std::uint64_t>(c); break;
  case 1: dense_case<float, std::uint64_t>(c); break;
  case 2: dense_case<double, std::uint32_t>(c); break;
  default: dense_case<float, std::uint32_t>(c); break;
  }
}
