// C01 -- SaddlePointMatrix, TupleMatrix, TupleDiagMatrix (CSR / BCSR / Power blocks) and SparseMatrixBWrappedCSR.
//
// Overloads that cannot be instantiated on the pinned tree (a member template whose body does not compile is an
// overload the format does not offer) are behind macros; define them (unit cflags) once the tree offers them:
//   VH_C01_SADDLE_DV_TRANSPOSED   SaddlePointMatrix::apply_transposed(DenseVector&, const DenseVector&)
//                                 (saddle_point_matrix.hpp: 'block_b().applytransposed')
//   VH_C01_TUPLE_TRANSPOSED       TupleMatrix::apply_transposed (both forms; tuple_matrix.hpp single-row specialisation
//                                 calls first().apply(...) with transposed operand types)
//   VH_C01_TUPLEDIAG_DV           TupleDiagMatrix DenseVector overloads (single-block specialisation has none)
//   VH_C01_SADDLE_BCSR_DV         SaddlePointMatrix DenseVector overloads with BCSR blocks (size XASSERTs use block counts)
// enabled by default since the 'fix:' commits dcec3e0a7 / 3dfb8a46b (define VH_C01_NO_* to compile them out again)
#if !defined(VH_C01_NO_SADDLE_DV_TRANSPOSED) && !defined(VH_C01_SADDLE_DV_TRANSPOSED)
#define VH_C01_SADDLE_DV_TRANSPOSED 1
#endif
#if !defined(VH_C01_NO_TUPLE_TRANSPOSED) && !defined(VH_C01_TUPLE_TRANSPOSED)
#define VH_C01_TUPLE_TRANSPOSED 1
#endif
#include "c01_common.hpp"
#include <kernel/lafem/power_diag_matrix.hpp>
#include <kernel/lafem/power_row_matrix.hpp>
#include <kernel/lafem/power_col_matrix.hpp>
#include <kernel/lafem/saddle_point_matrix.hpp>
#include <kernel/lafem/tuple_matrix.hpp>
#include <kernel/lafem/tuple_diag_matrix.hpp>
#include <kernel/lafem/sparse_matrix_bwrappedcsr.hpp>
using namespace c01;

namespace
{
  const int n_edge_modes = 5;
  // The flat-DenseVector overloads of SaddlePointMatrix size their operands by rows()/columns() in the *native* perspective
  // (block counts for BCSR sub-matrices), while the BCSR blocks demand scalar sizes: with BCSR blocks no operand satisfies
  // both XASSERTs, i.e. these overloads are only usable with scalar leaf matrices.  Left out unless the macro is set.
#ifdef VH_C01_SADDLE_BCSR_DV
  const bool saddle_bcsr_dv = true;
#else
  const bool saddle_bcsr_dv = false;
#endif

  inline Index block_dim(vh::Ctx& c, Index maxd)
  {
    static const Index small[] = {1, 1, 2, 2, 3, 4, 5, 7, 8, 9};
    if(c.rng.coin(0.6)) return std::min(maxd, small[c.rng.below(sizeof(small) / sizeof(small[0]))]);
    return Index(c.rng.range(1, long(maxd)));
  }

  struct Gen
  {
    vh::Ctx& c; int edge; int vstyle; int counter = 0; Index maxd;
    Gen(vh::Ctx& cc, std::uint64_t ei, Index q, Index ts, Index tb) : c(cc), edge(ei < std::uint64_t(n_edge_modes) ? int(ei) : -1), vstyle(edge >= 0 ? 0 : int(cc.rng.below(4)))
    { maxd = tier_max(cc, q, ts, tb); }
    Index dim(int which) { if(edge == 1) return 1; if(edge >= 0) return Index(2 + (which % 3)); return block_dim(c, maxd); }
    // block (pattern) spec of prescribed dimensions; `total` = number of blocks of the composed matrix
    MatSpec block(Index R, Index C, int total)
    {
      const int idx = counter++;
      MatSpec m; m.rows = R; m.cols = C; m.vstyle = vstyle;
      auto full = [&]() { for(Index i = 0; i < R; ++i) for(Index j = 0; j < C; ++j) { int v = int((i * 3 + j * 5 + Index(idx)) % 7) - 3; m.t.push_back({i, j, v == 0 ? 2.0 : double(v)}); } };
      switch(edge)
      {
      case 0: break;
      case 1: full(); break;
      case 2: if(idx != 0) full(); break;
      case 3: if(idx + 1 != total) full(); break;
      case 4: m.t.push_back({R - 1, 0, 3.0}); break;
      default: return gen_block(c.rng, R, C, vstyle);
      }
      m.sort_unique(); m.classify();
      return m;
    }
  };

  template<typename DT, typename IT> using CSR = SparseMatrixCSR<DT, IT>;
  template<typename DT, typename IT> using DV = DenseVector<DT, IT>;

  // leaf builders returning the scalar spec through `s`
  template<typename DT, typename IT>
  CSR<DT, IT> leaf_csr(Gen& g, Index R, Index C, int total, MatSpec& s) { s = g.block(R, C, total); return vl::make_csr<DT, IT>(s); }
  template<typename DT, typename IT, int BH, int BW>
  SparseMatrixBCSR<DT, IT, BH, BW> leaf_bcsr(Gen& g, Index Rb, Index Cb, int total, MatSpec& s)
  { MatSpec bm = g.block(Rb, Cb, total); return vl::make_bcsr<DT, IT, BH, BW>(g.c.rng, bm, s); }

  inline std::uint64_t hmix(std::uint64_t h, std::uint64_t v) { return vh::mix64(h ^ v); }

  // ------------------------------------------------------------------ saddle point
  template<typename DT, typename IT, bool with_dv, typename M>
  void saddle_ops(vh::Ctx& c, const MatSpec& g, const M& a, std::function<std::uint64_t()> mh,
                  const std::vector<Index>& sl, const std::vector<Index>& sr)
  {
    typedef typename M::VectorTypeL VL; typedef typename M::VectorTypeR VR;
    Env e(c, g, mh);
    ops_all<DT, VL, VR>(e, "saddle", sl, sr, a);
    if constexpr(!with_dv) return;
    const std::vector<Index> dl{g.rows}, dr{g.cols};
    op_n_plain<DT, DV<DT, IT>, DV<DT, IT>>(e, "saddle.dv", dl, dr, a);
    op_n_axpy<DT, DV<DT, IT>, DV<DT, IT>>(e, "saddle.dv", dl, dr, a);
    op_t_axpy<DT, DV<DT, IT>, DV<DT, IT>>(e, "saddle.dv", dl, dr, a);
#ifdef VH_C01_SADDLE_DV_TRANSPOSED
    op_t_plain<DT, DV<DT, IT>, DV<DT, IT>>(e, "saddle.dv", dl, dr, a);
#endif
  }

  template<typename DT, typename IT>
  void saddle_csr(vh::Ctx& c, std::uint64_t ei)
  {
    typedef SaddlePointMatrix<CSR<DT, IT>, CSR<DT, IT>, CSR<DT, IT>> M;
    Gen g(c, ei, 14, 18, 120);
    const Index Ra = g.dim(0), Ca = g.dim(1), Cb = g.dim(2), Rd = g.dim(3);
    MatSpec sa, sb, sd; M a;
    a.block_a() = leaf_csr<DT, IT>(g, Ra, Ca, 3, sa);
    a.block_b() = leaf_csr<DT, IT>(g, Ra, Cb, 3, sb);
    a.block_d() = leaf_csr<DT, IT>(g, Rd, Ca, 3, sd);
    Assembler as(Ra + Rd, Ca + Cb); as.place(sa, 0, 0); as.place(sb, 0, Ca); as.place(sd, Ra, 0);
    MatSpec gs = as.finish(); if(g.edge >= 0) gs.tag("edge_corpus");
    begin_case<DT, IT>(c, gs, "saddle"); c.tag("kind:Saddle-CSR");
    saddle_ops<DT, IT, true>(c, gs, a, [&]() { return hmix(hmix(vl::container_hash(a.block_a()), vl::container_hash(a.block_b())), vl::container_hash(a.block_d())); },
      {Ra, Rd}, {Ca, Cb});
  }

  template<typename DT, typename IT>
  void saddle_power(vh::Ctx& c, std::uint64_t ei)
  {
    typedef PowerDiagMatrix<CSR<DT, IT>, 2> MA; typedef PowerColMatrix<CSR<DT, IT>, 2> MB; typedef PowerRowMatrix<CSR<DT, IT>, 2> MD;
    typedef SaddlePointMatrix<MA, MB, MD> M;
    Gen g(c, ei, 10, 12, 70);
    const Index Ra[2] = {g.dim(0), g.dim(1)}, Ca[2] = {g.dim(2), g.dim(3)}, Cb = g.dim(4), Rd = g.dim(5);
    M a; MatSpec s;
    Assembler as(Ra[0] + Ra[1] + Rd, Ca[0] + Ca[1] + Cb);
    for(int i = 0; i < 2; ++i) { a.block_a().get(i, i) = leaf_csr<DT, IT>(g, Ra[i], Ca[i], 6, s); as.place(s, i ? Ra[0] : 0, i ? Ca[0] : 0); }
    for(int i = 0; i < 2; ++i) { a.block_b().get(i, 0) = leaf_csr<DT, IT>(g, Ra[i], Cb, 6, s); as.place(s, i ? Ra[0] : 0, Ca[0] + Ca[1]); }
    for(int j = 0; j < 2; ++j) { a.block_d().get(0, j) = leaf_csr<DT, IT>(g, Rd, Ca[j], 6, s); as.place(s, Ra[0] + Ra[1], j ? Ca[0] : 0); }
    MatSpec gs = as.finish(); if(g.edge >= 0) gs.tag("edge_corpus");
    begin_case<DT, IT>(c, gs, "saddle"); c.tag("kind:Saddle-PowerDiag2-PowerCol2-PowerRow2");
    saddle_ops<DT, IT, true>(c, gs, a, [&]() { std::uint64_t h = 0; for(int i = 0; i < 2; ++i) { h = hmix(h, vl::container_hash(a.block_a().get(i, i)));
        h = hmix(h, vl::container_hash(a.block_b().get(i, 0))); h = hmix(h, vl::container_hash(a.block_d().get(0, i))); } return h; },
      {Ra[0], Ra[1], Rd}, {Ca[0], Ca[1], Cb});
  }

  template<typename DT, typename IT>
  void saddle_bcsr(vh::Ctx& c, std::uint64_t ei)
  {
    typedef SaddlePointMatrix<SparseMatrixBCSR<DT, IT, 2, 2>, SparseMatrixBCSR<DT, IT, 2, 1>, SparseMatrixBCSR<DT, IT, 1, 2>> M;
    Gen g(c, ei, 8, 10, 60);
    const Index na = g.dim(0), nca = g.dim(1), ncb = g.dim(2), nd = g.dim(3);
    MatSpec sa, sb, sd; M a;
    a.block_a() = leaf_bcsr<DT, IT, 2, 2>(g, na, nca, 3, sa);
    a.block_b() = leaf_bcsr<DT, IT, 2, 1>(g, na, ncb, 3, sb);
    a.block_d() = leaf_bcsr<DT, IT, 1, 2>(g, nd, nca, 3, sd);
    Assembler as(2 * na + nd, 2 * nca + ncb); as.place(sa, 0, 0); as.place(sb, 0, 2 * nca); as.place(sd, 2 * na, 0);
    MatSpec gs = as.finish(); if(g.edge >= 0) gs.tag("edge_corpus");
    begin_case<DT, IT>(c, gs, "saddle"); c.tag("kind:Saddle-BCSR2x2-BCSR2x1-BCSR1x2");
    saddle_ops<DT, IT, saddle_bcsr_dv>(c, gs, a, [&]() { return hmix(hmix(vl::container_hash(a.block_a()), vl::container_hash(a.block_b())), vl::container_hash(a.block_d())); },
      {2 * na, nd}, {2 * nca, ncb});
  }

  // ------------------------------------------------------------------ tuple matrix
  template<typename DT, typename IT, typename M>
  void tuple_ops(vh::Ctx& c, const MatSpec& g, const M& a, std::function<std::uint64_t()> mh,
                 const std::vector<Index>& sl, const std::vector<Index>& sr)
  {
    typedef typename M::VectorTypeL VL; typedef typename M::VectorTypeR VR;
    Env e(c, g, mh);
    op_n_plain<DT, VL, VR>(e, "tuple", sl, sr, a);
    op_n_axpy<DT, VL, VR>(e, "tuple", sl, sr, a);
#ifdef VH_C01_TUPLE_TRANSPOSED
    op_t_plain<DT, VL, VR>(e, "tuple", sl, sr, a);
    op_t_axpy<DT, VL, VR>(e, "tuple", sl, sr, a);
#endif
  }

  template<typename DT, typename IT>
  void tuple_csr(vh::Ctx& c, std::uint64_t ei)
  {
    typedef TupleMatrixRow<CSR<DT, IT>, CSR<DT, IT>> Row; typedef TupleMatrix<Row, Row> M;
    Gen g(c, ei, 12, 16, 90);
    const Index R[2] = {g.dim(0), g.dim(1)}, C[2] = {g.dim(2), g.dim(3)};
    M a; MatSpec s; Assembler as(R[0] + R[1], C[0] + C[1]);
    a.template at<0, 0>() = leaf_csr<DT, IT>(g, R[0], C[0], 4, s); as.place(s, 0, 0);
    a.template at<0, 1>() = leaf_csr<DT, IT>(g, R[0], C[1], 4, s); as.place(s, 0, C[0]);
    a.template at<1, 0>() = leaf_csr<DT, IT>(g, R[1], C[0], 4, s); as.place(s, R[0], 0);
    a.template at<1, 1>() = leaf_csr<DT, IT>(g, R[1], C[1], 4, s); as.place(s, R[0], C[0]);
    MatSpec gs = as.finish(); if(g.edge >= 0) gs.tag("edge_corpus");
    begin_case<DT, IT>(c, gs, "tuple"); c.tag("kind:Tuple2x2-CSR");
    tuple_ops<DT, IT>(c, gs, a, [&]() { return hmix(hmix(vl::container_hash(a.template at<0, 0>()), vl::container_hash(a.template at<0, 1>())),
        hmix(vl::container_hash(a.template at<1, 0>()), vl::container_hash(a.template at<1, 1>()))); }, {R[0], R[1]}, {C[0], C[1]});
  }

  // single-row tuple matrix: the only shape whose (non-axpy) apply_transposed can be instantiated on the pinned tree
  template<typename DT, typename IT>
  void tuple_row(vh::Ctx& c, std::uint64_t ei)
  {
    typedef TupleMatrixRow<CSR<DT, IT>, CSR<DT, IT>> Row; typedef TupleMatrix<Row> M;
    Gen g(c, ei, 12, 16, 90);
    const Index R = g.dim(0), C[2] = {g.dim(2), g.dim(3)};
    M a; MatSpec s; Assembler as(R, C[0] + C[1]);
    a.template at<0, 0>() = leaf_csr<DT, IT>(g, R, C[0], 2, s); as.place(s, 0, 0);
    a.template at<0, 1>() = leaf_csr<DT, IT>(g, R, C[1], 2, s); as.place(s, 0, C[0]);
    MatSpec gs = as.finish(); if(g.edge >= 0) gs.tag("edge_corpus");
    begin_case<DT, IT>(c, gs, "tuple"); c.tag("kind:Tuple1x2-CSR");
    typedef typename M::VectorTypeL VL; typedef typename M::VectorTypeR VR;
    Env e(c, gs, [&]() { return hmix(vl::container_hash(a.template at<0, 0>()), vl::container_hash(a.template at<0, 1>())); });
    const std::vector<Index> sl{R}, sr{C[0], C[1]};
    op_n_plain<DT, VL, VR>(e, "tuple", sl, sr, a);
    op_n_axpy<DT, VL, VR>(e, "tuple", sl, sr, a);
    op_t_plain<DT, VL, VR>(e, "tuple", sl, sr, a);
#ifdef VH_C01_TUPLE_TRANSPOSED
    op_t_axpy<DT, VL, VR>(e, "tuple", sl, sr, a);
#endif
  }

  template<typename DT, typename IT>
  void tuple_bcsr(vh::Ctx& c, std::uint64_t ei)
  {
    typedef TupleMatrixRow<SparseMatrixBCSR<DT, IT, 2, 2>, SparseMatrixBCSR<DT, IT, 2, 3>> Row0;
    typedef TupleMatrixRow<SparseMatrixBCSR<DT, IT, 3, 2>, SparseMatrixBCSR<DT, IT, 3, 3>> Row1;
    typedef TupleMatrix<Row0, Row1> M;
    Gen g(c, ei, 7, 8, 45);
    const Index R[2] = {g.dim(0), g.dim(1)}, C[2] = {g.dim(2), g.dim(3)};   // in blocks
    const Index rs[2] = {2 * R[0], 3 * R[1]}, cs[2] = {2 * C[0], 3 * C[1]}; // in scalars
    M a; MatSpec s; Assembler as(rs[0] + rs[1], cs[0] + cs[1]);
    a.template at<0, 0>() = leaf_bcsr<DT, IT, 2, 2>(g, R[0], C[0], 4, s); as.place(s, 0, 0);
    a.template at<0, 1>() = leaf_bcsr<DT, IT, 2, 3>(g, R[0], C[1], 4, s); as.place(s, 0, cs[0]);
    a.template at<1, 0>() = leaf_bcsr<DT, IT, 3, 2>(g, R[1], C[0], 4, s); as.place(s, rs[0], 0);
    a.template at<1, 1>() = leaf_bcsr<DT, IT, 3, 3>(g, R[1], C[1], 4, s); as.place(s, rs[0], cs[0]);
    MatSpec gs = as.finish(); if(g.edge >= 0) gs.tag("edge_corpus");
    begin_case<DT, IT>(c, gs, "tuple"); c.tag("kind:Tuple2x2-BCSR");
    tuple_ops<DT, IT>(c, gs, a, [&]() { return hmix(hmix(vl::container_hash(a.template at<0, 0>()), vl::container_hash(a.template at<0, 1>())),
        hmix(vl::container_hash(a.template at<1, 0>()), vl::container_hash(a.template at<1, 1>()))); }, {rs[0], rs[1]}, {cs[0], cs[1]});
  }

  template<typename DT, typename IT>
  void tuple_diag(vh::Ctx& c, std::uint64_t ei)
  {
    typedef TupleDiagMatrix<CSR<DT, IT>, SparseMatrixBCSR<DT, IT, 2, 3>, CSR<DT, IT>> M;
    Gen g(c, ei, 10, 12, 80);
    const Index R0 = g.dim(0), C0 = g.dim(1), R1 = g.dim(2), C1 = g.dim(3), R2 = g.dim(4), C2 = g.dim(5);
    M a; MatSpec s; Assembler as(R0 + 2 * R1 + R2, C0 + 3 * C1 + C2);
    a.template at<0, 0>() = leaf_csr<DT, IT>(g, R0, C0, 3, s); as.place(s, 0, 0);
    a.template at<1, 1>() = leaf_bcsr<DT, IT, 2, 3>(g, R1, C1, 3, s); as.place(s, R0, C0);
    a.template at<2, 2>() = leaf_csr<DT, IT>(g, R2, C2, 3, s); as.place(s, R0 + 2 * R1, C0 + 3 * C1);
    MatSpec gs = as.finish(); if(g.edge >= 0) gs.tag("edge_corpus");
    begin_case<DT, IT>(c, gs, "tuple"); c.tag("kind:TupleDiag-CSR-BCSR2x3-CSR");
    typedef typename M::VectorTypeL VL; typedef typename M::VectorTypeR VR;
    Env e(c, gs, [&]() { return hmix(hmix(vl::container_hash(a.template at<0, 0>()), vl::container_hash(a.template at<1, 1>())), vl::container_hash(a.template at<2, 2>())); });
    ops_all<DT, VL, VR>(e, "tuplediag", {R0, 2 * R1, R2}, {C0, 3 * C1, C2}, a);
#ifdef VH_C01_TUPLEDIAG_DV
    ops_all<DT, DV<DT, IT>, DV<DT, IT>>(e, "tuplediag.dv", {gs.rows}, {gs.cols}, a);
#endif
  }

  // ------------------------------------------------------------------ CSR pretending to be BCSR
  template<typename DT, typename IT, int BS>
  void bwrapped(vh::Ctx& c, std::uint64_t ei)
  {
    MatSpec m;
    if(ei < vl::edge_corpus_size()) m = vl::edge_matrix(ei);
    else { vl::GenOpt o; o.max_dim = tier_max(c, 24, 30, 200); m = vl::gen_matrix(c.rng, o); }
    begin_case<DT, IT>(c, m, "bwrapped"); c.tag("bs:" + std::to_string(BS));
    SparseMatrixBWrappedCSR<DT, IT, BS> a(vl::make_csr<DT, IT>(m));
    typedef DenseVectorBlocked<DT, IT, BS> VB;
    {
      MatSpec k = kron_identity(m, Index(BS));
      Env e(c, k, [&]() { return vl::container_hash(a); });
      const std::vector<Index> sl{m.rows * Index(BS)}, sr{m.cols * Index(BS)};
      op_n_plain<DT, VB, VB>(e, "bwrapped", sl, sr, a);
      op_n_axpy<DT, VB, VB>(e, "bwrapped", sl, sr, a);
    }
    {
      Env e(c, m, [&]() { return vl::container_hash(a); });
      ops_all<DT, DV<DT, IT>, DV<DT, IT>>(e, "bwrapped.dv", {m.rows}, {m.cols}, a);
    }
  }

  template<typename DT, typename IT>
  void saddle_case(vh::Ctx& c)
  {
    const std::uint64_t ei = c.k / 12;   // k % 4 type, (k / 4) % 3 kind
    switch((c.k / 4) % 3) { case 0: saddle_csr<DT, IT>(c, ei); break; case 1: saddle_power<DT, IT>(c, ei); break; default: saddle_bcsr<DT, IT>(c, ei); break; }
    end_case(c, "saddle");
  }
  template<typename DT, typename IT>
  void tuple_case(vh::Ctx& c)
  {
    const std::uint64_t ei = c.k / 16;   // k % 4 type, (k / 4) % 4 kind
    switch((c.k / 4) % 4) { case 0: tuple_csr<DT, IT>(c, ei); break; case 1: tuple_bcsr<DT, IT>(c, ei); break; case 2: tuple_row<DT, IT>(c, ei); break; default: tuple_diag<DT, IT>(c, ei); break; }
    end_case(c, "tuple");
  }
  template<typename DT, typename IT>
  void bwrapped_case(vh::Ctx& c)
  {
    const std::uint64_t ei = c.k / 8;    // k % 4 type, (k / 4) % 2 block size
    if((c.k / 4) % 2 == 0) bwrapped<DT, IT, 2>(c, ei); else bwrapped<DT, IT, 3>(c, ei);
    end_case(c, "bwrapped");
  }
}

#define C01_TYPE_SWITCH(fn) \
  switch(c.k % 4) \
  { \
  case 0: fn<double, std::uint64_t>(c); break; \
  case 1: fn<float, std::uint64_t>(c); break; \
  case 2: fn<double, std::uint32_t>(c); break; \
  default: fn<float, std::uint32_t>(c); break; \
  }

VH_FAMILY(saddle) { C01_TYPE_SWITCH(saddle_case) }
VH_FAMILY(tuple) { C01_TYPE_SWITCH(tuple_case) }
VH_FAMILY(bwrapped) { C01_TYPE_SWITCH(bwrapped_case) }
