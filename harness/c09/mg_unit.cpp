// C09 -- random (non mesh-based) multigrid hierarchies with LAFEM::UnitFilter
#include "c09_case.hpp"
VH_FAMILY(mg_unit) { c09::random_case<c09::FUnit>(c, true); }
