// C09 -- level-independence (bounded restatement): MultiGrid used as a solver (Richardson iteration preconditioned by one
// cycle) on nested 1D (P1) and 2D (Q1) Poisson discretisations, L = 2..Lmax levels above the coarse level.
// Matrices are built directly (1D: tridiag[-1 2 -1]/h, 2D: K(x)M + M(x)K = 9-point Q1 stencil), prolongation = (bi)linear
// interpolation, restriction = its transpose, rediscretised coarse matrices (= Galerkin for nested P1/Q1), damped Jacobi
// smoothing through the logging solver objects (S = omega D^-1 resp. its two-step polynomial), exact coarse solve.
#include "c09.hpp"
using namespace c09;

namespace
{
  HMat tri(Index n, double off, double di)
  {
    std::vector<vl::Trip> t;
    for(Index i = 0; i < n; ++i) { if(i > 0) t.push_back({i, i - 1, off}); t.push_back({i, i, di}); if(i + 1 < n) t.push_back({i, i + 1, off}); }
    return HMat::from_trips(n, n, t);
  }
  HMat kron(const HMat& A, const HMat& B)
  {
    std::vector<vl::Trip> t;
    for(Index i = 0; i < A.r; ++i) for(Index ka = A.rp[i]; ka < A.rp[i + 1]; ++ka)
      for(Index k = 0; k < B.r; ++k) for(Index kb = B.rp[k]; kb < B.rp[k + 1]; ++kb)
        t.push_back({i * B.r + k, A.ci[ka] * B.c + B.ci[kb], A.v[ka] * B.v[kb]});
    return HMat::from_trips(A.r * B.r, A.c * B.c, t);
  }
  HMat addm(const HMat& A, const HMat& B)
  {
    std::vector<vl::Trip> t = A.trips(), u = B.trips(); t.insert(t.end(), u.begin(), u.end());
    return HMat::from_trips(A.r, A.c, t);
  }
  // linear interpolation from nc interior points to 2nc+1 interior points
  HMat prol1d(Index nc)
  {
    std::vector<vl::Trip> t;
    for(Index j = 0; j < nc; ++j) { t.push_back({2 * j, j, 0.5}); t.push_back({2 * j + 1, j, 1.0}); t.push_back({2 * j + 2, j, 0.5}); }
    return HMat::from_trips(2 * nc + 1, nc, t);
  }
  HMat poisson(int dim, int k)
  {
    const Index n = (Index(1) << k) - 1; const double h = 1.0 / double(Index(1) << k);
    HMat K = tri(n, -1.0 / h, 2.0 / h);
    if(dim == 1) return K;
    HMat M = tri(n, h / 6.0, 4.0 * h / 6.0);
    return addm(kron(K, M), kron(M, K));
  }
  // nu steps of damped Jacobi started from zero, as one matrix: nu=1: w D^-1 ; nu=2: 2 w D^-1 - w^2 D^-1 A D^-1
  HMat jacobi(const HMat& A, double w, int nu)
  {
    std::vector<double> dinv(A.r, 0.0);
    for(Index i = 0; i < A.r; ++i) for(Index k = A.rp[i]; k < A.rp[i + 1]; ++k) if(A.ci[k] == i) dinv[i] = 1.0 / A.v[k];
    std::vector<vl::Trip> t;
    for(Index i = 0; i < A.r; ++i)
    {
      t.push_back({i, i, (nu == 1 ? 1.0 : 2.0) * w * dinv[i]});
      if(nu == 2) for(Index k = A.rp[i]; k < A.rp[i + 1]; ++k) t.push_back({i, A.ci[k], -w * w * dinv[i] * A.v[k] * dinv[A.ci[k]]});
    }
    return HMat::from_trips(A.r, A.r, t);
  }

  const char* smoother_name(int cfg) { static const char* n[] = {"jac(1,1)", "jac(2,2)", "jac(1,1)+peak2", "jac(2,1)"}; return n[cfg & 3]; }

  HierSpec build(int dim, int L, int k0, int smcfg, double w)
  {
    HierSpec H; H.L = L; H.unit = false; H.lv.resize(std::size_t(L + 1));
    for(int l = 0; l <= L; ++l)
    {
      LevelSpec& s = H.lv[std::size_t(l)]; const int k = k0 + L - l;
      s.A = poisson(dim, k); s.n = s.A.r;
      if(l < L)
      {
        HMat p1 = prol1d((Index(1) << (k - 1)) - 1);
        s.P = dim == 1 ? p1 : kron(p1, p1);
        s.R = s.P.transposed();
        s.has[SL_PRE] = s.has[SL_POST] = true;
        const int npre = (smcfg == 1 || smcfg == 3) ? 2 : 1, npost = smcfg == 1 ? 2 : 1;
        s.S[SL_PRE] = jacobi(s.A, w, npre); s.S[SL_POST] = jacobi(s.A, w, npost);
        if(smcfg == 2) { s.has[SL_PEAK] = true; s.S[SL_PEAK] = jacobi(s.A, w, 2); }
      }
      else
      {
        std::vector<double> inv; dense_inverse(s.A, inv);
        s.has[SL_CRS] = true; s.S[SL_CRS] = HMat::from_dense(s.n, s.n, inv);
      }
    }
    return H;
  }

  // asymptotic residual reduction per cycle (geometric mean over cycles 3..8)
  double measure(vh::Ctx& c, const HierSpec& H, int cycle, int cgc, vh::Rng& r, std::vector<double>& norms)
  {
    const int L = H.L; const Index n = H.lv[0].n;
    Rig<FNone> rig(H, 0, L, cycle, true);
    rig.lg.rec = false;
    rig.mg->set_adapt_cgc(feat_cgc(cgc));
    std::vector<double> b = vl::gen_vec(r, n, 1, false);
    LV x(n, 0.0L), res = to_lv(b);
    norms.clear(); norms.push_back((double)nrm2(res));
    for(int it = 1; it <= 8; ++it)
    {
      std::vector<double> rd(n); for(Index i = 0; i < n; ++i) rd[i] = (double)res[i];
      Vec vd = vl::make_dv<double, Index>(rd); Vec vx(n, 777.0);
      rig.lg.clear();
      FEAT::Solver::Status st = rig.mg->apply(vx, vd);
      c.event();
      if(st != FEAT::Solver::Status::success) c.viol("mg.apply", "status", vh::J().kv("status", int(st)).str());
      if(it == 1)
      {
        Reference ref = make_reference(H, 0, L, cycle, cgc, rd, 1, false);
        check_trace(c, rig.lg, ref, cycle, 0, L, true, "first");
      }
      const double* e = vx.elements();
      for(Index i = 0; i < n; ++i) x[i] += (LD)e[i];
      LV y; H.lv[0].A.mul(x, y);
      for(Index i = 0; i < n; ++i) res[i] = (LD)b[i] - y[i];
      norms.push_back((double)nrm2(res));
      if(!(norms.back() > 1e-13 * norms[0]) || !std::isfinite(norms.back())) break;
    }
    const std::size_t last = norms.size() - 1;
    if(!std::isfinite(norms.back())) return std::numeric_limits<double>::infinity();
    if(last < 4) return norms[last] > 0 ? std::pow(norms[last] / norms[0], 1.0 / double(last)) : 0.0;  // converged to round-off within 3 cycles
    return std::pow(norms[last] / norms[2], 1.0 / double(last - 2));
  }
}

VH_FAMILY(poisson)
{
  vh::Rng& r = c.rng; const std::uint64_t k = c.k;
  const int dim = 1 + int(k % 2), cycle = int((k / 2) % 3), cgc = int((k / 6) % 3), smcfg = int((k / 18) % 4);
  const int k0 = 1 + int((k / 72) % 2);
  const double w = (k < 144) ? 0.7 : r.real(0.65, 0.8);
  const int kmax = dim == 1 ? 8 : (c.thorough() ? 8 : 7);
  const int Lmax = std::min(7, kmax - k0);
  c.tag("dim:" + std::to_string(dim)); c.tag(std::string("cycle:") + cycle_name(cycle)); c.tag(std::string("cgc:") + cgc_name(cgc));
  c.tag(std::string("smoother:") + smoother_name(smcfg)); c.tag("coarse_k:" + std::to_string(k0));
  c.set_op("mg.rate");
  std::vector<double> rho; vh::J jr('[');
  for(int L = 2; L <= Lmax; ++L)
  {
    HierSpec H = build(dim, L, k0, smcfg, w);
    std::vector<double> norms;
    const double q = measure(c, H, cycle, cgc, r, norms);
    rho.push_back(q); jr.add(q);
    if(c.verbose()) { std::printf("dim=%d L=%d n=%lu %s cgc=%s %s w=%.3f: rho=%.4f  norms:", dim, L, (unsigned long)H.lv[0].n, cycle_name(cycle), cgc_name(cgc), smoother_name(smcfg), w, q); for(double v : norms) std::printf(" %.3e", v); std::printf("\n"); }
  }
  c.desc = vh::J().kv("dim", dim).kv("cycle", cycle_name(cycle)).kv("adapt_cgc", cgc_name(cgc)).kv("smoother", smoother_name(smcfg)).kv("omega", w)
    .kv("coarse_k", k0).kv("L_from", 2).kv("L_to", Lmax).raw("rates", jr.str()).str();
  // Thresholds calibrated on the unchanged tree (1008 configurations, 4 seeds): Fixed / MinEnergy never exceed 0.35 and
  // grow by < 0.035 per added level from L = 3 on; the L = 2 hierarchies (7 resp. 49 unknowns) are too small for a stable
  // asymptotic rate (changes up to 0.14 towards L = 3).  The Euclidean defect minimiser (MinDefect) under-corrects the
  // smooth components: rates 0.25..0.73, reaching their plateau from below with steps up to 0.125 (0.18 from L = 2).
  const bool md = cgc == CGC_DEFECT;
  const double bound = md ? 0.85 : 0.5;
  for(std::size_t i = 0; i < rho.size(); ++i)
  {
    c.event();
    if(!(rho[i] <= bound)) c.viol("mg.rate", "rate-too-large", vh::J().kv("L", int(i) + 2).kv("rate", rho[i]).kv("bound", bound).raw("rates", jr.str()).str());
    if(i > 0)
    {
      const double step = (i == 1) ? (md ? 0.3 : 0.2) : (md ? 0.16 : 0.05);
      c.event();
      if(!(rho[i] <= rho[i - 1] + step)) c.viol("mg.rate", "level-dependent", vh::J().kv("L", int(i) + 2).kv("rate", rho[i]).kv("previous", rho[i - 1]).kv("allowed_increase", step).raw("rates", jr.str()).str());
    }
  }
  double mx = 0; for(double v : rho) mx = std::max(mx, v);
  c.count(mx <= 0.1 ? "rate<=0.1" : (mx <= 0.2 ? "rate<=0.2" : (mx <= 0.3 ? "rate<=0.3" : (mx <= 0.4 ? "rate<=0.4" : "rate>0.4"))));
}
