// C09 -- LAFEM::Transfer called directly: rest / prol / trunc are plain matrix-vector products of the matrices the object was
// built from, for EVERY input (zero, negative-zero, unit, sparse, tiny, generic vectors) and whatever the target vector held
// before the call (NaN, inf, huge values, the result of the previous call).  Several calls per object into two persistent
// target vectors, like the level work vectors of a multigrid hierarchy.  Reference: long double product of the generator-owned
// triplets, section-4 bound.
#include <common/vh_lafem.hpp>
#include <kernel/lafem/transfer.hpp>
#include <kernel/lafem/vector_mirror.hpp>
#include <kernel/global/gate.hpp>
#include <kernel/global/muxer.hpp>
#include <kernel/global/vector.hpp>
#include <kernel/global/transfer.hpp>
#include <kernel/util/dist.hpp>
#include <limits>

namespace
{
  using FEAT::Index;
  using vl::LD;

  vl::MatSpec gen_fixed(vh::Rng& r, Index R, Index C, bool allow_entry_free)
  {
    vl::MatSpec m; m.rows = R; m.cols = C; m.vstyle = int(r.below(4));
    auto val = [&]() { return vl::gen_value(r, m.vstyle, true); };
    int pat = int(r.below(allow_entry_free ? 9 : 8));
    switch(pat)
    {
    case 0: case 1: { const double dens = r.pick<double>({0.05, 0.3, 0.8}); m.pattern = "uniform";
        for(Index i = 0; i < R; ++i) for(Index j = 0; j < C; ++j) if(r.coin(dens)) m.t.push_back({i, j, val()}); break; }
    case 2: m.pattern = "full"; for(Index i = 0; i < R; ++i) for(Index j = 0; j < C; ++j) m.t.push_back({i, j, val()}); break;
    case 3: case 4: { m.pattern = "empty_rows_cols";
        std::vector<char> er(R, 0), ec(C, 0); for(auto& x : er) x = r.coin(0.3); for(auto& x : ec) x = r.coin(0.3);
        for(Index i = 0; i < R; ++i) for(Index j = 0; j < C; ++j) if(!er[i] && !ec[j] && r.coin(0.5)) m.t.push_back({i, j, val()}); break; }
    case 5: { m.pattern = "interp";     // (transposed) interpolation stencil 1/2 1 1/2 along the longer dimension
        const bool tall = R >= C; const Index nl = tall ? R : C, ns = tall ? C : R;
        for(Index j = 0; j < ns; ++j) for(int q = 0; q < 3; ++q) { const Index i = 2 * j + Index(q); if(i >= nl) continue; const double v = q == 1 ? 1.0 : 0.5;
          if(tall) m.t.push_back({i, j, v}); else m.t.push_back({j, i, v}); }
        break; }
    case 6: { m.pattern = "banded"; const long bw = r.range(0, 3);
        for(Index i = 0; i < R; ++i) for(long d = -bw; d <= bw; ++d) { const long j = long(i) + d; if(j >= 0 && j < long(C)) m.t.push_back({i, Index(j), val()}); } break; }
    case 7: m.pattern = "single_entry_rows"; for(Index i = 0; i < R; ++i) if(r.coin(0.7)) m.t.push_back({i, Index(r.below(C)), val()}); break;
    default: m.pattern = "entry_free"; break;
    }
    m.sort_unique(); m.classify();
    return m;
  }

  enum { IN_GENERIC = 0, IN_ZERO, IN_NEGZERO, IN_UNIT, IN_UNIT_EMPTY, IN_SPARSE, IN_TINY, IN_COUNT };
  const char* in_name(int q) { static const char* n[] = {"generic", "zero", "negzero", "unit", "unit_empty_col", "sparse", "tiny"}; return n[q]; }
  enum { FILL_NAN = 0, FILL_INF, FILL_HUGE, FILL_PREV, FILL_777, FILL_COUNT };
  const char* fill_name(int q) { static const char* n[] = {"nan", "inf", "huge", "previous", "777"}; return n[q]; }

  template<typename DT>
  std::vector<double> gen_input(vh::Rng& r, const vl::MatSpec& m, int& cls)
  {
    const Index n = m.cols; std::vector<double> x(n, 0.0);
    if(cls == IN_UNIT_EMPTY)
    {
      std::vector<char> used(n, 0); for(auto& e : m.t) used[e.c] = 1;
      std::vector<Index> emp; for(Index j = 0; j < n; ++j) if(!used[j]) emp.push_back(j);
      if(emp.empty()) cls = IN_UNIT; else { x[emp[r.below(emp.size())]] = vl::gen_nonzero(r, 1); return x; }
    }
    switch(cls)
    {
    case IN_ZERO: break;
    case IN_NEGZERO: for(auto& v : x) v = r.coin(0.7) ? -0.0 : 0.0; break;
    case IN_UNIT: x[r.below(n)] = r.coin(0.5) ? 1.0 : vl::gen_nonzero(r, 1); break;
    case IN_SPARSE: { const std::size_t q = std::size_t(r.range(1, 3)); for(std::size_t i = 0; i < q; ++i) x[r.below(n)] = vl::gen_nonzero(r, int(r.below(3))); break; }
    case IN_TINY:
    {
      // entries whose squares underflow to zero in DT (norm2() == 0 although the vector is not zero)
      const int e = std::is_same<DT, float>::value ? -90 : -600;
      for(auto& v : x) v = std::ldexp(double(r.range(-7, 7)), e);
      x[r.below(n)] = std::ldexp(3.0, e);
      break;
    }
    default: x = vl::gen_vec(r, n, int(r.below(4)), true); break;
    }
    return x;
  }

  template<typename DT>
  void xfer_case(vh::Ctx& c)
  {
    typedef FEAT::LAFEM::SparseMatrixCSR<DT, Index> MatT;
    typedef FEAT::LAFEM::DenseVector<DT, Index> VecT;
    typedef FEAT::LAFEM::Transfer<MatT> XferT;
    vh::Rng& r = c.rng; const std::uint64_t k = c.k;
    const Index maxd = (c.thorough() && r.coin(0.1)) ? 400 : 40;
    const Index nc = vl::gen_dim(r, maxd), nf = r.coin(0.5) ? std::min<Index>(maxd, 2 * nc + 1) : vl::gen_dim(r, maxd);
    const bool has_trunc = !r.coin(0.2);
    const int focus_in = int((k / 2) % IN_COUNT), focus_fill = int((k / (2 * IN_COUNT)) % FILL_COUNT);
    const int variant = int(r.below(6));
    static const char* vname[] = {"direct", "move_ctor", "move_assign", "clone_weak", "clone_deep", "clone_shallow"};
    vl::MatSpec P = gen_fixed(r, nf, nc, r.coin(0.1)), R = r.coin(0.4) ? P.transposed() : gen_fixed(r, nc, nf, r.coin(0.1)), T = gen_fixed(r, nc, nf, r.coin(0.1));
    c.tag(std::string("dt:") + vl::dt_name<DT>());
    c.tag(std::string("in:") + in_name(focus_in));
    c.tag(std::string("fill:") + fill_name(focus_fill));
    c.tag(std::string("obj:") + vname[variant]);
    c.tag(std::string("trunc:") + (has_trunc ? "yes" : "no"));
    c.tag("prol:" + P.pattern); c.tag("rest:" + R.pattern);
    if(P.has("entry_free") || R.has("entry_free") || (has_trunc && T.has("entry_free"))) c.tag("entry_free");
    c.set_op("transfer.apply");
    c.desc = vh::J().kv("nf", (unsigned long)nf).kv("nc", (unsigned long)nc).kv("dt", vl::dt_name<DT>()).kv("object", vname[variant]).kv("has_trunc", has_trunc)
      .kv("focus_input", in_name(focus_in)).kv("focus_fill", fill_name(focus_fill)).raw("prol", P.describe(12)).raw("rest", R.describe(12)).str();

    XferT base = has_trunc ? XferT(vl::make_csr<DT, Index>(P), vl::make_csr<DT, Index>(R), vl::make_csr<DT, Index>(T))
                           : XferT(vl::make_csr<DT, Index>(P), vl::make_csr<DT, Index>(R));
    XferT other;
    XferT* xp = &base;
    switch(variant)
    {
    case 1: { XferT tmp(std::move(base)); other = std::move(tmp); xp = &other; break; }   // (move ctor, then move assignment)
    case 2: other = std::move(base); xp = &other; break;
    case 3: other = base.clone(); xp = &other; break;
    case 4: other = base.clone(FEAT::LAFEM::CloneMode::Deep); xp = &other; break;
    case 5: other = base.clone(FEAT::LAFEM::CloneMode::Shallow); xp = &other; break;
    default: break;
    }
    const XferT& xf = *xp;
    c.event();
    if(xf.is_ghost()) c.viol("transfer.is_ghost", "wrong-value", "{}");
    const std::uint64_t hp = vl::container_hash(xf.get_mat_prol()), hr = vl::container_hash(xf.get_mat_rest()), ht = has_trunc ? vl::container_hash(xf.get_mat_trunc()) : 0;

    VecT tgt_f(nf, DT(0.125)), tgt_c(nc, DT(-0.375));
    const int ncalls = int(r.range(6, 10));
    for(int it = 0; it < ncalls; ++it)
    {
      const int what = int(r.below(has_trunc ? 3 : 2));       // 0 rest, 1 prol, 2 trunc
      const vl::MatSpec& M = what == 0 ? R : (what == 1 ? P : T);
      const char* op = what == 0 ? "transfer.rest" : (what == 1 ? "transfer.prol" : "transfer.trunc");
      int cls = r.coin(0.6) ? focus_in : int(r.below(IN_COUNT));
      const int fill = (it == 0 && focus_fill == FILL_PREV) ? FILL_777 : (r.coin(0.6) ? focus_fill : int(r.below(FILL_COUNT)));
      std::vector<double> x = gen_input<DT>(r, M, cls);
      VecT vin = vl::make_dv<DT, Index>(x);
      VecT& tgt = what == 1 ? tgt_f : tgt_c;
      const DT nan = std::numeric_limits<DT>::quiet_NaN(), inf = std::numeric_limits<DT>::infinity();
      switch(fill)
      {
      case FILL_NAN: tgt.format(nan); break;
      case FILL_INF: for(Index i = 0; i < tgt.size(); ++i) tgt(i, (i % 2) ? inf : -inf); break;
      case FILL_HUGE: for(Index i = 0; i < tgt.size(); ++i) tgt(i, DT((i % 2) ? 1e30 : -3e29)); break;
      case FILL_777: tgt.format(DT(777)); break;
      default: break;     // keep what the previous call left there
      }
      const std::uint64_t hin = vh::hash_bytes(vin.elements(), std::size_t(vin.size()) * sizeof(DT));
      const Index tsize = tgt.size(); const DT* tptr = tgt.elements();
      bool ret = false;
      if(what == 0) ret = xf.rest(vin, tgt); else if(what == 1) ret = xf.prol(tgt, vin); else ret = xf.trunc(vin, tgt);
      c.event(); c.count(std::string(op) + ":" + in_name(cls));
      const std::string ctx = vh::J().kv("call", it).kv("input_class", in_name(cls)).kv("target_before", fill_name(fill)).str();
      if(!ret) c.viol(op, "return", ctx);
      if(vh::hash_bytes(vin.elements(), std::size_t(vin.size()) * sizeof(DT)) != hin) c.viol(op, "input-modified", ctx);
      if(tgt.size() != tsize || tgt.elements() != tptr) { c.viol(op, "target-reallocated", ctx); continue; }
      std::vector<LD> xl(x.begin(), x.end());
      for(auto& v : xl) v = (LD)DT(v);
      vl::RefVec ref = vl::ref_apply(M, xl, nullptr, 1.0L, false);
      const std::size_t len = vl::max_row_len(M, false);
      const DT* e = tgt.elements();
      for(Index i = 0; i < tsize; ++i)
      {
        LD ex = 0;
        if(!vl::close_enough<DT>((LD)e[i], ref.v[i], ref.s[i], len, &ex))
        {
          c.viol(op, "wrong-value", vh::J().kv("call", it).kv("input_class", in_name(cls)).kv("target_before", fill_name(fill)).kv("component", (unsigned long)i)
            .kv("got", (double)e[i]).kv("expected", (double)ref.v[i]).kv("sum_abs_terms", (double)ref.s[i]).raw("input", vh::jarr(x, 12)).str(),
            {std::string("call_in:") + in_name(cls), std::string("call_fill:") + fill_name(fill)});
          break;
        }
      }
    }
    c.event();
    if(vl::container_hash(xf.get_mat_prol()) != hp || vl::container_hash(xf.get_mat_rest()) != hr || (has_trunc && vl::container_hash(xf.get_mat_trunc()) != ht))
      c.viol("transfer.apply", "input-modified", vh::J().kv("what", "transfer matrices changed by rest/prol/trunc").str());

    // ---- the same object inside a Global::Transfer on one process: without a muxer, and with a coarse-level muxer of
    //      which this process is the only child AND the parent (the layer-boundary branch of rest / prol / trunc; join and
    //      split through identity mirrors are exact copies) -- results bitwise those of the local transfer
    {
      typedef FEAT::LAFEM::VectorMirror<DT, Index> Mir;
      typedef FEAT::Global::Gate<VecT, Mir> GGate; typedef FEAT::Global::Muxer<VecT, Mir> GMux;
      typedef FEAT::Global::Vector<VecT, Mir> GVec; typedef FEAT::Global::Transfer<XferT, Mir> GTrans;
      FEAT::Dist::Comm comm = FEAT::Dist::Comm::world();
      GGate gate_f(comm), gate_c(comm);
      gate_f.compile(VecT(nf)); gate_c.compile(VecT(nc));
      for(int with_muxer = 0; with_muxer < 2 && nc > 0 && nf > 0; ++with_muxer)
      {
        GMux muxer;
        if(with_muxer) { muxer.set_parent(&comm, 0, Mir::make_identity(nc)); muxer.push_child(Mir::make_identity(nc)); muxer.compile(VecT(nc)); }
        GTrans gt(with_muxer ? &muxer : nullptr, xf.clone(FEAT::LAFEM::CloneMode::Deep));
        const char* mtag = with_muxer ? "muxer:self" : "muxer:none";
        for(int what = 0; what < (has_trunc ? 3 : 2); ++what)
        {
          const vl::MatSpec& M = what == 0 ? R : (what == 1 ? P : T);
          const char* op = what == 0 ? "global_transfer.rest" : (what == 1 ? "global_transfer.prol" : "global_transfer.trunc");
          int gcls = int(r.below(IN_COUNT));
          std::vector<double> x = gen_input<DT>(r, M, gcls);
          VecT vin = vl::make_dv<DT, Index>(x);
          VecT loc(what == 1 ? nf : nc, DT(-3)); GVec gin(what == 1 ? &gate_c : &gate_f, vin.clone()), gout(what == 1 ? &gate_f : &gate_c, what == 1 ? nf : nc);
          gout.local().format(DT(777));
          bool rl = false, rg = false;
          if(what == 0) { rl = xf.rest(vin, loc); rg = gt.rest(gin, gout); }
          else if(what == 1) { rl = xf.prol(loc, vin); rg = gt.prol(gout, gin); }
          else { rl = xf.trunc(vin, loc); rg = gt.trunc(gin, gout); }
          c.event();
          if(rl != rg) c.viol(op, "return", vh::J().kv("local", rl).kv("global", rg).str(), {mtag});
          const DT* a = loc.elements(); const DT* b = gout.local().elements();
          for(Index i = 0; i < loc.size(); ++i)
            if(std::memcmp(&a[i], &b[i], sizeof(DT)) != 0 && !(a[i] != a[i] && b[i] != b[i]))
            { c.viol(op, "differs-from-local-transfer", vh::J().kv("component", (unsigned long)i).kv("got", (double)b[i]).kv("expected", (double)a[i]).str(), {mtag}); break; }
        }
      }
    }
  }
}

VH_FAMILY(xfer_direct)
{
  if(c.k % 2 == 0) xfer_case<double>(c); else xfer_case<float>(c);
}
