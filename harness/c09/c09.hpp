// C09 -- shared machinery of the multigrid harness: harness-side sparse matrices, logging
// smoother / coarse solver / transfer classes, the hierarchy generator, an independent
// *recursive* model of the documented V/F/W cycles (long double) and the monitors.
//
// Nothing in here looks at FEAT's loop structure: the expected call sequence and the expected
// vectors come from the recursive textbook definition
//   visit(l):  l == crs ? coarse-solve
//            : pre(l); corr(l); [peak(l); corr(l)]; post(l)
//   corr(l):   restrict defect, visit(l+1), prolongate, (adaptive) coarse grid correction
// with the doubling rule  V: never, W: on every level above the coarse level (2^L coarse
// solves), F: on every inner level, first child an F- and second child a V-shape (L solves).
#pragma once
#include <common/vh_lafem.hpp>
#include <kernel/lafem/none_filter.hpp>
#include <kernel/lafem/unit_filter.hpp>
#include <kernel/lafem/transfer.hpp>
#include <kernel/solver/base.hpp>
#include <kernel/solver/multigrid.hpp>
#include <kernel/util/statistics.hpp>
#include <array>
#include <deque>
#include <functional>
#include <memory>

namespace c09
{
  using FEAT::Index;
  using vl::LD;
  typedef std::vector<LD> LV;
  typedef FEAT::LAFEM::DenseVector<double, Index> Vec;
  typedef FEAT::LAFEM::SparseMatrixCSR<double, Index> Mat;
  typedef FEAT::LAFEM::NoneFilter<double, Index> FNone;
  typedef FEAT::LAFEM::UnitFilter<double, Index> FUnit;

  enum { K_SOLVER = 0, K_REST = 1, K_PROL = 2 };
  enum { SL_PRE = 0, SL_POST = 1, SL_PEAK = 2, SL_CRS = 3 };
  enum { CY_V = 0, CY_F = 1, CY_W = 2 };
  enum { CGC_FIXED = 0, CGC_ENERGY = 1, CGC_DEFECT = 2 };
  inline const char* cycle_name(int c) { return c == CY_V ? "V" : (c == CY_F ? "F" : "W"); }
  inline const char* cgc_name(int c) { return c == CGC_FIXED ? "fixed" : (c == CGC_ENERGY ? "min_energy" : "min_defect"); }
  inline const char* slot_name(int s) { static const char* n[] = {"pre", "post", "peak", "crs"}; return (s >= 0 && s < 4) ? n[s] : "?"; }
  const LD U = (LD)std::numeric_limits<double>::epsilon();

  // ---------------------------------------------------------------- harness-side sparse matrix (generator-owned truth)
  struct HMat
  {
    Index r = 0, c = 0;
    std::vector<Index> rp, ci;
    std::vector<double> v;

    static HMat from_trips(Index rows, Index cols, std::vector<vl::Trip> t)
    {
      std::sort(t.begin(), t.end(), [](const vl::Trip& a, const vl::Trip& b) { return a.r != b.r ? a.r < b.r : a.c < b.c; });
      HMat m; m.r = rows; m.c = cols; m.rp.assign(rows + 1, 0);
      for(std::size_t i = 0; i < t.size(); ++i)
      {
        if(!m.ci.empty() && i > 0 && t[i].r == t[i - 1].r && t[i].c == t[i - 1].c) { m.v.back() += t[i].v; continue; }
        m.ci.push_back(t[i].c); m.v.push_back(t[i].v); ++m.rp[t[i].r + 1];
      }
      for(Index i = 0; i < rows; ++i) m.rp[i + 1] += m.rp[i];
      return m;
    }
    static HMat from_dense(Index rows, Index cols, const std::vector<double>& a)
    {
      std::vector<vl::Trip> t;
      for(Index i = 0; i < rows; ++i) for(Index j = 0; j < cols; ++j) if(a[std::size_t(i) * cols + j] != 0.0) t.push_back({i, j, a[std::size_t(i) * cols + j]});
      return from_trips(rows, cols, t);
    }
    std::vector<vl::Trip> trips() const
    {
      std::vector<vl::Trip> t;
      for(Index i = 0; i < r; ++i) for(Index k = rp[i]; k < rp[i + 1]; ++k) t.push_back({i, ci[k], v[k]});
      return t;
    }
    HMat transposed() const
    {
      std::vector<vl::Trip> t;
      for(Index i = 0; i < r; ++i) for(Index k = rp[i]; k < rp[i + 1]; ++k) t.push_back({ci[k], i, v[k]});
      return from_trips(c, r, t);
    }
    vl::MatSpec spec() const
    {
      vl::MatSpec m; m.rows = r; m.cols = c; m.t = trips(); m.pattern = "c09"; return m;
    }
    std::size_t max_row() const { std::size_t mx = 0; for(Index i = 0; i < r; ++i) mx = std::max<std::size_t>(mx, rp[i + 1] - rp[i]); return mx; }
    // y = M x in long double; mag (optional) = |M||x|
    void mul(const LV& x, LV& y, LV* mag = nullptr) const
    {
      y.assign(r, 0.0L); if(mag) mag->assign(r, 0.0L);
      for(Index i = 0; i < r; ++i)
      {
        LD s = 0, a = 0;
        for(Index k = rp[i]; k < rp[i + 1]; ++k) { LD t = (LD)v[k] * x[ci[k]]; s += t; a += std::fabs(t); }
        y[i] = s; if(mag) (*mag)[i] = a;
      }
    }
    // y = M x on raw double arrays (long double accumulation, one rounding per component)
    void mul_raw(const double* x, double* y) const
    {
      for(Index i = 0; i < r; ++i)
      {
        LD s = 0;
        for(Index k = rp[i]; k < rp[i + 1]; ++k) s += (LD)v[k] * (LD)x[ci[k]];
        y[i] = (double)s;
      }
    }
  };

  inline LD nrm2(const LV& x) { LD s = 0; for(LD a : x) s += a * a; return std::sqrt(s); }
  inline LD dist2(const LV& x, const LV& y) { LD s = 0; for(std::size_t i = 0; i < x.size(); ++i) s += (x[i] - y[i]) * (x[i] - y[i]); return std::sqrt(s); }
  inline bool all_finite(const std::vector<double>& x) { for(double a : x) if(!std::isfinite(a)) return false; return true; }
  inline LV to_lv(const std::vector<double>& x) { return LV(x.begin(), x.end()); }
  inline std::vector<double> read_vec(const Vec& x) { const double* e = x.elements(); return std::vector<double>(e, e + x.size()); }

  // dense inverse (Gauss-Jordan with partial pivoting, long double); returns false if singular
  inline bool dense_inverse(const HMat& A, std::vector<double>& inv)
  {
    const Index n = A.r; std::vector<LD> a(std::size_t(n) * n, 0.0L), b(std::size_t(n) * n, 0.0L);
    for(Index i = 0; i < n; ++i) { for(Index k = A.rp[i]; k < A.rp[i + 1]; ++k) a[std::size_t(i) * n + A.ci[k]] = A.v[k]; b[std::size_t(i) * n + i] = 1; }
    for(Index p = 0; p < n; ++p)
    {
      Index q = p; for(Index i = p + 1; i < n; ++i) if(std::fabs(a[std::size_t(i) * n + p]) > std::fabs(a[std::size_t(q) * n + p])) q = i;
      if(a[std::size_t(q) * n + p] == 0) return false;
      if(q != p) for(Index j = 0; j < n; ++j) { std::swap(a[std::size_t(p) * n + j], a[std::size_t(q) * n + j]); std::swap(b[std::size_t(p) * n + j], b[std::size_t(q) * n + j]); }
      LD d = 1 / a[std::size_t(p) * n + p];
      for(Index j = 0; j < n; ++j) { a[std::size_t(p) * n + j] *= d; b[std::size_t(p) * n + j] *= d; }
      for(Index i = 0; i < n; ++i) if(i != p)
      {
        LD f = a[std::size_t(i) * n + p]; if(f == 0) continue;
        for(Index j = 0; j < n; ++j) { a[std::size_t(i) * n + j] -= f * a[std::size_t(p) * n + j]; b[std::size_t(i) * n + j] -= f * b[std::size_t(p) * n + j]; }
      }
    }
    inv.resize(std::size_t(n) * n); for(std::size_t i = 0; i < inv.size(); ++i) inv[i] = (double)b[i];
    return true;
  }

  // ---------------------------------------------------------------- hierarchy specification (generator-owned)
  struct LevelSpec
  {
    Index n = 0;
    HMat A;                    // level matrix
    HMat P, R;                 // transfer between this level (fine) and the next coarser level l+1 (unused on the last level)
    bool has[4] = {false, false, false, false};   // pre / post / peak / coarse solver given?
    int canon[4] = {0, 1, 2, 3};                  // object identity of a role (roles may share one solver object)
    HMat S[4];                 // operator of the solver *object* (indexed by canonical slot)
    std::vector<Index> fidx;   // unit-filter index set (sorted; empty for NoneFilter)
    std::vector<double> fval;
  };
  struct HierSpec
  {
    int L = 0;                 // levels above the coarsest physical level; level 0 = finest
    bool unit = false;
    std::vector<LevelSpec> lv;
  };

  // ---------------------------------------------------------------- observed call log
  struct ObsEv
  {
    int kind = 0, level = 0, obj = -1;
    std::vector<double> in, out;                 // input handed to the object / output written by it
    std::vector<double> sol_before, rhs_lvl, sol_after;   // prol events: peeked level state (omega monitor)
  };
  inline std::string ev_name(int kind, int level, int obj)
  {
    if(kind == K_REST) return "r" + std::to_string(level);
    if(kind == K_PROL) return "p" + std::to_string(level);
    return std::string(slot_name(obj)) + std::to_string(level);
  }
  struct Logger
  {
    std::vector<ObsEv> ev;
    std::vector<std::string> bad;                // calls that must never happen (ghost transfer, size mismatch, aliasing)
    bool rec = true;                             // record vectors?
    std::function<void(int, std::vector<double>*, std::vector<double>*)> peek;  // (level, sol, rhs)
    int pending = -1;
    void flush()
    {
      if(pending >= 0 && peek) peek(ev[std::size_t(pending)].level, &ev[std::size_t(pending)].sol_after, nullptr);
      pending = -1;
    }
    ObsEv& add(int kind, int level, int obj, const Vec& in)
    {
      flush();
      ev.emplace_back(); ObsEv& e = ev.back(); e.kind = kind; e.level = level; e.obj = obj;
      if(rec) e.in = read_vec(in);
      return e;
    }
    void clear() { ev.clear(); bad.clear(); pending = -1; }
    std::string word(std::size_t from = 0, std::size_t maxn = 60) const
    {
      std::string s;
      for(std::size_t i = from; i < ev.size() && i < from + maxn; ++i) { if(!s.empty()) s += ' '; s += ev_name(ev[i].kind, ev[i].level, ev[i].obj); }
      if(ev.size() > from + maxn) s += " ...";
      return s;
    }
  };

  // smoother / coarse solver: multiplies by a fixed, harness-owned matrix and logs the call
  class LogSolver : public FEAT::Solver::SolverBase<Vec>
  {
  public:
    Logger* lg; int level, obj; const HMat* S;
    int n_sym = 0, n_num = 0;
    LogSolver(Logger* l, int lvl, int o, const HMat* s) : lg(l), level(lvl), obj(o), S(s) {}
    virtual FEAT::String name() const override { return "LogSolver"; }
    virtual void init_symbolic() override { ++n_sym; }
    virtual void done_symbolic() override { --n_sym; }
    virtual void init_numeric() override { ++n_num; }
    virtual void done_numeric() override { --n_num; }
    virtual FEAT::Solver::Status apply(Vec& cor, const Vec& def) override
    {
      ObsEv& e = lg->add(K_SOLVER, level, obj, def);
      if(def.size() != S->c || cor.size() != S->r) { lg->bad.push_back("size mismatch in " + ev_name(K_SOLVER, level, obj)); return FEAT::Solver::Status::aborted; }
      if(cor.elements() == def.elements()) { lg->bad.push_back("aliased vectors in " + ev_name(K_SOLVER, level, obj)); return FEAT::Solver::Status::aborted; }
      if(n_sym != 1 || n_num != 1) lg->bad.push_back("solver applied while not initialised exactly once: " + ev_name(K_SOLVER, level, obj));
      S->mul_raw(def.elements(), cor.elements());
      if(lg->rec) e.out = read_vec(cor);
      return FEAT::Solver::Status::success;
    }
  };

  // transfer operator: the interface MultiGrid needs (is_ghost, prol, rest, prol_recv, rest_send)
  class LogTransfer
  {
  public:
    Logger* lg; int level; const HMat* P; const HMat* R;
    LogTransfer(Logger* l, int lvl, const HMat* p, const HMat* r) : lg(l), level(lvl), P(p), R(r) {}
    bool is_ghost() const { return false; }
    bool prol(Vec& fine, const Vec& coarse) const
    {
      ObsEv& e = lg->add(K_PROL, level, -1, coarse);
      if(coarse.size() != P->c || fine.size() != P->r) { lg->bad.push_back("size mismatch in p" + std::to_string(level)); return false; }
      if(lg->rec && lg->peek) lg->peek(level, &e.sol_before, &e.rhs_lvl);
      P->mul_raw(coarse.elements(), fine.elements());
      if(lg->rec) { e.out = read_vec(fine); lg->pending = int(lg->ev.size()) - 1; }
      return true;
    }
    bool rest(const Vec& fine, Vec& coarse) const
    {
      ObsEv& e = lg->add(K_REST, level, -1, fine);
      if(coarse.size() != R->r || fine.size() != R->c) { lg->bad.push_back("size mismatch in r" + std::to_string(level)); return false; }
      R->mul_raw(fine.elements(), coarse.elements());
      if(lg->rec) e.out = read_vec(coarse);
      return true;
    }
    bool prol_recv(Vec&) const { lg->bad.push_back("prol_recv called on a non-ghost transfer, level " + std::to_string(level)); return false; }
    bool rest_send(const Vec&) const { lg->bad.push_back("rest_send called on a non-ghost transfer, level " + std::to_string(level)); return false; }
  };

  // transfer operator of the 'history' families: the REAL LAFEM::Transfer (code under test) built from the generator-owned
  // P / R, wrapped so that every call is logged (input before, output after the call) exactly like LogTransfer does
  class RealTransfer
  {
  public:
    Logger* lg; int level; const HMat* P; const HMat* R;
    FEAT::LAFEM::Transfer<Mat> xf;
    RealTransfer(Logger* l, int lvl, const HMat* p, const HMat* r) :
      lg(l), level(lvl), P(p), R(r), xf(vl::make_csr<double, Index>(p->spec()), vl::make_csr<double, Index>(r->spec())) {}
    bool is_ghost() const { return xf.is_ghost(); }
    bool prol(Vec& fine, const Vec& coarse) const
    {
      ObsEv& e = lg->add(K_PROL, level, -1, coarse);
      if(coarse.size() != P->c || fine.size() != P->r) { lg->bad.push_back("size mismatch in p" + std::to_string(level)); return false; }
      if(lg->rec && lg->peek) lg->peek(level, &e.sol_before, &e.rhs_lvl);
      const bool ok = xf.prol(fine, coarse);
      if(lg->rec) { e.out = read_vec(fine); lg->pending = int(lg->ev.size()) - 1; }
      return ok;
    }
    bool rest(const Vec& fine, Vec& coarse) const
    {
      ObsEv& e = lg->add(K_REST, level, -1, fine);
      if(coarse.size() != R->r || fine.size() != R->c) { lg->bad.push_back("size mismatch in r" + std::to_string(level)); return false; }
      const bool ok = xf.rest(fine, coarse);
      if(lg->rec) e.out = read_vec(coarse);
      return ok;
    }
    bool prol_recv(Vec&) const { lg->bad.push_back("prol_recv called on a non-ghost transfer, level " + std::to_string(level)); return false; }
    bool rest_send(const Vec&) const { lg->bad.push_back("rest_send called on a non-ghost transfer, level " + std::to_string(level)); return false; }
  };

  // ---------------------------------------------------------------- the FEAT objects of one hierarchy
  template<typename Filter_, typename Transfer_ = LogTransfer>
  class PeekHier : public FEAT::Solver::MultiGridHierarchy<Mat, Filter_, Transfer_>
  {
  public:
    typedef FEAT::Solver::MultiGridHierarchy<Mat, Filter_, Transfer_> Base;
    explicit PeekHier(std::size_t nv) : Base(nv) {}
    // read-only observation of the level work vectors (omega monitor)
    void peek(int level, std::vector<double>* sol, std::vector<double>* rhs)
    {
      typename Base::LevelInfo& li = this->_get_level_info(Index(level));
      if(sol) *sol = read_vec(li.vec_sol);
      if(rhs) *rhs = read_vec(li.vec_rhs);
    }
  };

  template<typename Filter_> struct FilterMake;
  template<> struct FilterMake<FNone> { static FNone make(const LevelSpec&) { return FNone(); } };
  template<> struct FilterMake<FUnit>
  {
    static FUnit make(const LevelSpec& s) { FUnit f(s.n); for(std::size_t k = 0; k < s.fidx.size(); ++k) f.add(s.fidx[k], s.fval[k]); return f; }
  };

  inline FEAT::Solver::MultiGridCycle feat_cycle(int c)
  { return c == CY_V ? FEAT::Solver::MultiGridCycle::V : (c == CY_F ? FEAT::Solver::MultiGridCycle::F : FEAT::Solver::MultiGridCycle::W); }
  inline FEAT::Solver::MultiGridAdaptCGC feat_cgc(int c)
  { return c == CGC_FIXED ? FEAT::Solver::MultiGridAdaptCGC::Fixed : (c == CGC_ENERGY ? FEAT::Solver::MultiGridAdaptCGC::MinEnergy : FEAT::Solver::MultiGridAdaptCGC::MinDefect); }

  template<typename Filter_, typename Transfer_ = LogTransfer>
  struct Rig
  {
    typedef PeekHier<Filter_, Transfer_> Hier;
    typedef typename Hier::Base HierBase;
    typedef FEAT::Solver::MultiGrid<Mat, Filter_, Transfer_> MG;
    Logger lg;
    std::deque<Mat> mats;
    std::deque<Filter_> filts;
    std::deque<Transfer_> trans;
    std::vector<std::array<std::shared_ptr<LogSolver>, 4>> solv;
    std::shared_ptr<Hier> hier;
    std::shared_ptr<MG> mg;

    Rig(const HierSpec& H, int top, int crs, int cycle, bool crs_negative)
    {
      const int nl = H.L + 1;
      hier = std::make_shared<Hier>(std::size_t(nl));
      solv.resize(std::size_t(nl));
      for(int l = 0; l < nl; ++l)
      {
        const LevelSpec& s = H.lv[std::size_t(l)];
        mats.push_back(vl::make_csr<double, Index>(s.A.spec()));
        filts.push_back(FilterMake<Filter_>::make(s));
        auto& so = solv[std::size_t(l)];
        for(int q = 0; q < 4; ++q)
        {
          if(!s.has[q]) continue;
          const int cq = s.canon[q];
          if(cq != q) so[std::size_t(q)] = so[std::size_t(cq)];    // shared object (canonical slot is always smaller)
          else so[std::size_t(q)] = std::make_shared<LogSolver>(&lg, l, q, &s.S[q]);
        }
        if(l < H.L)
        {
          trans.emplace_back(&lg, l, &s.P, &s.R);
          hier->push_level(mats.back(), filts.back(), trans.back(), so[SL_PRE], so[SL_POST], so[SL_PEAK], so[SL_CRS]);
        }
        else
          hier->push_level(mats.back(), filts.back(), so[SL_CRS]);
      }
      Hier* hp = hier.get();
      lg.peek = [hp](int level, std::vector<double>* sol, std::vector<double>* rhs) { hp->peek(level, sol, rhs); };
      hier->init();
      mg = FEAT::Solver::new_multigrid(std::shared_ptr<HierBase>(hier), feat_cycle(cycle), top, crs_negative ? crs - nl : crs);
      mg->init();
    }
    ~Rig()
    {
      lg.peek = nullptr;
      if(mg) mg->done();
      if(hier) hier->done();
      mg.reset(); hier.reset();
    }
  };

  // ---------------------------------------------------------------- independent recursive model of the documented cycle
  struct ExpEv { int kind, level, obj; LV in; };

  struct Model
  {
    const HierSpec& H; int top, crs, cycle, cgc; LD eta; vh::Rng rng;
    std::vector<LV> rhs, sol, def;
    std::vector<ExpEv> ev;
    std::vector<LD> omegas;
    bool keep_inputs = true;
    LD maxnorm = 0;

    Model(const HierSpec& h, int t, int cr, int cy, int cg, LD e, std::uint64_t seed)
      : H(h), top(t), crs(cr), cycle(cy), cgc(cg), eta(e), rng(seed)
    { rhs.resize(std::size_t(H.L + 1)); sol.resize(std::size_t(H.L + 1)); def.resize(std::size_t(H.L + 1)); }

    const LevelSpec& lv(int l) const { return H.lv[std::size_t(l)]; }
    // rounding model: relative part (eta x the section-4 magnitude of the operation) + absolute floor (quantities that are
    // exactly zero in exact arithmetic are rounding noise of size ~u x scale in the code under test)
    LD floor_abs = 0;
    // 'history' families only (both default to false = the behaviour of the original families):
    // exact_zeros: an operation all of whose terms are exactly zero (mag == 0) is exact in IEEE arithmetic -> no noise, no floor
    // exact_first_rest: generator guarantee that the first restriction from the top level is evaluated exactly (R*def == 0
    //   with exactly representable products and partial sums in any summation order) -> that product carries no noise
    bool exact_zeros = false, exact_first_rest = false, first_rest_done = false;
    void noise(LV& z, const LV& mag)
    {
      if(eta == 0) return;
      for(std::size_t i = 0; i < z.size(); ++i)
      {
        if(exact_zeros && mag[i] == 0) continue;
        z[i] += eta * (LD)rng.real(-1.0, 1.0) * mag[i] + floor_abs * (LD)rng.real(-1.0, 1.0);
      }
    }
    void noise1(LD& z, LD mag) { if(eta != 0) z += eta * (LD)rng.real(-1.0, 1.0) * mag; }
    void filt(int l, LV& z) const { for(Index i : lv(l).fidx) z[i] = 0; }
    void emit(int kind, int l, int obj, const LV& in)
    {
      ev.push_back(ExpEv{kind, l, obj, keep_inputs ? in : LV()});
      maxnorm = std::max(maxnorm, nrm2(in));
    }
    // z := x + a*y with rounding-noise model
    void axpy(LV& x, LD a, const LV& y)
    {
      LV mag(x.size());
      for(std::size_t i = 0; i < x.size(); ++i) { mag[i] = std::fabs(x[i]) + std::fabs(a * y[i]); x[i] += a * y[i]; }
      noise(x, mag);
    }
    // def_l := filter_def(rhs_l - A_l sol_l)
    void calc_def(int l)
    {
      LV y, m; lv(l).A.mul(sol[std::size_t(l)], y, &m);
      LV& d = def[std::size_t(l)]; const LV& b = rhs[std::size_t(l)];
      d.resize(b.size());
      for(std::size_t i = 0; i < b.size(); ++i) { d[i] = b[i] - y[i]; m[i] += std::fabs(b[i]); }
      noise(d, m); filt(l, d);
    }
    // smoothing step in defect form (peak smoothing): sol += filter_cor(S def); def := filter_def(rhs - A sol)
    void smooth_def(int l, int slot)
    {
      emit(K_SOLVER, l, lv(l).canon[slot], def[std::size_t(l)]);
      LV y, m; lv(l).S[lv(l).canon[slot]].mul(def[std::size_t(l)], y, &m);
      noise(y, m); filt(l, y);
      axpy(sol[std::size_t(l)], 1, y);
      calc_def(l);
    }
    void pre(int l)
    {
      const std::size_t z = std::size_t(l);
      if(lv(l).has[SL_PRE])
      {
        emit(K_SOLVER, l, lv(l).canon[SL_PRE], rhs[z]);
        LV m; lv(l).S[lv(l).canon[SL_PRE]].mul(rhs[z], sol[z], &m); noise(sol[z], m);
        calc_def(l);
      }
      else
      {
        // no pre-smoother: sol := 0, def := rhs
        sol[z].assign(rhs[z].size(), 0.0L); def[z] = rhs[z]; filt(l, def[z]);
      }
    }
    void post(int l)
    {
      if(!lv(l).has[SL_POST]) return;
      const std::size_t z = std::size_t(l);
      calc_def(l);
      emit(K_SOLVER, l, lv(l).canon[SL_POST], def[z]);
      LV y, m; lv(l).S[lv(l).canon[SL_POST]].mul(def[z], y, &m); noise(y, m);
      // (code, not documented: the post-smoother's correction is not passed through filter_cor)
      axpy(sol[z], 1, y);
    }
    void peak(int l)
    {
      calc_def(l);
      if(lv(l).has[SL_PEAK]) smooth_def(l, SL_PEAK);
      else
      {
        // documented: without an explicit peak-smoother both the pre- and the post-smoother (if given) are used
        if(lv(l).has[SL_PRE]) smooth_def(l, SL_PRE);
        if(lv(l).has[SL_POST]) smooth_def(l, SL_POST);
      }
    }
    void coarse()
    {
      const std::size_t z = std::size_t(crs);
      if(lv(crs).has[SL_CRS])
      {
        emit(K_SOLVER, crs, lv(crs).canon[SL_CRS], rhs[z]);
        LV m; lv(crs).S[lv(crs).canon[SL_CRS]].mul(rhs[z], sol[z], &m); noise(sol[z], m);
      }
      else { sol[z] = rhs[z]; filt(crs, sol[z]); }   // identity solver + filter_cor
    }
    void corr(int l, int child_shape)
    {
      const std::size_t z = std::size_t(l);
      emit(K_REST, l, -1, def[z]);
      {
        LV m; lv(l).R.mul(def[z], rhs[z + 1], &m);
        if(!(exact_first_rest && l == top && !first_rest_done)) noise(rhs[z + 1], m);
        first_rest_done = true;
        filt(l + 1, rhs[z + 1]);
      }
      visit(l + 1, child_shape);
      emit(K_PROL, l, -1, sol[z + 1]);
      LV c, m; lv(l).P.mul(sol[z + 1], c, &m); noise(c, m); filt(l, c);
      LD om = 1;
      if(cgc != CGC_FIXED)
      {
        LV t, mt; lv(l).A.mul(c, t, &mt); noise(t, mt); filt(l, t);
        LD num = 0, den = 0, anum = 0, aden = 0;
        const LV& d = def[z];
        for(std::size_t i = 0; i < c.size(); ++i)
        {
          if(cgc == CGC_ENERGY) { num += d[i] * c[i]; anum += std::fabs(d[i] * c[i]); den += t[i] * c[i]; aden += std::fabs(t[i] * c[i]); }
          else { num += d[i] * t[i]; anum += std::fabs(d[i] * t[i]); den += t[i] * t[i]; aden += t[i] * t[i]; }
        }
        noise1(num, anum); noise1(den, aden);
        om = (den != 0) ? num / den : 0;          // c == 0: every step length gives the same result
      }
      omegas.push_back(om);
      axpy(sol[z], om, c);
    }
    void visit(int l, int shape)
    {
      if(l == crs) { coarse(); return; }
      pre(l);
      const bool doubled = (shape == CY_W) || (shape == CY_F && l != top);
      corr(l, shape);
      if(doubled) { peak(l); corr(l, shape == CY_F ? CY_V : shape); }
      post(l);
    }
    LV run(const std::vector<double>& d)
    {
      ev.clear(); omegas.clear(); maxnorm = 0; first_rest_done = false;
      rhs[std::size_t(top)] = to_lv(d);
      visit(top, cycle);
      return sol[std::size_t(top)];
    }
  };

  // reference with a rounding-sensitivity estimate: run 0 is exact long double, the other runs inject componentwise
  // perturbations of relative size eta = 2^-36 (>= 1000 x the worst-case double rounding of every operation, measured
  // against |M||x| resp. |x|+|y|, i.e. the quantities of the section-4 bound) plus an absolute floor of 2^-44 x the
  // largest vector norm of the cycle after every operation.  The floor makes cycles whose adaptive step length is a 0/0
  // on rounding noise (exact coarse grid correction = 0) show up as ill-conditioned instead of as a wrong value.
  struct Reference
  {
    std::vector<ExpEv> ev; std::vector<LD> evdev; LV res; LD resdev = 0, maxnorm = 0; std::vector<LD> omegas;
  };
  inline Reference make_reference(const HierSpec& H, int top, int crs, int cycle, int cgc, const std::vector<double>& d,
                                  std::uint64_t seed, bool keep_inputs = true, bool exact_zeros = false, bool exact_first_rest = false)
  {
    Reference R;
    Model m0(H, top, crs, cycle, cgc, 0.0L, seed); m0.keep_inputs = keep_inputs;
    R.res = m0.run(d); R.ev = std::move(m0.ev); R.maxnorm = m0.maxnorm; R.omegas = m0.omegas;
    R.evdev.assign(R.ev.size(), 0.0L);
    if(!keep_inputs) return R;
    const LD eta = std::ldexp(1.0L, -36);
    for(int rr = 1; rr <= 2; ++rr)
    {
      Model mp(H, top, crs, cycle, cgc, eta, vh::mix64(seed + std::uint64_t(rr)));
      mp.floor_abs = std::ldexp(R.maxnorm, -44);
      mp.exact_zeros = exact_zeros; mp.exact_first_rest = exact_first_rest;
      LV rp = mp.run(d);
      R.resdev = std::max(R.resdev, dist2(rp, R.res));
      for(std::size_t i = 0; i < R.ev.size() && i < mp.ev.size(); ++i) R.evdev[i] = std::max(R.evdev[i], dist2(mp.ev[i].in, R.ev[i].in));
    }
    return R;
  }
  inline LD tol_of(LD dev, LD refnorm, std::size_t n) { return 4 * dev + 64 * U * LD(n + 4) * refnorm + 1e-300L; }

  // ---------------------------------------------------------------- statement-level trace facts (independent of the model)
  // number of descents onto the coarse level and the sequence of inner peak levels, read off the observed transfer calls
  struct TraceFacts { long n_coarse_visits = 0; std::vector<int> peaks; };
  inline TraceFacts trace_facts(const std::vector<ObsEv>& ev, int crs)
  {
    TraceFacts f; int last_kind = -1, last_level = -1;
    for(const ObsEv& e : ev)
    {
      if(e.kind == K_SOLVER) continue;
      if(e.kind == K_REST && e.level == crs - 1) ++f.n_coarse_visits;
      if(e.kind == K_REST && last_kind == K_PROL && last_level == e.level) f.peaks.push_back(e.level);
      last_kind = e.kind; last_level = e.level;
    }
    return f;
  }
  inline std::vector<int> stated_peaks(int cycle, int top, int crs)
  {
    std::vector<int> p; const int L = crs - top;
    if(cycle == CY_F) for(int l = crs - 1; l > top; --l) p.push_back(l);
    if(cycle == CY_W) for(long k = 1; k < (1L << L); ++k) { int z = 0; while(((k >> z) & 1) == 0) ++z; p.push_back(crs - 1 - z); }
    return p;
  }
  inline long stated_coarse_solves(int cycle, int top, int crs)
  {
    const int L = crs - top;
    if(L == 0) return 1;
    return cycle == CY_V ? 1 : (cycle == CY_F ? L : (1L << L));
  }

  // compares the observed log with the expected word; returns false (and reports) on the first difference
  inline bool check_trace(vh::Ctx& c, const Logger& lg, const Reference& ref, int cycle, int top, int crs, bool has_crs_solver, const char* which)
  {
    bool ok = true;
    for(const std::string& b : lg.bad) { c.viol("mg.trace", "unexpected-call", vh::J().kv("what", b).kv("application", which).str()); ok = false; }
    c.event();
    std::size_t i = 0; const std::size_t no = lg.ev.size(), ne = ref.ev.size();
    while(i < no && i < ne && lg.ev[i].kind == ref.ev[i].kind && lg.ev[i].level == ref.ev[i].level && lg.ev[i].obj == ref.ev[i].obj) ++i;
    if(i < no || i < ne)
    {
      std::string exp;
      for(std::size_t j = (i > 6 ? i - 6 : 0); j < ne && j < i + 12; ++j) { if(!exp.empty()) exp += ' '; exp += ev_name(ref.ev[j].kind, ref.ev[j].level, ref.ev[j].obj); }
      c.viol("mg.trace", "wrong-sequence", vh::J().kv("application", which).kv("first_difference_at", (unsigned long)i)
        .kv("observed_calls", (unsigned long)no).kv("expected_calls", (unsigned long)ne)
        .kv("observed_from", lg.word(i > 6 ? i - 6 : 0, 18)).kv("expected_from", exp).str());
      ok = false;
    }
    // the explicit clauses of the statement
    TraceFacts f = trace_facts(lg.ev, crs);
    const long want = stated_coarse_solves(cycle, top, crs);
    long got = f.n_coarse_visits;
    if(crs == top) got = 1;   // no transfer at all: the single visit is not observable through transfer calls
    long solver_calls = 0; for(const ObsEv& e : lg.ev) if(e.kind == K_SOLVER && e.level == crs && e.obj == SL_CRS) ++solver_calls;
    c.event();
    if(got != want || (has_crs_solver && solver_calls != want))
    {
      c.viol("mg.trace", "coarse-count", vh::J().kv("application", which).kv("coarse_visits", got).kv("coarse_solver_calls", solver_calls).kv("stated", want).str());
      ok = false;
    }
    c.event();
    if(f.peaks != stated_peaks(cycle, top, crs))
    {
      c.viol("mg.trace", "peak-order", vh::J().kv("application", which).raw("observed_peaks", vh::jarr(f.peaks)).raw("stated_peaks", vh::jarr(stated_peaks(cycle, top, crs))).str());
      ok = false;
    }
    return ok;
  }

  // ---------------------------------------------------------------- generators
  inline HMat gen_spd(vh::Rng& r, Index n, std::string& kind)
  {
    std::vector<double> a(std::size_t(n) * n, 0.0);
    if(r.coin(0.6))
    {
      kind = "diagdom";
      const double dens = r.pick<double>({0.1, 0.3, 0.7, 1.0});
      for(Index i = 0; i < n; ++i) for(Index j = i + 1; j < n; ++j) if(r.coin(dens)) a[std::size_t(i) * n + j] = a[std::size_t(j) * n + i] = r.real(-1.0, 1.0);
      for(Index i = 0; i < n; ++i) { double s = 0; for(Index j = 0; j < n; ++j) if(j != i) s += std::fabs(a[std::size_t(i) * n + j]); a[std::size_t(i) * n + i] = s + r.real(0.2, 1.5); }
    }
    else
    {
      kind = "gram";
      std::vector<double> b(std::size_t(n) * n); for(auto& x : b) x = r.real(-1.0, 1.0);
      const double delta = r.real(0.05, 0.5);
      for(Index i = 0; i < n; ++i) for(Index j = i; j < n; ++j)
      {
        LD s = 0; for(Index k = 0; k < n; ++k) s += (LD)b[std::size_t(k) * n + i] * b[std::size_t(k) * n + j];
        double v = double(s / LD(n)) + (i == j ? delta : 0.0);
        a[std::size_t(i) * n + j] = a[std::size_t(j) * n + i] = v;
      }
    }
    double md = 0; for(Index i = 0; i < n; ++i) md = std::max(md, a[std::size_t(i) * n + i]);
    for(auto& x : a) x /= md;
    // exact symmetry after scaling
    for(Index i = 0; i < n; ++i) for(Index j = i + 1; j < n; ++j) a[std::size_t(j) * n + i] = a[std::size_t(i) * n + j];
    return HMat::from_dense(n, n, a);
  }
  inline HMat gen_dense(vh::Rng& r, Index rows, Index cols, double scale)
  {
    std::vector<double> a(std::size_t(rows) * cols); for(auto& x : a) { x = r.real(-1.0, 1.0) * scale; if(x == 0.0) x = scale; }
    return HMat::from_dense(rows, cols, a);
  }
  // full column rank prolongation (rows >= cols)
  inline HMat gen_prol(vh::Rng& r, Index nf, Index nc, std::string& kind)
  {
    if(r.coin(0.6)) { kind = "dense"; return gen_dense(r, nf, nc, 1.0 / std::sqrt(double(nc))); }
    // injection on a random subset of fine rows + sparse random rest  (identity block => full column rank)
    kind = "inj+sparse";
    std::vector<Index> rows(nf); for(Index i = 0; i < nf; ++i) rows[i] = i; r.shuffle(rows);
    std::vector<vl::Trip> t; std::vector<char> is_inj(nf, 0);
    for(Index j = 0; j < nc; ++j) { t.push_back({rows[j], j, 1.0}); is_inj[rows[j]] = 1; }
    for(Index i = 0; i < nf; ++i) if(!is_inj[i]) for(Index j = 0; j < nc; ++j) if(r.coin(0.4)) t.push_back({i, j, r.real(-0.7, 0.7)});
    return HMat::from_trips(nf, nc, t);
  }
  inline HMat gen_smoother(vh::Rng& r, const HMat& A, bool coarse, std::string& kind)
  {
    const Index n = A.r;
    const int style = int(r.below(coarse ? 3 : 2));
    if(style == 2 && n <= 60)
    {
      std::vector<double> inv;
      if(dense_inverse(A, inv)) { kind = "exact"; return HMat::from_dense(n, n, inv); }
    }
    if(style == 1)
    {
      kind = "jacobi"; const double om = r.real(0.4, 1.0);
      std::vector<vl::Trip> t;
      for(Index i = 0; i < n; ++i) for(Index k = A.rp[i]; k < A.rp[i + 1]; ++k) if(A.ci[k] == i) t.push_back({i, i, om / A.v[k]});
      return HMat::from_trips(n, n, t);
    }
    kind = "random";
    return gen_dense(r, n, n, r.real(0.3, 1.0) / std::sqrt(double(n)));
  }

  inline HierSpec gen_hier(vh::Rng& r, bool unit, bool thorough, int L, int mask)
  {
    HierSpec H; H.unit = unit; H.L = L;
    const int nl = L + 1; H.lv.resize(std::size_t(nl));
    const Index maxn = (thorough && r.coin(0.04)) ? 120 : 40;
    std::vector<Index> n(static_cast<std::size_t>(nl));
    n[std::size_t(nl - 1)] = Index(r.range(1, 5));
    for(int l = nl - 2; l >= 0; --l)
    {
      const Index nc = n[std::size_t(l + 1)];
      const Index g = r.coin(0.08) ? 0 : Index(r.range(1, long(nc) + 2));
      n[std::size_t(l)] = std::min<Index>(maxn, nc + g);
    }
    for(int l = 0; l < nl; ++l)
    {
      LevelSpec& s = H.lv[std::size_t(l)]; s.n = n[std::size_t(l)];
      std::string k;
      s.A = gen_spd(r, s.n, k);
      if(l < L)
      {
        const Index nc = n[std::size_t(l + 1)];
        s.P = gen_prol(r, s.n, nc, k);
        if(r.coin(0.4)) s.R = s.P.transposed(); else s.R = gen_dense(r, nc, s.n, 1.0 / std::sqrt(double(s.n)));
      }
      for(int q = 0; q < 4; ++q) s.has[q] = ((mask >> q) & 1) != 0;
      if(r.coin(0.25)) for(int q = 0; q < 4; ++q) if(r.coin(0.5)) s.has[q] = !s.has[q];
      if(l == L) s.has[SL_PRE] = s.has[SL_POST] = s.has[SL_PEAK] = false;   // the last level is pushed with the 3-argument form
      for(int q = 0; q < 4; ++q) s.canon[q] = q;
      if(s.has[SL_PRE] && s.has[SL_POST] && r.coin(0.15)) s.canon[SL_POST] = SL_PRE;
      if(s.has[SL_PRE] && s.has[SL_PEAK] && r.coin(0.10)) s.canon[SL_PEAK] = SL_PRE;
      for(int q = 0; q < 4; ++q) if(s.has[q] && s.canon[q] == q) s.S[q] = gen_smoother(r, s.A, q == SL_CRS, k);
      if(unit && !r.coin(0.25))
      {
        for(Index i = 0; i < s.n; ++i) if(r.coin(0.2)) { s.fidx.push_back(i); s.fval.push_back(r.real(0.5, 2.0)); }
        if(s.fidx.size() == std::size_t(s.n)) { s.fidx.pop_back(); s.fval.pop_back(); }
      }
    }
    return H;
  }

  inline std::string role_class(const HierSpec& H, int top, int crs, int slot)
  {
    int yes = 0, tot = 0;
    for(int l = top; l < crs; ++l) { ++tot; if(H.lv[std::size_t(l)].has[slot]) ++yes; }
    return tot == 0 ? "na" : (yes == 0 ? "none" : (yes == tot ? "all" : "some"));
  }

  // ---------------------------------------------------------------- omega monitor
  // For every prolongation the update of the fine-level solution must be  sol += omega * filter_cor(P c)  with omega = 1
  // (fixed) or the documented minimiser computed from the level state that was observed when the prolongation was called.
  inline void check_omega(vh::Ctx& c, const HierSpec& H, int cgc, const Logger& lg, const char* which)
  {
    for(std::size_t j = 0; j < lg.ev.size(); ++j)
    {
      const ObsEv& e = lg.ev[j];
      if(e.kind != K_PROL || e.out.empty() || e.sol_after.empty() || e.sol_before.empty()) continue;
      const LevelSpec& s = H.lv[std::size_t(e.level)];
      const std::size_t n = s.n;
      if(e.sol_before.size() != n || e.sol_after.size() != n || e.rhs_lvl.size() != n || e.out.size() != n) continue;
      if(!all_finite(e.sol_before) || !all_finite(e.rhs_lvl) || !all_finite(e.out)) { c.count("omega_skipped_nonfinite"); continue; }
      LV cf = to_lv(e.out); for(Index i : s.fidx) cf[i] = 0;
      LD cc = 0; for(LD a : cf) cc += a * a;
      if(cc == 0) { c.count("omega_skipped_zero_correction"); continue; }
      const LV sb = to_lv(e.sol_before), sa = to_lv(e.sol_after), b = to_lv(e.rhs_lvl);
      LD om_obs = 0, sbc = 0; for(std::size_t i = 0; i < n; ++i) { om_obs += (sa[i] - sb[i]) * cf[i]; sbc += std::fabs(sb[i] * cf[i]); }
      om_obs /= cc;
      LD om_exp = 1, tol_formula = 0;
      if(cgc != CGC_FIXED)
      {
        const LD g = 8 * U * LD(s.A.max_row() + 4), gd = 8 * U * LD(n + 4);
        LV y, my, t, mt; s.A.mul(sb, y, &my); s.A.mul(cf, t, &mt);
        LV d(n), ed(n), et(n);
        for(std::size_t i = 0; i < n; ++i) { d[i] = b[i] - y[i]; ed[i] = g * (my[i] + std::fabs(b[i])); et[i] = g * mt[i]; }
        for(Index i : s.fidx) { d[i] = 0; t[i] = 0; ed[i] = 0; et[i] = 0; }
        LD num = 0, den = 0, dnum = 0, dden = 0;
        for(std::size_t i = 0; i < n; ++i)
        {
          if(cgc == CGC_ENERGY)
          { num += d[i] * cf[i]; den += t[i] * cf[i]; dnum += ed[i] * std::fabs(cf[i]) + gd * std::fabs(d[i] * cf[i]); dden += et[i] * std::fabs(cf[i]) + gd * std::fabs(t[i] * cf[i]); }
          else
          { num += d[i] * t[i]; den += t[i] * t[i]; dnum += ed[i] * std::fabs(t[i]) + std::fabs(d[i]) * et[i] + gd * std::fabs(d[i] * t[i]); dden += 2 * et[i] * std::fabs(t[i]) + gd * t[i] * t[i]; }
        }
        if(!(std::fabs(den) > 4 * dden)) { c.count("omega_skipped_illconditioned"); continue; }
        om_exp = num / den;
        tol_formula = (dnum + std::fabs(om_exp) * dden) / (std::fabs(den) - dden);
      }
      const LD tol_obs = U * (sbc + 2 * std::fabs(om_exp) * cc) / cc;
      const LD tol = 4 * (tol_formula + tol_obs) + 16 * U * std::fabs(om_exp);
      c.event(); c.count("omega_checked");
      if(!(std::fabs(om_obs - om_exp) <= tol))
      {
        c.viol("mg.omega", "wrong-step-length", vh::J().kv("application", which).kv("call", (unsigned long)j).kv("level", e.level)
          .kv("omega_observed", om_obs).kv("omega_documented", om_exp).kv("tolerance", tol).kv("cgc", cgc_name(cgc)).str());
        continue;
      }
      // the update itself: sol_after == sol_before + omega * c  componentwise
      for(std::size_t i = 0; i < n; ++i)
      {
        const LD want = sb[i] + om_exp * cf[i];
        const LD bound = 4 * U * (std::fabs(sb[i]) + std::fabs(sa[i]) + std::fabs(om_exp * cf[i])) + tol * std::fabs(cf[i]) + 1e-300L;
        if(!(std::fabs(sa[i] - want) <= bound))
        {
          c.viol("mg.omega", "wrong-update", vh::J().kv("application", which).kv("call", (unsigned long)j).kv("level", e.level).kv("component", (unsigned long)i)
            .kv("got", sa[i]).kv("expected", want).kv("omega", om_exp).str());
          break;
        }
      }
    }
  }
} // namespace c09
