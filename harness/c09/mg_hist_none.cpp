// C09 -- application histories on one hierarchy with the real LAFEM::Transfer, LAFEM::NoneFilter
#include "c09_hist.hpp"
VH_FAMILY(mg_hist_none) { c09::history_case<c09::FNone>(c, false); }
