// C09 -- one case of the random-hierarchy family (template on the filter type)
#pragma once
#include "c09.hpp"

namespace c09
{
  struct AppResult { std::vector<double> x; bool judged = false; };

  // runs one MultiGrid::apply on the rig and judges it against the recursive model
  template<typename Rig_>
  AppResult judge_application(vh::Ctx& c, const HierSpec& H, Rig_& rig, int top, int crs, int cycle, int cgc,
                              const std::vector<double>& d, const char* which, std::uint64_t refseed,
                              bool exact_zeros = false, bool exact_first_rest = false)
  {
    AppResult out;
    const std::size_t n = H.lv[std::size_t(top)].n;
    rig.lg.clear();
    Vec vd = vl::make_dv<double, Index>(d);
    Vec vx(Index(n), 777.0);
    const std::uint64_t h0 = vh::hash_bytes(vd.elements(), n * sizeof(double));
    FEAT::Solver::Status st = rig.mg->apply(vx, vd);
    rig.lg.flush();
    c.event();
    if(vh::hash_bytes(vd.elements(), n * sizeof(double)) != h0) c.viol("mg.apply", "input-modified", vh::J().kv("application", which).str());
    if(st != FEAT::Solver::Status::success) c.viol("mg.apply", "status", vh::J().kv("application", which).kv("status", int(st)).str());
    out.x = read_vec(vx);

    Reference ref = make_reference(H, top, crs, cycle, cgc, d, refseed, true, exact_zeros, exact_first_rest);
    const bool trace_ok = check_trace(c, rig.lg, ref, cycle, top, crs, H.lv[std::size_t(crs)].has[SL_CRS], which);
    c.count(std::string("coarse_solves_") + cycle_name(cycle), std::uint64_t(stated_coarse_solves(cycle, top, crs)));

    // result oracle
    const LV got = to_lv(out.x);
    const LD refn = nrm2(ref.res), tol = tol_of(ref.resdev, refn, n);
    c.event();
    if(c.verbose())
    {
      std::printf("[%s] %s cycle, cgc=%s, top=%d crs=%d: %zu calls: %s\n", which, cycle_name(cycle), cgc_name(cgc), top, crs, rig.lg.ev.size(), rig.lg.word(0, 200).c_str());
      std::printf("[%s] |ref|=%Lg |got-ref|=%Lg tol=%Lg (sensitivity %Lg)\n", which, refn, all_finite(out.x) ? dist2(got, ref.res) : (LD)NAN, tol, ref.resdev);
    }
    if(c.verbose() && trace_ok)
      for(std::size_t i = 0; i < rig.lg.ev.size(); ++i)
      {
        const ObsEv& e = rig.lg.ev[i];
        LD on = 0; for(double v : e.in) on += (LD)v * v;
        std::printf("  [%s] call %3zu %-6s |in| observed %.6Le expected %.6Le (sens %.2Le)", which, i, ev_name(e.kind, e.level, e.obj).c_str(), std::sqrt(on), nrm2(ref.ev[i].in), ref.evdev[i]);
        if(e.kind == K_PROL && !e.sol_after.empty()) { LD a = 0, b = 0, cc = 0; for(std::size_t q = 0; q < e.out.size(); ++q) { a += ((LD)e.sol_after[q] - e.sol_before[q]) * e.out[q]; cc += (LD)e.out[q] * e.out[q]; b += (LD)e.sol_before[q] * e.sol_before[q]; } std::printf("  |Pc|=%.3Le |sol_before|=%.3Le omega_obs~%.6Lg", std::sqrt(cc), std::sqrt(b), cc > 0 ? a / cc : (LD)NAN); }
        std::printf("\n");
      }
    if(!all_finite(out.x))
    {
      // structural fact about this execution: did an adaptive coarse grid correction see an exactly zero correction vector
      // (step length 0/0)?
      std::vector<std::string> extra; long zc_call = -1; int zc_level = -1;
      if(cgc != CGC_FIXED)
        for(std::size_t i = 0; i < rig.lg.ev.size() && zc_call < 0; ++i)
        {
          const ObsEv& e = rig.lg.ev[i];
          if(e.kind != K_PROL || e.out.empty() || !all_finite(e.out)) continue;
          bool zero = true; const auto& fi = H.lv[std::size_t(e.level)].fidx;
          for(std::size_t q = 0; q < e.out.size(); ++q) if(e.out[q] != 0.0 && !std::binary_search(fi.begin(), fi.end(), Index(q))) zero = false;
          if(zero) { zc_call = long(i); zc_level = e.level; }
        }
      if(zc_call >= 0) extra.push_back("zero_correction");
      c.viol("mg.apply", "non-finite", vh::J().kv("application", which).kv("cgc", cgc_name(cgc)).kv("zero_correction_at_call", zc_call).kv("zero_correction_level", zc_level)
        .raw("got", vh::jarr(out.x, 8)).raw("expected", vh::jarr(ref.res, 8)).str(), extra);
      return out;
    }
    if(refn > 0 && tol > 1e-4L * refn)
    {
      c.inconclusive("cycle too ill-conditioned for a numerical verdict (sensitivity estimate " + vh::jnum(ref.resdev / refn) + ")");
      c.count("illconditioned");
      return out;
    }
    out.judged = true;
    const LD err = dist2(got, ref.res);
    { const LD q = err / tol; c.count(q <= 1e-4L ? "result_err/tol<=1e-4" : (q <= 1e-2L ? "result_err/tol<=1e-2" : (q <= 1 ? "result_err/tol<=1" : "result_err/tol>1"))); }
    if(!(err <= tol))
      c.viol("mg.apply", "wrong-value", vh::J().kv("application", which).kv("error_2norm", err).kv("tolerance", tol).kv("ref_2norm", refn)
        .raw("got", vh::jarr(out.x, 8)).raw("expected", vh::jarr(ref.res, 8)).str());

    // every call must have received the vector the documented cycle hands to it
    if(trace_ok)
    {
      for(std::size_t i = 0; i < rig.lg.ev.size(); ++i)
      {
        const ObsEv& e = rig.lg.ev[i]; const ExpEv& x = ref.ev[i];
        c.event();
        bool bad = e.in.size() != x.in.size() || !all_finite(e.in);
        LD er = 0, tl = 0;
        if(!bad) { er = dist2(to_lv(e.in), x.in); tl = tol_of(ref.evdev[i], nrm2(x.in), x.in.size()) + 4 * U * ref.maxnorm; bad = !(er <= tl); }
        if(bad)
        {
          c.viol("mg.trace", "wrong-input", vh::J().kv("application", which).kv("call", (unsigned long)i).kv("name", ev_name(e.kind, e.level, e.obj))
            .kv("error_2norm", er).kv("tolerance", tl).raw("got", vh::jarr(e.in, 8)).raw("expected", vh::jarr(x.in, 8)).str());
          break;
        }
      }
      check_omega(c, H, cgc, rig.lg, which);
    }
    return out;
  }

  inline std::string roles_string(const LevelSpec& s)
  {
    std::string o;
    for(int q = 0; q < 4; ++q) if(s.has[q]) { if(!o.empty()) o += '+'; o += slot_name(q); if(s.canon[q] != q) { o += "=="; o += slot_name(s.canon[q]); } }
    return o.empty() ? "-" : o;
  }

  template<typename Filter_>
  void random_case(vh::Ctx& c, bool unit)
  {
    vh::Rng& r = c.rng;
    const std::uint64_t k = c.k;
    // the systematic part of the configuration comes from the case index, everything else from the PRNG
    int cycle = int(k % 3), cgc = int((k / 3) % 3);
    const int L = int((k / 9) % 7);
    const int mask = int((k / 63) % 16);
    const bool zero_defect = (k % 97) == 96;
    HierSpec H = gen_hier(r, unit, c.thorough(), L, mask);
    int top = 0, crs = L;
    if(!r.coin(0.45)) { top = int(r.range(0, L)); crs = int(r.range(top, L)); }
    const bool crs_negative = r.coin(0.5);
    const bool stats = r.coin(0.25);

    bool shared = false; for(auto& s : H.lv) for(int q = 0; q < 4; ++q) if(s.has[q] && s.canon[q] != q) shared = true;
    c.tag(std::string("cycle:") + cycle_name(cycle));
    c.tag(std::string("cgc:") + cgc_name(cgc));
    c.tag("L:" + std::to_string(crs - top));
    c.tag(std::string("range:") + (top == 0 && crs == L ? "full" : (top == 0 ? "crs<last" : (crs == L ? "top>0" : "inner"))));
    c.tag(std::string("filter:") + (unit ? "unit" : "none"));
    c.tag("pre:" + role_class(H, top, crs, SL_PRE));
    c.tag("post:" + role_class(H, top, crs, SL_POST));
    c.tag("peak:" + role_class(H, top, crs, SL_PEAK));
    c.tag(std::string("crs:") + (H.lv[std::size_t(crs)].has[SL_CRS] ? "solver" : "identity"));
    if(shared) c.tag("shared_objects");
    if(zero_defect) c.tag("def:zero");
    if(stats) c.tag("solver_expressions");
    c.set_op("mg.apply");
    {
      vh::J sz('['), rl('['), fl('[');
      for(auto& s : H.lv) { sz.add((unsigned long)s.n); rl.add(roles_string(s)); fl.add((unsigned long)s.fidx.size()); }
      c.desc = vh::J().kv("levels", L + 1).raw("sizes", sz.str()).raw("roles", rl.str()).raw("filtered_dofs", fl.str())
        .kv("top", top).kv("crs", crs).kv("cycle", cycle_name(cycle)).kv("adapt_cgc", cgc_name(cgc)).kv("zero_defect", zero_defect).str();
    }
    const std::size_t n = H.lv[std::size_t(top)].n;
    std::vector<double> d1 = zero_defect ? std::vector<double>(n, 0.0) : vl::gen_vec(r, Index(n), r.coin(0.7) ? 1 : int(r.below(4)), false);
    if(!zero_defect) { bool nz = false; for(double v : d1) if(v != 0.0) nz = true; if(!nz) d1[0] = 1.0; }
    std::vector<double> d2 = vl::gen_vec(r, Index(n), 1, false);
    const std::uint64_t refseed = r.next();

    FEAT::Statistics::enable_solver_expressions = stats;
    {
      Rig<Filter_> rig(H, top, crs, cycle, crs_negative);
      std::vector<std::uint64_t> mh; for(auto& m : rig.mats) mh.push_back(vl::container_hash(m));
      rig.mg->set_adapt_cgc(feat_cgc(cgc));

      // application 1
      AppResult a1 = judge_application(c, H, rig, top, crs, cycle, cgc, d1, "first", refseed);
      std::vector<ObsEv> log1 = rig.lg.ev;

      // application 2: same input on the same object => same calls, same vectors, same result (bitwise)
      {
        rig.lg.clear();
        Vec vd = vl::make_dv<double, Index>(d1); Vec vx(Index(n), -555.0);
        rig.mg->apply(vx, vd); rig.lg.flush();
        std::vector<double> x2 = read_vec(vx);
        c.event();
        bool same = rig.lg.ev.size() == log1.size();
        std::size_t at = 0;
        for(std::size_t i = 0; same && i < log1.size(); ++i)
        {
          const ObsEv& a = log1[i]; const ObsEv& b = rig.lg.ev[i];
          if(a.kind != b.kind || a.level != b.level || a.obj != b.obj || a.in.size() != b.in.size()
             || (!a.in.empty() && std::memcmp(a.in.data(), b.in.data(), a.in.size() * sizeof(double)) != 0)) { same = false; at = i; }
        }
        if(!same)
          c.viol("mg.apply", "not-repeatable", vh::J().kv("what", "call log of the second application differs").kv("first_difference_at", (unsigned long)at)
            .kv("first", Logger{log1}.word(at > 4 ? at - 4 : 0, 14)).kv("second", rig.lg.word(at > 4 ? at - 4 : 0, 14)).str());
        else if(x2.size() != a1.x.size() || std::memcmp(x2.data(), a1.x.data(), x2.size() * sizeof(double)) != 0)
          c.viol("mg.apply", "not-repeatable", vh::J().kv("what", "result of the second application differs").raw("first", vh::jarr(a1.x, 8)).raw("second", vh::jarr(x2, 8)).str());
      }

      // application 3: new defect, optionally after changing cycle / cgc mode through the documented setters
      {
        if(r.coin(0.3)) { cycle = (cycle + 1 + int(r.below(2))) % 3; rig.mg->set_cycle(feat_cycle(cycle)); c.count("set_cycle"); }
        if(r.coin(0.15)) { cgc = (cgc + 1 + int(r.below(2))) % 3; rig.mg->set_adapt_cgc(feat_cgc(cgc)); c.count("set_adapt_cgc"); }
        judge_application(c, H, rig, top, crs, cycle, cgc, d2, "third", vh::mix64(refseed));
      }
      for(std::size_t i = 0; i < mh.size(); ++i) if(vl::container_hash(rig.mats[i]) != mh[i]) c.viol("mg.apply", "input-modified", vh::J().kv("what", "level matrix").kv("level", (unsigned long)i).str());
    }
    if(stats) { FEAT::Statistics::reset(); FEAT::Statistics::enable_solver_expressions = false; }
  }
} // namespace c09
