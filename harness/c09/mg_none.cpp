// C09 -- random (non mesh-based) multigrid hierarchies with LAFEM::NoneFilter
#include "c09_case.hpp"
VH_FAMILY(mg_none) { c09::random_case<c09::FNone>(c, false); }
VH_FEAT_MAIN
