// C09 -- application histories on one hierarchy with the real LAFEM::Transfer, LAFEM::UnitFilter
#include "c09_hist.hpp"
VH_FAMILY(mg_hist_unit) { c09::history_case<c09::FUnit>(c, true); }
