// C09 -- 'history' families: ONE hierarchy (with the REAL LAFEM::Transfer as transfer operator) and one or two MultiGrid
// objects on it receive a sequence of applications in which generic defects alternate with defects that make a level defect
// vanish EXACTLY (zero defect, defects in the kernel of the top-level restriction, unit vectors at fine dofs whose
// restriction column / prolongation row is empty, defects supported on unit-filtered dofs only).  Every application is judged
// by the same history-free recursive long double model as in the random-hierarchy families: the result (and the input of
// every smoother / coarse solver / transfer call) must be the documented linear map of the CURRENT defect, whatever the
// level work vectors still hold from earlier sweeps / applications / other MultiGrid objects of the hierarchy.
#pragma once
#include "c09_case.hpp"

namespace c09
{
  // integer kernel vector of a restriction together with its class name
  struct KerVec { std::vector<int> v; const char* kind; };

  // restriction with generator-known exact kernel vectors.  All entries are multiples of 2^-4 with |entry| <= 1, so that for
  // defects with small-integer x power-of-two entries every product and every partial sum of R*d is exactly representable:
  // R*d == 0 holds exactly in floating point for every summation order.
  inline HMat gen_struct_rest(vh::Rng& r, Index nc, Index nf, std::vector<KerVec>& ker, std::string& kind)
  {
    ker.clear();
    if(nf == 2 * nc + 1 && r.coin(0.7))
    {
      // transposed linear interpolation (optionally full weighting = half of it)
      kind = "interp";
      const double w = r.coin(0.5) ? 1.0 : 0.5;
      std::vector<vl::Trip> t;
      for(Index j = 0; j < nc; ++j) { t.push_back({j, 2 * j, 0.5 * w}); t.push_back({j, 2 * j + 1, w}); t.push_back({j, 2 * j + 2, 0.5 * w}); }
      KerVec a; a.kind = "alt"; a.v.assign(nf, 0);
      for(Index i = 0; i <= nc; ++i) a.v[2 * i] = (i % 2 == 0) ? 1 : -1;
      ker.push_back(a);
      // a second one: +1 -2 +1 on three consecutive fine dofs 2j, 2j+1, 2j+2 is NOT in the kernel; but e_{2j} - e_{2j+2} +- ... is
      // covered by 'alt' only, which is fine: one basis vector is enough for this class
      return HMat::from_trips(nc, nf, t);
    }
    kind = "dyadic";
    std::vector<double> a(std::size_t(nc) * nf, 0.0);
    const double dens = r.pick<double>({0.3, 0.7, 1.0});
    for(auto& x : a) if(r.coin(dens)) { long q = r.range(1, 16); x = double(r.coin(0.5) ? q : -q) / 16.0; }
    std::vector<char> state(nf, 0);   // 0 = plain, 1 = emptied, 2 = member of a pair
    auto col_empty = [&](Index j) { for(Index i = 0; i < nc; ++i) if(a[std::size_t(i) * nf + j] != 0.0) return false; return true; };
    // make sure that column 0..: at least one entry per plain column (so that 'empty' is a generator decision)
    for(Index j = 0; j < nf; ++j) if(col_empty(j)) a[std::size_t(r.below(nc)) * nf + j] = double(r.range(1, 16)) / 16.0;
    // emptied columns
    for(Index j = 0; j < nf; ++j) if(nf > 1 && r.coin(0.15)) { for(Index i = 0; i < nc; ++i) a[std::size_t(i) * nf + j] = 0.0; state[j] = 1; }
    { bool any = false; for(Index j = 0; j < nf; ++j) if(state[j] == 0) any = true;
      if(!any) { state[0] = 0; a[0] = 0.5; } }
    // duplicated columns
    std::vector<Index> plain; for(Index j = 0; j < nf; ++j) if(state[j] == 0) plain.push_back(j);
    r.shuffle(plain);
    const std::size_t npairs = std::min<std::size_t>(plain.size() / 2, std::size_t(r.range(0, 3)));
    for(std::size_t q = 0; q < npairs; ++q)
    {
      const Index ca = plain[2 * q], cb = plain[2 * q + 1];
      for(Index i = 0; i < nc; ++i) a[std::size_t(i) * nf + cb] = a[std::size_t(i) * nf + ca];
      state[ca] = state[cb] = 2;
      KerVec k; k.kind = "pair"; k.v.assign(nf, 0); k.v[ca] = 1; k.v[cb] = -1; ker.push_back(k);
    }
    for(Index j = 0; j < nf; ++j) if(state[j] == 1) { KerVec k; k.kind = "unit_empty"; k.v.assign(nf, 0); k.v[j] = 1; ker.push_back(k); }
    return HMat::from_dense(nc, nf, a);
  }

  struct HistHier { HierSpec H; std::vector<std::vector<KerVec>> ker; std::vector<std::string> rkind; };

  inline HistHier gen_hier_hist(vh::Rng& r, bool unit, int L, int mask)
  {
    HistHier X; HierSpec& H = X.H; H.unit = unit; H.L = L;
    const int nl = L + 1; H.lv.resize(std::size_t(nl)); X.ker.resize(std::size_t(nl)); X.rkind.resize(std::size_t(nl));
    std::vector<Index> n(static_cast<std::size_t>(nl));
    n[std::size_t(nl - 1)] = Index(r.range(1, 4));
    for(int l = nl - 2; l >= 0; --l)
    {
      const Index nc = n[std::size_t(l + 1)];
      Index nf = r.coin(0.5) ? 2 * nc + 1 : nc + Index(r.range(1, long(nc) + 3));
      if(nf > 60) nf = std::min<Index>(60, nc + 3);
      n[std::size_t(l)] = nf;
    }
    for(int l = 0; l < nl; ++l)
    {
      LevelSpec& s = H.lv[std::size_t(l)]; s.n = n[std::size_t(l)];
      std::string k;
      s.A = gen_spd(r, s.n, k);
      if(l < L)
      {
        const Index nc = n[std::size_t(l + 1)];
        s.R = gen_struct_rest(r, nc, s.n, X.ker[std::size_t(l)], X.rkind[std::size_t(l)]);
        // P = R^T (empty restriction columns = empty prolongation rows) or an unrelated full-rank prolongation
        if(X.rkind[std::size_t(l)] == "interp" || r.coin(0.6)) s.P = s.R.transposed(); else s.P = gen_prol(r, s.n, nc, k);
      }
      for(int q = 0; q < 4; ++q) s.has[q] = ((mask >> q) & 1) != 0;
      if(r.coin(0.25)) for(int q = 0; q < 4; ++q) if(r.coin(0.5)) s.has[q] = !s.has[q];
      if(l == L) s.has[SL_PRE] = s.has[SL_POST] = s.has[SL_PEAK] = false;
      for(int q = 0; q < 4; ++q) s.canon[q] = q;
      if(s.has[SL_PRE] && s.has[SL_POST] && r.coin(0.15)) s.canon[SL_POST] = SL_PRE;
      if(unit && !r.coin(0.25))
      {
        for(Index i = 0; i < s.n; ++i) if(r.coin(0.2)) { s.fidx.push_back(i); s.fval.push_back(r.real(0.5, 2.0)); }
        if(s.fidx.size() == std::size_t(s.n)) { s.fidx.pop_back(); s.fval.pop_back(); }
      }
    }
    return X;
  }
  // solver operators are generated after the role masks are final (the case may remove the top-level pre-smoother)
  inline void gen_hist_solvers(vh::Rng& r, HierSpec& H)
  {
    std::string k;
    for(auto& s : H.lv)
    {
      for(int q = 0; q < 4; ++q) if(!s.has[q]) s.canon[q] = q;
      if(s.canon[SL_POST] == SL_PRE && !s.has[SL_PRE]) s.canon[SL_POST] = SL_POST;
      for(int q = 0; q < 4; ++q) if(s.has[q] && s.canon[q] == q) s.S[q] = gen_smoother(r, s.A, q == SL_CRS, k);
    }
  }

  // ---------------------------------------------------------------- special defects
  enum { SP_ZERO = 0, SP_KERNEL = 1, SP_UNIT_EMPTY = 2, SP_FILTERED = 3, SP_GENERIC = 4 };
  inline const char* sp_name(int s) { static const char* n[] = {"zero", "kernel", "unit_empty", "filtered_only", "generic"}; return n[s]; }
  struct Defect { std::vector<double> d; int cls = SP_GENERIC; bool exact_first_rest = false; };

  // is R * filter_def(d) == 0 with every product and partial sum exact?  (entries of R: multiples of 2^-4, |.| <= 1; entries of d:
  // integers of magnitude <= 64 times one power of two 2^e, |e| <= 8 => every partial sum is an integer multiple of 2^(e-4)
  // of magnitude < 2^20: exactly representable, independent of the order of summation)
  inline bool exactly_restricted_to_zero(const LevelSpec& s, const std::vector<double>& d)
  {
    LV x = to_lv(d); for(Index i : s.fidx) x[i] = 0;
    LV y; s.R.mul(x, y);
    for(LD v : y) if(v != 0) return false;
    return true;
  }

  inline Defect make_special(vh::Rng& r, const LevelSpec& s, const std::vector<KerVec>& ker, int want)
  {
    Defect D; const Index n = s.n; D.d.assign(n, 0.0);
    const bool no_pre = !s.has[SL_PRE];
    int cls = want;
    std::vector<std::size_t> units; for(std::size_t i = 0; i < ker.size(); ++i) if(std::string(ker[i].kind) == "unit_empty") units.push_back(i);
    if(cls == SP_UNIT_EMPTY && units.empty()) cls = SP_KERNEL;
    if(cls == SP_KERNEL && ker.empty()) cls = SP_ZERO;
    if(cls == SP_FILTERED && s.fidx.empty()) cls = SP_ZERO;
    D.cls = cls;
    switch(cls)
    {
    case SP_ZERO:
      if(r.coin(0.25)) for(auto& x : D.d) x = -0.0;      // negative zeros are zeros
      D.exact_first_rest = true;                          // S*0 == 0, 0 - A*0 == 0, R*0 == 0 exactly
      break;
    case SP_KERNEL:
    {
      const double sc = std::ldexp(1.0, int(r.range(-8, 8)));
      const std::size_t m = std::size_t(r.range(1, 3));
      for(std::size_t q = 0; q < m; ++q)
      {
        const KerVec& k = ker[r.below(ker.size())];
        const long cf = (r.coin(0.5) ? 1 : -1) * r.range(1, 3);
        for(Index i = 0; i < n; ++i) D.d[i] += sc * double(cf * k.v[i]);
      }
      bool nz = false; for(double v : D.d) if(v != 0.0) nz = true;
      if(!nz) { const KerVec& k = ker[0]; for(Index i = 0; i < n; ++i) D.d[i] = sc * double(k.v[i]); }
      D.exact_first_rest = no_pre && exactly_restricted_to_zero(s, D.d);
      break;
    }
    case SP_UNIT_EMPTY:
    {
      const KerVec& k = ker[units[r.below(units.size())]];
      const double sc = r.coin(0.5) ? 1.0 : r.real(-3.0, 3.0);   // any value: the restriction column is empty
      for(Index i = 0; i < n; ++i) if(k.v[i] != 0) D.d[i] = (sc != 0.0 ? sc : 1.0);
      D.exact_first_rest = no_pre && exactly_restricted_to_zero(s, D.d);
      break;
    }
    case SP_FILTERED:
      for(Index i : s.fidx) if(r.coin(0.7)) D.d[i] = r.real(-2.0, 2.0);
      D.d[s.fidx[r.below(s.fidx.size())]] = 1.5;
      D.exact_first_rest = no_pre;                        // def = filter_def(d) == 0 exactly
      break;
    default: break;
    }
    return D;
  }

  template<typename Filter_>
  void history_case(vh::Ctx& c, bool unit)
  {
    typedef Rig<Filter_, RealTransfer> RigT;
    vh::Rng& r = c.rng;
    const std::uint64_t k = c.k;
    const int cycle = int(k % 3), cgc = int((k / 3) % 3);
    const int L = 1 + int((k / 9) % 4);
    const int mask = int((k / 36) % 16);
    HistHier X = gen_hier_hist(r, unit, L, mask);
    HierSpec& H = X.H;
    int top = 0, crs = L;
    if(r.coin(0.3)) { top = int(r.range(0, L - 1)); crs = int(r.range(top + 1, L)); }
    // without a pre-smoother on the top level the special defects reach the first restriction unchanged
    const bool strip_top_pre = r.coin(0.65);
    if(strip_top_pre) H.lv[std::size_t(top)].has[SL_PRE] = false;
    gen_hist_solvers(r, H);
    const LevelSpec& st = H.lv[std::size_t(top)];
    const std::size_t n = st.n;
    const bool crs_negative = r.coin(0.5);
    const bool fresh_special = r.coin(0.25);
    const bool two_objects = r.coin(0.5);
    const int cycle2 = two_objects ? int((cycle + 1 + int(r.below(2))) % 3) : cycle;

    // the special classes of this case
    auto pick_class = [&]() {
      const int q = int(r.below(unit ? 8 : 6));
      return q < 2 ? SP_ZERO : (q < 4 ? SP_KERNEL : (q < 6 ? SP_UNIT_EMPTY : SP_FILTERED));
    };
    Defect s1 = make_special(r, st, X.ker[std::size_t(top)], (k % 5 == 0) ? SP_ZERO : pick_class());
    Defect s2 = make_special(r, st, X.ker[std::size_t(top)], pick_class());
    Defect g1, g2;
    g1.d = vl::gen_vec(r, Index(n), 1, false); g2.d = vl::gen_vec(r, Index(n), r.coin(0.7) ? 1 : int(r.below(4)), false);
    { bool nz = false; for(double v : g1.d) if(v != 0.0) nz = true; if(!nz) g1.d[0] = 1.0; }
    const std::uint64_t refseed = r.next();

    c.tag(std::string("cycle:") + cycle_name(cycle));
    c.tag(std::string("cgc:") + cgc_name(cgc));
    c.tag("L:" + std::to_string(crs - top));
    c.tag(std::string("range:") + (top == 0 && crs == L ? "full" : (top == 0 ? "crs<last" : (crs == L ? "top>0" : "inner"))));
    c.tag(std::string("filter:") + (unit ? "unit" : "none"));
    c.tag("xfer:lafem");
    c.tag("rest:" + X.rkind[std::size_t(top)]);
    c.tag(std::string("toppre:") + (st.has[SL_PRE] ? "yes" : "no"));
    c.tag(std::string("crs:") + (H.lv[std::size_t(crs)].has[SL_CRS] ? "solver" : "identity"));
    c.tag(std::string("sp1:") + sp_name(s1.cls));
    c.tag(std::string("sp2:") + sp_name(s2.cls));
    if(s1.exact_first_rest || s2.exact_first_rest) c.tag("exact_zero_level");
    if(fresh_special) c.tag("fresh_special");
    if(two_objects) c.tag(std::string("second_object:") + cycle_name(cycle2));
    c.set_op("mg.apply");
    {
      vh::J sz('['), rl('['), fl('['), rk('[');
      for(auto& s : H.lv) { sz.add((unsigned long)s.n); rl.add(roles_string(s)); fl.add((unsigned long)s.fidx.size()); }
      for(int l = 0; l < L; ++l) rk.add(X.rkind[std::size_t(l)] + "/" + std::to_string(X.ker[std::size_t(l)].size()));
      c.desc = vh::J().kv("levels", L + 1).raw("sizes", sz.str()).raw("roles", rl.str()).raw("filtered_dofs", fl.str()).raw("restrictions", rk.str())
        .kv("top", top).kv("crs", crs).kv("cycle", cycle_name(cycle)).kv("adapt_cgc", cgc_name(cgc)).kv("special1", sp_name(s1.cls)).kv("special2", sp_name(s2.cls))
        .raw("s1", vh::jarr(s1.d, 16)).raw("s2", vh::jarr(s2.d, 16)).kv("fresh_special", fresh_special).kv("second_object_cycle", two_objects ? cycle_name(cycle2) : "-").str();
    }

    {
      RigT rig(H, top, crs, cycle, crs_negative);
      std::vector<std::uint64_t> mh; for(auto& m : rig.mats) mh.push_back(vl::container_hash(m));
      std::vector<std::uint64_t> th;
      for(auto& t : rig.trans) { th.push_back(vl::container_hash(t.xf.get_mat_prol())); th.push_back(vl::container_hash(t.xf.get_mat_rest())); }
      rig.mg->set_adapt_cgc(feat_cgc(cgc));
      // optional second MultiGrid object on the SAME hierarchy (shares the level work vectors)
      std::shared_ptr<typename RigT::MG> mg1 = rig.mg, mg2;
      if(two_objects)
      {
        mg2 = FEAT::Solver::new_multigrid(std::shared_ptr<typename RigT::HierBase>(rig.hier), feat_cycle(cycle2), top, crs);
        mg2->init(); mg2->set_adapt_cgc(feat_cgc(cgc));
      }
      auto judge = [&](std::shared_ptr<typename RigT::MG> mg, int cyc, const Defect& D, const char* which, std::uint64_t seed) {
        rig.mg = mg;
        // Adaptive coarse grid correction on a degenerate (kernel / unit / filtered-only) defect: the coarse correction is
        // (nearly) zero, so the documented step length is a quotient of two rounding-level numbers and the value model is
        // not decidable (thorough seed 1: 3 of 337 120 cases exceeded the modelled tolerance by factors 3-25). Such an
        // application is still EXECUTED (it is part of the history, and its result takes part in the bitwise
        // repeatability checks), but its values are not compared with the model. The zero defect stays judged.
        if(cgc != 0 && D.cls != SP_GENERIC && D.cls != SP_ZERO)
        {
          rig.lg.clear();
          Vec vd = vl::make_dv<double, Index>(D.d); Vec vx(Index(n), -555.0);
          mg->apply(vx, vd); rig.lg.flush();
          rig.mg = mg1;
          c.event(); c.count("app_unjudged_adaptive_cgc_on_degenerate_defect");
          AppResult a; a.x = read_vec(vx); a.judged = false;
          return a;
        }
        AppResult a = judge_application(c, H, rig, top, crs, cyc, cgc, D.d, which, seed, true, D.exact_first_rest);
        rig.mg = mg1;
        c.count(std::string("app_") + sp_name(D.cls));
        if(D.exact_first_rest) c.count("app_exact_zero_level");
        return a;
      };
      AppResult f0, a2;
      if(fresh_special) f0 = judge(mg1, cycle, s1, "fresh:special1", vh::mix64(refseed + 7));
      judge(mg1, cycle, g1, "1:generic", refseed);
      a2 = judge(mg1, cycle, s1, "2:special1", vh::mix64(refseed + 1));
      judge(mg1, cycle, g2, "3:generic", vh::mix64(refseed + 2));
      judge(two_objects ? mg2 : mg1, cycle2, s2, "4:special2", vh::mix64(refseed + 3));
      // the same special defect after a different history: a deterministic map of the defect alone repeats bitwise
      {
        rig.lg.clear();
        Vec vd = vl::make_dv<double, Index>(s1.d); Vec vx(Index(n), -555.0);
        mg1->apply(vx, vd); rig.lg.flush();
        std::vector<double> x5 = read_vec(vx);
        c.event();
        if(x5.size() != a2.x.size() || std::memcmp(x5.data(), a2.x.data(), x5.size() * sizeof(double)) != 0)
          c.viol("mg.apply", "not-repeatable", vh::J().kv("what", "result for the same defect differs after a different application history")
            .raw("earlier", vh::jarr(a2.x, 8)).raw("later", vh::jarr(x5, 8)).str());
        if(fresh_special)
        {
          c.event();
          if(f0.x.size() != a2.x.size() || std::memcmp(f0.x.data(), a2.x.data(), f0.x.size() * sizeof(double)) != 0)
            c.viol("mg.apply", "not-repeatable", vh::J().kv("what", "result for the same defect differs between a fresh object and a used one")
              .raw("fresh", vh::jarr(f0.x, 8)).raw("used", vh::jarr(a2.x, 8)).str());
        }
      }
      for(std::size_t i = 0; i < mh.size(); ++i) if(vl::container_hash(rig.mats[i]) != mh[i]) c.viol("mg.apply", "input-modified", vh::J().kv("what", "level matrix").kv("level", (unsigned long)i).str());
      { std::size_t q = 0; for(auto& t : rig.trans) { const bool okp = vl::container_hash(t.xf.get_mat_prol()) == th[q], okr = vl::container_hash(t.xf.get_mat_rest()) == th[q + 1]; q += 2;
          if(!okp || !okr) c.viol("mg.apply", "input-modified", vh::J().kv("what", okp ? "restriction matrix" : "prolongation matrix").kv("level", t.level).str()); } }
      if(mg2) { mg2->done(); mg2.reset(); }
    }
  }
} // namespace c09
