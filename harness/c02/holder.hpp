// C02 -- typed holder behind the type-erased c02::AnyM interface + registration helpers.
#pragma once
#include "c02.hpp"

namespace c02
{
  using namespace FEAT;
  using namespace FEAT::LAFEM;

  template<typename M> struct Traits; // per storage format, see the m_*.cpp TUs

  template<typename M> Key key_of()
  {
    Key k; k.fmt = Traits<M>::fmt; k.dt = dt_id<typename M::DataType>(); k.it = it_id<typename M::IndexType>();
    k.bh = Traits<M>::bh; k.bw = Traits<M>::bw; return k;
  }

  template<typename M>
  struct Holder : AnyM
  {
    M m;
    Holder() { key = key_of<M>(); }
    explicit Holder(M&& x) : m(std::move(x)) { key = key_of<M>(); }

    Arr arrays() const override
    {
      Arr a;
      for(auto p : m.get_elements()) a.el.push_back((void*)p);
      for(auto p : m.get_indices()) a.ix.push_back((void*)p);
      a.els = m.get_elements_size(); a.ixs = m.get_indices_size(); a.sc = m.get_scalar_index();
      return a;
    }
    std::uint64_t hash() const override { return vl::container_hash(m); }
    Index api_rows() const override { return Traits<M>::rows(m); }
    Index api_cols() const override { return Traits<M>::cols(m); }
    Index api_used() const override { return Traits<M>::used(m); }
    LD api_at(Index i, Index j) const override { return Traits<M>::at(m, i, j); }

    P make_default() const override { return P(new Holder<M>()); }
    P clone(int mode, int variant) const override
    {
      std::unique_ptr<Holder<M>> h(new Holder<M>());
      const CloneMode cm = CloneMode(mode);
      if(variant == 0) h->m = m.clone(cm);                     // returned by value, move-assigned
      else if(variant == 1) h->m.clone(m, cm);                 // onto a default-constructed target
      else { h->m.clone(m, CloneMode::Deep); h->m.clone(m, cm); } // onto a non-empty target
      return P(h.release());
    }
    P move_construct() override { return P(new Holder<M>(std::move(m))); }
    void move_assign_to(AnyM& target) override { static_cast<Holder<M>&>(target).m = std::move(m); }

    bool can_transpose() const override { return Traits<M>::transposable; }
    P transpose(int variant) const override
    {
      if constexpr(Traits<M>::transposable) return Traits<M>::transpose(m, variant); else return P();
    }
    bool transpose_inplace() override
    {
      if constexpr(Traits<M>::fmt == F_DENSE) { m.transpose_inplace(); return true; } else return false;
    }
    bool can_permute() const override { return Traits<M>::permutable; }
    void permute(Adjacency::Permutation& p, Adjacency::Permutation& q) override
    {
      if constexpr(Traits<M>::permutable) m.permute(p, q);
    }
    bool has_layout() const override { return Traits<M>::layout; }
    P from_layout(int variant) const override
    {
      if constexpr(Traits<M>::layout)
      {
        auto lay = m.layout();
        if(variant == 0) return P(new Holder<M>(M(lay)));
        std::unique_ptr<Holder<M>> h(new Holder<M>());
        if(variant == 2) h->m.clone(m, CloneMode::Deep);         // assignment discards previous arrays
        h->m = lay;
        return P(h.release());
      }
      else return P();
    }
    P from_graph(const Adjacency::Graph& g) const override
    {
      if constexpr(Traits<M>::layout) return P(new Holder<M>(M(g))); else return P();
    }
  };

  // registers `To.convert(From)`; variant 0: default-constructed target, 1: converting constructor (if the format has
  // one and the types differ), 2: non-empty target (second conversion onto the first result)
  template<typename To, typename From>
  void reg_conv(const std::string& op, bool need_entries)
  {
    Conv c; c.from = key_of<From>(); c.to = key_of<To>(); c.op = op; c.need_entries = need_entries;
    c.fn = [](const AnyM& s, int variant) -> P
    {
      const auto& src = static_cast<const Holder<From>&>(s);
      if constexpr(Traits<To>::conv_ctor && !std::is_same<To, From>::value)
      {
        if(variant == 1) return P(new Holder<To>(To(src.m)));
      }
      std::unique_ptr<Holder<To>> h(new Holder<To>());
      h->m.convert(src.m);
      if(variant == 2) h->m.convert(src.m);
      return P(h.release());
    };
    reg().convs.push_back(c);
  }

  // registers the cross-type clone To.clone(From, mode)
  template<typename To, typename From>
  void reg_xclone()
  {
    if constexpr(!std::is_same<To, From>::value)
    {
      XClone x; x.from = key_of<From>(); x.to = key_of<To>();
      x.fn = [](const AnyM& s, int mode, int variant) -> P
      {
        const auto& src = static_cast<const Holder<From>&>(s);
        std::unique_ptr<Holder<To>> h(new Holder<To>());
        if(variant == 1) h->m.clone(src.m, CloneMode::Deep);   // non-empty target: previous arrays must be released
        h->m.clone(src.m, CloneMode(mode));
        return P(h.release());
      };
      reg().xclones.push_back(x);
    }
  }

  template<typename M, typename MakeFn>
  void reg_maker(MakeFn fn)
  {
    Key k = key_of<M>();
    reg().keys[k.id()] = k;
    reg().makers[k.id()] = fn;
  }

  // all DT/IT conversions inside one format family F<DT,IT>
  template<template<typename, typename> class F>
  void reg_type_convs(const std::string& fmt)
  {
    const std::string op = fmt + ".convert<-" + fmt;
#define C02_TC(D1, I1, D2, I2) reg_conv<F<D1, I1>, F<D2, I2>>(op, false); reg_xclone<F<D1, I1>, F<D2, I2>>();
#define C02_TC4(D1, I1) C02_TC(D1, I1, float, std::uint32_t) C02_TC(D1, I1, float, std::uint64_t) C02_TC(D1, I1, double, std::uint32_t) C02_TC(D1, I1, double, std::uint64_t)
    C02_TC4(float, std::uint32_t) C02_TC4(float, std::uint64_t) C02_TC4(double, std::uint32_t) C02_TC4(double, std::uint64_t)
#undef C02_TC4
#undef C02_TC
  }
} // namespace c02
