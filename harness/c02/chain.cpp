// C02 -- driver: random chains of convert / clone / transpose / permute / layout / graph / move steps,
// judged after every step by (a) dense image decoded from the raw arrays vs. the chain's mathematical image,
// (b) structural validity of the layout, (c) dimensions, (d) pointer-alias + mutation monitor for the clone modes.
#include "c02.hpp"

namespace c02 { Registry& reg() { static Registry r; return r; } }

using namespace c02;
using FEAT::Adjacency::Permutation;
using FEAT::Adjacency::Graph;

namespace
{
  const char* mode_name(int m) { static const char* n[] = {"shallow", "layout", "weak", "deep", "allocate"}; return n[m]; }

  std::vector<Key> all_keys()
  {
    std::vector<Key> k; for(auto& e : reg().keys) k.push_back(e.second); return k;
  }

  // class tags of the matrix the next step operates on (dynamic: they follow the chain)
  std::vector<std::string> class_tags(const Key& k, const Decoded& d, const Arr& a)
  {
    std::vector<std::string> t;
    t.push_back(std::string("fmt:") + fmt_name(k.fmt));
    t.push_back(k.dt ? "dt:double" : "dt:float");
    t.push_back(k.it ? "it:u64" : "it:u32");
    if(k.fmt == F_BCSR) t.push_back("bs:" + std::to_string(k.bh) + "x" + std::to_string(k.bw));
    if(d.used == 0) t.push_back("entry_free");
    if(d.R == 0 || d.C == 0) t.push_back("dim0");
    bool null_arr = false; for(auto p : a.el) if(!p) null_arr = true; for(auto p : a.ix) if(!p) null_arr = true;
    if(null_arr) t.push_back("null_array"); // the container lists an array pointer that is null (size-0 allocation)
    t.push_back(d.R == d.C ? "square" : (d.R < d.C ? "wide" : "tall"));
    if(d.used > 0)
    {
      std::vector<char> rr(d.R, 0), cc(d.C, 0);
      for(Index i = 0; i < d.R; ++i) for(Index j = 0; j < d.C; ++j) if(d.mask[std::size_t(i) * d.C + j]) { rr[i] = 1; cc[j] = 1; }
      if(std::find(rr.begin(), rr.end(), char(0)) != rr.end()) t.push_back("empty_row");
      if(std::find(cc.begin(), cc.end(), char(0)) != cc.end()) t.push_back("empty_col");
    }
    return t;
  }

  struct Chain
  {
    vh::Ctx& c;
    P cur;
    Truth truth;
    std::vector<std::string> base_tags;   // tags of the generated input (static)
    std::string input_desc;
    vh::J steps{'['};
    bool dead = false;                    // stop after a violation (state unknown)
    std::string sig_ops;
    int nsteps = 0;

    explicit Chain(vh::Ctx& ctx) : c(ctx) {}

    void refresh(const std::string& op, const std::string& step_json)
    {
      // dynamic tags + marker + witness description, BEFORE the FEAT call
      Decoded d; std::string why;
      c.tags = base_tags;
      if(cur) { Arr a = cur->arrays(); if(decode(cur->key, a, d, why)) for(auto& t : class_tags(cur->key, d, a)) c.tag(t); }
      steps.add_raw(step_json);
      c.desc = vh::J().raw("input", input_desc).raw("steps", steps.str()).str();
      c.set_op(op);
      if(nsteps < 4) { sig_ops += ">"; sig_ops += op; }
      ++nsteps;
      if(c.verbose()) { std::printf("step %d: %s %s on %s\n", nsteps, op.c_str(), step_json.c_str(), cur ? cur->key.name().c_str() : "-"); std::fflush(stdout); }
    }

    void fail(const std::string& op, const std::string& kind, const vh::J& detail, const std::vector<std::string>& extra = {})
    {
      c.viol(op, kind, detail.str(), extra); dead = true;
    }

    // (a)+(b)+(c): image, structure, dims of `m` against `t`; also cross-checks the FEAT accessors
    bool check_image(const std::string& op, const AnyM& m, const Truth& t, const std::vector<std::string>& extra = {}, Decoded* out = nullptr)
    {
      Decoded d; std::string why;
      Arr a = m.arrays();
      c.event();
      if(!decode(m.key, a, d, why)) { fail(op, "structure", vh::J().kv("why", why).kv("result", m.key.name()), extra); return false; }
      if(d.R != t.R || d.C != t.C)
      {
        fail(op, "dims", vh::J().kv("got_rows", (unsigned long)d.R).kv("got_cols", (unsigned long)d.C).kv("expected_rows", (unsigned long)t.R)
          .kv("expected_cols", (unsigned long)t.C).kv("result", m.key.name()), extra);
        return false;
      }
      std::size_t nbad = 0, first = 0;
      for(std::size_t q = 0; q < t.v.size(); ++q)
      {
        const LD e = m.key.dt ? (LD)(double)t.v[q] : (LD)(float)(double)t.v[q];
        if(!(e == d.v[q])) { if(!nbad) first = q; ++nbad; }
      }
      if(nbad)
      {
        const LD e = m.key.dt ? (LD)(double)t.v[first] : (LD)(float)(double)t.v[first];
        fail(op, "wrong-image", vh::J().kv("row", (unsigned long)(first / t.C)).kv("col", (unsigned long)(first % t.C)).kv("got", d.v[first]).kv("expected", e)
          .kv("stored", bool(d.mask[first])).kv("mismatches", (unsigned long)nbad).kv("result", m.key.name()), extra);
        return false;
      }
      // accessors (separately)
      c.event();
      if(m.api_rows() != d.R || m.api_cols() != d.C || m.api_used() != d.used)
      {
        fail(std::string(fmt_name(m.key.fmt)) + ".dims_accessors", "wrong-value", vh::J().kv("rows", (unsigned long)m.api_rows()).kv("cols", (unsigned long)m.api_cols())
          .kv("used", (unsigned long)m.api_used()).kv("decoded_rows", (unsigned long)d.R).kv("decoded_cols", (unsigned long)d.C).kv("decoded_used", (unsigned long)d.used), extra);
        return false;
      }
      if(d.used > 0 && !t.v.empty())
      {
        // operator()(i,j): every position of small matrices, a sample of large ones
        const std::size_t n = t.v.size();
        const bool all = n <= 400;
        const std::size_t cnt = all ? n : 200;
        vh::Rng r2(c.rng.s ^ 0x5bd1e995u);
        for(std::size_t s = 0; s < cnt; ++s)
        {
          const std::size_t q = all ? s : std::size_t(r2.below(n));
          const LD g = m.api_at(Index(q / d.C), Index(q % d.C));
          if(!(g == d.v[q]))
          {
            fail(std::string(fmt_name(m.key.fmt)) + ".operator()", "wrong-value", vh::J().kv("row", (unsigned long)(q / d.C)).kv("col", (unsigned long)(q % d.C))
              .kv("got", g).kv("decoded", d.v[q]).kv("result", m.key.name()), extra);
            return false;
          }
        }
      }
      if(out) *out = d;
      return true;
    }

    // layout-only judgement: dims + pattern must equal the reference pattern
    bool check_pattern(const std::string& op, const AnyM& m, const Decoded& ref, const std::vector<std::string>& extra, Decoded* out = nullptr)
    {
      Decoded d; std::string why;
      c.event();
      if(!decode(m.key, m.arrays(), d, why)) { fail(op, "structure", vh::J().kv("why", why).kv("result", m.key.name()), extra); return false; }
      if(d.R != ref.R || d.C != ref.C)
      {
        fail(op, "dims", vh::J().kv("got_rows", (unsigned long)d.R).kv("got_cols", (unsigned long)d.C).kv("expected_rows", (unsigned long)ref.R)
          .kv("expected_cols", (unsigned long)ref.C), extra);
        return false;
      }
      for(std::size_t q = 0; q < d.mask.size(); ++q) if(d.mask[q] != ref.mask[q])
      {
        fail(op, "wrong-pattern", vh::J().kv("row", (unsigned long)(q / d.C)).kv("col", (unsigned long)(q % d.C)).kv("got_stored", bool(d.mask[q])).kv("expected_stored", bool(ref.mask[q])), extra);
        return false;
      }
      if(out) *out = d;
      return true;
    }

    // the harness writes fresh values into the (unspecified) value array of `m`; the truth follows
    void fill_values(AnyM& m, const Decoded& d)
    {
      Arr a = m.arrays();
      const int style = int(c.rng.below(4));
      if(!a.el.empty() && a.el[0]) for(Index k = 0; k < a.els[0]; ++k) setv(a.el[0], m.key.dt, k, 0.0);
      truth.init(d.R, d.C);
      for(std::size_t q = 0; q < d.mask.size(); ++q) if(d.mask[q])
      {
        const double v = vl::gen_value(c.rng, style, true);
        setv(a.el[0], m.key.dt, d.slot[q], v);
        truth.v[q] = (LD)v;
      }
    }

    bool unchanged(const std::string& op, const AnyM& src, std::uint64_t h0, const std::vector<std::string>& extra = {})
    {
      c.event();
      if(src.hash() != h0) { fail(op, "input-modified", vh::J().kv("source", src.key.name()), extra); return false; }
      return true;
    }

    // ------------------------------------------------------------ steps
    void step_convert(bool want_format_change)
    {
      Decoded d0; std::string why;
      if(!decode(cur->key, cur->arrays(), d0, why)) return;
      std::vector<const Conv*> cand;
      for(auto& cv : reg().convs)
      {
        if(cv.from != cur->key) continue;
        if(cv.need_entries && d0.used == 0) { c.count("skipped:precondition-entries"); continue; }
        if((cv.to.fmt != cv.from.fmt) != want_format_change) continue;
        cand.push_back(&cv);
      }
      if(cand.empty()) return;
      const Conv& cv = *cand[c.rng.below(cand.size())];
      apply_conv(cv, int(c.rng.below(3)));
    }

    void apply_conv(const Conv& cv, int variant)
    {
      refresh(cv.op, vh::J().kv("op", cv.op).kv("to", cv.to.name()).kv("variant", variant).str());
      const std::uint64_t h0 = cur->hash();
      // classes that are known to crash on the pinned tree are probed in a child first (the worker survives, the
      // violation is still reported; a clean child is followed by the normal in-process judgement)
      const bool risky = (c.has_tag("empty_row") && ((cv.to.fmt == F_CSCR && cv.from.fmt != F_CSCR) || (cv.to.fmt == F_CSR && cv.from.fmt == F_CSCR)))
        || c.has_tag("null_array");
      if(risky)
      {
        const AnyM* src = cur.get();
        vh::ForkResult fr = vh::run_forked([&] { P x = cv.fn(*src, variant); });
        c.event();
        if(fr.died()) { fail(cv.op, "crash", vh::J().kv("signal", fr.sig).kv("exit", fr.code).kv("stderr", fr.err.substr(0, 700)).kv("to", cv.to.name())); return; }
      }
      P next = cv.fn(*cur, variant);
      if(!unchanged(cv.op, *cur, h0)) return;
      Truth t = truth;
      if(cv.to.dt == 0 && cv.from.dt == 1) t.round_to_float();
      if(!check_image(cv.op, *next, t)) return;
      truth = t; cur = std::move(next);
    }

    void step_clone()
    {
      const int mode = int(c.rng.below(5)), variant = int(c.rng.below(3));
      const std::string op = std::string(fmt_name(cur->key.fmt)) + ".clone";
      const std::vector<std::string> ex = {std::string("mode:") + mode_name(mode)};
      refresh(op, vh::J().kv("op", op).kv("mode", mode_name(mode)).kv("variant", variant).str());
      const std::uint64_t h0 = cur->hash();
      if(c.has_tag("null_array"))
      {
        const AnyM* src = cur.get();
        vh::ForkResult fr = vh::run_forked([&] { P x = src->clone(mode, variant); });
        c.event();
        if(fr.died()) { fail(op, "crash", vh::J().kv("signal", fr.sig).kv("exit", fr.code).kv("stderr", fr.err.substr(0, 700)), ex); return; }
      }
      P next = cur->clone(mode, variant);
      if(!unchanged(op, *cur, h0, ex)) return;
      Arr a = cur->arrays(), b = next->arrays();
      // (d) pointer-alias monitor
      c.event();
      if(a.el.size() != b.el.size() || a.ix.size() != b.ix.size() || a.els != b.els || a.ixs != b.ixs || a.sc != b.sc)
      { fail(op, "clone-shape", vh::J().kv("why", "array counts / sizes / scalar index differ from the source"), ex); return; }
      const bool share_ix = mode <= 2, share_el = mode == 0;
      for(std::size_t i = 0; i < a.ix.size(); ++i)
      {
        if(!a.ix[i] && !b.ix[i]) continue;
        if((a.ix[i] == b.ix[i]) != share_ix)
        { fail(op, "alias", vh::J().kv("array", "indices").kv("index", (unsigned long)i).kv("shared", a.ix[i] == b.ix[i]).kv("expected_shared", share_ix), ex); return; }
      }
      for(std::size_t i = 0; i < a.el.size(); ++i)
      {
        if(!a.el[i] && !b.el[i]) continue;
        if((a.el[i] == b.el[i]) != share_el)
        { fail(op, "alias", vh::J().kv("array", "elements").kv("index", (unsigned long)i).kv("shared", a.el[i] == b.el[i]).kv("expected_shared", share_el), ex); return; }
      }
      Decoded ds; std::string why;
      if(!decode(cur->key, a, ds, why)) return;
      Decoded dn;
      if(mode == 4) { /* Allocate: index arrays and values unspecified -- dims + sizes judged above */ c.count("clone:allocate"); return; }
      if(mode == 1) { if(!check_pattern(op, *next, ds, ex, &dn)) return; }
      else if(!check_image(op, *next, truth, ex, &dn)) return;
      // mutation monitor: value independence (weak / deep / layout) resp. aliasing (shallow); raw bit comparisons
      if(ds.used > 0)
      {
        for(int dir = 0; dir < 2; ++dir)
        {
          AnyM& wr = dir == 0 ? *cur : *next; AnyM& rd = dir == 0 ? *next : *cur;
          Arr aw = wr.arrays(), ar = rd.arrays();
          std::size_t q = std::size_t(c.rng.below(ds.mask.size()));
          while(!ds.mask[q]) q = (q + 1) % ds.mask.size();
          const std::size_t k = ds.slot[q];
          const int dt = wr.key.dt;
          const std::uint64_t bw0 = getbits(aw.el[0], dt, k), br0 = getbits(ar.el[0], dt, k);
          double nv = 3.0;
          for(double cand : {3.0, 5.0, 7.0}) { setv(aw.el[0], dt, k, cand); const std::uint64_t nb = getbits(aw.el[0], dt, k); setbits(aw.el[0], dt, k, bw0); if(nb != bw0 && nb != br0) { nv = cand; break; } }
          setv(aw.el[0], dt, k, nv);
          const std::uint64_t bw1 = getbits(aw.el[0], dt, k), br1 = getbits(ar.el[0], dt, k);
          setbits(aw.el[0], dt, k, bw0);
          c.event();
          const bool bad = share_el ? (br1 != bw1) : (br1 != br0);
          if(bad)
          {
            fail(op, share_el ? "shallow-not-aliased" : "not-value-independent", vh::J().kv("direction", dir == 0 ? "write source, read clone" : "write clone, read source")
              .kv("slot", (unsigned long)k).kv("written", nv).kv("other_side_changed", br1 != br0), ex);
            return;
          }
        }
        // both sides must be back to their pre-mutation image
        if(mode != 1 && !check_image(op, *next, truth, ex)) return;
        if(!check_image(op, *cur, truth, ex)) return;
      }
      if(mode == 1)
      {
        if(c.rng.coin(0.5)) { fill_values(*next, dn); cur = std::move(next); if(!check_image(op, *cur, truth, ex)) return; }
      }
      else
      {
        Truth t = truth;
        if(mode == 3 && !layout_mutation(op, *next, &t, *cur, truth, ex)) return; // deep clone re-laid-out: source intact
        if(c.rng.coin(0.7)) { truth = t; cur = std::move(next); }
      }
    }

    // layout mutation of `m` (which must share nothing with `other`): CSR/BCSR are permuted in place by a random
    // permutation (NOT undone), the other formats get one index slot overwritten and restored; `other` must keep its
    // image and structure.  `tm` is the image of m (updated), `to` the image of other.
    bool layout_mutation(const std::string& op, AnyM& m, Truth* tm, AnyM& other, const Truth& to, const std::vector<std::string>& ex)
    {
      Decoded d; std::string why;
      if(!decode(m.key, m.arrays(), d, why)) return true;
      if(d.used == 0) return true; // nothing to re-lay-out
      if(m.can_permute())
      {
        std::vector<Index> p(d.BR), q(d.BC);
        for(Index i = 0; i < d.BR; ++i) p[i] = i; for(Index i = 0; i < d.BC; ++i) q[i] = i;
        c.rng.shuffle(p); c.rng.shuffle(q);
        Permutation P1 = mk_perm(p), P2 = mk_perm(q);
        note_step(vh::J().kv("layout_mutation", "permute clone").raw("p", vh::jarr(p, 32)).raw("q", vh::jarr(q, 32)).str());
        m.permute(P1, P2);
        const int BH = m.key.fmt == F_BCSR ? m.key.bh : 1, BW = m.key.fmt == F_BCSR ? m.key.bw : 1;
        if(tm)
        {
          Truth t = tm->permuted(blow_up(p, BH), blow_up(q, BW));
          if(!check_image(op + "(permuted clone)", m, t, ex)) return false;
          *tm = t;
        }
        c.event();
        Decoded ds; 
        if(!decode(other.key, other.arrays(), ds, why)) { fail(op, "source-layout-corrupted", vh::J().kv("why", why).kv("after", "permute of the clone"), ex); return false; }
        if(!check_image_as(op, "source-corrupted", other, to, ex)) return false;
        return true;
      }
      // raw poke of every index array
      Arr am = m.arrays(), ao = other.arrays();
      const std::uint64_t h0 = other.hash();
      for(std::size_t i = 0; i < am.ix.size(); ++i)
      {
        if(!am.ix[i] || am.ixs[i] == 0) continue;
        c.event();
        if(m.key.it) { auto* z = static_cast<std::uint64_t*>(am.ix[i]); const std::uint64_t o = z[0]; z[0] = o + 1; const bool ch = other.hash() != h0; z[0] = o;
          if(ch) { fail(op, "source-layout-corrupted", vh::J().kv("index_array", (unsigned long)i).kv("after", "write into the clone's index array"), ex); return false; } }
        else { auto* z = static_cast<std::uint32_t*>(am.ix[i]); const std::uint32_t o = z[0]; z[0] = o + 1; const bool ch = other.hash() != h0; z[0] = o;
          if(ch) { fail(op, "source-layout-corrupted", vh::J().kv("index_array", (unsigned long)i).kv("after", "write into the clone's index array"), ex); return false; } }
      }
      (void)ao;
      return true;
    }
    void note_step(const std::string& js) { steps.add_raw(js); c.desc = vh::J().raw("input", input_desc).raw("steps", steps.str()).str(); if(c.verbose()) { std::printf("   %s\n", js.c_str()); std::fflush(stdout); } }
    // check_image, but every failure is reported under `kind` (used for "the source must stay intact")
    bool check_image_as(const std::string& op, const std::string& kind, const AnyM& m, const Truth& t, const std::vector<std::string>& ex)
    {
      Decoded d; std::string why;
      c.event();
      if(!decode(m.key, m.arrays(), d, why)) { fail(op, kind, vh::J().kv("why", why), ex); return false; }
      if(d.R != t.R || d.C != t.C) { fail(op, kind, vh::J().kv("why", "dimensions changed"), ex); return false; }
      for(std::size_t q = 0; q < t.v.size(); ++q)
      {
        const LD e = m.key.dt ? (LD)(double)t.v[q] : (LD)(float)(double)t.v[q];
        if(!(e == d.v[q])) { fail(op, kind, vh::J().kv("why", "image changed").kv("row", (unsigned long)(q / t.C)).kv("col", (unsigned long)(q % t.C)).kv("got", d.v[q]).kv("expected", e), ex); return false; }
      }
      return true;
    }

    // cross-type clone: target<DT2,IT2>.clone(source<DT,IT>, mode)
    void step_xclone()
    {
      std::vector<const XClone*> cand;
      for(auto& x : reg().xclones) if(x.from == cur->key) cand.push_back(&x);
      if(cand.empty()) return;
      const XClone& xc = *cand[c.rng.below(cand.size())];
      do_xclone(xc, int(c.rng.below(5)), int(c.rng.below(2)));
    }
    void do_xclone(const XClone& xc, const int mode, const int variant)
    {
      const std::string op = std::string(fmt_name(cur->key.fmt)) + ".xclone";
      const std::vector<std::string> ex = {std::string("mode:") + mode_name(mode), xc.to.dt == xc.from.dt ? "same_dt" : "other_dt", xc.to.it == xc.from.it ? "same_it" : "other_it"};
      refresh(op, vh::J().kv("op", op).kv("mode", mode_name(mode)).kv("to", xc.to.name()).kv("variant", variant).str());
      const std::uint64_t h0 = cur->hash();
      if(c.has_tag("null_array"))
      {
        const AnyM* src = cur.get();
        vh::ForkResult fr = vh::run_forked([&] { P x = xc.fn(*src, mode, variant); });
        c.event();
        if(fr.died()) { fail(op, "crash", vh::J().kv("signal", fr.sig).kv("exit", fr.code).kv("stderr", fr.err.substr(0, 700)), ex); return; }
      }
      P next = xc.fn(*cur, mode, variant);
      if(!unchanged(op, *cur, h0, ex)) return;
      Arr a = cur->arrays(), b = next->arrays();
      c.event();
      if(a.el.size() != b.el.size() || a.ix.size() != b.ix.size() || a.els != b.els || a.ixs != b.ixs || a.sc != b.sc)
      { fail(op, "clone-shape", vh::J().kv("why", "array counts / sizes / scalar index differ from the source"), ex); return; }
      // documented clone semantics (CloneMode; the template is \copydoc'ed from the same-type clone): Deep/Allocate share
      // nothing in ANY type combination; Shallow/Weak/Layout can only share arrays whose element type is unchanged
      const bool share_ix = mode <= 2 && xc.to.it == xc.from.it, share_el = mode == 0 && xc.to.dt == xc.from.dt;
#ifndef C02_SKIP_XALIAS // (debug switch: lets the mutation monitors be validated on their own)
      for(std::size_t i = 0; i < a.ix.size(); ++i)
      {
        if(!a.ix[i] && !b.ix[i]) continue;
        if((a.ix[i] == b.ix[i]) != share_ix)
        { fail(op, "alias", vh::J().kv("array", "indices").kv("index", (unsigned long)i).kv("shared", a.ix[i] == b.ix[i]).kv("expected_shared", share_ix), ex); return; }
      }
      for(std::size_t i = 0; i < a.el.size(); ++i)
      {
        if(!a.el[i] && !b.el[i]) continue;
        if((a.el[i] == b.el[i]) != share_el)
        { fail(op, "alias", vh::J().kv("array", "elements").kv("index", (unsigned long)i).kv("shared", a.el[i] == b.el[i]).kv("expected_shared", share_el), ex); return; }
      }
#endif
      if(mode == 4) { c.count("xclone:allocate"); return; }
      Decoded ds, dn; std::string why;
      if(!decode(cur->key, a, ds, why)) return;
      Truth t = truth;
      if(xc.to.dt == 0 && xc.from.dt == 1) t.round_to_float();
      if(mode == 1) { if(!check_pattern(op, *next, ds, ex, &dn)) return; }
      else if(!check_image(op, *next, t, ex, &dn)) return;
      // value mutation monitor, both directions, raw bits of the read side
      if(ds.used > 0)
      {
        for(int dir = 0; dir < 2; ++dir)
        {
          AnyM& wr = dir == 0 ? *cur : *next; AnyM& rd = dir == 0 ? *next : *cur;
          Arr aw = wr.arrays(), ar = rd.arrays();
          std::size_t q = std::size_t(c.rng.below(ds.mask.size()));
          while(!ds.mask[q]) q = (q + 1) % ds.mask.size();
          const std::size_t k = ds.slot[q];
          const std::uint64_t bw0 = getbits(aw.el[0], wr.key.dt, k), br0 = getbits(ar.el[0], rd.key.dt, k);
          double nv = 3.0;
          for(double cand2 : {3.0, 5.0, 7.0}) { setv(aw.el[0], wr.key.dt, k, cand2); const std::uint64_t nb = getbits(aw.el[0], wr.key.dt, k); setbits(aw.el[0], wr.key.dt, k, bw0); if(nb != bw0 && (!share_el || nb != br0)) { nv = cand2; break; } }
          setv(aw.el[0], wr.key.dt, k, nv);
          const std::uint64_t bw1 = getbits(aw.el[0], wr.key.dt, k), br1 = getbits(ar.el[0], rd.key.dt, k);
          setbits(aw.el[0], wr.key.dt, k, bw0);
          c.event();
          if(share_el ? (br1 != bw1) : (br1 != br0))
          {
            fail(op, share_el ? "shallow-not-aliased" : "not-value-independent", vh::J().kv("direction", dir == 0 ? "write source, read clone" : "write clone, read source").kv("slot", (unsigned long)k), ex);
            return;
          }
        }
      }
      // layout mutation monitor (only where nothing may be shared): the clone is re-laid-out, the source must not notice
      bool keep_clone = c.rng.coin(0.6);
      if(!share_ix && !share_el && mode != 1)
      {
        if(!layout_mutation(op, *next, &t, *cur, truth, ex)) return;
        if(c.rng.coin(0.5)) { if(!layout_mutation(op, *cur, &truth, *next, t, ex)) return; }
      }
      else if(!check_image(op, *cur, truth, ex)) return;
      if(mode == 1)
      {
        if(c.rng.coin(0.5)) { fill_values(*next, dn); cur = std::move(next); check_image(op, *cur, truth, ex); }
        return;
      }
      if(keep_clone) { truth = t; cur = std::move(next); }
    }

    void step_transpose()
    {
      const std::string fmt = fmt_name(cur->key.fmt);
      const bool inplace = cur->key.fmt == F_DENSE && c.rng.coin(0.3);
      const std::string op = fmt + (inplace ? ".transpose_inplace" : ".transpose");
      const int variant = int(c.rng.below(7));
      refresh(op, vh::J().kv("op", op).kv("variant", variant).str());
      Truth t = truth.transposed();
      if(inplace)
      {
        cur->transpose_inplace();
        if(!check_image(op, *cur, t)) return;
        truth = t; return;
      }
      const std::uint64_t h0 = cur->hash();
      P next = cur->transpose(variant);
      if(!unchanged(op, *cur, h0)) return;
      if(!check_image(op, *next, t)) return;
      truth = t; cur = std::move(next);
    }

    static std::vector<Index> rand_perm(vh::Rng& r, Index n)
    {
      std::vector<Index> p(n); for(Index i = 0; i < n; ++i) p[i] = i;
      const int kind = int(r.below(6));
      if(kind == 0) return p;                                     // identity
      if(kind == 1) { std::reverse(p.begin(), p.end()); return p; }
      if(kind == 2 && n > 1) { std::rotate(p.begin(), p.begin() + 1, p.end()); return p; }
      r.shuffle(p); return p;
    }
    static Permutation mk_perm(const std::vector<Index>& p)
    {
      if(p.empty()) return Permutation();
      return Permutation(Index(p.size()), Permutation::ConstrType::perm, p.data());
    }
    static std::vector<Index> inverse_of(const std::vector<Index>& p)
    {
      std::vector<Index> q(p.size()); for(Index i = 0; i < Index(p.size()); ++i) q[p[i]] = i; return q;
    }
    static std::vector<Index> blow_up(const std::vector<Index>& p, int b)
    {
      std::vector<Index> s(p.size() * std::size_t(b));
      for(std::size_t i = 0; i < s.size(); ++i) s[i] = p[i / std::size_t(b)] * Index(b) + Index(i % std::size_t(b));
      return s;
    }

    void step_permute()
    {
      const std::string op = std::string(fmt_name(cur->key.fmt)) + ".permute";
      Decoded d0; std::string why;
      if(!decode(cur->key, cur->arrays(), d0, why)) return;
      std::vector<Index> p = rand_perm(c.rng, d0.BR), q = rand_perm(c.rng, d0.BC);
      const bool back = c.rng.coin(0.6);
      refresh(op, vh::J().kv("op", op).raw("p", vh::jarr(p, 48)).raw("q", vh::jarr(q, 48)).kv("then_inverse", back).str());
      const int BH = cur->key.fmt == F_BCSR ? cur->key.bh : 1, BW = cur->key.fmt == F_BCSR ? cur->key.bw : 1;
      for(int pass = 0; pass < (back ? 2 : 1); ++pass)
      {
        std::vector<Index> pp = pass ? inverse_of(p) : p, qq = pass ? inverse_of(q) : q;
        Permutation P1 = mk_perm(pp), P2 = mk_perm(qq);
        if(d0.used == 0)
        {
          // entry-free matrices own no arrays: probe in a child first so that the worker survives a crash
          AnyM* m = cur.get();
          vh::ForkResult fr = vh::run_forked([&] { m->permute(P1, P2); });
          c.event();
          if(fr.died())
          {
            fail(op, "crash", vh::J().kv("signal", fr.sig).kv("exit", fr.code).kv("stderr", fr.err.substr(0, 600)));
            return;
          }
        }
        cur->permute(P1, P2);
        Truth t = truth.permuted(blow_up(pp, BH), blow_up(qq, BW));
        if(!check_image(pass ? op + "(inverse)" : op, *cur, t)) return;
        truth = t;
      }
    }

    void step_layout()
    {
      const std::string op = std::string(fmt_name(cur->key.fmt)) + ".layout";
      const int variant = int(c.rng.below(3));
      refresh(op, vh::J().kv("op", op).kv("variant", variant == 0 ? "ctor" : (variant == 1 ? "assign-empty" : "assign-nonempty")).str());
      Decoded d0; std::string why;
      if(!decode(cur->key, cur->arrays(), d0, why)) return;
      const std::uint64_t h0 = cur->hash();
      P next = cur->from_layout(variant);
      if(!unchanged(op, *cur, h0)) return;
      Arr a = cur->arrays(), b = next->arrays();
      c.event();
      if(a.ix != b.ix) { fail(op, "alias", vh::J().kv("why", "matrix built from layout() does not share the index arrays")); return; }
      for(std::size_t i = 0; i < b.el.size(); ++i) if(b.el[i] && i < a.el.size() && b.el[i] == a.el[i])
      { fail(op, "alias", vh::J().kv("why", "matrix built from layout() shares the value array")); return; }
      Decoded dn;
      if(!check_pattern(op, *next, d0, {}, &dn)) return;
      if(!check_image(op, *cur, truth)) return;
      if(c.rng.coin(0.6)) { fill_values(*next, dn); cur = std::move(next); check_image(op, *cur, truth); }
    }

    void step_graph()
    {
      const std::string op = std::string(fmt_name(cur->key.fmt)) + ".from_graph";
      refresh(op, vh::J().kv("op", op).str());
      Decoded d0; std::string why;
      if(!decode(cur->key, cur->arrays(), d0, why)) return;
      const int BH = cur->key.fmt == F_BCSR ? cur->key.bh : 1, BW = cur->key.fmt == F_BCSR ? cur->key.bw : 1;
      std::vector<Index> dom(d0.BR + 1, 0), img;
      for(Index i = 0; i < d0.BR; ++i)
      {
        for(Index j = 0; j < d0.BC; ++j) if(d0.mask[std::size_t(i) * BH * d0.C + std::size_t(j) * BW]) img.push_back(j);
        dom[i + 1] = Index(img.size());
      }
      const Index nidx = Index(img.size());
      if(img.empty()) img.push_back(0);
      Graph g(d0.BR, d0.BC, nidx, dom.data(), img.data());
      P next = cur->from_graph(g);
      Decoded dn;
      if(!check_pattern(op, *next, d0, {}, &dn)) return;
      fill_values(*next, dn); cur = std::move(next); check_image(op, *cur, truth);
    }

    void step_move()
    {
      const std::string op = std::string(fmt_name(cur->key.fmt)) + ".move";
      const int variant = int(c.rng.below(3));
      refresh(op, vh::J().kv("op", op).kv("variant", variant == 0 ? "construct" : (variant == 1 ? "assign-empty" : "assign-nonempty")).str());
      P next;
      if(variant == 0) next = cur->move_construct();
      else
      {
        next = variant == 1 ? cur->make_default() : cur->clone(3, 0);
        cur->move_assign_to(*next);
      }
      if(!check_image(op, *next, truth)) return;
      cur = std::move(next);
    }

    void random_step()
    {
      for(int tries = 0; tries < 8; ++tries)
      {
        const int before = nsteps;
        const int w = int(c.rng.below(100));
        if(w < 24) step_convert(true);
        else if(w < 36) step_convert(false);
        else if(w < 46) step_clone();
        else if(w < 54) step_xclone();
        else if(w < 66) { if(cur->can_transpose()) step_transpose(); }
        else if(w < 78) { if(cur->can_permute()) step_permute(); }
        else if(w < 86) { if(cur->has_layout()) step_layout(); }
        else if(w < 92) { if(cur->has_layout()) step_graph(); }
        else step_move();
        if(nsteps != before) return;
      }
    }
  };

  std::size_t n_edge() { return vl::edge_corpus_size() + 3; }
  vl::MatSpec edge_spec(std::size_t i)
  {
    if(i < vl::edge_corpus_size()) return vl::edge_matrix(i);
    vl::MatSpec m; m.vstyle = 0; m.pattern = "edge";
    switch(i - vl::edge_corpus_size()) { case 0: m.rows = 0; m.cols = 3; break; case 1: m.rows = 3; m.cols = 0; break; default: m.rows = 0; m.cols = 0; break; }
    m.classify(); m.tag("edge_corpus");
    return m;
  }

  // builds the start matrix of a case; returns false if the format cannot hold the spec
  bool start(Chain& ch, const Key& key, bool edge, std::size_t edge_idx)
  {
    vh::Ctx& c = ch.c;
    vl::GenOpt o;
    const bool big = c.thorough() && c.rng.coin(0.03);
    o.max_dim = c.thorough() ? (big ? 400 : 60) : 40;
    if(key.fmt == F_BCSR) o.max_dim = std::max<Index>(2, o.max_dim / Index(std::max(key.bh, key.bw)));
    o.float_exact = c.rng.coin(0.5);
    vl::MatSpec s = edge ? edge_spec(edge_idx) : vl::gen_matrix(c.rng, o);
    std::vector<std::string> extra;
    ch.cur = reg().makers[key.id()](c.rng, s, ch.truth, extra);
    if(!ch.cur) return false;
    if(key.dt == 0 && !o.float_exact) ch.truth.round_to_float(); // the float container holds the rounded values
    ch.base_tags.clear();
    if(edge) ch.base_tags.push_back("edge_corpus");
    ch.base_tags.push_back("pattern:" + s.pattern);
    if(!o.float_exact) ch.base_tags.push_back("inexact_in_float");
    if(big) ch.base_tags.push_back("big");
    for(auto& t : extra) ch.base_tags.push_back(t);
    ch.input_desc = vh::J().kv("start", key.name()).raw("spec", s.describe(24)).str();
    c.tags = ch.base_tags;
    c.desc = vh::J().raw("input", ch.input_desc).str();
    return true;
  }
}

// ---------------------------------------------------------------------------------------------------------------------
// family chain: random chains; the first n_edge()*#types cases put every edge matrix into every type
VH_FAMILY(chain)
{
  const std::vector<Key> keys = all_keys();
  const std::size_t ne = n_edge() * keys.size();
  const bool edge = c.k < ne;
  const Key key = edge ? keys[c.k / n_edge()] : keys[c.rng.below(keys.size())];
  Chain ch(c);
  c.set_op("build");
  if(!start(ch, key, edge, std::size_t(c.k % n_edge()))) { c.trivial = true; return; }
  if(!ch.check_image("build", *ch.cur, ch.truth)) { return; }
  const int maxl = c.thorough() ? 12 : 6;
  const int len = int(c.rng.range(1, maxl));
  for(int s = 0; s < len && !ch.dead; ++s) ch.random_step();
  c.count("steps", std::uint64_t(ch.nsteps));
  std::string pat; for(auto& t : ch.base_tags) if(t.rfind("pattern:", 0) == 0) pat = t;
  c.sig = key.name() + "|" + pat + (edge ? "|edge" : "") + ch.sig_ops;
}

// family pairs: every registered ordered conversion pair, systematically (edge corpus first, then random inputs)
VH_FAMILY(pairs)
{
  auto& convs = reg().convs;
  const Conv& cv = convs[c.k % convs.size()];
  const std::size_t round = c.k / convs.size();
  Chain ch(c);
  c.set_op("build");
  if(!start(ch, cv.from, round < n_edge(), round)) { c.trivial = true; return; }
  if(!ch.check_image("build", *ch.cur, ch.truth)) return;
  Decoded d; std::string why;
  if(!decode(ch.cur->key, ch.cur->arrays(), d, why)) return;
  if(cv.need_entries && d.used == 0) { c.trivial = true; c.count("skipped:precondition-entries"); return; }
  ch.apply_conv(cv, int(round % 3));
  if(!ch.dead && c.rng.coin(0.5)) ch.random_step();
  c.sig = cv.op + "|" + cv.from.name() + "->" + cv.to.name() + "|" + (round < n_edge() ? "edge" + std::to_string(round) : ch.base_tags[0]) + ch.sig_ops;
}

// family xclones: every cross-type clone (format x (DT,IT)->(DT2,IT2)) x clone mode, systematically
VH_FAMILY(xclones)
{
  auto& xs = reg().xclones;
  const std::size_t combos = xs.size() * 5;
  const XClone& xc = xs[(c.k % combos) / 5];
  const int mode = int(c.k % 5);
  const std::size_t round = c.k / combos;
  Chain ch(c);
  c.set_op("build");
  if(!start(ch, xc.from, round < n_edge(), round)) { c.trivial = true; return; }
  if(!ch.check_image("build", *ch.cur, ch.truth)) return;
  ch.do_xclone(xc, mode, int(round % 2));
  if(!ch.dead && c.rng.coin(0.5)) ch.random_step();
  c.sig = std::string("xclone|") + xc.from.name() + "->" + xc.to.name() + "|" + mode_name(mode) + "|" + (round < n_edge() ? "edge" + std::to_string(round) : ch.base_tags[0]);
}

VH_FEAT_MAIN
