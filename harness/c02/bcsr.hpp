// C02 -- BCSR registration helper (one pair of transposed block shapes per TU)
#pragma once
#include "traits.hpp"
namespace c02
{
  template<typename DT, typename IT, int BH, int BW> static void reg_bcsr_one()
  {
    typedef SparseMatrixBCSR<DT, IT, BH, BW> B; typedef SparseMatrixCSR<DT, IT> C;
    reg_maker<B>([](vh::Rng& r, const vl::MatSpec& s, Truth& t, std::vector<std::string>& tags) -> P
    {
      if(s.rows == 0 || s.cols == 0) return P();   // the array constructor asserts non-zero dimensions
      vl::MatSpec sm;
      P p(new Holder<B>(vl::make_bcsr<DT, IT, BH, BW>(r, s, sm)));
      t.from_spec(sm);
      (void)tags;
      return p;
    });
    reg_conv<C, B>("csr.convert<-bcsr", false);
  }
  template<int BH, int BW> static void reg_bcsr_shape()
  {
    reg_bcsr_one<float, std::uint32_t, BH, BW>(); reg_bcsr_one<float, std::uint64_t, BH, BW>();
    reg_bcsr_one<double, std::uint32_t, BH, BW>(); reg_bcsr_one<double, std::uint64_t, BH, BW>();
  }
}
