// C02 -- BCSR 2x2 and 3x3
#include "bcsr.hpp"
namespace c02
{
  template<typename D, typename I> using B22 = SparseMatrixBCSR<D, I, 2, 2>;
  template<typename D, typename I> using B33 = SparseMatrixBCSR<D, I, 3, 3>;
  static struct InitBcsrA
  {
    InitBcsrA()
    {
      reg_bcsr_shape<2, 2>(); reg_bcsr_shape<3, 3>();
      reg_type_convs<B22>("bcsr");
      // mixed-type BCSR -> CSR and the generic set_line route BCSR -> CSCR
      reg_conv<SparseMatrixCSR<double, std::uint64_t>, B22<float, std::uint32_t>>("csr.convert<-bcsr", false);
      reg_conv<SparseMatrixCSR<float, std::uint32_t>, B33<double, std::uint64_t>>("csr.convert<-bcsr", false);
      reg_conv<SparseMatrixCSCR<double, std::uint64_t>, B22<double, std::uint64_t>>("cscr.convert<-bcsr", true);
    }
  } init_bcsr_a;
}
