// C02 -- CSCR: makers, DT/IT conversions, CSR<->CSCR (generic set_line protocol)
#include "traits.hpp"
namespace c02
{
  template<typename DT, typename IT> static void reg_cscr()
  {
    typedef SparseMatrixCSCR<DT, IT> S; typedef SparseMatrixCSR<DT, IT> C;
    reg_maker<S>([](vh::Rng&, const vl::MatSpec& s, Truth& t, std::vector<std::string>&) -> P
    {
      t.from_spec(s);
      return P(new Holder<S>(vl::make_cscr<DT, IT>(s)));
    });
    reg_conv<S, C>("cscr.convert<-csr", true);   // entry-free source runs into the XASSERTs of the array constructor
    reg_conv<C, S>("csr.convert<-cscr", true);   // XASSERT(used_elements > 0)
  }
  static struct InitCSCR
  {
    InitCSCR()
    {
      reg_cscr<float, std::uint32_t>(); reg_cscr<float, std::uint64_t>(); reg_cscr<double, std::uint32_t>(); reg_cscr<double, std::uint64_t>();
      reg_type_convs<SparseMatrixCSCR>("cscr");
      reg_conv<SparseMatrixCSCR<double, std::uint64_t>, SparseMatrixCSR<float, std::uint32_t>>("cscr.convert<-csr", true);
      reg_conv<SparseMatrixCSR<float, std::uint32_t>, SparseMatrixCSCR<double, std::uint64_t>>("csr.convert<-cscr", true);
    }
  } init_cscr;
}
