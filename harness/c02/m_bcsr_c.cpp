// C02 -- BCSR 1x3 and 3x1
#include "bcsr.hpp"
namespace c02
{
  template<typename D, typename I> using B13 = SparseMatrixBCSR<D, I, 1, 3>;
  template<typename D, typename I> using B31 = SparseMatrixBCSR<D, I, 3, 1>;
  static struct InitBcsrC
  {
    InitBcsrC()
    {
      reg_bcsr_shape<1, 3>(); reg_bcsr_shape<3, 1>();
      reg_type_convs<B31>("bcsr");
    }
  } init_bcsr_c;
}
