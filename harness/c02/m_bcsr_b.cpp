// C02 -- BCSR 2x3 and 3x2
#include "bcsr.hpp"
namespace c02
{
  template<typename D, typename I> using B23 = SparseMatrixBCSR<D, I, 2, 3>;
  template<typename D, typename I> using B32 = SparseMatrixBCSR<D, I, 3, 2>;
  static struct InitBcsrB
  {
    InitBcsrB()
    {
      reg_bcsr_shape<2, 3>(); reg_bcsr_shape<3, 2>();
      reg_type_convs<B23>("bcsr");
      reg_conv<SparseMatrixCSCR<float, std::uint32_t>, B32<float, std::uint32_t>>("cscr.convert<-bcsr", true);
    }
  } init_bcsr_b;
}
