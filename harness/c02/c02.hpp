// C02 -- conversion / cloning / transposition / permutation preserve the matrix.
// Type-erased matrix handle + registry so that every storage format lives in its own TU.
// The dense image and the structural validity are decoded by the harness from the *raw arrays*
// (Container::get_elements()/get_indices()/get_scalar_index()), never through FEAT accessors.
#pragma once
#include <common/vh_lafem.hpp>
#include <kernel/adjacency/graph.hpp>
#include <kernel/adjacency/permutation.hpp>
#include <memory>
#include <functional>

namespace c02
{
  using vl::LD;
  using FEAT::Index;

  enum { F_CSR = 0, F_BANDED = 1, F_BCSR = 2, F_CSCR = 3, F_DENSE = 4 };
  inline const char* fmt_name(int f) { static const char* n[] = {"csr", "banded", "bcsr", "cscr", "dense"}; return n[f]; }

  struct Key
  {
    int fmt = 0, dt = 1, it = 1, bh = 1, bw = 1; // dt: 0 float 1 double; it: 0 u32 1 u64
    int id() const { return (((fmt * 2 + dt) * 2 + it) * 4 + bh) * 4 + bw; }
    bool operator==(const Key& o) const { return id() == o.id(); }
    bool operator!=(const Key& o) const { return id() != o.id(); }
    std::string name() const
    {
      std::string s = fmt_name(fmt);
      if(fmt == F_BCSR) s += std::to_string(bh) + "x" + std::to_string(bw);
      s += dt ? "<double," : "<float,"; s += it ? "u64>" : "u32>";
      return s;
    }
  };
  template<typename DT> inline int dt_id() { return std::is_same<DT, double>::value ? 1 : 0; }
  template<typename IT> inline int it_id() { return sizeof(IT) == 8 ? 1 : 0; }

  // the mathematical image the chain should have (generator-owned)
  struct Truth
  {
    Index R = 0, C = 0;
    std::vector<LD> v;
    void init(Index r, Index c) { R = r; C = c; v.assign(std::size_t(r) * c, 0.0L); }
    LD& at(Index i, Index j) { return v[std::size_t(i) * C + j]; }
    LD at(Index i, Index j) const { return v[std::size_t(i) * C + j]; }
    Truth transposed() const
    {
      Truth t; t.init(C, R);
      for(Index i = 0; i < R; ++i) for(Index j = 0; j < C; ++j) t.at(j, i) = at(i, j);
      return t;
    }
    // new(i,j) = old(p[i], q[j])
    Truth permuted(const std::vector<Index>& p, const std::vector<Index>& q) const
    {
      Truth t; t.init(R, C);
      for(Index i = 0; i < R; ++i) for(Index j = 0; j < C; ++j) t.at(i, j) = at(p[i], q[j]);
      return t;
    }
    void round_to_float() { for(auto& x : v) x = (LD)(float)(double)x; }
    void from_spec(const vl::MatSpec& m) { init(m.rows, m.cols); for(auto& e : m.t) at(e.r, e.c) = (LD)e.v; }
    bool entry_free_values() const { for(auto x : v) if(x != 0.0L) return false; return true; }
  };

  // raw view of a container
  struct Arr
  {
    std::vector<void*> el, ix;
    std::vector<Index> els, ixs, sc;
    bool same_ptrs(const Arr& o) const { return el == o.el && ix == o.ix; }
  };

  struct AnyM;
  typedef std::unique_ptr<AnyM> P;

  struct AnyM
  {
    Key key;
    virtual ~AnyM() {}
    virtual Arr arrays() const = 0;
    virtual std::uint64_t hash() const = 0;
    // FEAT accessors (cross-checked against the raw decoding)
    virtual Index api_rows() const = 0;    // scalar ("pod") perspective
    virtual Index api_cols() const = 0;
    virtual Index api_used() const = 0;    // scalar perspective
    virtual LD api_at(Index i, Index j) const = 0; // operator()(i,j), scalar perspective
    // operations; nullptr / false = not offered by the format
    virtual P make_default() const = 0;
    virtual P clone(int mode, int variant) const = 0;
    virtual P move_construct() = 0;
    virtual void move_assign_to(AnyM& target) = 0;     // target.m = std::move(this->m)
    virtual bool can_transpose() const { return false; }
    virtual P transpose(int /*variant*/) const { return P(); }
    virtual bool can_permute() const { return false; }
    virtual void permute(FEAT::Adjacency::Permutation&, FEAT::Adjacency::Permutation&) {}
    virtual bool has_layout() const { return false; }
    virtual P from_layout(int /*variant*/) const { return P(); }
    virtual P from_graph(const FEAT::Adjacency::Graph&) const { return P(); }
    virtual bool transpose_inplace() { return false; }
  };

  struct Conv
  {
    Key from, to;
    std::string op;                       // e.g. "banded.convert<-csr"
    bool need_entries;                    // documented precondition (XASSERT): source must hold entries
    std::function<P(const AnyM&, int)> fn;  // (source, variant)
  };
  // cross-type clone: target<DT,IT>.clone(source<DT2,IT2>, mode) (Container::clone template)
  struct XClone
  {
    Key from, to;
    std::function<P(const AnyM&, int, int)> fn;   // (source, clone mode, variant: 0 default-constructed / 1 non-empty target)
  };
  typedef std::function<P(vh::Rng&, const vl::MatSpec&, Truth&, std::vector<std::string>&)> Maker;
  struct Registry
  {
    std::map<int, Key> keys;
    std::map<int, Maker> makers;
    std::vector<Conv> convs;
    std::vector<XClone> xclones;
  };
  Registry& reg(); // defined in chain.cpp

  // ---------------------------------------------------------------- raw decoding (harness side)
  inline LD getv(const void* p, int dt, std::size_t k) { return dt ? (LD)static_cast<const double*>(p)[k] : (LD)static_cast<const float*>(p)[k]; }
  inline Index geti(const void* p, int it, std::size_t k) { return it ? Index(static_cast<const std::uint64_t*>(p)[k]) : Index(static_cast<const std::uint32_t*>(p)[k]); }
  inline void setv(void* p, int dt, std::size_t k, double v) { if(dt) static_cast<double*>(p)[k] = v; else static_cast<float*>(p)[k] = float(v); }

  inline std::uint64_t getbits(const void* p, int dt, std::size_t k)
  { if(dt) { std::uint64_t b; std::memcpy(&b, static_cast<const double*>(p) + k, 8); return b; } std::uint32_t b; std::memcpy(&b, static_cast<const float*>(p) + k, 4); return b; }
  inline void setbits(void* p, int dt, std::size_t k, std::uint64_t b)
  { if(dt) std::memcpy(static_cast<double*>(p) + k, &b, 8); else { std::uint32_t c = std::uint32_t(b); std::memcpy(static_cast<float*>(p) + k, &c, 4); } }

  struct Decoded
  {
    Index R = 0, C = 0;          // scalar dimensions
    Index BR = 0, BC = 0;        // native (block) dimensions
    std::vector<LD> v;           // dense image
    std::vector<char> mask;      // stored positions
    std::vector<std::size_t> slot; // index into the value array of the stored position (or npos)
    Index used = 0;              // number of stored scalar positions
  };

  // Decodes dims, image, pattern and checks the structural validity of the layout. `values` false: pattern/dims only.
  inline bool decode(const Key& key, const Arr& a, Decoded& d, std::string& why)
  {
    const std::size_t npos = ~std::size_t(0);
    auto fail = [&](const std::string& s) { why = s; return false; };
    const int BH = key.fmt == F_BCSR ? key.bh : 1, BW = key.fmt == F_BCSR ? key.bw : 1;
    const std::size_t nsc = key.fmt == F_DENSE ? 3 : (key.fmt == F_CSR || key.fmt == F_BCSR ? 4 : 5);
    if(a.sc.size() != nsc) return fail("scalar index has " + std::to_string(a.sc.size()) + " entries, expected " + std::to_string(nsc));
    d.BR = a.sc[1]; d.BC = a.sc[2]; d.R = d.BR * Index(BH); d.C = d.BC * Index(BW);
    if(a.sc[0] != d.BR * d.BC) return fail("size() != rows*columns");
    if(a.el.size() != a.els.size() || a.ix.size() != a.ixs.size()) return fail("array list / size list length mismatch");
    d.v.assign(std::size_t(d.R) * d.C, 0.0L); d.mask.assign(d.v.size(), 0); d.slot.assign(d.v.size(), npos); d.used = 0;
    auto put = [&](Index i, Index j, std::size_t k, const void* val) { std::size_t q = std::size_t(i) * d.C + j; d.v[q] = getv(val, key.dt, k); d.mask[q] = 1; d.slot[q] = k; ++d.used; };
    switch(key.fmt)
    {
    case F_DENSE:
    {
      if(d.v.empty()) { if(!a.el.empty() && a.els[0] != 0) return fail("dense: arrays on an empty matrix"); return true; }
      if(a.el.size() != 1 || !a.ix.empty()) return fail("dense: expected exactly one value array");
      if(a.els[0] != d.R * d.C || !a.el[0]) return fail("dense: value array size != rows*columns");
      for(Index i = 0; i < d.R; ++i) for(Index j = 0; j < d.C; ++j) put(i, j, std::size_t(i) * d.C + j, a.el[0]);
      return true;
    }
    case F_CSR: case F_BCSR:
    {
      const Index nz = a.sc[3];
      if(nz == 0) return true; // entry-free: no arrays are required
      if(a.el.size() != 1 || a.ix.size() != 2) return fail("csr: expected 1 value + 2 index arrays, have " + std::to_string(a.el.size()) + "+" + std::to_string(a.ix.size()));
      if(!a.el[0] || !a.ix[0] || !a.ix[1]) return fail("csr: null array with used_elements>0");
      if(a.els[0] != nz * Index(BH * BW)) return fail("csr: value array size != used_elements");
      if(a.ixs[0] != nz) return fail("csr: col_ind size != used_elements");
      if(a.ixs[1] != d.BR + 1) return fail("csr: row_ptr size != rows+1");
      const void* ci = a.ix[0]; const void* rp = a.ix[1];
      if(geti(rp, key.it, 0) != 0) return fail("row_ptr[0]!=0");
      if(geti(rp, key.it, d.BR) != nz) return fail("row_ptr[rows]!=used_elements");
      for(Index i = 0; i < d.BR; ++i)
      {
        const Index b = geti(rp, key.it, i), e = geti(rp, key.it, i + 1);
        if(e < b) return fail("row_ptr not monotone at row " + std::to_string(i));
        if(e > nz) return fail("row_ptr beyond used_elements at row " + std::to_string(i));
        for(Index k = b; k < e; ++k)
        {
          const Index col = geti(ci, key.it, k);
          if(col >= d.BC) return fail("column index out of range in row " + std::to_string(i));
          if(k > b && col <= geti(ci, key.it, k - 1)) return fail("column indices not strictly increasing in row " + std::to_string(i));
          for(int y = 0; y < BH; ++y) for(int x = 0; x < BW; ++x)
            put(i * Index(BH) + Index(y), col * Index(BW) + Index(x), std::size_t(k) * std::size_t(BH * BW) + std::size_t(y * BW + x), a.el[0]);
        }
      }
      return true;
    }
    case F_CSCR:
    {
      const Index nz = a.sc[3], ur = a.sc[4];
      if(nz == 0 && ur == 0) return true;
      if(a.el.size() != 1 || a.ix.size() != 3) return fail("cscr: expected 1 value + 3 index arrays");
      if(!a.el[0] || !a.ix[0] || !a.ix[1] || !a.ix[2]) return fail("cscr: null array with used_elements>0");
      if(a.els[0] != nz || a.ixs[0] != nz) return fail("cscr: val/col_ind size != used_elements");
      if(a.ixs[1] != ur + 1) return fail("cscr: row_ptr size != used_rows+1");
      if(a.ixs[2] != ur) return fail("cscr: row_numbers size != used_rows");
      if(ur > d.R) return fail("cscr: used_rows > rows");
      const void* ci = a.ix[0]; const void* rp = a.ix[1]; const void* rn = a.ix[2];
      if(geti(rp, key.it, 0) != 0) return fail("row_ptr[0]!=0");
      if(geti(rp, key.it, ur) != nz) return fail("row_ptr[used_rows]!=used_elements");
      for(Index r = 0; r < ur; ++r)
      {
        const Index row = geti(rn, key.it, r);
        if(row >= d.R) return fail("cscr: row number out of range");
        if(r > 0 && row <= geti(rn, key.it, r - 1)) return fail("cscr: row numbers not strictly increasing");
        const Index b = geti(rp, key.it, r), e = geti(rp, key.it, r + 1);
        if(e < b) return fail("row_ptr not monotone at used row " + std::to_string(r));
        if(e > nz) return fail("row_ptr beyond used_elements at used row " + std::to_string(r));
        for(Index k = b; k < e; ++k)
        {
          const Index col = geti(ci, key.it, k);
          if(col >= d.C) return fail("column index out of range in row " + std::to_string(row));
          if(k > b && col <= geti(ci, key.it, k - 1)) return fail("column indices not strictly increasing in row " + std::to_string(row));
          put(row, col, k, a.el[0]);
        }
      }
      return true;
    }
    case F_BANDED:
    {
      const Index no = a.sc[4];
      if(no == 0) { if(a.sc[3] != 0) return fail("banded: used_elements>0 without offsets"); return true; }
      if(a.el.size() != 1 || a.ix.size() != 1) return fail("banded: expected 1 value + 1 offsets array");
      if(!a.el[0] || !a.ix[0]) return fail("banded: null array with offsets");
      if(a.ixs[0] != no) return fail("banded: offsets size != num_of_offsets");
      if(a.els[0] != no * d.R) return fail("banded: value array size != rows*num_of_offsets");
      for(Index o = 0; o < no; ++o)
      {
        const Index off = geti(a.ix[0], key.it, o);
        if(off + 2 > d.R + d.C) return fail("banded: offset out of matrix");
        if(o > 0 && off <= geti(a.ix[0], key.it, o - 1)) return fail("banded: offsets not strictly increasing");
        for(Index l = 0; l < d.R; ++l)
        {
          const long col = long(l) + long(off) + 1 - long(d.R);
          if(col < 0 || col >= long(d.C)) continue;
          put(l, Index(col), std::size_t(o) * d.R + l, a.el[0]);
        }
      }
      if(a.sc[3] != d.used) return fail("banded: used_elements()=" + std::to_string(a.sc[3]) + " != number of in-matrix band slots " + std::to_string(d.used));
      return true;
    }
    }
    return fail("unknown format");
  }
} // namespace c02
