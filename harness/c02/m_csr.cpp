// C02 -- CSR: makers, DT/IT conversions
#include "traits.hpp"
namespace c02
{
  template<typename DT, typename IT> static void reg_csr()
  {
    reg_maker<SparseMatrixCSR<DT, IT>>([](vh::Rng&, const vl::MatSpec& s, Truth& t, std::vector<std::string>&) -> P
    {
      t.from_spec(s);
      return P(new Holder<SparseMatrixCSR<DT, IT>>(vl::make_csr<DT, IT>(s)));
    });
  }
  static struct InitCSR
  {
    InitCSR()
    {
      reg_csr<float, std::uint32_t>(); reg_csr<float, std::uint64_t>(); reg_csr<double, std::uint32_t>(); reg_csr<double, std::uint64_t>();
      reg_type_convs<SparseMatrixCSR>("csr");
    }
  } init_csr;
}
