// C02 -- per-format traits (what each storage format offers)
#pragma once
#include "holder.hpp"

namespace c02
{
  template<typename DT, typename IT>
  struct Traits<SparseMatrixCSR<DT, IT>>
  {
    typedef SparseMatrixCSR<DT, IT> M;
    static constexpr int fmt = F_CSR, bh = 1, bw = 1;
    static constexpr bool transposable = true, permutable = true, layout = true, conv_ctor = true;
    static Index rows(const M& m) { return m.template rows<Perspective::pod>(); }
    static Index cols(const M& m) { return m.template columns<Perspective::pod>(); }
    static Index used(const M& m) { return m.template used_elements<Perspective::pod>(); }
    static LD at(const M& m, Index i, Index j) { return (LD)m(i, j); }
    static P transpose(const M& m, int variant)
    {
      std::unique_ptr<Holder<M>> h(new Holder<M>());
      if(variant == 0) h->m = m.transpose();
      else if(variant == 1) h->m.transpose(m);
      else if(variant == 2 || variant == 3) { h->m.clone(m, CloneMode::Deep); h->m.transpose(m); } // non-empty target
      else if(variant == 4) { M t; t.transpose(m); h->m.clone(t, CloneMode::Deep); h->m.format(DT(7)); h->m.transpose(m); } // target already has the result layout
      else { h->m.clone(m, CloneMode::Deep); h->m.transpose(h->m); } // source is the target
      return P(h.release());
    }
  };

  template<typename DT, typename IT>
  struct Traits<SparseMatrixBanded<DT, IT>>
  {
    typedef SparseMatrixBanded<DT, IT> M;
    static constexpr int fmt = F_BANDED, bh = 1, bw = 1;
    static constexpr bool transposable = false, permutable = false, layout = true, conv_ctor = true;
    static Index rows(const M& m) { return m.template rows<Perspective::pod>(); }
    static Index cols(const M& m) { return m.template columns<Perspective::pod>(); }
    static Index used(const M& m) { return m.template used_elements<Perspective::pod>(); }
    static LD at(const M& m, Index i, Index j) { return (LD)m(i, j); }
  };

  template<typename DT, typename IT>
  struct Traits<SparseMatrixCSCR<DT, IT>>
  {
    typedef SparseMatrixCSCR<DT, IT> M;
    static constexpr int fmt = F_CSCR, bh = 1, bw = 1;
    static constexpr bool transposable = false, permutable = false, layout = true, conv_ctor = true;
    static Index rows(const M& m) { return m.template rows<Perspective::pod>(); }
    static Index cols(const M& m) { return m.template columns<Perspective::pod>(); }
    static Index used(const M& m) { return m.template used_elements<Perspective::pod>(); }
    static LD at(const M& m, Index i, Index j) { return (LD)m(i, j); }
  };

  template<typename DT, typename IT>
  struct Traits<DenseMatrix<DT, IT>>
  {
    typedef DenseMatrix<DT, IT> M;
    static constexpr int fmt = F_DENSE, bh = 1, bw = 1;
    static constexpr bool transposable = true, permutable = false, layout = false, conv_ctor = false;
    static Index rows(const M& m) { return m.rows(); }
    static Index cols(const M& m) { return m.columns(); }
    static Index used(const M& m) { return m.used_elements(); }
    static LD at(const M& m, Index i, Index j) { return (LD)m(i, j); }
    static P transpose(const M& m, int variant)
    {
      std::unique_ptr<Holder<M>> h(new Holder<M>());
      if(variant == 0) h->m = m.transpose();
      else if(variant == 1) h->m.transpose(m);                                   // default-constructed target
      else if(variant == 2 || m.size() == Index(0)) { h->m = DenseMatrix<DT, IT>(m.columns(), m.rows(), DT(7)); h->m.transpose(m); } // target with matching dims
      else if(variant == 3) { h->m = DenseMatrix<DT, IT>(m.rows(), m.columns(), DT(7)); h->m.transpose(m); }     // target with the source's shape (same size)
      else if(variant == 4) { h->m = DenseMatrix<DT, IT>(Index(1), m.size(), DT(7)); h->m.transpose(m); }         // another factorisation of the size
      else if(variant == 5) { h->m = DenseMatrix<DT, IT>(m.rows() + Index(1), m.columns() + Index(2), DT(7)); h->m.transpose(m); } // larger target
      else { h->m.clone(m, CloneMode::Deep); h->m.transpose(h->m); }                                               // source is the target
      return P(h.release());
    }
  };

  template<typename DT, typename IT, int BH, int BW>
  struct Traits<SparseMatrixBCSR<DT, IT, BH, BW>>
  {
    typedef SparseMatrixBCSR<DT, IT, BH, BW> M;
    typedef SparseMatrixBCSR<DT, IT, BW, BH> MT;
    static constexpr int fmt = F_BCSR, bh = BH, bw = BW;
    static constexpr bool transposable = true, permutable = true, layout = true, conv_ctor = false;
    static Index rows(const M& m) { return m.template rows<Perspective::pod>(); }
    static Index cols(const M& m) { return m.template columns<Perspective::pod>(); }
    static Index used(const M& m) { return m.template used_elements<Perspective::pod>(); }
    static LD at(const M& m, Index i, Index j) { auto b = m(i / Index(BH), j / Index(BW)); return (LD)b(int(i % Index(BH)), int(j % Index(BW))); }
    static P transpose(const M& m, int variant)
    {
      std::unique_ptr<Holder<MT>> h(new Holder<MT>());
      if(variant == 0) h->m = m.transpose();
      else if(variant <= 3) h->m.transpose(m);
      else { MT t; t.transpose(m); h->m.clone(t, CloneMode::Deep); h->m.format(DT(7)); h->m.transpose(m); } // non-empty target with the result layout
      return P(h.release());
    }
  };
} // namespace c02
