// C02 -- per-format traits (what each storage format offers)
#pragma once
#include "holder.hpp"

namespace c02
{
  template<typename DT, typename IT>
  struct Traits<SparseMatrixCSR<DT, IT>>
  {
    typedef SparseMatrixCSR<DT, IT> M;
    static constexpr int fmt = F_CSR, bh = 1, bw = 1;
    static constexpr bool transposable = true, permutable = true, layout = true, conv_ctor = true;
    static Index rows(const M& m) { return m.template rows<Perspective::pod>(); }
    static Index cols(const M& m) { return m.template columns<Perspective::pod>(); }
    static Index used(const M& m) { return m.template used_elements<Perspective::pod>(); }
    static LD at(const M& m, Index i, Index j) { return (LD)m(i, j); }
    static P transpose(const M& m, int variant)
    {
      std::unique_ptr<Holder<M>> h(new Holder<M>());
      if(variant == 0) h->m = m.transpose();
      else if(variant == 1) h->m.transpose(m);
      else { h->m.clone(m, CloneMode::Deep); h->m.transpose(m); } // non-empty target
      return P(h.release());
    }
  };

  template<typename DT, typename IT>
  struct Traits<SparseMatrixBanded<DT, IT>>
  {
    typedef SparseMatrixBanded<DT, IT> M;
    static constexpr int fmt = F_BANDED, bh = 1, bw = 1;
    static constexpr bool transposable = false, permutable = false, layout = true, conv_ctor = true;
    static Index rows(const M& m) { return m.template rows<Perspective::pod>(); }
    static Index cols(const M& m) { return m.template columns<Perspective::pod>(); }
    static Index used(const M& m) { return m.template used_elements<Perspective::pod>(); }
    static LD at(const M& m, Index i, Index j) { return (LD)m(i, j); }
  };

  template<typename DT, typename IT>
  struct Traits<SparseMatrixCSCR<DT, IT>>
  {
    typedef SparseMatrixCSCR<DT, IT> M;
    static constexpr int fmt = F_CSCR, bh = 1, bw = 1;
    static constexpr bool transposable = false, permutable = false, layout = true, conv_ctor = true;
    static Index rows(const M& m) { return m.template rows<Perspective::pod>(); }
    static Index cols(const M& m) { return m.template columns<Perspective::pod>(); }
    static Index used(const M& m) { return m.template used_elements<Perspective::pod>(); }
    static LD at(const M& m, Index i, Index j) { return (LD)m(i, j); }
  };

  template<typename DT, typename IT>
  struct Traits<DenseMatrix<DT, IT>>
  {
    typedef DenseMatrix<DT, IT> M;
    static constexpr int fmt = F_DENSE, bh = 1, bw = 1;
    static constexpr bool transposable = true, permutable = false, layout = false, conv_ctor = false;
    static Index rows(const M& m) { return m.rows(); }
    static Index cols(const M& m) { return m.columns(); }
    static Index used(const M& m) { return m.used_elements(); }
    static LD at(const M& m, Index i, Index j) { return (LD)m(i, j); }
    static P transpose(const M& m, int variant)
    {
      std::unique_ptr<Holder<M>> h(new Holder<M>());
      if(variant == 0) h->m = m.transpose();
      else if(variant == 1) h->m.transpose(m);                                   // default-constructed target
      else { h->m = DenseMatrix<DT, IT>(m.columns(), m.rows(), DT(7)); h->m.transpose(m); } // target with matching dims
      return P(h.release());
    }
  };

  template<typename DT, typename IT, int BH, int BW>
  struct Traits<SparseMatrixBCSR<DT, IT, BH, BW>>
  {
    typedef SparseMatrixBCSR<DT, IT, BH, BW> M;
    typedef SparseMatrixBCSR<DT, IT, BW, BH> MT;
    static constexpr int fmt = F_BCSR, bh = BH, bw = BW;
    static constexpr bool transposable = true, permutable = true, layout = true, conv_ctor = false;
    static Index rows(const M& m) { return m.template rows<Perspective::pod>(); }
    static Index cols(const M& m) { return m.template columns<Perspective::pod>(); }
    static Index used(const M& m) { return m.template used_elements<Perspective::pod>(); }
    static LD at(const M& m, Index i, Index j) { auto b = m(i / Index(BH), j / Index(BW)); return (LD)b(int(i % Index(BH)), int(j % Index(BW))); }
    static P transpose(const M& m, int variant)
    {
      std::unique_ptr<Holder<MT>> h(new Holder<MT>());
      if(variant == 0) h->m = m.transpose();
      else h->m.transpose(m);
      return P(h.release());
    }
  };
} // namespace c02
