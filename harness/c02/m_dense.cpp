// C02 -- DenseMatrix: makers, DT/IT conversions
#include "traits.hpp"
namespace c02
{
  template<typename DT, typename IT> static void reg_dense()
  {
    typedef DenseMatrix<DT, IT> D;
    reg_maker<D>([](vh::Rng&, const vl::MatSpec& s, Truth& t, std::vector<std::string>&) -> P
    {
      if(s.rows == 0 || s.cols == 0) return P();
      t.from_spec(s);
      return P(new Holder<D>(vl::make_dense<DT, IT>(s)));
    });
    // note: CSR/CSCR.convert(DenseMatrix) does not instantiate on this tree (DenseMatrix has no rows<Perspective>()),
    // so no Dense -> sparse conversion exists; the dense format only converts between its own DT/IT variants.
  }
  static struct InitDense
  {
    InitDense()
    {
      reg_dense<float, std::uint32_t>(); reg_dense<float, std::uint64_t>(); reg_dense<double, std::uint32_t>(); reg_dense<double, std::uint64_t>();
      reg_type_convs<DenseMatrix>("dense");
    }
  } init_dense;
}
