// C02 -- Banded: makers, DT/IT conversions, CSR<->Banded
#include "traits.hpp"
namespace c02
{
  template<typename DT, typename IT> static void reg_banded()
  {
    typedef SparseMatrixBanded<DT, IT> B; typedef SparseMatrixCSR<DT, IT> C;
    reg_maker<B>([](vh::Rng& r, const vl::MatSpec& s, Truth& t, std::vector<std::string>& tags) -> P
    {
      if(s.rows == 0 || s.cols == 0) return P();
      vl::MatSpec b = s;
      P p(new Holder<B>(vl::make_banded<DT, IT>(r, b)));
      t.from_spec(b);
      for(auto& x : b.tags) if(x.rfind("noffsets:", 0) == 0) tags.push_back(x);
      return p;
    });
    reg_conv<B, C>("banded.convert<-csr", true);   // XASSERT(used_elements > 0) is a documented precondition
    reg_conv<C, B>("csr.convert<-banded", false);
  }
  static struct InitBanded
  {
    InitBanded()
    {
      reg_banded<float, std::uint32_t>(); reg_banded<float, std::uint64_t>(); reg_banded<double, std::uint32_t>(); reg_banded<double, std::uint64_t>();
      reg_type_convs<SparseMatrixBanded>("banded");
      // mixed-type CSR -> Banded (the only direction that is a template over the source types)
      reg_conv<SparseMatrixBanded<double, std::uint64_t>, SparseMatrixCSR<float, std::uint32_t>>("banded.convert<-csr", true);
      reg_conv<SparseMatrixBanded<float, std::uint32_t>, SparseMatrixCSR<double, std::uint64_t>>("banded.convert<-csr", true);
    }
  } init_banded;
}
