// c15_cfg_reuse.hpp -- C15 unit 'c15cfg', family 'reuse': EVALUATOR OBJECT RE-USE.
//
// One trafo evaluator + one space evaluator object are prepared many times in an arbitrary cell order -- including the SAME
// cell several times in a row -- while the harness moves the vertices of the mesh between two prepares (mesh deformation /
// smoothing / ALE: Geometry::ConformalMesh::get_vertex_set() is mutable and the trafo reads the coordinates in prepare()).
// The clauses of C15 ("on every cell of every mesh ... the gradients and Hessians returned by the evaluators are the
// derivatives of the returned values, the node functionals are dual to the basis functions") are statements about the data an
// evaluator returns for the geometry the mesh has WHEN it is prepared; they must not depend on what the evaluator object was
// used for before.
//
//  (8) RE-USE INDEPENDENCE (space evaluator): after every prepare of the re-used pair, at 0..3 reference points, every data
//      tag of the evaluator's full capability set equals the data a FRESH evaluator pair (constructed after the deformation)
//      returns at the same point of the same cell.  Same arithmetic on the same inputs => bitwise equal doubles expected;
//      differences <= 1e-10 x max|field| are only counted (reuse_rounding_differences).  The fresh evaluators are the objects
//      judged by monitors (1)-(7) (cfg family: same meshes, same pairs), so equality transfers those clauses.
//  (9) RE-USE INDEPENDENCE (trafo evaluator) with a GENERATOR-OWNED oracle: img_point, jac_mat, jac_det returned by the
//      re-used trafo evaluator equal the harness' own multilinear / affine map of the generator's CURRENT coordinates
//      (long double; bound 1e-12 (1 + max|x|) per entry, determinant bound derived from it), and all trafo data
//      (img_point, jac_mat, jac_inv, jac_det, hess_ten, hess_inv) equal the data of a fresh trafo evaluator.
//
// Deformations (generator-owned; the MeshSpec always holds the current coordinates): none / every vertex displaced by
// <= 0.06 x (shortest vertex distance within a cell) / only the vertices of the cell that is prepared next / a random affine
// map close to the identity / both / restoration of the original coordinates.  A deformation is only applied if the harness'
// own Jacobian determinant of every cell (long double, at the 3^d tensor points resp. simplex vertices) stays >= 0.25 x the
// determinant at the centre of the undeformed cell (valid, non-degenerate cells); otherwise the original coordinates are
// restored.  Spaces restricted to affine cells (Bogner-Fox-Schmit) only see affine deformations.  Vertices are only moved while
// both evaluators are in the finished state; every prepare is matched by a finish (se.finish before te.finish).
#pragma once
#include "c15_cfg.hpp"

namespace c15
{
  template<typename D_, typename Shape_>
  struct ReuseMonitors
  {
    typedef CfgMonitors<D_, Shape_> CM;
    typedef Ref<Shape_> R;
    static constexpr int dim = R::dim;
    typedef typename CM::MeshType MeshType;
    typedef typename CM::TrafoType TrafoType;
    typedef typename CM::SpaceType SpaceType;
    typedef typename CM::TE TE;
    typedef typename CM::SE SE;
    static constexpr int U = CM::U;
    static constexpr TrafoTags tall = TrafoTags::img_point | TrafoTags::jac_mat | TrafoTags::jac_inv | TrafoTags::jac_det | TrafoTags::hess_ten | TrafoTags::hess_inv;
    typedef vm::MeshSpec<Shape_> Spec;

    // ---------------------------------------------------------------- harness geometry (generator's coordinates, long double)
    static void h_jac(const Spec& m, Index cell, const double* xi, LD J[3][3])
    {
      const auto& cv = m.cells[cell];
      for(int i = 0; i < 3; ++i) for(int k = 0; k < 3; ++k) J[i][k] = 0;
      if(R::simplex)
      {
        for(int i = 0; i < dim; ++i) for(int k = 0; k < dim; ++k)
          J[i][k] = LD(m.verts[cv[std::size_t(k + 1)]][std::size_t(i)]) - LD(m.verts[cv[0]][std::size_t(i)]);
      }
      else
      {
        for(int j = 0; j < R::nv; ++j) for(int k = 0; k < dim; ++k)
        {
          LD dn = LD(R::vertex(j, k)) / 2;
          for(int l = 0; l < dim; ++l) if(l != k) dn *= (1 + LD(R::vertex(j, l)) * LD(xi[l])) / 2;
          for(int i = 0; i < dim; ++i) J[i][k] += dn * LD(m.verts[cv[std::size_t(j)]][std::size_t(i)]);
        }
      }
    }
    static LD h_det(const LD J[3][3])
    {
      if(dim == 2) return J[0][0] * J[1][1] - J[0][1] * J[1][0];
      return J[0][0] * (J[1][1] * J[2][2] - J[1][2] * J[2][1]) - J[0][1] * (J[1][0] * J[2][2] - J[1][2] * J[2][0]) + J[0][2] * (J[1][0] * J[2][1] - J[1][1] * J[2][0]);
    }
    // every cell of m non-degenerate relative to the undeformed mesh m0
    static bool valid(const Spec& m, const Spec& m0)
    {
      for(Index cell = 0; cell < m.num_cells(); ++cell)
      {
        double ctr[3] = {0, 0, 0}; for(int k = 0; k < dim; ++k) ctr[k] = R::centre(k);
        LD J[3][3]; h_jac(m0, cell, ctr, J); const LD d0 = h_det(J);
        if(!(std::fabs(double(d0)) > 0)) return false;
        if(R::simplex) { h_jac(m, cell, ctr, J); if(!(h_det(J) / d0 >= LD(0.25))) return false; continue; }
        int np = 1; for(int k = 0; k < dim; ++k) np *= 3;
        for(int q = 0; q < np; ++q)
        {
          double xi[3] = {0, 0, 0}; int t = q; for(int k = 0; k < dim; ++k) { xi[k] = double(t % 3) - 1.0; t /= 3; }
          h_jac(m, cell, xi, J); if(!(h_det(J) / d0 >= LD(0.25))) return false;
        }
      }
      return true;
    }
    static double min_vertex_distance(const Spec& m)
    {
      double h = 1e300;
      for(const auto& cv : m.cells) for(int a = 0; a < R::nv; ++a) for(int b = a + 1; b < R::nv; ++b)
      {
        double s = 0; for(int k = 0; k < dim; ++k) { const double t = m.verts[cv[std::size_t(a)]][std::size_t(k)] - m.verts[cv[std::size_t(b)]][std::size_t(k)]; s += t * t; }
        h = std::min(h, std::sqrt(s));
      }
      return h;
    }

    // ---------------------------------------------------------------- deformations
    enum { df_none = 0, df_all, df_cell, df_affine, df_affine_all, df_restore, df_count };
    static const char* deform_name(int d)
    {
      static const char* nm[df_count] = {"none", "all_vertices", "vertices_of_cell", "affine", "affine+all_vertices", "restore_original"};
      return nm[d];
    }
    // returns the deformation that was actually applied (df_restore if the candidate was rejected)
    static int deform(vh::Ctx& c, Spec& cur, const Spec& m0, double hmin, Index cell, int kind)
    {
      vh::Rng& r = c.rng;
      if(kind == df_none) return df_none;
      if(kind == df_restore) { cur.verts = m0.verts; return df_restore; }
      Spec cand = cur;
      if(kind != df_cell) cand.verts = m0.verts;
      const double amp = 0.06 * hmin;
      if(kind == df_all || kind == df_affine_all)
        for(auto& v : cand.verts) for(int k = 0; k < dim; ++k) v[std::size_t(k)] += r.real(-amp, amp);
      if(kind == df_cell)
        for(int j = 0; j < R::nv; ++j) for(int k = 0; k < dim; ++k) cand.verts[cand.cells[cell][std::size_t(j)]][std::size_t(k)] += r.real(-amp, amp);
      if(kind == df_affine || kind == df_affine_all)
      {
        double ctr[3] = {0, 0, 0};
        for(auto& v : m0.verts) for(int k = 0; k < dim; ++k) ctr[k] += v[std::size_t(k)] / double(m0.num_verts());
        double A[3][3], t[3];
        for(int i = 0; i < dim; ++i) { t[i] = r.real(-0.5, 0.5) * hmin; for(int j = 0; j < dim; ++j) A[i][j] = (i == j ? 1.0 : 0.0) + r.real(-0.2, 0.2); }
        for(auto& v : cand.verts)
        {
          double o[3] = {v[0], v[1], v[2]};
          for(int i = 0; i < dim; ++i) { double s = ctr[i] + t[i]; for(int j = 0; j < dim; ++j) s += A[i][j] * (o[j] - ctr[j]); v[std::size_t(i)] = s; }
        }
      }
      if(!valid(cand, m0)) { c.count("reuse_deformation_rejected"); cur.verts = m0.verts; return df_restore; }
      cur.verts = cand.verts;
      return kind;
    }
    static void push_coords(const Spec& cur, MeshType& mesh)
    {
      auto& vtx = mesh.get_vertex_set();
      for(Index i = 0; i < cur.num_verts(); ++i) for(int k = 0; k < dim; ++k) vtx[i][k] = cur.verts[i][std::size_t(k)];
    }

    // ---------------------------------------------------------------- trafo data: img_point | jac_mat | jac_inv | jac_det | hess_ten | hess_inv
    static const char* trafo_field(std::size_t idx, std::size_t& comp)
    {
      const std::size_t d1 = std::size_t(dim), d2 = d1 * d1, d3 = d2 * d1;
      if(idx < d1) { comp = idx; return "img_point"; } idx -= d1;
      if(idx < d2) { comp = idx; return "jac_mat"; } idx -= d2;
      if(idx < d2) { comp = idx; return "jac_inv"; } idx -= d2;
      if(idx < 1) { comp = 0; return "jac_det"; } idx -= 1;
      if(idx < d3) { comp = idx; return "hess_ten"; } idx -= d3;
      comp = idx; return "hess_inv";
    }
    static void trafo_eval(const TE& te, const double* xi, vh::Rng& rng, std::vector<double>& out)
    {
      typedef typename TE::template ConfigTraits<tall>::EvalDataType TD;
      std::unique_ptr<TD> td(new TD);
      fill_garbage(static_cast<void*>(td.get()), sizeof(TD), int(rng.below(4)), rng);
      typename TE::DomainPointType p; for(int k = 0; k < dim; ++k) p[k] = xi[k];
      te(*td, p);
      out.clear();
      for(int k = 0; k < dim; ++k) out.push_back(double(td->img_point[k]));
      for(int a = 0; a < dim; ++a) for(int b = 0; b < dim; ++b) out.push_back(double(td->jac_mat[a][b]));
      for(int a = 0; a < dim; ++a) for(int b = 0; b < dim; ++b) out.push_back(double(td->jac_inv[a][b]));
      out.push_back(double(td->jac_det));
      for(int a = 0; a < dim; ++a) for(int b = 0; b < dim; ++b) for(int e = 0; e < dim; ++e) out.push_back(double(td->hess_ten[a][b][e]));
      for(int a = 0; a < dim; ++a) for(int b = 0; b < dim; ++b) for(int e = 0; e < dim; ++e) out.push_back(double(td->hess_inv[a][b][e]));
    }

    struct Step { Index cell; int deform; int seq; int npts; };
    static std::string script_json(const std::vector<Step>& st)
    {
      vh::J a('[');
      for(const auto& s : st)
        a.add_raw(vh::J().kv("cell", (unsigned long)s.cell).kv("deformation_before_prepare", deform_name(s.deform)).kv("prepare_sequence", s.seq).kv("evaluations", s.npts).str());
      return a.str();
    }

    static void run(vh::Ctx& c)
    {
      c.tag(std::string("space:") + D_::name());
      c.tag(std::string("shape:") + vm::ShapeInfo<Shape_>::name());
      c.tag(std::string("caps:") + mask_name(U));
      MeshInfo info;
      Spec m0 = CM::gen(c, info);
      const std::string op = std::string("space.") + D_::name();
      c.set_op(op + ".reuse");
      const std::string mesh_desc = m0.describe();
      c.desc = vh::J().raw("mesh", mesh_desc).kv("space", D_::name()).raw("tags", c.tags_json()).str();
      if constexpr(U == 0) { c.trivial = true; c.count("reuse_no_capabilities"); return; }
      else
      {
        Spec cur = m0;
        auto mesh = vm::build(cur);
        TrafoType trafo(*mesh);
        SpaceType space(trafo);
        const Index nc = cur.num_cells();
        const double hmin = min_vertex_distance(m0);
        double maxabs = 0;

        // THE re-used pair
        TE te(trafo); SE se(space);
        const int nsteps = int(c.rng.range(8, c.thorough() ? 28 : 16));
        std::vector<Step> script;
        Index prev = ~Index(0);
        bool prev_valid = false;
        for(int step = 0; step < nsteps; ++step)
        {
          const Index cell = (prev_valid && c.rng.coin(0.5)) ? prev : Index(c.rng.below(nc));
          const bool same = prev_valid && cell == prev;
          int kind;
          if(D_::affine_only) { static const int ks[4] = {df_none, df_affine, df_affine, df_restore}; kind = ks[c.rng.below(4)]; }
          else { static const int ks[8] = {df_none, df_none, df_all, df_all, df_cell, df_affine, df_affine_all, df_restore}; kind = ks[c.rng.below(8)]; }
          if(step == 0 && c.rng.coin()) kind = df_none;
          kind = deform(c, cur, m0, hmin, cell, kind);
          if(kind != df_none) push_coords(cur, *mesh);
          maxabs = 0; for(const auto& v : cur.verts) for(int k = 0; k < dim; ++k) maxabs = std::max(maxabs, std::fabs(v[std::size_t(k)]));
          const int seq = int(c.rng.below(5));
          int npts = int(c.rng.below(4)); if(step + 1 == nsteps && npts == 0) npts = 1;
          script.push_back({cell, kind, seq, npts});
          c.count(same ? (kind != df_none ? "reuse_same_cell_geometry_changed" : "reuse_same_cell_geometry_unchanged")
                       : (kind != df_none ? "reuse_other_cell_geometry_changed" : "reuse_other_cell_geometry_unchanged"));
          const std::vector<std::string> xt = {same ? "reprepare:same_cell" : (prev_valid ? "reprepare:other_cell" : "reprepare:first"),
            kind != df_none ? "geometry:changed" : "geometry:unchanged"};

          // prepare sequence of the re-used pair (every prepare matched by a finish)
          te.prepare(cell); se.prepare(te);
          if(seq == 3) { se.finish(); se.prepare(te); }
          if(seq == 4) { se.finish(); te.finish(); te.prepare(cell); se.prepare(te); }
          const int n = se.get_num_local_dofs();
          c.event();

          if(npts > 0)
          {
            // the fresh pair, constructed for the current geometry
            TE te2(trafo); SE se2(space);
            te2.prepare(cell); se2.prepare(te2);
            const int n2 = se2.get_num_local_dofs();
            bool bad = false;
            if(n != n2)
            {
              c.viol(op + ".reuse", "dims", vh::J().kv("cell", (unsigned long)cell).kv("step", step).kv("num_local_dofs", n).kv("fresh_evaluator", n2).raw("script", script_json(script)).str(), xt);
              bad = true;
            }
            for(int ip = 0; ip < npts && !bad; ++ip)
            {
              double xi[3] = {0, 0, 0}, other[3] = {0, 0, 0};
              const int pk = int(c.rng.below(4));
              if(pk == 0) { for(int k = 0; k < dim; ++k) xi[k] = R::centre(k); }
              else if(pk == 1) R::random_point(c.rng, xi, 0.95);
              else if(pk == 2) CM::random_boundary_point(c.rng, xi);
              else { const int j = int(c.rng.below(std::uint64_t(R::nv))); for(int k = 0; k < dim; ++k) xi[k] = R::vertex(j, k); }
              R::random_point(c.rng, other, 0.9);

              // (9) trafo evaluator: generator-owned oracle + fresh evaluator
              std::vector<double> tr, tf;
              trafo_eval(te, xi, c.rng, tr); trafo_eval(te2, xi, c.rng, tf);
              c.event();
              {
                LD x[3] = {0, 0, 0}, J[3][3]; map_point(cur, cell, xi, x); h_jac(cur, cell, xi, J);
                const double tolx = 1e-12 * (1.0 + maxabs);
                LD sj = 0; for(int a = 0; a < dim; ++a) for(int b = 0; b < dim; ++b) sj = std::max(sj, std::fabs(J[a][b]));
                const LD det = h_det(J);
                double told = double((dim == 2 ? 4 : 18) * 4 * LD(tolx) * (dim == 2 ? sj : sj * sj)) + 1e-13 * std::fabs(double(det));
                const char* what = nullptr; double got = 0, want = 0, tol = 0; int comp = 0;
                for(int k = 0; k < dim && !what; ++k)
                  if(!(std::fabs(double(LD(tr[std::size_t(k)]) - x[k])) <= tolx)) { what = "wrong-image-point"; got = tr[std::size_t(k)]; want = double(x[k]); tol = tolx; comp = k; }
                for(int a = 0; a < dim && !what; ++a) for(int b = 0; b < dim && !what; ++b)
                  if(!(std::fabs(double(LD(tr[std::size_t(dim + a * dim + b)]) - J[a][b])) <= tolx)) { what = "wrong-jacobian"; got = tr[std::size_t(dim + a * dim + b)]; want = double(J[a][b]); tol = tolx; comp = a * dim + b; }
                if(!what && !(std::fabs(double(LD(tr[std::size_t(dim + 2 * dim * dim)]) - det)) <= told)) { what = "wrong-jacobian-determinant"; got = tr[std::size_t(dim + 2 * dim * dim)]; want = double(det); tol = told; }
                if(what)
                {
                  c.viol("trafo.standard.reuse", what, vh::J().kv("cell", (unsigned long)cell).kv("step", step).raw("ref_point", CM::pt_json(xi)).kv("component", comp)
                    .kv("got", got).kv("expected_from_current_coordinates", want).kv("tol", tol).raw("script", script_json(script)).str(), xt);
                  bad = true; break;
                }
              }
              {
                double scale = 0; for(double v : tf) if(std::isfinite(v)) scale = std::max(scale, std::fabs(v));
                for(std::size_t i = 0; i < tr.size(); ++i)
                {
                  if(std::memcmp(&tr[i], &tf[i], sizeof(double)) == 0) continue;
                  if(std::fabs(tr[i] - tf[i]) <= 1e-10 * scale) { c.count("reuse_rounding_differences"); continue; }
                  std::size_t comp = 0; const char* fld = trafo_field(i, comp);
                  c.viol("trafo.standard.reuse", "differs-from-fresh-evaluator", vh::J().kv("cell", (unsigned long)cell).kv("step", step).raw("ref_point", CM::pt_json(xi))
                    .kv("field", fld).kv("component", (unsigned long)comp).kv("reused_evaluator", tr[i]).kv("fresh_evaluator", tf[i]).raw("script", script_json(script)).str(), xt);
                  bad = true; break;
                }
                if(bad) break;
              }

              // (8) space evaluator: full capability set, re-used vs fresh
              Fields fr, ff;
              CM::template eval_mask<U>(te, se, n, xi, other, int(c.rng.below(g_count)), c.rng, U, fr);
              CM::template eval_mask<U>(te2, se2, n, xi, other, g_nan, c.rng, U, ff);
              c.event();
              const CfgDiff d = compare_fields(fr, ff, U);
              if(d.inexact) c.count("reuse_rounding_differences", d.inexact);
              if(d.bad)
              {
                const int ncomp = d.tag < 0 ? 1 : int(ff.d[d.tag].size()) / std::max(1, n);
                c.viol(op + ".reuse", "differs-from-fresh-evaluator", vh::J().kv("cell", (unsigned long)cell).kv("step", step).raw("ref_point", CM::pt_json(xi))
                  .kv("field", d.tag < 0 ? "?" : field_name(d.tag)).kv("basis_fn", int(d.idx) / std::max(1, ncomp)).kv("component", int(d.idx) % std::max(1, ncomp))
                  .kv("reused_evaluator", d.got).kv("fresh_evaluator", d.want).kv("tol", d.tol).kv("same_cell_as_previous_prepare", same)
                  .kv("deformation_before_prepare", deform_name(kind)).raw("script", script_json(script)).str(), xt);
                bad = true;
              }
            }
            se2.finish(); te2.finish();
            if(bad) { se.finish(); te.finish(); break; }
          }
          se.finish(); te.finish();
          prev = cell; prev_valid = true;
        }
        c.desc = vh::J().raw("mesh", mesh_desc).kv("space", D_::name()).raw("tags", c.tags_json()).raw("script", script_json(script)).str();
      }
    }
  };

  // ------------------------------------------------------------------ registry of the pairs of family 'reuse' (same keys / order as 'cfg')
  inline std::vector<CfgEntry>& reuse_registry() { static std::vector<CfgEntry> r; return r; }
  struct RegReuse { RegReuse(const char* key, void (*fn)(vh::Ctx&)) { reuse_registry().push_back({key, fn}); } };
  inline void run_reuse_family(vh::Ctx& c)
  {
    auto sel = reuse_registry();
    std::sort(sel.begin(), sel.end(), [](const CfgEntry& x, const CfgEntry& y) { return std::strcmp(x.key, y.key) < 0; });
    if(sel.empty()) { c.inconclusive("no reuse pairs registered"); return; }
    sel[std::size_t(c.k % sel.size())].fn(c);
  }
} // namespace c15
