// C15 family 'reuse' (evaluator object re-use under mesh deformation, see c15_cfg_reuse.hpp) -- Lagrange-1 / Lagrange-2 / Lagrange-3
#include "c15_cfg_reuse.hpp"
#include <kernel/space/lagrange1/element.hpp>
#include <kernel/space/lagrange2/element.hpp>
#include <kernel/space/lagrange3/element.hpp>
using namespace c15;
namespace
{
  struct CLagrange1 : CfgDescBase { template<typename T_> using S = Space::Lagrange1::Element<T_>; static const char* name() { return "Lagrange1"; } };
  struct CLagrange2 : CfgDescBase { template<typename T_> using S = Space::Lagrange2::Element<T_>; static const char* name() { return "Lagrange2"; } };
  struct CLagrange3 : CfgDescBase { template<typename T_> using S = Space::Lagrange3::Element<T_>; static const char* name() { return "Lagrange3"; } };
  typedef Shape::Hypercube<2> Q; typedef Shape::Simplex<2> T; typedef Shape::Hypercube<3> H; typedef Shape::Simplex<3> X;
}
static RegReuse r1("L1:Q", &ReuseMonitors<CLagrange1, Q>::run), r2("L1:T", &ReuseMonitors<CLagrange1, T>::run), r3("L1:H", &ReuseMonitors<CLagrange1, H>::run), r4("L1:X", &ReuseMonitors<CLagrange1, X>::run),
  r5("L2:Q", &ReuseMonitors<CLagrange2, Q>::run), r6("L2:T", &ReuseMonitors<CLagrange2, T>::run), r7("L2:H", &ReuseMonitors<CLagrange2, H>::run), r8("L2:X", &ReuseMonitors<CLagrange2, X>::run),
  r9("L3:Q", &ReuseMonitors<CLagrange3, Q>::run), r10("L3:T", &ReuseMonitors<CLagrange3, T>::run), r11("L3:H", &ReuseMonitors<CLagrange3, H>::run), r12("L3:X", &ReuseMonitors<CLagrange3, X>::run);
VH_FAMILY(reuse) { c15::run_reuse_family(c); }
