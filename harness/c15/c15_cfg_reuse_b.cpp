// C15 family 'reuse' (evaluator object re-use under mesh deformation, see c15_cfg_reuse.hpp) -- discontinuous P0 / P1,
// Crouzeix-Raviart / Rannacher-Turek
#include "c15_cfg_reuse.hpp"
#include <kernel/space/discontinuous/element.hpp>
#include <kernel/space/cro_rav_ran_tur/element.hpp>
using namespace c15;
namespace
{
  struct CDisc0 : CfgDescBase { template<typename T_> using S = Space::Discontinuous::Element<T_, Space::Discontinuous::Variant::StdPolyP<0>>; static const char* name() { return "Discontinuous0"; } };
  struct CDisc1 : CfgDescBase { template<typename T_> using S = Space::Discontinuous::Element<T_, Space::Discontinuous::Variant::StdPolyP<1>>; static const char* name() { return "Discontinuous1"; }
    static constexpr bool force_grad = true; };
  struct CCRRT : CfgDescBase { template<typename T_> using S = Space::CroRavRanTur::Element<T_>; static const char* name() { return "CroRavRanTur"; } };
  typedef Shape::Hypercube<2> Q; typedef Shape::Simplex<2> T; typedef Shape::Hypercube<3> H; typedef Shape::Simplex<3> X;
}
static RegReuse r1("D0:Q", &ReuseMonitors<CDisc0, Q>::run), r2("D0:T", &ReuseMonitors<CDisc0, T>::run), r3("D0:H", &ReuseMonitors<CDisc0, H>::run), r4("D0:X", &ReuseMonitors<CDisc0, X>::run),
  r5("D1:Q", &ReuseMonitors<CDisc1, Q>::run), r6("D1:T", &ReuseMonitors<CDisc1, T>::run), r7("D1:H", &ReuseMonitors<CDisc1, H>::run), r8("D1:X", &ReuseMonitors<CDisc1, X>::run),
  r9("RT:Q", &ReuseMonitors<CCRRT, Q>::run), r10("RT:T", &ReuseMonitors<CCRRT, T>::run), r11("RT:H", &ReuseMonitors<CCRRT, H>::run), r12("RT:X", &ReuseMonitors<CCRRT, X>::run);
