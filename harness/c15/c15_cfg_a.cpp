// C15 family 'cfg' (evaluation configurations, see c15_cfg.hpp) -- Lagrange-1 / Lagrange-2 on quad, tria, hexa, tetra
#include "c15_cfg.hpp"
#include <kernel/space/lagrange1/element.hpp>
#include <kernel/space/lagrange2/element.hpp>
using namespace c15;
namespace
{
  struct CLagrange1 : CfgDescBase { template<typename T_> using S = Space::Lagrange1::Element<T_>; static const char* name() { return "Lagrange1"; } };
  struct CLagrange2 : CfgDescBase { template<typename T_> using S = Space::Lagrange2::Element<T_>; static const char* name() { return "Lagrange2"; } };
  typedef Shape::Hypercube<2> Q; typedef Shape::Simplex<2> T; typedef Shape::Hypercube<3> H; typedef Shape::Simplex<3> X;
}
static RegCfg r1("L1:Q", &CfgMonitors<CLagrange1, Q>::run), r2("L1:T", &CfgMonitors<CLagrange1, T>::run), r3("L1:H", &CfgMonitors<CLagrange1, H>::run), r4("L1:X", &CfgMonitors<CLagrange1, X>::run),
  r5("L2:Q", &CfgMonitors<CLagrange2, Q>::run), r6("L2:T", &CfgMonitors<CLagrange2, T>::run), r7("L2:H", &CfgMonitors<CLagrange2, H>::run), r8("L2:X", &CfgMonitors<CLagrange2, X>::run);
VH_FAMILY(cfg) { c15::run_cfg_family(c); }
int main(int argc, char** argv) { FEAT::Runtime::ScopeGuard guard(argc, argv); return vh::main_impl(argc, argv); }
