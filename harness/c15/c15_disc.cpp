// C15 -- discontinuous P0 / P1 and Crouzeix-Raviart / Rannacher-Turek on quad, tria, hexa, tetra
#include "c15.hpp"
#include <kernel/space/discontinuous/element.hpp>
#include <kernel/space/cro_rav_ran_tur/element.hpp>
using namespace c15;
namespace
{
  struct DDisc0 : DescBase
  {
    template<typename T_> using S = Space::Discontinuous::Element<T_, Space::Discontinuous::Variant::StdPolyP<0>>;
    static const char* name() { return "Discontinuous0"; }
    static constexpr int pdeg = 0;
    template<typename Shape_> static Index ndofs(const Counts& n) { return n.n[Ref<Shape_>::dim]; }
  };
  struct DDisc1 : DescBase
  {
    template<typename T_> using S = Space::Discontinuous::Element<T_, Space::Discontinuous::Variant::StdPolyP<1>>;
    static const char* name() { return "Discontinuous1"; }
    static constexpr int pdeg = 1;
    // the simplex evaluator implements eval_ref_gradients (ParametricEvaluator) but advertises ref_caps without the ref_ bits
    static constexpr bool force_grad = true;
    template<typename Shape_> static Index ndofs(const Counts& n) { return Index(Ref<Shape_>::dim + 1) * n.n[Ref<Shape_>::dim]; }
  };
  struct DCRRT : DescBase
  {
    template<typename T_> using S = Space::CroRavRanTur::Element<T_>;
    static const char* name() { return "CroRavRanTur"; }
    static constexpr int pdeg = 1;
    template<typename Shape_> static Index ndofs(const Counts& n) { return n.n[Ref<Shape_>::dim - 1]; }
  };
  typedef Shape::Hypercube<2> Q; typedef Shape::Simplex<2> T; typedef Shape::Hypercube<3> H; typedef Shape::Simplex<3> X;
  const PairEntry pairs[] = {
    {&Monitors<DDisc0, Q>::run, true}, {&Monitors<DDisc0, T>::run, true}, {&Monitors<DDisc0, H>::run, true}, {&Monitors<DDisc0, X>::run, true},
    {&Monitors<DDisc1, Q>::run, true}, {&Monitors<DDisc1, T>::run, true}, {&Monitors<DDisc1, H>::run, true}, {&Monitors<DDisc1, X>::run, true},
    {&Monitors<DCRRT, Q>::run, true}, {&Monitors<DCRRT, T>::run, true}, {&Monitors<DCRRT, H>::run, true}, {&Monitors<DCRRT, X>::run, true}};
}
VH_FAMILY(disc) { run_pair(c, pairs, sizeof(pairs) / sizeof(pairs[0])); }
