// C15 -- Hermite-3, Argyris (triangles), Bogner-Fox-Schmit (affine quadrilaterals only, no node functionals)
#include "c15.hpp"
#include <kernel/space/hermite3/element.hpp>
#include <kernel/space/argyris/element.hpp>
#include <kernel/space/bogner_fox_schmit/element.hpp>
using namespace c15;
namespace
{
  struct DHermite3 : DescBase
  {
    template<typename T_> using S = Space::Hermite3::Element<T_>;
    static const char* name() { return "Hermite3"; }
    static constexpr int pdeg = 3;
    template<typename Shape_> static Index ndofs(const Counts& n) { return 3 * n.n[0] + n.n[2]; }
  };
  struct DArgyris : DescBase
  {
    template<typename T_> using S = Space::Argyris::Element<T_>;
    static const char* name() { return "Argyris"; }
    static constexpr int pdeg = 5;
    static constexpr bool h1 = true;      // documented H2-conforming, hence continuous
    // conditioning guard: second-derivative functionals scale like 1/h^2 and the evaluator inverts an unscaled 21x21 monomial
    // matrix per cell; duality / trace tolerances grow with (aspect ratio)^3 (and 1/hmin^2 for duality), see Monitors::run
    static constexpr bool cond_scaled = true;
    static constexpr double poly_tol = 1e-8;
    template<typename Shape_> static Index ndofs(const Counts& n) { return 6 * n.n[0] + n.n[1]; }

    // Independent probe for the known finding "Math::invert_matrix pivots on diagonal entries only": the harness builds the
    // 21x21 Argyris nodal matrix of a cell from the generator's coordinates (monomials about the barycentre x {value, dx, dy,
    // dxx, dyy, dxy at the vertices, normal derivative at the edge midpoints}; edge orientation only flips a column sign and
    // is irrelevant here), runs a diagonal-pivot Gauss-Jordan elimination on it in long double and records the element growth
    // factor max|a^(k)| / max|a^(0)|.  A large growth means that diagonal pivoting is unstable for that cell.
    static long double diag_pivot_growth(const long double (*P)[2])
    {
      typedef long double LD;
      LD bc[2] = {(P[0][0] + P[1][0] + P[2][0]) / 3, (P[0][1] + P[1][1] + P[2][1]) / 3};
      LD a[21][21]; for(auto& r : a) for(auto& x : r) x = 0;
      LD ev[3][2] = {{0, 0}, {0, 0}, {0, 0}};
      auto powers = [](LD x, LD* v) { v[0] = 1; for(int l = 0; l < 5; ++l) v[l + 1] = v[l] * x; };
      for(int vi = 0; vi < 3; ++vi)
      {
        LD p[2] = {P[vi][0] - bc[0], P[vi][1] - bc[1]};
        for(int d = 0; d < 2; ++d) { ev[(vi + 1) % 3][d] += p[d]; ev[(vi + 2) % 3][d] -= p[d]; }
        LD vx[6], vy[6]; powers(p[0], vx); powers(p[1], vy);
        int k = 0;
        for(int i = 0; i < 6; ++i) for(int j = 0; i + j < 6; ++j, ++k)
        {
          a[k][6 * vi + 0] = vx[i] * vy[j];
          if(i > 0) a[k][6 * vi + 1] = LD(i) * vx[i - 1] * vy[j];
          if(j > 0) a[k][6 * vi + 2] = LD(j) * vy[j - 1] * vx[i];
          if(i > 1) a[k][6 * vi + 3] = LD(i) * LD(i - 1) * vx[i - 2] * vy[j];
          if(j > 1) a[k][6 * vi + 4] = LD(j) * LD(j - 1) * vy[j - 2] * vx[i];
          if(i * j > 0) a[k][6 * vi + 5] = LD(i) * vx[i - 1] * LD(j) * vy[j - 1];
        }
      }
      for(int ei = 0; ei < 3; ++ei)
      {
        // edge midpoint: edge ei is opposite to vertex ei
        LD m[2] = {0, 0}; for(int vi = 0; vi < 3; ++vi) if(vi != ei) for(int d = 0; d < 2; ++d) m[d] += (P[vi][d] - bc[d]) / 2;
        const LD dn = std::sqrt(ev[ei][0] * ev[ei][0] + ev[ei][1] * ev[ei][1]);
        const LD nx = ev[ei][1] / dn, ny = -ev[ei][0] / dn;
        LD vx[6], vy[6]; powers(m[0], vx); powers(m[1], vy);
        int k = 0;
        for(int i = 0; i < 6; ++i) for(int j = 0; i + j < 6; ++j, ++k)
        {
          if(i > 0) a[k][18 + ei] += LD(i) * nx * vx[i - 1] * vy[j];
          if(j > 0) a[k][18 + ei] += LD(j) * ny * vy[j - 1] * vx[i];
        }
      }
      LD a0 = 0; for(auto& r : a) for(auto& x : r) a0 = std::max(a0, std::fabs(x));
      // the elimination of Math::invert_matrix (pivot candidates = diagonal entries of the not yet eliminated indices)
      int p[21]; for(int i = 0; i < 21; ++i) p[i] = i;
      LD amax = a0;
      for(int k = 0; k < 21; ++k)
      {
        int best = k; LD pv = std::fabs(a[p[k]][p[k]]);
        for(int j = k + 1; j < 21; ++j) if(std::fabs(a[p[j]][p[j]]) > pv) { pv = std::fabs(a[p[j]][p[j]]); best = j; }
        std::swap(p[k], p[best]);
        const int q = p[k];
        if(pv == 0) return 1e300L;
        const LD inv = 1 / a[q][q]; a[q][q] = 1;
        for(int j = 0; j < 21; ++j) a[q][j] *= inv;
        for(int i = 0; i < 21; ++i)
        {
          if(i == q) continue;
          const LD f = a[i][q]; a[i][q] = 0;
          for(int j = 0; j < 21; ++j) a[i][j] -= a[q][j] * f;
        }
        for(auto& r : a) for(auto& x : r) amax = std::max(amax, std::fabs(x));
      }
      return amax / a0;
    }
    template<typename Spec_> static void extra_tags(vh::Ctx& c, const Spec_& spec)
    {
      long double g = 0;
      for(Index k = 0; k < spec.num_cells(); ++k)
      {
        long double P[3][2]; for(int v = 0; v < 3; ++v) for(int d = 0; d < 2; ++d) P[v][d] = spec.verts[spec.cells[k][std::size_t(v)]][std::size_t(d)];
        g = std::max(g, diag_pivot_growth(P));
      }
      // calibration (600+ cases): growth < 1e8 -> never a violation; 1e9..1e16 -> double precision loses >= 9 digits in some
      // basis functions (trace / duality errors above tolerance in ~15% of the cases); >= 1e20 -> a diagonal pivot that is zero
      // in exact arithmetic (break-down, garbage basis: polynomial reproduction fails).  No case fell between 1e17 and 1e19.
      if(g >= 1e8L) c.tag("nodal_matrix_needs_offdiag_pivot");
      if(g >= 1e20L) c.tag("diagpivot_breakdown");
    }
  };
  struct DBFS : DescBase
  {
    template<typename T_> using S = Space::BognerFoxSchmit::Element<T_>;
    static const char* name() { return "BognerFoxSchmit"; }
    static constexpr int pdeg = 3;
    static constexpr bool affine_only = true;   // documented: affine equivalent meshes only
    template<typename Shape_> static Index ndofs(const Counts& n) { return 4 * n.n[0]; }
  };
  typedef Shape::Hypercube<2> Q; typedef Shape::Simplex<2> T;
  const PairEntry pairs[] = {{&Monitors<DHermite3, T>::run, true}, {&Monitors<DArgyris, T>::run, true}, {&Monitors<DBFS, Q>::run, true}};
}
VH_FAMILY(herm) { run_pair(c, pairs, sizeof(pairs) / sizeof(pairs[0])); }
