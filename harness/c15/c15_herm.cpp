// C15 -- Hermite-3, Argyris (triangles), Bogner-Fox-Schmit (affine quadrilaterals only, no node functionals)
#include "c15.hpp"
#include <kernel/space/hermite3/element.hpp>
#include <kernel/space/argyris/element.hpp>
#include <kernel/space/bogner_fox_schmit/element.hpp>
using namespace c15;
namespace
{
  struct DHermite3 : DescBase
  {
    template<typename T_> using S = Space::Hermite3::Element<T_>;
    static const char* name() { return "Hermite3"; }
    static constexpr int pdeg = 3;
    template<typename Shape_> static Index ndofs(const Counts& n) { return 3 * n.n[0] + n.n[2]; }
  };
  struct DArgyris : DescBase
  {
    template<typename T_> using S = Space::Argyris::Element<T_>;
    static const char* name() { return "Argyris"; }
    static constexpr int pdeg = 5;
    static constexpr bool h1 = true;      // documented H2-conforming, hence continuous
    // conditioning guard: second-derivative functionals scale like 1/h^2 and the evaluator inverts an unscaled 21x21 monomial
    // matrix per cell; duality / trace tolerances grow with (aspect ratio)^3 (and 1/hmin^2 for duality), see Monitors::run
    static constexpr bool cond_scaled = true;
    static constexpr double poly_tol = 1e-8;
    template<typename Shape_> static Index ndofs(const Counts& n) { return 6 * n.n[0] + n.n[1]; }
  };
  struct DBFS : DescBase
  {
    template<typename T_> using S = Space::BognerFoxSchmit::Element<T_>;
    static const char* name() { return "BognerFoxSchmit"; }
    static constexpr int pdeg = 3;
    static constexpr bool affine_only = true;   // documented: affine equivalent meshes only
    template<typename Shape_> static Index ndofs(const Counts& n) { return 4 * n.n[0]; }
  };
  typedef Shape::Hypercube<2> Q; typedef Shape::Simplex<2> T;
  const PairEntry pairs[] = {{&Monitors<DHermite3, T>::run, true}, {&Monitors<DArgyris, T>::run, true}, {&Monitors<DBFS, Q>::run, true}};
}
VH_FAMILY(herm) { run_pair(c, pairs, sizeof(pairs) / sizeof(pairs[0])); }
