// C15 -- Q1TBNP, Cai-Douglas-Santos-Sheen-Ye, Bernstein-2, P2-Bubble
#include "c15.hpp"
#include <kernel/space/q1tbnp/element.hpp>
#include <kernel/space/cai_dou_san_she_ye/element.hpp>
#include <kernel/space/bernstein2/element.hpp>
#include <kernel/space/p2bubble/element.hpp>
using namespace c15;
namespace
{
  struct DQ1TBNP : DescBase
  {
    template<typename T_> using S = Space::Q1TBNP::Element<T_>;
    static const char* name() { return "Q1TBNP"; }
    static constexpr int pdeg = 1;
    template<typename Shape_> static Index ndofs(const Counts& n) { return n.n[Ref<Shape_>::dim - 1] + Index(Ref<Shape_>::dim == 3 ? 3 : 1) * n.n[Ref<Shape_>::dim]; }
  };
  struct DCDSSY : DescBase
  {
    template<typename T_> using S = Space::CaiDouSanSheYe::Element<T_>;
    static const char* name() { return "CaiDouSanSheYe"; }
    static constexpr int pdeg = 1;
    template<typename Shape_> static Index ndofs(const Counts& n) { return n.n[1] + n.n[2]; }
  };
  struct DBernstein2 : DescBase
  {
    template<typename T_> using S = Space::Bernstein2::Element<T_>;
    static const char* name() { return "Bernstein2"; }
    static constexpr int pdeg = 2, qdeg = 2;
    template<typename Shape_> static Index ndofs(const Counts& n) { return n.n[0] + n.n[1] + n.n[2] + n.n[3]; }
  };
  struct DP2Bubble : DescBase
  {
    template<typename T_> using S = Space::P2Bubble::Element<T_>;
    static const char* name() { return "P2Bubble"; }
    static constexpr int pdeg = 2;
    template<typename Shape_> static Index ndofs(const Counts& n) { return n.n[0] + n.n[1] + n.n[2]; }
  };
  typedef Shape::Hypercube<2> Q; typedef Shape::Simplex<2> T; typedef Shape::Hypercube<3> H;
  const PairEntry pairs[] = {
    {&Monitors<DQ1TBNP, Q>::run, true}, {&Monitors<DQ1TBNP, H>::run, true}, {&Monitors<DCDSSY, Q>::run, true},
    {&Monitors<DBernstein2, Q>::run, true}, {&Monitors<DBernstein2, H>::run, true}, {&Monitors<DP2Bubble, T>::run, true}};
}
static RegO3d o1("B2:H", &Monitors<DBernstein2, H>::run_o3d);
VH_FAMILY(misc) { run_pair(c, pairs, sizeof(pairs) / sizeof(pairs[0])); }
