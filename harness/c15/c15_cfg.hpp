// c15_cfg.hpp -- C15 family 'cfg': EVALUATION CONFIGURATIONS of the space evaluators.
//
// A space evaluator is asked for a subset R of {value, grad, hess, ref_value, ref_grad, ref_hess}; its ConfigTraits<R> decide
// which evaluation data type is used, which auxiliary (reference) data are computed and which trafo data are required.  The
// clause of C15 decided here: "the gradients and Hessians returned by the evaluators are the derivatives of the returned
// values" must hold for EVERY configuration the evaluator's capabilities allow, not only for value|grad|hess:
//
//  (6) CONFIGURATION INDEPENDENCE: for every non-empty subset R of the evaluator's capabilities, the data the evaluator
//      returns for R (every tag of R and every tag EvalDataType::config advertises) are the data it returns for the full
//      capability set, at the same point of the same cell.  Both the space buffer and the trafo buffer are pre-filled by the
//      harness with garbage (NaN / 1e300 / 0 / random numbers / the result of an evaluation at ANOTHER point), so that a
//      field that is used without having been computed for this configuration shows.  The same arithmetic on the same inputs
//      gives bitwise equal doubles; differences <= 1e-10 x (max |field| over the cell's basis functions) are only counted
//      (counter cfg_rounding_differences), anything above is a violation.
//  (7) DERIVATIVES WITH MINIMAL CONFIGURATIONS (independent oracle): the Hessians returned for R = {hess} alone are the
//      central differences of the gradients returned for R = {grad} alone, which are the central differences of the values
//      returned for R = {value} alone (same acceptance rule as monitor (1): error <= 1e-5 x scale at h = 1/1024 or quadratic
//      convergence between h = 1/512 and 1/1024), every evaluation into freshly garbage-filled buffers.
//
// Meshes: tiny (<= 12 cells) grids / quad stars; in about 60% of the hypercube cases EVERY vertex (boundary included, so
// also on 1-cell meshes) is displaced => non-affine cells with a non-vanishing second derivative of the inverse cell map.
#pragma once
#include "c15.hpp"
#include <cstring>
#include <memory>

namespace c15
{
  // ------------------------------------------------------------------ garbage
  enum { g_nan = 0, g_huge, g_zero, g_random, g_stale, g_count };
  inline const char* garbage_name(int g)
  {
    static const char* nm[g_count] = {"nan", "huge", "zero", "random", "stale_other_point"};
    return nm[g];
  }
  // fills an evaluation data object (an aggregate of doubles) with garbage
  inline void fill_garbage(void* p, std::size_t bytes, int mode, vh::Rng& r)
  {
    unsigned char* b = static_cast<unsigned char*>(p);
    std::size_t off = 0;
    for(; off + sizeof(double) <= bytes; off += sizeof(double))
    {
      double v = 0.0;
      switch(mode)
      {
      case g_huge: v = (off / sizeof(double)) % 2 ? -1e300 : 1e300; break;
      case g_zero: v = 0.0; break;
      case g_random: v = r.real(-1e3, 1e3); break;
      default: v = std::numeric_limits<double>::quiet_NaN(); break;
      }
      std::memcpy(b + off, &v, sizeof(double));
    }
    for(; off < bytes; ++off) b[off] = 0xA5;
  }

  // ------------------------------------------------------------------ extracted evaluation data (tag bit t -> n x ncomp doubles)
  struct Fields { std::vector<double> d[6]; };
  inline const char* field_name(int t)
  {
    static const char* nm[6] = {"value", "grad", "hess", "ref_value", "ref_grad", "ref_hess"};
    return nm[t];
  }
  inline std::string mask_name(int mask)
  {
    std::string s;
    for(int t = 0; t < 6; ++t) if(mask & (1 << t)) { if(!s.empty()) s += "+"; s += field_name(t); }
    return s.empty() ? "none" : s;
  }

  struct CfgDiff { bool bad = false; std::uint64_t inexact = 0; int tag = -1; std::size_t idx = 0; double got = 0, want = 0, tol = 0; };
  // compares the fields of 'mask' ; bitwise equality expected, tiny differences only counted
  inline CfgDiff compare_fields(const Fields& got, const Fields& full, int mask)
  {
    CfgDiff r;
    for(int t = 0; t < 6; ++t)
    {
      if(!(mask & (1 << t))) continue;
      const std::vector<double>& a = got.d[t]; const std::vector<double>& b = full.d[t];
      double scale = 0; for(double x : b) if(std::isfinite(x)) scale = std::max(scale, std::fabs(x));
      const double tol = 1e-10 * scale;
      if(a.size() != b.size()) { r.bad = true; r.tag = t; return r; }
      for(std::size_t i = 0; i < a.size(); ++i)
      {
        if(std::memcmp(&a[i], &b[i], sizeof(double)) == 0) continue;
        if(std::fabs(a[i] - b[i]) <= tol) { ++r.inexact; continue; }        // false for NaN / Inf on either side
        if(!r.bad) { r.bad = true; r.tag = t; r.idx = i; r.got = a[i]; r.want = b[i]; r.tol = tol; }
      }
    }
    return r;
  }

  // ------------------------------------------------------------------ one evaluation with a given evaluation data type
  // SD_ = SpaceEvaluator::ConfigTraits<R>::EvalDataType, tcfg_ = SpaceEvaluator::ConfigTraits<R>::trafo_config: exactly the
  // types a user of the evaluator works with (cf. Space::ExtVtkWriter::write_hessians, Assembly::AsmTraits1)
  template<typename TE_, typename SE_, typename SD_, TrafoTags tcfg_>
  struct RawEval
  {
    typedef typename TE_::template ConfigTraits<tcfg_>::EvalDataType TD;
    static constexpr int dim = SE_::domain_dim;

    // xi: evaluation point; xi_other: point of the preceding evaluation in mode g_stale; report: tag mask to extract
    static void run(const TE_& te, const SE_& se, int n, const double* xi, const double* xi_other, int garbage, vh::Rng& rng, int report, Fields& out)
    {
      std::unique_ptr<TD> td(new TD); std::unique_ptr<SD_> sd(new SD_);
      fill_garbage(static_cast<void*>(td.get()), sizeof(TD), garbage == g_stale ? g_nan : garbage, rng);
      fill_garbage(static_cast<void*>(sd.get()), sizeof(SD_), garbage == g_stale ? g_nan : garbage, rng);
      typename TE_::DomainPointType p;
      if(garbage == g_stale)
      {
        for(int k = 0; k < dim; ++k) p[k] = xi_other[k];
        te(*td, p); se(*sd, *td);
      }
      for(int k = 0; k < dim; ++k) p[k] = xi[k];
      te(*td, p); se(*sd, *td);
      for(int t = 0; t < 6; ++t) out.d[t].clear();
      for(int i = 0; i < n; ++i)
      {
        const auto& b = sd->phi[i];
        if(report & 1) out.d[0].push_back(double(b.value));
        if(report & 2) for(int k = 0; k < dim; ++k) out.d[1].push_back(double(b.grad[k]));
        if(report & 4) for(int k = 0; k < dim; ++k) for(int l = 0; l < dim; ++l) out.d[2].push_back(double(b.hess[k][l]));
        if(report & 8) out.d[3].push_back(double(b.ref_value));
        if(report & 16) for(int k = 0; k < dim; ++k) out.d[4].push_back(double(b.ref_grad[k]));
        if(report & 32) for(int k = 0; k < dim; ++k) for(int l = 0; l < dim; ++l) out.d[5].push_back(double(b.ref_hess[k][l]));
      }
    }
  };

  // parallelogram identity on every 2-face of every hypercube cell (generator-owned coordinates)
  template<typename Shape_>
  bool all_cells_affine(const vm::MeshSpec<Shape_>& m)
  {
    typedef Ref<Shape_> R;
    if(R::simplex) return true;
    for(const auto& cv : m.cells)
      for(int k1 = 0; k1 < R::dim; ++k1) for(int k2 = k1 + 1; k2 < R::dim; ++k2) for(int base = 0; base < R::nv; ++base)
      {
        if(((base >> k1) & 1) || ((base >> k2) & 1)) continue;
        for(int x = 0; x < R::dim; ++x)
        {
          const double s = m.verts[cv[std::size_t(base)]][std::size_t(x)] - m.verts[cv[std::size_t(base | (1 << k1))]][std::size_t(x)]
            - m.verts[cv[std::size_t(base | (1 << k2))]][std::size_t(x)] + m.verts[cv[std::size_t(base | (1 << k1) | (1 << k2))]][std::size_t(x)];
          if(std::fabs(s) > 1e-12) return false;
        }
      }
    return true;
  }

  // ------------------------------------------------------------------ the monitors of family 'cfg'
  // D_: { template<T> using S; name(); force_grad; affine_only }
  template<typename D_, typename Shape_>
  struct CfgMonitors
  {
    typedef Ref<Shape_> R;
    static constexpr int dim = R::dim;
    typedef Geometry::ConformalMesh<Shape_, dim, double> MeshType;
    typedef Trafo::Standard::Mapping<MeshType> TrafoType;
    typedef typename D_::template S<TrafoType> SpaceType;
    typedef typename TrafoType::template Evaluator<Shape_, double>::Type TE;
    typedef typename SpaceType::template Evaluator<TE>::Type SE;
    typedef typename SpaceType::DofMappingType DofMapping;
    static constexpr int maxn = SE::max_local_dofs;
    // capability universe: the six data tags the evaluator advertises; Discontinuous-P1 on simplices advertises nothing
    // although it implements values and gradients (see c15_disc.cpp: force_grad) -> value, grad and their reference data
    static constexpr int caps = int(SE::eval_caps) & 63;
    static constexpr int U = caps != 0 ? caps : (D_::force_grad ? (1 | 2 | 8 | 16) : 0);

    struct State
    {
      vh::Ctx& c; const TE& te; const SE& se; int n; Index cell; const double* xi; const double* xi_other; std::string op;
      Fields full; bool stop;
    };

    template<int mask_>
    static void eval_mask(const TE& te, const SE& se, int n, const double* xi, const double* xi_other, int garbage, vh::Rng& rng, int report, Fields& out)
    {
      typedef typename SE::template ConfigTraits<SpaceTags(mask_)> CT;
      RawEval<TE, SE, typename CT::EvalDataType, CT::trafo_config>::run(te, se, n, xi, xi_other, garbage, rng, report, out);
    }

    static std::string pt_json(const double* xi) { vh::J a('['); for(int k = 0; k < dim; ++k) a.add(xi[k]); return a.str(); }

    template<int mask_>
    static void one(State& s)
    {
      if constexpr(mask_ != 0 && (mask_ & ~U) == 0)
      {
        if(s.stop) return;
        typedef typename SE::template ConfigTraits<SpaceTags(mask_)> CT;
        constexpr int report = (mask_ | int(CT::config)) & U;
        const int g = int(s.c.rng.below(g_count));
        Fields f;
        eval_mask<mask_>(s.te, s.se, s.n, s.xi, s.xi_other, g, s.c.rng, report, f);
        s.c.event();
        const CfgDiff d = compare_fields(f, s.full, report);
        if(d.inexact) s.c.count("cfg_rounding_differences", d.inexact);
        if(d.bad)
        {
          const int ncomp = d.tag < 0 ? 1 : int(s.full.d[d.tag].size()) / std::max(1, s.n);
          s.c.viol(s.op + ".config", "config-dependent-result", vh::J().kv("cell", (unsigned long)s.cell).raw("ref_point", pt_json(s.xi))
            .kv("requested", mask_name(mask_)).kv("evaldata_config", mask_name(int(CT::config))).kv("buffer_prefill", garbage_name(g))
            .kv("field", d.tag < 0 ? "?" : field_name(d.tag)).kv("basis_fn", int(d.idx) / std::max(1, ncomp)).kv("component", int(d.idx) % std::max(1, ncomp))
            .kv("got", d.got).kv("with_full_config", d.want).kv("full_config", mask_name(U)).kv("tol", d.tol).str(),
            {std::string("req:") + mask_name(mask_)});
          s.stop = true;
        }
      }
    }
    template<int mask_> static void loop(State& s) { one<mask_>(s); if constexpr(mask_ < 63) loop<mask_ + 1>(s); }

    static void random_boundary_point(vh::Rng& rng, double* p)
    {
      const int skip = int(rng.below(std::uint64_t(R::simplex ? R::nv : 2 * dim)));
      if(R::simplex)
      {
        double w[8], ws = 0; for(int j = 0; j < R::nv; ++j) { w[j] = (j != skip) ? rng.real(0.1, 1.0) : 0.0; ws += w[j]; }
        for(int k = 0; k < dim; ++k) { p[k] = 0; for(int j = 0; j < R::nv; ++j) p[k] += w[j] / ws * R::vertex(j, k); }
      }
      else { R::random_point(rng, p, 1.0); p[skip / 2] = (skip % 2) ? 1.0 : -1.0; }
    }

    // (6) on one cell
    static void config_check(vh::Ctx& c, const SpaceType& space, Index cell, const std::string& op)
    {
      if(U == 0) return;
      TE te(space.get_trafo()); SE se(space);
      te.prepare(cell); se.prepare(te);
      const int n = se.get_num_local_dofs();
      double pts[4][3] = {{0, 0, 0}, {0, 0, 0}, {0, 0, 0}, {0, 0, 0}};
      for(int k = 0; k < dim; ++k) pts[0][k] = R::centre(k);
      R::random_point(c.rng, pts[1], 0.95);
      random_boundary_point(c.rng, pts[2]);
      { const int j = int(c.rng.below(std::uint64_t(R::nv))); for(int k = 0; k < dim; ++k) pts[3][k] = R::vertex(j, k); }   // a reference vertex
      bool stop = false;
      for(int ip = 0; ip < 4 && !stop; ++ip)
      {
        double other[3] = {0, 0, 0}; R::random_point(c.rng, other, 0.9);
        State s{c, te, se, n, cell, pts[ip], other, op, Fields(), false};
        // the reference: full capability set, NaN-filled buffers
        eval_mask<U>(te, se, n, pts[ip], other, g_nan, c.rng, U, s.full);
        c.event();
        bool finite = true;
        for(int t = 0; t < 6; ++t) for(double x : s.full.d[t]) if(!std::isfinite(x)) finite = false;
        if(!finite)
        {
          c.viol(op + ".config", "non-finite-result", vh::J().kv("cell", (unsigned long)cell).raw("ref_point", pt_json(pts[ip])).kv("requested", mask_name(U)).str());
          break;
        }
        loop<1>(s);
        stop = s.stop;
      }
      se.finish(); te.finish();
    }

    // (7) derivative consistency with the minimal configurations {value}, {grad}, {hess} on one cell
    struct MinEval
    {
      vh::Ctx& c; const TE& te; const SE& se; int n; double other[3];
      // v[n], g[n][dim], H[n][dim][dim] (flat)
      void operator()(const double* xi, std::vector<double>& v, std::vector<double>& g, std::vector<double>& H)
      {
        Fields f;
        eval_mask<1>(te, se, n, xi, other, int(c.rng.below(g_count)), c.rng, 1, f); v = f.d[0];
        if constexpr((U & 2) != 0) { eval_mask<2>(te, se, n, xi, other, int(c.rng.below(g_count)), c.rng, 2, f); g = f.d[1]; }
        if constexpr((U & 4) != 0) { eval_mask<4>(te, se, n, xi, other, int(c.rng.below(g_count)), c.rng, 4, f); H = f.d[2]; }
      }
    };
    static void min_deriv_check(vh::Ctx& c, const SpaceType& space, Index cell, const std::string& op)
    {
      if constexpr((U & 1) != 0 && (U & 2) != 0)
      {
        constexpr bool has_hess = (U & 4) != 0;
        TE te(space.get_trafo()); SE se(space);
        te.prepare(cell); se.prepare(te);
        const int n = se.get_num_local_dofs();
        MinEval ev{c, te, se, n, {0, 0, 0}};
        R::random_point(c.rng, ev.other, 0.9);
        typename TE::template ConfigTraits<TrafoTags::jac_mat>::EvalDataType jd;
        // scales: reference vertices, centre, 16 random points and the checked points
        std::vector<std::array<double, 3>> pts;
        for(int j = 0; j < R::nv; ++j) { std::array<double, 3> p{}; for(int k = 0; k < dim; ++k) p[std::size_t(k)] = R::vertex(j, k); pts.push_back(p); }
        { std::array<double, 3> p{}; for(int k = 0; k < dim; ++k) p[std::size_t(k)] = R::centre(k); pts.push_back(p); }
        // 16 random points for the scales only: a basis function may vanish at all vertices and the centre (Lagrange-3 edge functions)
        // and be tiny at the few checked points, while its finite-difference error is governed by its size over the whole cell
        for(int q = 0; q < 16; ++q) { std::array<double, 3> p{}; R::random_point(c.rng, p.data(), 1.0); pts.push_back(p); }
        const std::size_t first_checked = pts.size();
        { std::array<double, 3> p{}; R::random_point(c.rng, p.data(), 0.95); pts.push_back(p); }
        { std::array<double, 3> p{}; random_boundary_point(c.rng, p.data()); pts.push_back(p); }
        std::vector<double> S(std::size_t(n), 0.0), SG(std::size_t(n), 0.0), v, g, H;
        for(auto& p : pts)
        {
          ev(p.data(), v, g, H);
          for(int i = 0; i < n; ++i)
          {
            S[std::size_t(i)] = std::max(S[std::size_t(i)], std::fabs(v[std::size_t(i)]));
            for(int k = 0; k < dim; ++k) SG[std::size_t(i)] = std::max(SG[std::size_t(i)], std::fabs(g[std::size_t(i * dim + k)]));
          }
        }
        double Sc = 0, SGc = 0; for(int i = 0; i < n; ++i) { Sc = std::max(Sc, S[std::size_t(i)]); SGc = std::max(SGc, SG[std::size_t(i)]); }
        const double hs[2] = {1.0 / 512.0, 1.0 / 1024.0};
        bool stop = false;
        for(std::size_t ip = first_checked; ip < pts.size() && !stop; ++ip)
        {
          const double* xi = pts[ip].data();
          std::vector<double> g0, H0;
          ev(xi, v, g0, H0);
          double J[3][3];
          { typename TE::DomainPointType p; for(int k = 0; k < dim; ++k) p[k] = xi[k]; te(jd, p); for(int a = 0; a < dim; ++a) for(int b = 0; b < dim; ++b) J[a][b] = jd.jac_mat[a][b]; }
          for(int d = 0; d < dim && !stop; ++d)
          {
            std::vector<double> dv[2], dg[2];
            for(int s = 0; s < 2; ++s)
            {
              double xp[3], xm[3]; for(int k = 0; k < dim; ++k) { xp[k] = xm[k] = xi[k]; } xp[d] += hs[s]; xm[d] -= hs[s];
              std::vector<double> vp, gp, Hp, vm2, gm, Hm;
              ev(xp, vp, gp, Hp); ev(xm, vm2, gm, Hm);
              dv[s].resize(vp.size()); dg[s].resize(gp.size());
              for(std::size_t i = 0; i < vp.size(); ++i) dv[s][i] = (vp[i] - vm2[i]) / (2 * hs[s]);
              for(std::size_t i = 0; i < gp.size(); ++i) dg[s][i] = (gp[i] - gm[i]) / (2 * hs[s]);
            }
            c.event();
            for(int i = 0; i < n && !stop; ++i)
            {
              double gd = 0; for(int k = 0; k < dim; ++k) gd += g0[std::size_t(i * dim + k)] * J[k][d];
              const double e1 = std::fabs(dv[0][std::size_t(i)] - gd), e2 = std::fabs(dv[1][std::size_t(i)] - gd);
              const double tol = 1e-5 * S[std::size_t(i)] + 1e-10 * Sc;
              const bool ok = (e2 <= tol) || (e2 <= 0.3 * e1 && e1 <= 0.05 * (S[std::size_t(i)] + 1e-5 * Sc));
              if(!ok)
              {
                c.viol(op + ".grad", "gradient-not-derivative-of-value", vh::J().kv("cell", (unsigned long)cell).raw("ref_point", pt_json(xi)).kv("basis_fn", i)
                  .kv("ref_direction", d).kv("configs", "grad alone vs value alone").kv("evaluator_dir_deriv", gd).kv("central_diff_h", dv[0][std::size_t(i)])
                  .kv("central_diff_h2", dv[1][std::size_t(i)]).kv("err_h", e1).kv("err_h2", e2).kv("scale", S[std::size_t(i)]).kv("tol", tol).str(), {"req:grad"});
                stop = true; break;
              }
              if(has_hess) for(int k = 0; k < dim; ++k)
              {
                double hd = 0; for(int l = 0; l < dim; ++l) hd += H0[std::size_t((i * dim + k) * dim + l)] * J[l][d];
                const double f1 = std::fabs(dg[0][std::size_t(i * dim + k)] - hd), f2 = std::fabs(dg[1][std::size_t(i * dim + k)] - hd);
                const double tolh = 1e-5 * SG[std::size_t(i)] + 1e-10 * SGc;
                const bool okh = (f2 <= tolh) || (f2 <= 0.3 * f1 && f1 <= 0.05 * (SG[std::size_t(i)] + 1e-5 * SGc));
                if(!okh)
                {
                  c.viol(op + ".hess", "hessian-not-derivative-of-gradient", vh::J().kv("cell", (unsigned long)cell).raw("ref_point", pt_json(xi)).kv("basis_fn", i)
                    .kv("ref_direction", d).kv("grad_component", k).kv("configs", "hess alone vs grad alone").kv("evaluator_hess_dir", hd)
                    .kv("central_diff_h", dg[0][std::size_t(i * dim + k)]).kv("central_diff_h2", dg[1][std::size_t(i * dim + k)])
                    .kv("err_h", f1).kv("err_h2", f2).kv("scale", SG[std::size_t(i)]).kv("tol", tolh).str(), {"req:hess"});
                  stop = true; break;
                }
              }
            }
          }
        }
        se.finish(); te.finish();
      }
    }

    // ---------------------------------------------------------------- mesh of a cfg case
    static vm::MeshSpec<Shape_> gen(vh::Ctx& c, MeshInfo& info)
    {
      vh::Rng& r = c.rng;
      vm::MeshSpec<Shape_> m;
      Index a = Index(r.range(1, 3)), b = Index(r.range(1, dim == 2 ? 3 : 2)), d = (dim == 3 && r.coin(0.3)) ? 2 : 1;
      if(R::simplex && dim == 3) { a = Index(r.range(1, 2)); b = 1; d = 1; }
      if(c.k % 8 == 0) a = b = d = 1;
      int cls = int(r.below(10));                       // 0 grid, 1 affine image, 2..7 displaced vertices (4..7 + affine image), 8,9 star / displaced
      if(R::simplex) cls = int(r.below(3));             // simplices: grid, affine image, displaced vertices (cells stay affine)
      if(D_::affine_only) cls = int(r.below(2));
      bool star = false;
      if(cls >= 8) star = try_star<Shape_>(m, r);
      if(!star) m = Base<Shape_>::grid(a, b, d, r);
      const double h = 1.0 / double(std::max(a, std::max(b, d)));
      const bool displace = !star && cls >= 2, affine = (cls == 1) || (cls >= 4 && cls <= 7);
      if(star) c.tag("mesh:star"); else if(cls == 0) c.tag("mesh:grid");
      if(displace)
      {
        // every vertex, boundary included (distort_interior leaves 1-cell meshes untouched)
        for(auto& v : m.verts) for(int k = 0; k < dim; ++k) v[std::size_t(k)] += r.real(-0.15, 0.15) * h;
        m.tag("displaced_all"); c.tag("mesh:displaced_all");
      }
      if(affine) { vm::affine_map(m, r); c.tag("mesh:affine_image"); }
      if(r.coin()) { vm::permute_vertices(m, r); vm::permute_cells(m, r); c.tag("mesh:renumbered"); }
      if(r.coin()) { vm::reorient_cells(m, r); c.tag("mesh:reoriented"); }
      info.affine_cells = all_cells_affine(m);
      info.axis_parallel = !(star || displace || affine);
      c.tag(info.affine_cells ? "cells:affine" : "cells:non_affine");
      const Index nc = m.num_cells();
      c.tag(nc == 1 ? "ncells:1" : nc <= 8 ? "ncells:2-8" : "ncells:9-64");
      return m;
    }

    static void run(vh::Ctx& c)
    {
      c.tag(std::string("space:") + D_::name());
      c.tag(std::string("shape:") + vm::ShapeInfo<Shape_>::name());
      c.tag(std::string("caps:") + mask_name(U));
      MeshInfo info;
      auto spec = gen(c, info);
      const std::string op = std::string("space.") + D_::name();
      c.set_op(op);
      c.desc = vh::J().raw("mesh", spec.describe()).kv("space", D_::name()).raw("tags", c.tags_json()).str();
      if(U == 0) { c.trivial = true; c.count("cfg_no_capabilities"); return; }
      auto mesh = vm::build(spec);
      TrafoType trafo(*mesh);
      SpaceType space(trafo);
      const Index nc = spec.num_cells();
      const Index ncheck = std::min<Index>(nc, maxn > 30 ? 2 : 4);
      // the two monitors judge independently of each other (each stops at its own first violation)
      for(Index t = 0; t < ncheck; ++t) { const int v0 = c.nviol; config_check(c, space, nc <= ncheck ? t : Index(c.rng.below(nc)), op); if(c.nviol > v0) break; }
      const Index nfd = std::min<Index>(nc, maxn > 30 ? 1 : 2);
      for(Index t = 0; t < nfd; ++t) { const int v0 = c.nviol; min_deriv_check(c, space, nc <= nfd ? t : Index(c.rng.below(nc)), op); if(c.nviol > v0) break; }
    }
  };

  // ------------------------------------------------------------------ registry of the (space, shape) pairs of family 'cfg'
  struct CfgEntry { const char* key; void (*fn)(vh::Ctx&); };
  inline std::vector<CfgEntry>& cfg_registry() { static std::vector<CfgEntry> r; return r; }
  struct RegCfg { RegCfg(const char* key, void (*fn)(vh::Ctx&)) { cfg_registry().push_back({key, fn}); } };
  inline void run_cfg_family(vh::Ctx& c)
  {
    auto sel = cfg_registry();
    std::sort(sel.begin(), sel.end(), [](const CfgEntry& x, const CfgEntry& y) { return std::strcmp(x.key, y.key) < 0; });
    if(sel.empty()) { c.inconclusive("no cfg pairs registered"); return; }
    sel[std::size_t(c.k % sel.size())].fn(c);
  }

  struct CfgDescBase { static constexpr bool force_grad = false, affine_only = false; };
} // namespace c15
