// c15.hpp -- generic monitors for C15 (finite-element bases: duality, derivative consistency,
// polynomial reproduction, conformity, DOF counts) over (Space, Shape) pairs.
//
// Everything the oracles compare against is harness-owned: reference-cell geometry, the multilinear
// map of the generator's vertex coordinates, monomials with analytic derivatives, entity counts
// derived from the generator's vertices-at-cell lists.  FEAT supplies: trafo evaluator, space
// evaluator, DOF mapping, DOF assignment, node functionals, Assembly::Interpolator.
#pragma once
#include <common/vh_mesh.hpp>
#include <kernel/runtime.hpp>
#include <kernel/trafo/standard/mapping.hpp>
#include <kernel/assembly/asm_traits.hpp>
#include <kernel/assembly/interpolator.hpp>
#include <kernel/lafem/dense_vector.hpp>
#include <kernel/analytic/function.hpp>

namespace c15
{
  using namespace FEAT;
  typedef long double LD;

  // ------------------------------------------------------------------ reference cells (harness-owned)
  template<typename Shape_> struct Ref;
  template<int d_> struct Ref<Shape::Hypercube<d_>>
  {
    static constexpr int dim = d_, nv = 1 << d_;
    static constexpr bool simplex = false;
    static double vertex(int j, int k) { return ((j >> k) & 1) ? 1.0 : -1.0; }
    static double centre(int) { return 0.0; }
    // multilinear shape functions
    static void shape(const double* xi, LD* N)
    {
      for(int j = 0; j < nv; ++j) { LD p = 1; for(int k = 0; k < d_; ++k) p *= (1 + LD(vertex(j, k)) * LD(xi[k])) / 2; N[j] = p; }
    }
    static void random_point(vh::Rng& r, double* xi, double shrink) { for(int k = 0; k < d_; ++k) xi[k] = r.real(-shrink, shrink); }
    static LD ref_volume() { return LD(1 << d_); }
  };
  template<int d_> struct Ref<Shape::Simplex<d_>>
  {
    static constexpr int dim = d_, nv = d_ + 1;
    static constexpr bool simplex = true;
    static double vertex(int j, int k) { return (j == k + 1) ? 1.0 : 0.0; }
    static double centre(int) { return 1.0 / double(d_ + 1); }
    static void shape(const double* xi, LD* N) { N[0] = 1; for(int k = 0; k < d_; ++k) { N[k + 1] = xi[k]; N[0] -= xi[k]; } }
    static void random_point(vh::Rng& r, double* xi, double shrink)
    {
      double b[d_ + 1], s = 0; for(int k = 0; k <= d_; ++k) { b[k] = -std::log(1.0 - r.unit() * 0.999999); s += b[k]; }
      for(int k = 0; k < d_; ++k) xi[k] = centre(k) + shrink * (b[k + 1] / s - centre(k));
    }
    static LD ref_volume() { LD f = 1; for(int k = 2; k <= d_; ++k) f *= k; return 1 / f; }
  };

  // harness-side image of a reference point (multilinear / affine map of the generator's coordinates)
  template<typename Shape_>
  void map_point(const vm::MeshSpec<Shape_>& m, Index cell, const double* xi, LD* x)
  {
    typedef Ref<Shape_> R; LD N[8]; R::shape(xi, N);
    for(int k = 0; k < R::dim; ++k) { x[k] = 0; for(int j = 0; j < R::nv; ++j) x[k] += N[j] * LD(m.verts[m.cells[cell][std::size_t(j)]][std::size_t(k)]); }
  }

  // ------------------------------------------------------------------ entity counts from the generator's lists
  struct Counts { Index n[4] = {0, 0, 0, 0}; };
  template<typename Shape_>
  Counts count_entities(const vm::MeshSpec<Shape_>& m)
  {
    typedef Ref<Shape_> R; Counts c; c.n[0] = m.num_verts(); c.n[R::dim] = m.num_cells();
    std::set<std::vector<Index>> edges, faces;
    for(const auto& cv : m.cells)
    {
      for(int a = 0; a < R::nv; ++a) for(int b = a + 1; b < R::nv; ++b)
      {
        bool is_edge = R::simplex;
        if(!R::simplex) { int x = a ^ b; is_edge = (x & (x - 1)) == 0; }
        if(is_edge) { std::vector<Index> e = {cv[std::size_t(a)], cv[std::size_t(b)]}; std::sort(e.begin(), e.end()); edges.insert(e); }
      }
      if(R::dim == 3)
      {
        if(R::simplex) { for(int o = 0; o < 4; ++o) { std::vector<Index> f; for(int a = 0; a < 4; ++a) if(a != o) f.push_back(cv[std::size_t(a)]); std::sort(f.begin(), f.end()); faces.insert(f); } }
        else for(int k = 0; k < 3; ++k) for(int s = 0; s < 2; ++s)
        { std::vector<Index> f; for(int a = 0; a < 8; ++a) if(((a >> k) & 1) == s) f.push_back(cv[std::size_t(a)]); std::sort(f.begin(), f.end()); faces.insert(f); }
      }
    }
    if(R::dim >= 2) c.n[1] = Index(edges.size());
    if(R::dim == 3) c.n[2] = Index(faces.size());
    return c;
  }

  // ------------------------------------------------------------------ mesh generator
  struct MeshOpt { bool affine_only = false; Index max_cells = 200; };

  template<typename Shape_> struct Base;
  template<> struct Base<Shape::Hypercube<2>> { static vm::MeshSpec<Shape::Hypercube<2>> grid(Index a, Index b, Index, vh::Rng&) { return vm::quad_grid(a, b); } static Index per(Index a, Index b, Index) { return a * b; } };
  template<> struct Base<Shape::Simplex<2>> { static vm::MeshSpec<Shape::Simplex<2>> grid(Index a, Index b, Index, vh::Rng& r) { return vm::tria_grid(a, b, &r); } static Index per(Index a, Index b, Index) { return 2 * a * b; } };
  template<> struct Base<Shape::Hypercube<3>> { static vm::MeshSpec<Shape::Hypercube<3>> grid(Index a, Index b, Index c, vh::Rng&) { return vm::hexa_grid(a, b, c); } static Index per(Index a, Index b, Index c) { return a * b * c; } };
  template<> struct Base<Shape::Simplex<3>> { static vm::MeshSpec<Shape::Simplex<3>> grid(Index a, Index b, Index c, vh::Rng&) { return vm::tetra_grid(a, b, c); } static Index per(Index a, Index b, Index c) { return 6 * a * b * c; } };

  template<typename Shape_> inline bool try_star(vm::MeshSpec<Shape_>&, vh::Rng&) { return false; }
  template<> inline bool try_star<Shape::Hypercube<2>>(vm::MeshSpec<Shape::Hypercube<2>>& m, vh::Rng& r) { m = vm::quad_star(Index(r.range(3, 9))); return true; }

  // flags of the generated mesh (truth owned by the generator)
  struct MeshInfo { bool axis_parallel = true; bool affine_cells = true; };

  template<typename Shape_>
  vm::MeshSpec<Shape_> gen_mesh(vh::Ctx& c, const MeshOpt& opt, MeshInfo& info)
  {
    typedef Ref<Shape_> R; vh::Rng& r = c.rng;
    vm::MeshSpec<Shape_> m;
    // sizes: mostly small, sometimes up to the cell limit
    Index lim = opt.max_cells;
    if(!r.coin(0.15)) lim = std::min<Index>(lim, c.thorough() ? 400 : 60);
    Index a = 1, b = 1, d = 1;
    for(int tries = 0; tries < 200; ++tries)
    {
      long hi = R::dim == 2 ? 70 : 12;
      a = Index(r.range(1, hi)); b = Index(r.range(1, hi)); d = R::dim == 3 ? Index(r.range(1, hi)) : 1;
      if(Base<Shape_>::per(a, b, d) <= lim) break;
      a = b = d = 1;
    }
    int cls = int(r.below(7));
    if(c.k % 16 == 0) { a = b = d = 1; }                         // edge corpus: minimal meshes
    bool star = false;
    if(cls == 6 && !opt.affine_only) star = try_star<Shape_>(m, r);
    if(!star) m = Base<Shape_>::grid(a, b, d, r);
    double h = 1.0 / double(std::max(a, std::max(b, d)));
    bool distort = false, affine = false, reor = false, perm = false;
    if(star) { info.axis_parallel = false; info.affine_cells = false; reor = r.coin(); perm = r.coin(); c.tag("mesh:star"); }
    else switch(cls)
    {
    case 0: c.tag("mesh:grid"); break;
    case 1: perm = true; reor = true; c.tag("mesh:grid"); break;
    case 2: distort = true; reor = r.coin(); break;
    case 3: affine = true; reor = true; break;
    case 4: affine = true; distort = true; perm = true; reor = true; break;
    case 5: distort = true; perm = true; reor = true; break;
    default: reor = true; break;
    }
    if(opt.affine_only) distort = false;
    if(distort && m.num_verts() > Index(R::nv)) { vm::distort_interior(m, r, h, 0.15); }
    if(affine) vm::affine_map(m, r);
    if(perm) { vm::permute_vertices(m, r); vm::permute_cells(m, r); }
    if(reor) vm::reorient_cells(m, r);
    // a distorted grid without interior vertex is still affine: decide by the parallelogram identity per cell
    if(!R::simplex)
    {
      bool all_aff = true;
      for(const auto& cv : m.cells)
      {
        // v0 - v1 - v2 + v3 == 0 for every 2-face (tensor numbering)
        for(int k1 = 0; k1 < R::dim && all_aff; ++k1) for(int k2 = k1 + 1; k2 < R::dim && all_aff; ++k2) for(int base = 0; base < R::nv; ++base)
        {
          if((base >> k1) & 1 || (base >> k2) & 1) continue;
          for(int x = 0; x < R::dim; ++x)
          {
            double s = m.verts[cv[std::size_t(base)]][std::size_t(x)] - m.verts[cv[std::size_t(base | (1 << k1))]][std::size_t(x)]
              - m.verts[cv[std::size_t(base | (1 << k2))]][std::size_t(x)] + m.verts[cv[std::size_t(base | (1 << k1) | (1 << k2))]][std::size_t(x)];
            if(std::fabs(s) > 1e-12) all_aff = false;
          }
        }
      }
      info.affine_cells = all_aff;
    }
    if(affine || distort || star) info.axis_parallel = false;
    if(distort) c.tag("mesh:distorted");
    if(affine) c.tag("mesh:affine_image");
    if(reor) c.tag("mesh:reoriented");
    if(perm) c.tag("mesh:renumbered");
    c.tag(info.affine_cells ? "cells:affine" : "cells:non_affine");
    const Index nc = m.num_cells();
    c.tag(nc == 1 ? "ncells:1" : nc <= 8 ? "ncells:2-8" : nc <= 64 ? "ncells:9-64" : nc <= 400 ? "ncells:65-400" : "ncells:401+");
    return m;
  }

  // FEAT's own mesh permutation strategies: applied to the built mesh; the generator's description is then re-read
  // from the permuted mesh (vertex coordinates + vertices-at-cell), so that all oracles keep working on FEAT's numbering
  inline int feat_permute_choose(vh::Ctx& c)
  {
    static const char* nm[7] = {"random", "lexicographic", "colored", "cmk", "cmk_rev", "geo_cmk", "geo_cmk_rev"};
    if(!c.rng.coin(0.2)) return -1;
    const int i = int(c.rng.below(7));
    c.tag(std::string("feat_perm:") + nm[i]);
    return i;
  }
  template<typename Mesh_, typename Shape_>
  void feat_permute(int which, Mesh_& mesh, vm::MeshSpec<Shape_>& spec)
  {
    if(which < 0) return;
    static const Geometry::PermutationStrategy st[7] = {Geometry::PermutationStrategy::random, Geometry::PermutationStrategy::lexicographic,
      Geometry::PermutationStrategy::colored, Geometry::PermutationStrategy::cuthill_mckee, Geometry::PermutationStrategy::cuthill_mckee_reversed,
      Geometry::PermutationStrategy::geometric_cuthill_mckee, Geometry::PermutationStrategy::geometric_cuthill_mckee_reversed};
    mesh.create_permutation(st[which]);
    constexpr int dim = Ref<Shape_>::dim;
    const auto& vtx = mesh.get_vertex_set();
    const auto& idx = mesh.template get_index_set<dim, 0>();
    for(Index v = 0; v < spec.num_verts(); ++v) for(int d = 0; d < dim; ++d) spec.verts[v][std::size_t(d)] = vtx[v][d];
    for(Index k = 0; k < spec.num_cells(); ++k) for(int j = 0; j < Ref<Shape_>::nv; ++j) spec.cells[k][std::size_t(j)] = idx(k, j);
  }

  // ------------------------------------------------------------------ evaluation of a space on a cell
  template<typename Space_> struct EvCaps
  {
    typedef typename Space_::TrafoType TrafoType; typedef typename Space_::ShapeType ShapeType;
    typedef typename TrafoType::template Evaluator<ShapeType, double>::Type TE;
    typedef typename Space_::template Evaluator<TE>::Type SE;
    static constexpr bool grad = *(SE::eval_caps & SpaceTags::grad);
    static constexpr bool hess = *(SE::eval_caps & SpaceTags::hess);
  };

  template<typename Space_, bool grad_, bool hess_>
  class CellEval
  {
  public:
    static constexpr SpaceTags scfg = SpaceTags::value | (grad_ ? SpaceTags::grad : SpaceTags::none) | (hess_ ? SpaceTags::hess : SpaceTags::none);
    static constexpr TrafoTags tcfg = TrafoTags::img_point | TrafoTags::dom_point | TrafoTags::jac_mat | TrafoTags::jac_det;
    typedef Assembly::AsmTraits1<double, Space_, tcfg, scfg> AT;
    static constexpr int dim = AT::domain_dim;
    static constexpr int maxn = AT::max_local_dofs;
    typename AT::TrafoEvaluator te; typename AT::SpaceEvaluator se; typename AT::DofMapping dm;
    typename AT::TrafoEvalData td; typename AT::SpaceEvalData sd;
    int n = 0; Index dof[maxn]; bool prepared = false;

    explicit CellEval(const Space_& space) : te(space.get_trafo()), se(space), dm(space) {}
    ~CellEval() { finish(); }
    void prepare(Index cell)
    {
      finish();
      dm.prepare(cell);
      for(int i = 0; i < dm.get_num_local_dofs(); ++i) dof[i] = dm.get_index(i);
      dm.finish();
      te.prepare(cell); se.prepare(te); n = se.get_num_local_dofs(); prepared = true;
    }
    void finish() { if(prepared) { se.finish(); te.finish(); prepared = false; } }
    void eval(const double* xi)
    {
      typename AT::DomainPointType p; for(int k = 0; k < dim; ++k) p[k] = xi[k];
      te(td, p); se(sd, td);
    }
    double val(int i) const { return sd.phi[i].value; }
    double grad(int i, int k) const { return sd.phi[i].grad[k]; }
    double hess(int i, int k, int l) const { return sd.phi[i].hess[k][l]; }
    // value of a finite-element function with global coefficient vector
    LD fe_value(const std::vector<double>& coef) const { LD s = 0; for(int i = 0; i < n; ++i) s += LD(coef[dof[i]]) * LD(sd.phi[i].value); return s; }
  };

  // ------------------------------------------------------------------ shifted / scaled monomial with analytic derivatives
  template<int dim_>
  class Monomial : public Analytic::Function
  {
  public:
    static constexpr int domain_dim = dim_;
    typedef Analytic::Image::Scalar ImageType;
    static constexpr bool can_value = true, can_grad = true, can_hess = true;
    int e[3] = {0, 0, 0}; double x0[3] = {0, 0, 0}; double sc = 1.0;
    static LD ipow(LD t, int k) { LD p = 1; for(int i = 0; i < k; ++i) p *= t; return p; }
    // d-th derivative factor of t^k
    static LD dpow(LD t, int k, int d) { if(d > k) return 0; LD f = 1; for(int i = 0; i < d; ++i) f *= LD(k - i); return f * ipow(t, k - d); }
    LD value_ld(const LD* x) const { LD p = 1; for(int k = 0; k < dim_; ++k) p *= ipow((x[k] - LD(x0[k])) * LD(sc), e[k]); return p; }
    LD deriv_ld(const LD* x, const int* d) const
    { LD p = 1; for(int k = 0; k < dim_; ++k) { p *= dpow((x[k] - LD(x0[k])) * LD(sc), e[k], d[k]); for(int i = 0; i < d[k]; ++i) p *= LD(sc); } return p; }

    template<typename Traits_>
    class Evaluator : public Analytic::Function::Evaluator<Traits_>
    {
    public:
      typedef typename Traits_::PointType PointType; typedef typename Traits_::ValueType ValueType;
      typedef typename Traits_::GradientType GradientType; typedef typename Traits_::HessianType HessianType;
      const Monomial& f;
      explicit Evaluator(const Monomial& fn) : f(fn) {}
      ValueType value(const PointType& p) const { LD x[3] = {0, 0, 0}; for(int k = 0; k < dim_; ++k) x[k] = LD(p[k]); return ValueType(f.value_ld(x)); }
      GradientType gradient(const PointType& p) const
      {
        LD x[3] = {0, 0, 0}; for(int k = 0; k < dim_; ++k) x[k] = LD(p[k]);
        GradientType g; for(int k = 0; k < dim_; ++k) { int d[3] = {0, 0, 0}; d[k] = 1; g[k] = typename Traits_::DataType(f.deriv_ld(x, d)); } return g;
      }
      HessianType hessian(const PointType& p) const
      {
        LD x[3] = {0, 0, 0}; for(int k = 0; k < dim_; ++k) x[k] = LD(p[k]);
        HessianType h; for(int k = 0; k < dim_; ++k) for(int l = 0; l < dim_; ++l) { int d[3] = {0, 0, 0}; ++d[k]; ++d[l]; h[k][l] = typename Traits_::DataType(f.deriv_ld(x, d)); } return h;
      }
    };
  };

  // ------------------------------------------------------------------ basis function j of cell K as an Analytic::Function (own Newton inverse)
  template<typename Space_, bool grad_, bool hess_>
  class BasisFunction : public Analytic::Function
  {
  public:
    static constexpr int domain_dim = Space_::shape_dim;
    typedef Analytic::Image::Scalar ImageType;
    static constexpr bool can_value = true, can_grad = true, can_hess = true;
    const Space_& space; Index cell; int j; mutable int newton_fail = 0;
    BasisFunction(const Space_& s, Index c, int jj) : space(s), cell(c), j(jj) {}

    template<typename Traits_>
    class Evaluator : public Analytic::Function::Evaluator<Traits_>
    {
    public:
      typedef typename Traits_::PointType PointType; typedef typename Traits_::ValueType ValueType;
      typedef typename Traits_::GradientType GradientType; typedef typename Traits_::HessianType HessianType;
      typedef typename Space_::ShapeType ShapeType; typedef Ref<ShapeType> R;
      const BasisFunction& f; mutable CellEval<Space_, grad_, hess_> ce;
      typedef typename Space_::TrafoType::template Evaluator<ShapeType, double>::Type TE;
      mutable TE nte;
      explicit Evaluator(const BasisFunction& fn) : f(fn), ce(fn.space), nte(fn.space.get_trafo()) { ce.prepare(f.cell); nte.prepare(f.cell); }
      ~Evaluator() { nte.finish(); }
      void locate(const PointType& p) const
      {
        typename TE::template ConfigTraits<TrafoTags::img_point | TrafoTags::jac_inv>::EvalDataType d;
        typename TE::DomainPointType xi; for(int k = 0; k < R::dim; ++k) xi[k] = R::centre(k);
        bool ok = false;
        for(int it = 0; it < 40; ++it)
        {
          nte(d, xi);
          auto def = d.img_point; for(int k = 0; k < R::dim; ++k) def[k] -= p[k];
          auto upd = d.jac_inv * def; xi -= upd;
          double un = 0; for(int k = 0; k < R::dim; ++k) un = std::max(un, std::fabs(double(upd[k])));
          if(un < 1e-11) { ok = true; break; }   // the step just applied leaves an error of O(un^2)
        }
        if(!ok) ++f.newton_fail;
        double x[3]; for(int k = 0; k < R::dim; ++k) x[k] = xi[k];
        ce.eval(x);
      }
      ValueType value(const PointType& p) const { locate(p); return ValueType(ce.val(f.j)); }
      GradientType gradient(const PointType& p) const
      { locate(p); GradientType g; for(int k = 0; k < R::dim; ++k) g[k] = grad_ ? ce.sd.phi[f.j].grad[k] : 0.0; return g; }
      HessianType hessian(const PointType& p) const
      { locate(p); HessianType h; for(int k = 0; k < R::dim; ++k) for(int l = 0; l < R::dim; ++l) h[k][l] = hess_ ? ce.sd.phi[f.j].hess[k][l] : 0.0; return h; }
    };
  };

  // node functionals + dof assignment of all sub-entities of a cell, applied to a function
  template<typename Space_, int sdim_, int maxd_ = int(Space_::template NodeFunctional<sdim_, double>::Type::max_assigned_dofs)>
  struct EntityFunc
  {
    template<typename Func_>
    static void apply(const Space_& space, Index cell, const Func_& f, std::vector<std::pair<Index, double>>& out)
    {
      typedef typename Space_::ShapeType ShapeType; constexpr int dim = ShapeType::dimension;
      typedef typename Space_::template NodeFunctional<sdim_, double>::Type NF;
      typedef typename Space_::template DofAssignment<sdim_, double>::Type DA;
      NF nf(space); DA da(space);
      const int ne = sdim_ == dim ? 1 : Shape::FaceTraits<ShapeType, sdim_>::count;
      for(int e = 0; e < ne; ++e)
      {
        Index ent = cell;
        if(sdim_ < dim) ent = space.get_mesh().template get_index_set<dim, (sdim_ < dim ? sdim_ : 0)>()(cell, e);
        Tiny::Vector<double, maxd_> nd; nd.format();
        nf.prepare(ent); nf(nd, f); nf.finish();
        da.prepare(ent);
        for(int k = 0; k < da.get_num_assigned_dofs(); ++k) out.push_back({da.get_index(k), nd[k]});
        da.finish();
      }
    }
  };
  template<typename Space_, int sdim_>
  struct EntityFunc<Space_, sdim_, 0>
  { template<typename Func_> static void apply(const Space_&, Index, const Func_&, std::vector<std::pair<Index, double>>&) {} };

  template<typename Space_, int sdim_ = Space_::shape_dim>
  struct AllEntityFunc
  {
    template<typename Func_>
    static void apply(const Space_& space, Index cell, const Func_& f, std::vector<std::pair<Index, double>>& out)
    { AllEntityFunc<Space_, sdim_ - 1>::apply(space, cell, f, out); EntityFunc<Space_, sdim_>::apply(space, cell, f, out); }
  };
  template<typename Space_>
  struct AllEntityFunc<Space_, 0>
  {
    template<typename Func_>
    static void apply(const Space_& space, Index cell, const Func_& f, std::vector<std::pair<Index, double>>& out)
    { EntityFunc<Space_, 0>::apply(space, cell, f, out); }
  };

  // ------------------------------------------------------------------ the monitors
  // D_ : descriptor { template<T> using S; name(); pdeg; qdeg; h1; affine_only; ndofs<Shape>(Counts); force_grad }
  template<typename D_, typename Shape_>
  struct Monitors
  {
    typedef Shape_ ShapeType; typedef Ref<Shape_> R;
    static constexpr int dim = R::dim;
    typedef Geometry::ConformalMesh<Shape_, dim, double> MeshType;
    typedef Trafo::Standard::Mapping<MeshType> TrafoType;
    typedef typename D_::template S<TrafoType> SpaceType;
    static constexpr bool has_grad = EvCaps<SpaceType>::grad || D_::force_grad;
    static constexpr bool has_hess = EvCaps<SpaceType>::hess;
    typedef CellEval<SpaceType, has_grad, has_hess> CE;
    static constexpr int maxn = CE::maxn;

    static std::string pt_json(const double* xi) { vh::J a('['); for(int k = 0; k < dim; ++k) a.add(xi[k]); return a.str(); }

    // (1) derivative consistency on one cell
    static void deriv_check(vh::Ctx& c, const SpaceType& space, Index cell, const std::string& op)
    {
      CE ce(space); ce.prepare(cell); const int n = ce.n;
      // sample points: reference vertices + centre (scale only), then the checked points
      std::vector<std::array<double, 3>> pts;
      for(int j = 0; j < R::nv; ++j) { std::array<double, 3> p{}; for(int k = 0; k < dim; ++k) p[std::size_t(k)] = R::vertex(j, k); pts.push_back(p); }
      { std::array<double, 3> p{}; for(int k = 0; k < dim; ++k) p[std::size_t(k)] = R::centre(k); pts.push_back(p); }
      const std::size_t first_checked = pts.size() - 1;   // the centre is checked too
      { std::array<double, 3> p{}; R::random_point(c.rng, p.data(), 0.95); pts.push_back(p); }
      { std::array<double, 3> p{}; R::random_point(c.rng, p.data(), 0.6); pts.push_back(p); }
      { // a point on the boundary of the reference cell: convex combination of the vertices of one facet
        std::array<double, 3> p{}; int skip = int(c.rng.below(std::uint64_t(R::simplex ? R::nv : 2 * dim)));
        double wsum = 0, w[8];
        for(int j = 0; j < R::nv; ++j)
        {
          bool on = R::simplex ? (j != skip) : (((j >> (skip / 2)) & 1) == (skip % 2));
          w[j] = on ? c.rng.real(0.1, 1.0) : 0.0; wsum += w[j];
        }
        if(R::simplex) { for(int j = 0; j < R::nv; ++j) for(int k = 0; k < dim; ++k) p[std::size_t(k)] += w[j] / wsum * R::vertex(j, k); }
        else { R::random_point(c.rng, p.data(), 1.0); p[std::size_t(skip / 2)] = (skip % 2) ? 1.0 : -1.0; }
        pts.push_back(p);
      }
      std::vector<double> S(std::size_t(n), 0.0), SG(std::size_t(n), 0.0);
      // (scale only) 16 further points from a private generator, so that the case stream is unchanged: a basis function that
      // vanishes at the vertices and the centre and happens to be small at the checked points (Lagrange-3 edge functions)
      // would otherwise get a scale far below its maximum, and the finite-difference guard below would reject correct code
      std::vector<std::array<double, 3>> spts = pts;
      { vh::Rng r2(vh::mix64(0xC15C15ull ^ (std::uint64_t(c.k) * 0x9E3779B97F4A7C15ull + std::uint64_t(cell))));
        for(int q = 0; q < 16; ++q) { std::array<double, 3> p{}; R::random_point(r2, p.data(), 1.0); spts.push_back(p); } }
      for(auto& p : spts)
      {
        ce.eval(p.data());
        for(int i = 0; i < n; ++i)
        {
          S[std::size_t(i)] = std::max(S[std::size_t(i)], std::fabs(ce.val(i)));
          if(has_grad) for(int k = 0; k < dim; ++k) SG[std::size_t(i)] = std::max(SG[std::size_t(i)], std::fabs(ce.sd.phi[i].grad[has_grad ? k : 0]));
        }
      }
      double Sc = 0, SGc = 0; for(int i = 0; i < n; ++i) { Sc = std::max(Sc, S[std::size_t(i)]); SGc = std::max(SGc, SG[std::size_t(i)]); }
      if(!has_grad) { ce.finish(); return; }
      const double hs[2] = {1.0 / 512.0, 1.0 / 1024.0};
      for(std::size_t ip = first_checked; ip < pts.size(); ++ip)
      {
        const double* xi = pts[ip].data();
        ce.eval(xi);
        double g0[maxn][3], H0[maxn][3][3], J[3][3];
        for(int a = 0; a < dim; ++a) for(int b = 0; b < dim; ++b) J[a][b] = ce.td.jac_mat[a][b];
        for(int i = 0; i < n; ++i)
        {
          for(int k = 0; k < dim; ++k) g0[i][k] = ce.sd.phi[i].grad[k];
          if(has_hess) for(int k = 0; k < dim; ++k) for(int l = 0; l < dim; ++l) H0[i][k][l] = ce.sd.phi[i].hess[has_hess ? k : 0][has_hess ? l : 0];
        }
        for(int d = 0; d < dim; ++d)
        {
          // central differences along reference direction d, two step sizes
          double dv[2][maxn], dg[2][maxn][3];
          for(int s = 0; s < 2; ++s)
          {
            double xp[3], xm[3]; for(int k = 0; k < dim; ++k) { xp[k] = xm[k] = xi[k]; } xp[d] += hs[s]; xm[d] -= hs[s];
            double vp[maxn], gp[maxn][3];
            ce.eval(xp); for(int i = 0; i < n; ++i) { vp[i] = ce.val(i); for(int k = 0; k < dim; ++k) gp[i][k] = ce.sd.phi[i].grad[k]; }
            ce.eval(xm);
            for(int i = 0; i < n; ++i)
            {
              dv[s][i] = (vp[i] - ce.val(i)) / (2 * hs[s]);
              for(int k = 0; k < dim; ++k) dg[s][i][k] = (gp[i][k] - ce.sd.phi[i].grad[k]) / (2 * hs[s]);
            }
          }
          c.event();
          for(int i = 0; i < n; ++i)
          {
            // directional derivative claimed by the evaluator: grad . (J e_d)
            double gd = 0; for(int k = 0; k < dim; ++k) gd += g0[i][k] * J[k][d];
            const double e1 = std::fabs(dv[0][i] - gd), e2 = std::fabs(dv[1][i] - gd);
            const double tol = 1e-5 * S[std::size_t(i)] + 1e-10 * Sc;
            const bool ok = (e2 <= tol) || (e2 <= 0.3 * e1 && e1 <= 0.05 * (S[std::size_t(i)] + 1e-5 * Sc));
            if(!(ok))
            {
              c.viol(op + ".grad", "gradient-not-derivative-of-value", vh::J().kv("cell", (unsigned long)cell).raw("ref_point", pt_json(xi)).kv("basis_fn", i)
                .kv("ref_direction", d).kv("evaluator_dir_deriv", gd).kv("central_diff_h", dv[0][i]).kv("central_diff_h2", dv[1][i]).kv("err_h", e1).kv("err_h2", e2)
                .kv("scale", S[std::size_t(i)]).kv("tol", tol).str());
              ce.finish(); return;
            }
            if(has_hess)
            {
              for(int k = 0; k < dim; ++k)
              {
                double hd = 0; for(int l = 0; l < dim; ++l) hd += H0[i][k][l] * J[l][d];
                const double f1 = std::fabs(dg[0][i][k] - hd), f2 = std::fabs(dg[1][i][k] - hd);
                const double tolh = 1e-5 * SG[std::size_t(i)] + 1e-10 * SGc;
                const bool okh = (f2 <= tolh) || (f2 <= 0.3 * f1 && f1 <= 0.05 * (SG[std::size_t(i)] + 1e-5 * SGc));
                if(!(okh))
                {
                  c.viol(op + ".hess", "hessian-not-derivative-of-gradient", vh::J().kv("cell", (unsigned long)cell).raw("ref_point", pt_json(xi)).kv("basis_fn", i)
                    .kv("ref_direction", d).kv("grad_component", k).kv("evaluator_hess_dir", hd).kv("central_diff_h", dg[0][i][k]).kv("central_diff_h2", dg[1][i][k])
                    .kv("err_h", f1).kv("err_h2", f2).kv("scale", SG[std::size_t(i)]).kv("tol", tolh).str());
                  ce.finish(); return;
                }
              }
            }
          }
        }
      }
      ce.finish();
    }

    // list of monomial exponents reproduced on this mesh
    static std::vector<std::array<int, 3>> monomials(const MeshInfo& info)
    {
      std::vector<std::array<int, 3>> out;
      const int q = (!R::simplex && info.axis_parallel) ? D_::qdeg : 0;
      const int top = std::max(D_::pdeg, q);
      for(int a = 0; a <= top; ++a) for(int b = 0; b <= top; ++b) for(int d = 0; d <= (dim == 3 ? top : 0); ++d)
      {
        const bool inP = a + b + d <= D_::pdeg, inQ = a <= q && b <= q && d <= q && q > 0;
        if(inP || inQ) out.push_back({{a, b, d}});
      }
      return out;
    }

    // (2) polynomial reproduction through Interpolator::project
    static void poly_check(vh::Ctx& c, const vm::MeshSpec<Shape_>& spec, const MeshInfo& info, const SpaceType& space, const std::string& op, double tol_rel)
    {
      // centre / scale of the monomials: bounding box of the mesh
      double lo[3] = {1e300, 1e300, 1e300}, hi[3] = {-1e300, -1e300, -1e300};
      for(auto& v : spec.verts) for(int k = 0; k < dim; ++k) { lo[k] = std::min(lo[k], v[std::size_t(k)]); hi[k] = std::max(hi[k], v[std::size_t(k)]); }
      double ext = 0; for(int k = 0; k < dim; ++k) ext = std::max(ext, hi[k] - lo[k]);
      auto monos = monomials(info);
      // all monomials on small meshes, a random subset on larger ones
      if(spec.num_cells() > 64 && monos.size() > 4) { c.rng.shuffle(monos); monos.resize(4); }
      CE ce(space);
      for(auto& ex : monos)
      {
        Monomial<dim> f; for(int k = 0; k < dim; ++k) { f.e[k] = ex[std::size_t(k)]; f.x0[k] = 0.5 * (lo[k] + hi[k]) + 0.1 * ext; } f.sc = 1.0 / ext;
        LAFEM::DenseVector<double, Index> vec;
        Assembly::Interpolator::project(vec, f, space);
        c.event();
        if(vec.size() != space.get_num_dofs()) { c.viol(op + ".project", "dims", vh::J().kv("size", (unsigned long)vec.size()).kv("num_dofs", (unsigned long)space.get_num_dofs()).str()); return; }
        std::vector<double> coef(vec.elements(), vec.elements() + vec.size());
        const Index nc = spec.num_cells();
        const Index ncheck = std::min<Index>(nc, 12);
        for(Index t = 0; t < ncheck; ++t)
        {
          const Index cell = nc <= 12 ? t : Index(c.rng.below(nc));
          ce.prepare(cell);
          for(int rp = 0; rp < 3; ++rp)
          {
            double xi[3] = {0, 0, 0}; R::random_point(c.rng, xi, rp == 0 ? 1.0 : 0.9);
            ce.eval(xi);
            LD x[3]; map_point(spec, cell, xi, x);
            const LD got = ce.fe_value(coef), want = f.value_ld(x);
            if(!(std::fabs(double(got - want)) <= tol_rel))
            {
              vh::J e('['); for(int k = 0; k < dim; ++k) e.add(f.e[k]);
              c.viol(op + ".project", "polynomial-not-reproduced", vh::J().raw("exponents", e.str()).kv("cell", (unsigned long)cell).raw("ref_point", pt_json(xi))
                .kv("got", got).kv("expected", want).kv("tol", tol_rel).str());
              ce.finish(); return;
            }
          }
        }
      }
      ce.finish();
    }

    // (3) duality: node functionals of the sub-entities of K applied to basis function j of K give delta_ij;
    //     the DOF indices assigned to the sub-entities are exactly the DOF-mapping indices of K
    static void duality_check(vh::Ctx& c, const SpaceType& space, Index cell, const std::string& op, double tol)
    {
      CE ce(space); ce.prepare(cell); const int n = ce.n;
      std::vector<Index> dofs(ce.dof, ce.dof + n); ce.finish();
      { std::set<Index> u(dofs.begin(), dofs.end()); if(int(u.size()) != n) { c.viol(op + ".dofmap", "duplicate-local-dof", vh::J().kv("cell", (unsigned long)cell).str()); return; } }
      for(int j = 0; j < n; ++j)
      {
        BasisFunction<SpaceType, has_grad, has_hess> f(space, cell, j);
        std::vector<std::pair<Index, double>> out;
        AllEntityFunc<SpaceType>::apply(space, cell, f, out);
        c.event();
        if(f.newton_fail) { c.inconclusive("harness newton did not converge"); return; }
        if(j == 0)
        {
          std::vector<Index> a; for(auto& p : out) a.push_back(p.first); std::sort(a.begin(), a.end());
          std::vector<Index> b = dofs; std::sort(b.begin(), b.end());
          if(a != b)
          {
            c.viol(op + ".dofassign", "assignment-differs-from-mapping", vh::J().kv("cell", (unsigned long)cell).raw("assigned", vh::jarr(a)).raw("mapped", vh::jarr(b)).str());
            return;
          }
        }
        for(auto& p : out)
        {
          const double want = (p.first == dofs[std::size_t(j)]) ? 1.0 : 0.0;
          if(!(std::fabs(p.second - want) <= tol))
          {
            int li = -1; for(int i = 0; i < n; ++i) if(dofs[std::size_t(i)] == p.first) li = i;
            c.viol(op + ".nodefunc", "not-dual", vh::J().kv("cell", (unsigned long)cell).kv("basis_fn", j).kv("functional_local", li).kv("functional_global_dof", (unsigned long)p.first)
              .kv("got", p.second).kv("expected", want).kv("tol", tol).str());
            return;
          }
        }
      }
    }

    // (4a) DOF numbering: count = harness count of distinct functionals; indices in range; every index used
    static void dof_count_check(vh::Ctx& c, const vm::MeshSpec<Shape_>& spec, const SpaceType& space, const std::string& op)
    {
      const Counts cn = count_entities(spec);
      const Index want = D_::template ndofs<Shape_>(cn), got = space.get_num_dofs();
      c.event();
      if(got != want) { c.viol(op + ".num_dofs", "dof-count", vh::J().kv("got", (unsigned long)got).kv("expected", (unsigned long)want).str()); return; }
      CE ce(space); std::vector<char> seen(got, 0);
      for(Index cell = 0; cell < spec.num_cells(); ++cell)
      {
        ce.prepare(cell);
        for(int i = 0; i < ce.n; ++i)
        {
          if(ce.dof[i] >= got) { c.viol(op + ".dofmap", "dof-out-of-range", vh::J().kv("cell", (unsigned long)cell).kv("local", i).kv("index", (unsigned long)ce.dof[i]).str()); ce.finish(); return; }
          seen[ce.dof[i]] = 1;
        }
      }
      ce.finish();
      for(Index i = 0; i < got; ++i) if(!seen[i]) { c.viol(op + ".dofmap", "dof-unused", vh::J().kv("index", (unsigned long)i).str()); return; }
    }

    // (4b) conformity: random coefficient vector, equal traces from both sides at 3 points of every interior facet
    static void trace_check(vh::Ctx& c, const vm::MeshSpec<Shape_>& spec, const MeshType& mesh, const SpaceType& space, const std::string& op, double tol)
    {
      const Index nd = space.get_num_dofs();
      std::vector<double> coef(nd); for(auto& x : coef) x = c.rng.real(-1.0, 1.0);
      const auto& fat = mesh.template get_index_set<dim, dim - 1>();
      const auto& vaf = mesh.template get_index_set<dim - 1, 0>();
      const auto& vac = mesh.template get_index_set<dim, 0>();
      const Index nf = mesh.get_num_entities(dim - 1), nc = mesh.get_num_elements();
      std::vector<std::vector<Index>> cells_at(nf);
      for(Index k = 0; k < nc; ++k) for(int l = 0; l < fat.get_num_indices(); ++l) cells_at[fat(k, l)].push_back(k);
      typedef Ref<typename Shape::FaceTraits<Shape_, dim - 1>::ShapeType> RF;
      CE ce(space);
      Index interior = 0;
      for(Index f = 0; f < nf; ++f)
      {
        if(cells_at[f].size() > 2) { c.viol(op + ".mesh", "facet-with-3-cells", vh::J().kv("facet", (unsigned long)f).str()); return; }
        if(cells_at[f].size() != 2) continue;
        ++interior;
        for(int rp = 0; rp < 3; ++rp)
        {
          double s[3] = {0, 0, 0}; RF::random_point(c.rng, s, rp == 0 ? 1.0 : 0.9);
          LD N[8]; RF::shape(s, N);
          LD val[2]; double xis[2][3];
          for(int side = 0; side < 2; ++side)
          {
            const Index cell = cells_at[f][std::size_t(side)];
            double xi[3] = {0, 0, 0};
            for(int q = 0; q < RF::nv; ++q)
            {
              int loc = -1; for(int j = 0; j < R::nv; ++j) if(vac(cell, j) == vaf(f, q)) loc = j;
              if(loc < 0) { c.viol(op + ".mesh", "facet-vertex-not-in-cell", vh::J().kv("facet", (unsigned long)f).kv("cell", (unsigned long)cell).str()); return; }
              for(int k = 0; k < dim; ++k) xi[k] += double(N[q]) * R::vertex(loc, k);
            }
            ce.prepare(cell); ce.eval(xi);
            val[side] = ce.fe_value(coef);
            for(int k = 0; k < dim; ++k) xis[side][k] = xi[k];
          }
          c.event();
          // harness-side sanity: both reference points map to the same world point
          LD xa[3], xb[3]; map_point(spec, cells_at[f][0], xis[0], xa); map_point(spec, cells_at[f][1], xis[1], xb);
          double dx = 0; for(int k = 0; k < dim; ++k) dx = std::max(dx, std::fabs(double(xa[k] - xb[k])));
          if(dx > 1e-12) { c.inconclusive("harness facet parametrisation mismatch"); ce.finish(); return; }
          if(!(std::fabs(double(val[0] - val[1])) <= tol))
          {
            c.viol(op + ".trace", "discontinuous-across-facet", vh::J().kv("facet", (unsigned long)f).kv("cell_a", (unsigned long)cells_at[f][0]).kv("cell_b", (unsigned long)cells_at[f][1])
              .raw("ref_point_a", pt_json(xis[0])).raw("ref_point_b", pt_json(xis[1])).kv("value_a", val[0]).kv("value_b", val[1]).kv("tol", tol).str());
            ce.finish(); return;
          }
        }
      }
      ce.finish();
      c.count("interior_facets_checked", interior);
    }

    // ---------------------------------------------------------------- one (mesh, space) case
    static void run(vh::Ctx& c)
    {
      c.tag(std::string("space:") + D_::name());
      c.tag(std::string("shape:") + vm::ShapeInfo<Shape_>::name());
      MeshOpt opt; opt.affine_only = D_::affine_only;
      opt.max_cells = c.thorough() ? 5000 : 200;
      if(maxn > 30) opt.max_cells = c.thorough() ? 600 : 64;           // very large local spaces: keep the work bounded
      if(maxn > 30 && dim == 3 && !c.thorough()) opt.max_cells = 8;    // quick tier: 64-DOF hexahedra on tiny meshes only
      MeshInfo info;
      auto spec = gen_mesh<Shape_>(c, opt, info);
      run_spec(c, spec, info);
    }

    // ---------------------------------------------------------------- family 'o3d': 3D pairs with face/edge DOFs on tiny meshes that are
    // ALWAYS re-oriented and renumbered, so that every face / edge orientation code occurs.  j = per-pair case index.
    //   j < #rotations : two cells sharing a face, cell 1 re-oriented by rotation j of the shape's rotation group
    //                    (vm::symmetries), cell 0 by rotation (5j+3) mod #rotations  (deterministic edge corpus)
    //   otherwise      : hexa_grid(2,1,1)/(2,2,1)/(2,2,2), tetra_grid(1,1,1)/(2,1,1), random re-orientation of every cell,
    //                    random renumbering, optionally distorted / affine image
    static void run_o3d(vh::Ctx& c, std::uint64_t j)
    {
      c.tag(std::string("space:") + D_::name());
      c.tag(std::string("shape:") + vm::ShapeInfo<Shape_>::name());
      MeshInfo info; vm::MeshSpec<Shape_> spec;
      const auto& sy = vm::symmetries<Shape_>();
      if(j < sy.size())
      {
        spec = two_cells();
        const std::size_t g[2] = {std::size_t((5 * j + 3) % sy.size()), std::size_t(j)};
        for(int k = 0; k < 2; ++k)
        {
          std::array<Index, 8> o = spec.cells[std::size_t(k)];
          for(int v = 0; v < R::nv; ++v) spec.cells[std::size_t(k)][std::size_t(v)] = o[std::size_t(sy[g[k]][std::size_t(v)])];
        }
        spec.kind += "+rot" + std::to_string(g[0]) + "," + std::to_string(g[1]);
        c.tag("mesh:two_cells_all_rotations"); c.tag("mesh:reoriented");
        if(c.rng.coin()) { vm::permute_vertices(spec, c.rng); c.tag("mesh:renumbered"); }
      }
      else
      {
        Index a = 2, b = c.rng.coin() ? 2 : 1, d = 1;
        if(R::simplex) { a = c.rng.coin() ? 2 : 1; b = 1; }
        else if(b == 2 && maxn <= 30 && c.rng.coin(0.3)) d = 2;
        spec = Base<Shape_>::grid(a, b, d, c.rng);
        bool distort = c.rng.coin(0.3), affine = c.rng.coin(0.4);
        if(distort && !R::simplex && d == 2) { vm::distort_interior(spec, c.rng, 0.5, 0.15); info.affine_cells = false; c.tag("mesh:distorted"); }
        else distort = false;
        if(affine) { vm::affine_map(spec, c.rng); c.tag("mesh:affine_image"); }
        vm::permute_vertices(spec, c.rng); vm::permute_cells(spec, c.rng); vm::reorient_cells(spec, c.rng);
        c.tag("mesh:tiny_grid"); c.tag("mesh:reoriented"); c.tag("mesh:renumbered");
        if(affine || distort) info.axis_parallel = false;
      }
      c.tag(info.affine_cells ? "cells:affine" : "cells:non_affine");
      c.tag(spec.num_cells() <= 2 ? "ncells:2" : "ncells:3-12");
      run_spec(c, spec, info);
    }
    static vm::MeshSpec<Shape_> two_cells()
    {
      vh::Rng dummy(1);
      if(!R::simplex) return Base<Shape_>::grid(2, 1, 1, dummy);
      auto m = Base<Shape_>::grid(1, 1, 1, dummy);
      // first pair of Kuhn simplices sharing a facet
      for(Index a = 0; a < m.num_cells(); ++a) for(Index b = a + 1; b < m.num_cells(); ++b)
      {
        int shared = 0; for(int i = 0; i < R::nv; ++i) for(int k = 0; k < R::nv; ++k) if(m.cells[a][std::size_t(i)] == m.cells[b][std::size_t(k)]) ++shared;
        if(shared == R::nv - 1)
        {
          vm::MeshSpec<Shape_> t; t.kind = "two_simplices";
          std::map<Index, Index> ren;
          for(Index cc : {a, b}) { std::array<Index, 8> nc2{}; for(int i = 0; i < R::nv; ++i) { Index v = m.cells[cc][std::size_t(i)]; if(!ren.count(v)) { Index n = Index(ren.size()); ren[v] = n; t.verts.push_back(m.verts[v]); } nc2[std::size_t(i)] = ren[v]; } t.cells.push_back(nc2); }
          return t;
        }
      }
      return m;
    }

    // harness-side orientation code of local face l of a cell relative to the mesh's vertex tuple of that face
    // (frozen copies of the local face tables and of the congruency code convention: first two vertices decide)
    static int face_code(const Index* cell_verts, int l, const Index* face_verts)
    {
      static const int hf[6][4] = {{0, 1, 2, 3}, {4, 5, 6, 7}, {0, 1, 4, 5}, {2, 3, 6, 7}, {0, 2, 4, 6}, {1, 3, 5, 7}};
      static const int tf[4][3] = {{1, 2, 3}, {0, 2, 3}, {0, 1, 3}, {0, 1, 2}};
      const Index s0 = cell_verts[R::simplex ? tf[l][0] : hf[l][0]], s1 = cell_verts[R::simplex ? tf[l][1] : hf[l][1]];
      if(R::simplex)
      {
        static const int nx[3] = {1, 2, 0}, pv[3] = {2, 0, 1};
        for(int i = 0; i < 3; ++i) if(s0 == face_verts[i]) { if(s1 == face_verts[nx[i]]) return i; if(s1 == face_verts[pv[i]]) return 4 + i; }
        return -1;
      }
      // quad: (first, second) -> code ; rotation codes 0..3, reflection codes 4..7
      static const int second_rot[4] = {1, 3, 0, 2}, second_ref[4] = {2, 0, 3, 1};
      for(int i = 0; i < 4; ++i) if(s0 == face_verts[i]) { if(s1 == face_verts[second_rot[i]]) return i; if(s1 == face_verts[second_ref[i]]) return 4 + i; }
      return -1;
    }
    template<typename Mesh_>
    static void count_face_codes(vh::Ctx& c, const Mesh_& mesh, std::true_type)
    {
      const auto& fat = mesh.template get_index_set<3, 2>(); const auto& vaf = mesh.template get_index_set<2, 0>(); const auto& vac = mesh.template get_index_set<3, 0>();
      std::vector<int> cnt(mesh.get_num_entities(2), 0);
      for(Index k = 0; k < mesh.get_num_elements(); ++k) for(int l = 0; l < fat.get_num_indices(); ++l) ++cnt[fat(k, l)];
      for(Index k = 0; k < mesh.get_num_elements(); ++k) for(int l = 0; l < fat.get_num_indices(); ++l)
      {
        const Index f = fat(k, l); if(cnt[f] != 2) continue;            // interior faces, both sides
        Index cv[8], fv[4]; for(int i = 0; i < R::nv; ++i) cv[i] = vac(k, i); for(int i = 0; i < vaf.get_num_indices(); ++i) fv[i] = vaf(f, i);
        const int code = face_code(cv, l, fv);
        c.count(std::string(D_::name()) + "_" + vm::ShapeInfo<Shape_>::name() + "_face_code_" + std::to_string(code));
      }
    }
    template<typename Mesh_> static void count_face_codes(vh::Ctx&, const Mesh_&, std::false_type) {}

    static void run_spec(vh::Ctx& c, vm::MeshSpec<Shape_>& spec, const MeshInfo& info)
    {
      const int fperm = feat_permute_choose(c);
      D_::extra_tags(c, spec);                                      // element-specific structural tags (known-findings matching)
      const std::string op = std::string("space.") + D_::name();
      c.set_op(op);
      c.desc = vh::J().raw("mesh", spec.describe()).kv("space", D_::name()).raw("tags", c.tags_json()).str();
      auto mesh = vm::build(spec);
      feat_permute(fperm, *mesh, spec);
      count_face_codes(c, *mesh, std::integral_constant<bool, dim == 3>());
      TrafoType trafo(*mesh);
      SpaceType space(trafo);
      const Index nc = spec.num_cells();
      // (4a)
      dof_count_check(c, spec, space, op);
      if(c.nviol) return;
      // (1)
      { const Index ncheck = std::min<Index>(nc, maxn > 30 ? 3 : 6); for(Index t = 0; t < ncheck && !c.nviol; ++t) deriv_check(c, space, nc <= ncheck ? t : Index(c.rng.below(nc)), op); }
      // condition-aware tolerances for elements whose evaluator inverts an unscaled monomial matrix per cell (Argyris):
      // A = max over cells of (longest edge)^2 / (2 area) (2 for a right isosceles triangle), hmin = shortest edge
      double dual_tol = D_::dual_tol, trace_tol = D_::trace_tol;
      if(D_::cond_scaled)
      {
        double A = 2, hmin = 1; cell_quality(spec, A, hmin);
        const double f = std::pow(std::max(1.0, A / 2), 3);
        trace_tol = std::max(trace_tol, 1e-11 * f);
        dual_tol = std::max(dual_tol, 1e-11 * f / (hmin * hmin));
      }
      // (2), (3)
      do_nodefunc(c, spec, info, space, op, dual_tol, std::integral_constant<bool, (SpaceType::have_node_func != 0)>());
      // (4b)
      if(D_::h1 && !c.nviol) trace_check(c, spec, *mesh, space, op, trace_tol);
    }
    static void cell_quality(const vm::MeshSpec<Shape_>& spec, double& A, double& hmin)
    {
      if(!(R::simplex && dim == 2)) return;
      A = 0; hmin = 1e300;
      for(Index k = 0; k < spec.num_cells(); ++k)
      {
        double e2max = 0;
        for(int a = 0; a < 3; ++a) for(int b = a + 1; b < 3; ++b)
        {
          double dx = spec.verts[spec.cells[k][std::size_t(a)]][0] - spec.verts[spec.cells[k][std::size_t(b)]][0], dy = spec.verts[spec.cells[k][std::size_t(a)]][1] - spec.verts[spec.cells[k][std::size_t(b)]][1];
          e2max = std::max(e2max, dx * dx + dy * dy); hmin = std::min(hmin, std::sqrt(dx * dx + dy * dy));
        }
        A = std::max(A, e2max / (2 * std::fabs(double(vm::cell_volume(spec, k)))));
      }
    }
    static void do_nodefunc(vh::Ctx& c, const vm::MeshSpec<Shape_>& spec, const MeshInfo& info, const SpaceType& space, const std::string& op, double dual_tol, std::true_type)
    {
      if(!c.nviol) poly_check(c, spec, info, space, op, D_::poly_tol);
      const Index nc = spec.num_cells();
      const Index ncheck = std::min<Index>(nc, maxn > 30 ? 1 : 3);
      for(Index t = 0; t < ncheck && !c.nviol; ++t) duality_check(c, space, nc <= ncheck ? t : Index(c.rng.below(nc)), op, dual_tol);
    }
    static void do_nodefunc(vh::Ctx& c, const vm::MeshSpec<Shape_>&, const MeshInfo&, const SpaceType&, const std::string&, double, std::false_type)
    { c.count("no_node_functionals"); }
  };

  // ------------------------------------------------------------------ (space, shape) pair table of a family
  struct PairEntry { void (*fn)(vh::Ctx&); bool quick; };
  inline void run_pair(vh::Ctx& c, const PairEntry* p, std::size_t n)
  {
    std::vector<const PairEntry*> sel;
    for(std::size_t i = 0; i < n; ++i) if(c.thorough() || p[i].quick) sel.push_back(&p[i]);
    sel[std::size_t(c.k % sel.size())]->fn(c);
  }

  // pairs of family 'o3d' are registered from the TUs that already instantiate them (no duplicate instantiation)
  struct O3dEntry { const char* key; void (*fn)(vh::Ctx&, std::uint64_t); };
  inline std::vector<O3dEntry>& o3d_registry() { static std::vector<O3dEntry> r; return r; }
  struct RegO3d { RegO3d(const char* key, void (*fn)(vh::Ctx&, std::uint64_t)) { o3d_registry().push_back({key, fn}); } };
  inline void run_o3d_family(vh::Ctx& c)
  {
    auto sel = o3d_registry();
    std::sort(sel.begin(), sel.end(), [](const O3dEntry& x, const O3dEntry& y) { return std::strcmp(x.key, y.key) < 0; });
    if(sel.empty()) { c.inconclusive("no o3d pairs registered"); return; }
    sel[std::size_t(c.k % sel.size())].fn(c, c.k / sel.size());
  }

  // ------------------------------------------------------------------ descriptor base
  struct DescBase
  {
    static constexpr int qdeg = 0;
    static constexpr bool h1 = false, affine_only = false, force_grad = false, cond_scaled = false;
    static constexpr double poly_tol = 1e-10, dual_tol = 1e-9, trace_tol = 1e-10;
    template<typename Spec_> static void extra_tags(vh::Ctx&, const Spec_&) {}
  };
} // namespace c15
