// C15 -- Lagrange-3 on quad, tria, hexa, tetra
#include "c15.hpp"
#include <kernel/space/lagrange3/element.hpp>
using namespace c15;
namespace
{
  struct DLagrange3 : DescBase
  {
    template<typename T_> using S = Space::Lagrange3::Element<T_>;
    static const char* name() { return "Lagrange3"; }
    static constexpr int pdeg = 3, qdeg = 3; static constexpr bool h1 = true;
    template<typename Shape_> static Index ndofs(const Counts& n)
    { return Ref<Shape_>::simplex ? n.n[0] + 2 * n.n[1] + n.n[2] : n.n[0] + 2 * n.n[1] + 4 * n.n[2] + 8 * n.n[3]; }
  };
  typedef Shape::Hypercube<2> Q; typedef Shape::Simplex<2> T; typedef Shape::Hypercube<3> H; typedef Shape::Simplex<3> X;
  const PairEntry pairs[] = {
    {&Monitors<DLagrange3, Q>::run, true}, {&Monitors<DLagrange3, T>::run, true}, {&Monitors<DLagrange3, H>::run, true}, {&Monitors<DLagrange3, X>::run, true}};
}
static RegO3d o1("L3:H", &Monitors<DLagrange3, H>::run_o3d), o2("L3:X", &Monitors<DLagrange3, X>::run_o3d);
VH_FAMILY(lag3) { run_pair(c, pairs, sizeof(pairs) / sizeof(pairs[0])); }
