// C15 family 'cfg' (evaluation configurations, see c15_cfg.hpp) -- Lagrange-3 on quad, tria, hexa, tetra
#include "c15_cfg.hpp"
#include <kernel/space/lagrange3/element.hpp>
using namespace c15;
namespace
{
  struct CLagrange3 : CfgDescBase { template<typename T_> using S = Space::Lagrange3::Element<T_>; static const char* name() { return "Lagrange3"; } };
  typedef Shape::Hypercube<2> Q; typedef Shape::Simplex<2> T; typedef Shape::Hypercube<3> H; typedef Shape::Simplex<3> X;
}
static RegCfg r1("L3:Q", &CfgMonitors<CLagrange3, Q>::run), r2("L3:T", &CfgMonitors<CLagrange3, T>::run), r3("L3:H", &CfgMonitors<CLagrange3, H>::run), r4("L3:X", &CfgMonitors<CLagrange3, X>::run);
