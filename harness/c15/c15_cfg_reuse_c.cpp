// C15 family 'reuse' (evaluator object re-use under mesh deformation, see c15_cfg_reuse.hpp) -- Q1TBNP, Cai-Douglas-Santos-Sheen-Ye,
// Bernstein-2, P2-Bubble, Hermite-3, Argyris, Bogner-Fox-Schmit (affine quadrilaterals only: affine deformations only)
#include "c15_cfg_reuse.hpp"
#include <kernel/space/q1tbnp/element.hpp>
#include <kernel/space/cai_dou_san_she_ye/element.hpp>
#include <kernel/space/bernstein2/element.hpp>
#include <kernel/space/p2bubble/element.hpp>
#include <kernel/space/hermite3/element.hpp>
#include <kernel/space/argyris/element.hpp>
#include <kernel/space/bogner_fox_schmit/element.hpp>
using namespace c15;
namespace
{
  struct CQ1TBNP : CfgDescBase { template<typename T_> using S = Space::Q1TBNP::Element<T_>; static const char* name() { return "Q1TBNP"; } };
  struct CCDSSY : CfgDescBase { template<typename T_> using S = Space::CaiDouSanSheYe::Element<T_>; static const char* name() { return "CaiDouSanSheYe"; } };
  struct CBernstein2 : CfgDescBase { template<typename T_> using S = Space::Bernstein2::Element<T_>; static const char* name() { return "Bernstein2"; } };
  struct CP2Bubble : CfgDescBase { template<typename T_> using S = Space::P2Bubble::Element<T_>; static const char* name() { return "P2Bubble"; } };
  struct CHermite3 : CfgDescBase { template<typename T_> using S = Space::Hermite3::Element<T_>; static const char* name() { return "Hermite3"; } };
  struct CArgyris : CfgDescBase { template<typename T_> using S = Space::Argyris::Element<T_>; static const char* name() { return "Argyris"; } };
  struct CBFS : CfgDescBase { template<typename T_> using S = Space::BognerFoxSchmit::Element<T_>; static const char* name() { return "BognerFoxSchmit"; }
    static constexpr bool affine_only = true; };
  typedef Shape::Hypercube<2> Q; typedef Shape::Simplex<2> T; typedef Shape::Hypercube<3> H;
}
static RegReuse r1("TB:Q", &ReuseMonitors<CQ1TBNP, Q>::run), r2("TB:H", &ReuseMonitors<CQ1TBNP, H>::run), r3("CD:Q", &ReuseMonitors<CCDSSY, Q>::run),
  r4("B2:Q", &ReuseMonitors<CBernstein2, Q>::run), r5("B2:H", &ReuseMonitors<CBernstein2, H>::run), r6("PB:T", &ReuseMonitors<CP2Bubble, T>::run),
  r7("H3:T", &ReuseMonitors<CHermite3, T>::run), r8("AR:T", &ReuseMonitors<CArgyris, T>::run), r9("BF:Q", &ReuseMonitors<CBFS, Q>::run);
