// C15 -- Lagrange-1 / Lagrange-2 on quad, tria, hexa, tetra
#include "c15.hpp"
#include <kernel/space/lagrange1/element.hpp>
#include <kernel/space/lagrange2/element.hpp>
using namespace c15;
namespace
{
  struct DLagrange1 : DescBase
  {
    template<typename T_> using S = Space::Lagrange1::Element<T_>;
    static const char* name() { return "Lagrange1"; }
    static constexpr int pdeg = 1, qdeg = 1; static constexpr bool h1 = true;
    template<typename Shape_> static Index ndofs(const Counts& n) { return n.n[0]; }
  };
  struct DLagrange2 : DescBase
  {
    template<typename T_> using S = Space::Lagrange2::Element<T_>;
    static const char* name() { return "Lagrange2"; }
    static constexpr int pdeg = 2, qdeg = 2; static constexpr bool h1 = true;
    template<typename Shape_> static Index ndofs(const Counts& n)
    { return Ref<Shape_>::simplex ? n.n[0] + n.n[1] : n.n[0] + n.n[1] + n.n[2] + n.n[3]; }
  };
  typedef Shape::Hypercube<2> Q; typedef Shape::Simplex<2> T; typedef Shape::Hypercube<3> H; typedef Shape::Simplex<3> X;
  const PairEntry pairs[] = {
    {&Monitors<DLagrange1, Q>::run, true}, {&Monitors<DLagrange1, T>::run, true}, {&Monitors<DLagrange1, H>::run, true}, {&Monitors<DLagrange1, X>::run, true},
    {&Monitors<DLagrange2, Q>::run, true}, {&Monitors<DLagrange2, T>::run, true}, {&Monitors<DLagrange2, H>::run, true}, {&Monitors<DLagrange2, X>::run, true}};
}
static RegO3d o1("L2:H", &Monitors<DLagrange2, H>::run_o3d), o2("L2:X", &Monitors<DLagrange2, X>::run_o3d);
VH_FAMILY(lag12) { run_pair(c, pairs, sizeof(pairs) / sizeof(pairs[0])); }
