// C15 family 'cfg' (evaluation configurations, see c15_cfg.hpp) -- discontinuous P0 / P1, Crouzeix-Raviart / Rannacher-Turek
#include "c15_cfg.hpp"
#include <kernel/space/discontinuous/element.hpp>
#include <kernel/space/cro_rav_ran_tur/element.hpp>
using namespace c15;
namespace
{
  struct CDisc0 : CfgDescBase { template<typename T_> using S = Space::Discontinuous::Element<T_, Space::Discontinuous::Variant::StdPolyP<0>>; static const char* name() { return "Discontinuous0"; } };
  // the simplex evaluator implements values and gradients (ParametricEvaluator) but advertises empty eval_caps
  struct CDisc1 : CfgDescBase { template<typename T_> using S = Space::Discontinuous::Element<T_, Space::Discontinuous::Variant::StdPolyP<1>>; static const char* name() { return "Discontinuous1"; }
    static constexpr bool force_grad = true; };
  struct CCRRT : CfgDescBase { template<typename T_> using S = Space::CroRavRanTur::Element<T_>; static const char* name() { return "CroRavRanTur"; } };
  typedef Shape::Hypercube<2> Q; typedef Shape::Simplex<2> T; typedef Shape::Hypercube<3> H; typedef Shape::Simplex<3> X;
}
static RegCfg r1("D0:Q", &CfgMonitors<CDisc0, Q>::run), r2("D0:T", &CfgMonitors<CDisc0, T>::run), r3("D0:H", &CfgMonitors<CDisc0, H>::run), r4("D0:X", &CfgMonitors<CDisc0, X>::run),
  r5("D1:Q", &CfgMonitors<CDisc1, Q>::run), r6("D1:T", &CfgMonitors<CDisc1, T>::run), r7("D1:H", &CfgMonitors<CDisc1, H>::run), r8("D1:X", &CfgMonitors<CDisc1, X>::run),
  r9("RT:Q", &CfgMonitors<CCRRT, Q>::run), r10("RT:T", &CfgMonitors<CCRRT, T>::run), r11("RT:H", &CfgMonitors<CCRRT, H>::run), r12("RT:X", &CfgMonitors<CCRRT, X>::run);
