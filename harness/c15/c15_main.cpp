// C15 -- main + family 'trafo': Jacobian determinant integrates to the cell volume, img_point equals the
// multilinear image of the generator's coordinates, InverseMapping returns the reference point it started from.
#include "c15.hpp"
#include <kernel/trafo/inverse_mapping.hpp>
using namespace c15;
namespace
{
  template<typename Shape_>
  void trafo_case(vh::Ctx& c)
  {
    typedef Ref<Shape_> R; constexpr int dim = R::dim;
    typedef Geometry::ConformalMesh<Shape_, dim, double> MeshType;
    typedef Trafo::Standard::Mapping<MeshType> TrafoType;
    typedef typename TrafoType::template Evaluator<Shape_, double>::Type TE;
    c.tag(std::string("shape:") + vm::ShapeInfo<Shape_>::name());
    MeshOpt opt; opt.max_cells = c.thorough() ? 5000 : 200;
    MeshInfo info;
    auto spec = gen_mesh<Shape_>(c, opt, info);
    const int fperm = feat_permute_choose(c);
    c.set_op("trafo.standard");
    c.desc = vh::J().raw("mesh", spec.describe()).raw("tags", c.tags_json()).str();
    auto mesh = vm::build(spec);
    feat_permute(fperm, *mesh, spec);
    TrafoType trafo(*mesh);
    TE te(trafo);
    typename TE::template ConfigTraits<TrafoTags::img_point | TrafoTags::jac_det>::EvalDataType td;
    const Index nc = spec.num_cells();
    double ext = 0; for(auto& v : spec.verts) for(int k = 0; k < dim; ++k) ext = std::max(ext, std::fabs(v[std::size_t(k)]));
    // -- volume: own quadrature of FEAT's jac_det (2-point tensor Gauss for multilinear cells, one point for simplices)
    const double g = 0.57735026918962576450914878050195746;
    for(Index cell = 0; cell < nc && !c.nviol; ++cell)
    {
      te.prepare(cell);
      LD vol = 0;
      if(R::simplex)
      {
        typename TE::DomainPointType p; for(int k = 0; k < dim; ++k) p[k] = R::centre(k);
        te(td, p); vol = LD(td.jac_det) * R::ref_volume();
      }
      else for(int q = 0; q < (1 << dim); ++q)
      {
        typename TE::DomainPointType p; for(int k = 0; k < dim; ++k) p[k] = ((q >> k) & 1) ? g : -g;
        te(td, p); vol += LD(td.jac_det);
      }
      te.finish();
      c.event();
      const LD want = vm::cell_volume(spec, cell);
      if(!(std::fabs(double(vol - want)) <= 1e-12 * std::fabs(double(want))) || !(want > 0))
        c.viol("trafo.standard.jac_det", "volume", vh::J().kv("cell", (unsigned long)cell).kv("integral_of_jac_det", vol).kv("harness_volume", want).str());
    }
    // -- map / unmap
    Trafo::InverseMapping<TrafoType, double> inv(trafo);
    const Index ncheck = std::min<Index>(nc, 24);
    for(Index t = 0; t < ncheck && !c.nviol; ++t)
    {
      const Index cell = nc <= ncheck ? t : Index(c.rng.below(nc));
      for(int rp = 0; rp < 3 && !c.nviol; ++rp)
      {
        double xi[3] = {0, 0, 0}; R::random_point(c.rng, xi, rp == 0 ? 0.999 : 0.9);
        typename TE::DomainPointType p; for(int k = 0; k < dim; ++k) p[k] = xi[k];
        te.prepare(cell); te(td, p); te.finish();
        LD x[3]; map_point(spec, cell, xi, x);
        c.event();
        for(int k = 0; k < dim; ++k) if(!(std::fabs(double(LD(td.img_point[k]) - x[k])) <= 1e-13 * std::max(1.0, ext)))
        { c.viol("trafo.standard.img_point", "wrong-value", vh::J().kv("cell", (unsigned long)cell).kv("component", k).kv("got", double(td.img_point[k])).kv("expected", x[k]).str()); break; }
        // Newton on the cell of origin
        typename Trafo::InverseMapping<TrafoType, double>::DomainPointType dp;
        const bool conv = inv.unmap_point_by_newton(dp, td.img_point, cell);
        c.event();
        double err = 0; for(int k = 0; k < dim; ++k) err = std::max(err, std::fabs(double(dp[k]) - xi[k]));
        if(!conv || !(err <= 1e-9))
        {
          vh::J a('['); for(int k = 0; k < dim; ++k) a.add(xi[k]); vh::J b('['); for(int k = 0; k < dim; ++k) b.add(double(dp[k]));
          c.viol("trafo.inverse_mapping.newton", conv ? "wrong-value" : "not-converged", vh::J().kv("cell", (unsigned long)cell).raw("ref_point", a.str()).raw("unmapped", b.str()).kv("max_err", err).str());
          break;
        }
        // full search: the cell of origin must be among the results with the right reference point; every result must map back
        auto data = inv.unmap_point(td.img_point, true);
        c.event();
        bool found = false;
        for(std::size_t i = 0; i < data.size(); ++i)
        {
          double xj[3] = {0, 0, 0}; for(int k = 0; k < dim; ++k) xj[k] = data.dom_points[i][k];
          if(data.cells[i] >= nc) { c.viol("trafo.inverse_mapping.unmap_point", "cell-out-of-range", vh::J().kv("cell", (unsigned long)data.cells[i]).str()); break; }
          LD y[3]; map_point(spec, data.cells[i], xj, y);
          double e2 = 0; for(int k = 0; k < dim; ++k) e2 = std::max(e2, std::fabs(double(y[k] - LD(td.img_point[k]))));
          if(!(e2 <= 1e-9 * std::max(1.0, ext)))
          { c.viol("trafo.inverse_mapping.unmap_point", "result-does-not-map-back", vh::J().kv("cell", (unsigned long)data.cells[i]).kv("max_err", e2).str()); break; }
          if(data.cells[i] == cell)
          {
            double e3 = 0; for(int k = 0; k < dim; ++k) e3 = std::max(e3, std::fabs(xj[k] - xi[k]));
            if(e3 <= 1e-9) found = true;
          }
        }
        if(!found && !c.nviol)
        {
          vh::J a('['); for(int k = 0; k < dim; ++k) a.add(xi[k]);
          c.viol("trafo.inverse_mapping.unmap_point", "origin-cell-not-found", vh::J().kv("cell", (unsigned long)cell).raw("ref_point", a.str()).kv("results", (unsigned long)data.size()).str());
        }
      }
    }
  }
}
VH_FAMILY(trafo)
{
  switch(c.k % 4)
  {
  case 0: trafo_case<Shape::Hypercube<2>>(c); break;
  case 1: trafo_case<Shape::Simplex<2>>(c); break;
  case 2: trafo_case<Shape::Hypercube<3>>(c); break;
  default: trafo_case<Shape::Simplex<3>>(c); break;
  }
}
VH_FAMILY(o3d) { c15::run_o3d_family(c); }
int main(int argc, char** argv) { FEAT::Runtime::ScopeGuard guard(argc, argv); return vh::main_impl(argc, argv); }
