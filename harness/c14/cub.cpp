// C14 -- every named cubature rule is exact up to its nominal degree (exhaustive enumeration
// of the names the factory itself advertises) + refusal of unknown names.
#ifdef VH_C14_PREFIX
#define FEAT_CUBATURE_TENSOR_PREFIX 1
#define FEAT_CUBATURE_SCALAR_PREFIX 1
#endif
#include <kernel/runtime.hpp>
#include <kernel/cubature/scalar/dynamic_factory.hpp>
#include <kernel/cubature/dynamic_factory.hpp>
#include <common/vh.hpp>

using namespace FEAT;
using namespace FEAT::Cubature;

namespace
{
  // ------------------------------------------------------------------ name enumeration (the mechanism of tools/cub_list)
  double n_monomials(int dim, int D);
  struct NameEntry { std::string name; std::string canonical; bool variadic; int minp, maxp; };

  template<typename Factory_, typename Functor_, bool variadic_ = (Factory_::variadic != 0)> class Helper;
  template<typename Factory_, typename Functor_>
  class Helper<Factory_, Functor_, false>
  {
    Functor_& _f;
  public:
    explicit Helper(Functor_& f) : _f(f) { _f.add(Factory_::name(), Factory_::name(), false, 0, 0); }
    void alias(const String& name) { _f.add(name, Factory_::name(), false, 0, 0); }
  };
  template<typename Factory_, typename Functor_>
  class Helper<Factory_, Functor_, true>
  {
    Functor_& _f;
  public:
    explicit Helper(Functor_& f) : _f(f) { _f.add(Factory_::name(), Factory_::name(), true, int(Factory_::min_points), int(Factory_::max_points)); }
    void alias(const String& name, int num_points) { _f.add(name, Factory_::name() + ":" + stringify(num_points), false, 0, 0); }
  };
  struct Avail
  {
    std::vector<NameEntry> ents;
    template<typename Factory_> void factory() { Helper<Factory_, Avail> h(*this); Factory_::alias(h); }
    void add(const String& n, const String& c, bool v, int a, int b) { ents.push_back({n, c, v, a, b}); }
  };

  // ------------------------------------------------------------------ frozen nominal-degree table (spec/cubature_degrees.json)
  // returns the nominal degree of exactness of a canonical rule name (without refine prefix), or -100 if unknown
  int nominal_of(const std::string& canon_in, int dim, bool simplex)
  {
    std::string s = canon_in;
    for(const char* p : {"tensor:", "scalar:"}) if(s.rfind(p, 0) == 0) s = s.substr(std::strlen(p));
    std::string base = s; int n = -1;
    auto pos = s.rfind(':');
    if(pos != std::string::npos) { base = s.substr(0, pos); n = std::atoi(s.substr(pos + 1).c_str()); }
    if(base == "gauss-legendre") return 2 * n - 1;
    if(base == "gauss-lobatto") return 2 * n - 3;
    if(base == "newton-cotes-closed" || base == "newton-cotes-open" || base == "maclaurin") return (n % 2 == 0) ? n - 1 : n;
    if(base == "midpoint" || base == "trapezoidal" || base == "barycentre") return 1;
    if(base == "dunavant") return n;
    if(base == "silvester-open") return n;
    if(base == "shunn-ham") { static const int d[] = {0, 0, 2, 3, 5, 6, 8}; return (n >= 2 && n <= 6) ? d[n] : -100; }
    if(base == "hammer-stroud-degree-2") return 2;
    if(base == "hammer-stroud-degree-3") return 3;
    if(base == "hammer-stroud-degree-5") return 5;
    if(base == "lauffer-degree-2") return 2;
    if(base == "lauffer-degree-4") return 4;
    (void)dim; (void)simplex;
    return -100;
  }

  // canonical form of a rule name for comparison: lower case, tool-only prefixes dropped, refine*1 == refine
  std::string norm_name(const std::string& in)
  {
    std::string s = String(in).lower();
    s.erase(std::remove(s.begin(), s.end(), ' '), s.end());
    for(const char* p : {"tensor:", "scalar:"}) { std::size_t q; while((q = s.find(p)) != std::string::npos) s.erase(q, std::strlen(p)); }
    { std::size_t q; while((q = s.find("refine*1:")) != std::string::npos) s.replace(q, 9, "refine:"); }
    return s;
  }
  struct RuleCase { int shape; std::string request; std::string canonical; int nominal; std::string cls; };
  const char* shape_names[7] = {"scalar", "s1", "s2", "s3", "h1", "h2", "h3"};

  template<typename Shape_> void collect(Avail& a) { FactoryWrapper<Shape_>::factory_no_refine(a); }

  template<typename Shape_> struct AD { static int maxd() { return AutoAlias<Shape_>::max_auto_degree; }
    static std::string map(const std::string& n) { return AutoAlias<Shape_>::map(n); } };

  void add_shape_cases(std::vector<RuleCase>& out, int shape, Avail& av, int max_auto, std::function<std::string(const std::string&)> automap)
  {
    const int dim = shape == 0 ? 1 : ((shape - 1) % 3) + 1;
    const bool simplex = shape >= 1 && shape <= 3;
    std::vector<RuleCase> base;
    for(auto& e : av.ents)
    {
      if(e.variadic)
        for(int k = e.minp; k <= e.maxp; ++k)
        {
          std::string nm = e.name + ":" + std::to_string(k);
          base.push_back({shape, nm, nm, nominal_of(nm, dim, simplex), e.name});
        }
      else
        base.push_back({shape, e.name, e.canonical, nominal_of(e.canonical, dim, simplex), e.name == e.canonical ? e.name : "alias"});
    }
    if(shape > 0)
    {
      for(int d = 0; d <= max_auto + 3; ++d)
      {
        std::string nm = "auto-degree:" + std::to_string(d);
        std::string canon = automap(nm);
        int nom = nominal_of(canon, dim, simplex);
        // within the advertised maximum the rule must reach the requested degree
        if(d <= max_auto) nom = std::max(nom, d);
        base.push_back({shape, nm, canon, nom, "auto-degree"});
      }
    }
    for(auto& b : base) out.push_back(b);
    if(shape > 0)
    {
      // refine prefixes keep the degree of the base rule
      for(auto& b : base)
      {
        for(int r = 0; r <= 3; ++r)
        {
          // work bound: (points of the refined rule) x (monomials up to the nominal degree); the base rule itself is
          // always checked in full, refinements beyond the budget are left out (quick: 3e7, thorough: 2e9 mult-adds)
          {
            double pts = 1; // points of the base rule are not known before creation: bound by degree-based estimate
            pts = std::pow(double(std::max(b.nominal, 1) / 2 + 1), double(dim)) * std::pow(double(1 << dim), double(r == 0 ? 1 : r));
            if(pts * n_monomials(dim, std::max(b.nominal, 0)) > (vh::thorough() ? 2e9 : 3e7)) continue;
          }
          std::string pre = r == 0 ? "refine:" : "refine*" + std::to_string(r) + ":";
          if(r == 0 && (&b - &base[0]) % 3 != 0) continue; // 'refine:' == 'refine*1:' -- sample a third of them
          RuleCase c = b; c.request = pre + b.request; c.canonical = pre + b.canonical; c.cls = "refine+" + b.cls;
          out.push_back(c);
        }
      }
    }
  }

  const std::vector<RuleCase>& all_cases()
  {
    static std::vector<RuleCase> cases;
    if(!cases.empty()) return cases;
    { Avail a; Scalar::FactoryWrapper::factory(a); add_shape_cases(cases, 0, a, 0, nullptr); }
    { Avail a; collect<Shape::Simplex<1>>(a); add_shape_cases(cases, 1, a, AD<Shape::Simplex<1>>::maxd(), AD<Shape::Simplex<1>>::map); }
    { Avail a; collect<Shape::Simplex<2>>(a); add_shape_cases(cases, 2, a, AD<Shape::Simplex<2>>::maxd(), AD<Shape::Simplex<2>>::map); }
    { Avail a; collect<Shape::Simplex<3>>(a); add_shape_cases(cases, 3, a, AD<Shape::Simplex<3>>::maxd(), AD<Shape::Simplex<3>>::map); }
    { Avail a; collect<Shape::Hypercube<1>>(a); add_shape_cases(cases, 4, a, AD<Shape::Hypercube<1>>::maxd(), AD<Shape::Hypercube<1>>::map); }
    { Avail a; collect<Shape::Hypercube<2>>(a); add_shape_cases(cases, 5, a, AD<Shape::Hypercube<2>>::maxd(), AD<Shape::Hypercube<2>>::map); }
    { Avail a; collect<Shape::Hypercube<3>>(a); add_shape_cases(cases, 6, a, AD<Shape::Hypercube<3>>::maxd(), AD<Shape::Hypercube<3>>::map); }
    return cases;
  }

  // ------------------------------------------------------------------ exactness oracle
  struct Pts { int dim; std::vector<long double> w; std::vector<long double> x; std::string name; };

  long double factorial(int n) { long double f = 1; for(int i = 2; i <= n; ++i) f *= i; return f; }

  // exact integral of x^a y^b z^c over the reference cell
  long double exact_monomial(bool simplex, int dim, const int* e)
  {
    if(simplex)
    {
      long double num = 1; int s = 0;
      for(int i = 0; i < dim; ++i) { num *= factorial(e[i]); s += e[i]; }
      return num / factorial(s + dim);
    }
    long double r = 1;
    for(int i = 0; i < dim; ++i) r *= (e[i] % 2 == 1) ? 0.0L : 2.0L / (long double)(e[i] + 1);
    return r;
  }

  // returns the largest D <= cap such that all monomials of total degree <= D are integrated exactly; worst rel error out
  int measured_degree(const Pts& p, bool simplex, int cap, long double tol, long double& worst_pass, std::string& first_fail)
  {
    const int dim = p.dim; const std::size_t n = p.w.size();
    worst_pass = 0;
    if(cap < 0) return cap;
    // power tables: pw[d][i*(cap+1)+e] = x_i[d]^e
    const std::size_t st = std::size_t(cap) + 1;
    std::vector<long double> pw[3];
    for(int d = 0; d < dim; ++d)
    {
      pw[d].resize(n * st);
      for(std::size_t i = 0; i < n; ++i)
      {
        long double v = 1; const long double x = p.x[i * std::size_t(dim) + std::size_t(d)];
        for(std::size_t e = 0; e < st; ++e) { pw[d][i * st + e] = v; v *= x; }
      }
    }
    for(int D = 0; D <= cap; ++D)
    {
      int e[3] = {0, 0, 0};
      for(e[0] = 0; e[0] <= D; ++e[0])
        for(e[1] = 0; e[1] <= (dim > 1 ? D - e[0] : 0); ++e[1])
        {
          if(dim == 1 && e[0] != D) continue;
          if(dim == 2 && e[0] + e[1] != D) continue;
          e[2] = dim > 2 ? D - e[0] - e[1] : 0;
          long double sum = 0, asum = 0;
          for(std::size_t i = 0; i < n; ++i)
          {
            long double m = p.w[i] * pw[0][i * st + std::size_t(e[0])];
            if(dim > 1) m *= pw[1][i * st + std::size_t(e[1])];
            if(dim > 2) m *= pw[2][i * st + std::size_t(e[2])];
            sum += m; asum += std::fabs(m);
          }
          long double ex = exact_monomial(simplex, dim, e);
          long double err = std::fabs(sum - ex);
          long double scale = std::max(asum, std::fabs(ex));
          long double rel = scale > 0 ? err / scale : err;
          if(rel > tol)
          {
            char b[160]; std::snprintf(b, sizeof(b), "x^%d y^%d z^%d: got %.17Lg expected %.17Lg (rel %.3Lg)", e[0], e[1], e[2], sum, ex, rel);
            first_fail = b;
            return D - 1;
          }
          worst_pass = std::max(worst_pass, rel);
        }
    }
    return cap;
  }

  // number of monomials of total degree <= D in dim variables
  double n_monomials(int dim, int D)
  {
    double r = 1; for(int i = 1; i <= dim; ++i) r = r * double(D + i) / double(i); return r;
  }

  template<typename Shape_> bool make_rule(const std::string& name, Pts& p)
  {
    Rule<Shape_> rule;
    if(!DynamicFactory::create(rule, name)) return false;
    p.dim = Shape_::dimension; p.name = rule.get_name();
    for(int i = 0; i < rule.get_num_points(); ++i)
    {
      p.w.push_back(rule.get_weight(i));
      for(int j = 0; j < Shape_::dimension; ++j) p.x.push_back(rule.get_coord(i, j));
    }
    return true;
  }
  bool make_scalar(const std::string& name, Pts& p)
  {
    Scalar::Rule<> rule;
    Scalar::DynamicFactory f(name);
    if(!f.create(rule)) return false;
    p.dim = 1; p.name = rule.get_name();
    for(int i = 0; i < rule.get_num_points(); ++i) { p.w.push_back(rule.get_weight(i)); p.x.push_back(rule.get_coord(i)); }
    return true;
  }
  bool make(int shape, const std::string& name, Pts& p)
  {
    switch(shape)
    {
    case 0: return make_scalar(name, p);
    case 1: return make_rule<Shape::Simplex<1>>(name, p);
    case 2: return make_rule<Shape::Simplex<2>>(name, p);
    case 3: return make_rule<Shape::Simplex<3>>(name, p);
    case 4: return make_rule<Shape::Hypercube<1>>(name, p);
    case 5: return make_rule<Shape::Hypercube<2>>(name, p);
    default: return make_rule<Shape::Hypercube<3>>(name, p);
    }
  }
  template<typename Shape_> bool throws_unknown(const std::string& name)
  {
    Rule<Shape_> rule; DynamicFactory f(name);
    try { f.create_throw(rule); } catch(const UnknownRule&) { return true; }
    return false;
  }
  long double ref_volume(int shape)
  {
    switch(shape) { case 0: return 2; case 1: return 1; case 2: return 0.5L; case 3: return 1.0L / 6; case 4: return 2; case 5: return 4; default: return 8; }
  }
}

VH_COUNT(rules) { return all_cases().size(); }

VH_FAMILY(rules)
{
  const auto& cs = all_cases();
  if(c.k >= cs.size()) { c.trivial = true; return; }
  const RuleCase& rc = cs[c.k];
  const bool simplex = rc.shape >= 1 && rc.shape <= 3;
  c.tag(std::string("shape:") + shape_names[rc.shape]);
  c.tag("rule:" + rc.request);
  c.sig = std::string(shape_names[rc.shape]) + "|" + rc.request;
  c.set_op("cubature.create");
  c.desc = vh::J().kv("shape", shape_names[rc.shape]).kv("request", rc.request).kv("canonical", rc.canonical).kv("nominal_degree", rc.nominal).str();
  Pts p;
  if(!make(rc.shape, rc.request, p))
  {
    c.viol("cubature.create", "refused-advertised-name", vh::J().kv("request", rc.request).str());
    return;
  }
  if(rc.nominal < -50)
  {
    c.viol("cubature.create", "harness-no-nominal-degree", vh::J().kv("request", rc.request).kv("canonical", rc.canonical).str());
    return;
  }
  c.event();
  // the rule answered must be the rule asked for (aliases resolve to their canonical name)
  {
    if(norm_name(p.name) != norm_name(rc.canonical))
      c.viol("cubature.create", "different-rule", vh::J().kv("request", rc.request).kv("expected_name", rc.canonical).kv("got_name", p.name).str());
  }
  if(p.w.empty()) { c.viol("cubature.create", "no-points", vh::J().kv("request", rc.request).str()); return; }
  for(long double v : p.w) if(!(v == v) || std::isinf((double)v)) { c.viol("cubature.create", "non-finite", "{}"); return; }
  for(long double v : p.x) if(!(v == v) || std::isinf((double)v)) { c.viol("cubature.create", "non-finite", "{}"); return; }
  long double ws = 0; for(long double v : p.w) ws += v;
  const long double vol = ref_volume(rc.shape);
  c.set_op("cubature.weight_sum");
  c.event();
  if(std::fabs(ws - vol) > 1e-12L * vol * std::max<long double>(1, p.w.size() / 64.0L))
    c.viol("cubature.weight_sum", "wrong-volume", vh::J().kv("request", rc.request).kv("weight_sum", ws).kv("reference_volume", vol).str());
  c.set_op("cubature.exactness");
  long double worst = 0; std::string fail;
  const int cap = rc.nominal;
  int md = measured_degree(p, simplex, cap, 2e-12L, worst, fail);
  c.event(std::uint64_t(cap + 1));
  c.count("monomial_degree_levels_checked", std::uint64_t(cap + 1));
  if(md < rc.nominal)
    c.viol("cubature.exactness", "degree-too-low", vh::J().kv("request", rc.request).kv("nominal_degree", rc.nominal)
      .kv("measured_degree", md).kv("first_failure", fail).kv("points", (unsigned long)p.w.size()).str());
  if(c.verbose()) std::printf("%s %s -> %s: points=%zu nominal=%d measured>=%d worst_rel=%.3Lg\n", shape_names[rc.shape], rc.request.c_str(), p.name.c_str(), p.w.size(), rc.nominal, md, worst);
}

// ---------------------------------------------------------------------- refusal of unknown names
// NOTE (false-alarm guard, DESIGN 9): FEAT's String::parse is lenient library-wide (a numeric field is read by
// operator>>, so "3 ", "3q", "2.5", "4:foo" all read as the leading integer, and "-1" wraps for unsigned).  The
// property speaks about unknown *names*, not about numeric-field tokenisation, so the mutation engine never appends
// text to a numeric field and never writes negative degrees / refinement counts.
VH_FAMILY(refuse)
{
  const auto& cs = all_cases();
  const RuleCase* prc = &cs[c.rng.below(cs.size())];
  // (base names for mutation: no deep refinements, so that an accepted mutant stays cheap)
  while(prc->request.rfind("refine*2", 0) == 0 || prc->request.rfind("refine*3", 0) == 0) prc = &cs[c.rng.below(cs.size())];
  const RuleCase& rc = *prc;
  int shape = rc.shape;
  std::string name = rc.request;
  std::string kind;
  const std::size_t lastc = name.rfind(':');
  const bool num_tail = lastc != std::string::npos && lastc + 1 < name.size() && std::isdigit((unsigned char)name[lastc + 1]);
  const std::string head = num_tail ? name.substr(0, lastc) : name;
  switch(c.rng.below(9))
  {
  case 0: { // out-of-range / unparsable point count
      if(!num_tail || name.find("auto-degree") != std::string::npos) { kind = "suffix"; name = head + ":" + head; break; }
      kind = "count-out-of-range";
      name = head + ":" + c.rng.pick<std::string>({"0", "-1", "21", "99", "1000000", "4294967297", "", "x", "+", "-", "q3"});
      break; }
  case 1: kind = "typo"; { std::size_t i = c.rng.below(head.size()); name[i] = (name[i] == 'q') ? 'z' : 'q'; } break;
  case 2: kind = "truncated"; name = head.substr(0, c.rng.below(head.size())); break;
  case 3: kind = "garbage"; { name.clear(); int n = int(c.rng.range(0, 12)); for(int i = 0; i < n; ++i) name += char(c.rng.pick<int>({'a', 'z', ':', '-', '*', 'q', ' ', 'r', 'e'})); } break;
  case 4: kind = "wrong-shape"; shape = 1 + int(c.rng.below(6)); break;
  case 5: kind = "prefix";
#ifdef VH_C14_PREFIX
    name = c.rng.pick<std::string>({"tensor:tensor:", "scalar:scalar:", "foo:", "refine*:", "refine*x:", "refine**2:"}) + name;
#else
    name = c.rng.pick<std::string>({"tensor:", "scalar:", "foo:", "refine*:", "refine*x:", "refine**2:"}) + name;
#endif
    break;
  case 6: kind = "doubled"; name = head + ":" + head; break;
  case 7: kind = "empty-part"; name = c.rng.coin() ? ":" + name : (head + "::" + (num_tail ? name.substr(lastc + 1) : std::string("x"))); break;
  default: kind = "auto-junk"; name = c.rng.pick<std::string>({"auto-degree", "auto-degree:", "auto-degree:x", "auto-foo:3", "auto:3", "auto-:3", "-auto:3"}); break;
  }
  // is the mutated name one of the advertised names of that shape (up to case / tool prefixes / refine*1)?  then it is
  // legal -> skipped.  Valid refine prefixes are stripped first (refined variants beyond the work budget are not listed);
  // auto-degree:<n> is legal for every n (beyond the maximum it selects the highest rule).
  bool legal = false;
  {
    std::string core = name;
    for(;;)
    {
      std::string lc = String(core).lower();
      if(lc.rfind("refine:", 0) == 0) { core = core.substr(7); continue; }
      if(lc.rfind("refine*", 0) == 0)
      {
        std::size_t q = 7; while(q < core.size() && std::isdigit((unsigned char)core[q])) ++q;
        if(q > 7 && q < core.size() && core[q] == ':' && std::atoi(core.substr(7, q - 7).c_str()) >= 1) { core = core.substr(q + 1); continue; }
      }
      break;
    }
    if(shape == 0) core = name;
    std::string lc = String(core).lower();
    if(shape > 0 && lc.rfind("auto-degree:", 0) == 0 && lc.size() > 12 && std::all_of(lc.begin() + 12, lc.end(), [](char ch) { return std::isdigit((unsigned char)ch) != 0; })) legal = true;
    for(auto& o : cs) if(!legal && o.shape == shape && norm_name(o.request) == norm_name(core)) legal = true;
  }
  c.tag("kind:" + kind); c.tag(std::string("shape:") + shape_names[shape]);
  c.sig = kind + "|" + shape_names[shape];
  c.desc = vh::J().kv("shape", shape_names[shape]).kv("name", name).kv("kind", kind).kv("legal", legal).str();
  c.set_op("cubature.refuse");
  if(legal) { c.trivial = true; return; }
  Pts p;
  bool ok = make(shape, name, p);
  c.event();
  if(ok)
  {
    c.viol("cubature.refuse", "unknown-name-accepted", vh::J().kv("shape", shape_names[shape]).kv("name", name).kv("answered_with", p.name).kv("mutation", kind).str());
    return;
  }
  c.count("refused");
  if(shape > 0)
  {
    bool th = false;
    switch(shape)
    {
    case 1: th = throws_unknown<Shape::Simplex<1>>(name); break;
    case 2: th = throws_unknown<Shape::Simplex<2>>(name); break;
    case 3: th = throws_unknown<Shape::Simplex<3>>(name); break;
    case 4: th = throws_unknown<Shape::Hypercube<1>>(name); break;
    case 5: th = throws_unknown<Shape::Hypercube<2>>(name); break;
    default: th = throws_unknown<Shape::Hypercube<3>>(name); break;
    }
    c.event();
    if(!th) c.viol("cubature.refuse", "create_throw-did-not-throw", vh::J().kv("name", name).str());
  }
}

int main(int argc, char** argv)
{
  FEAT::Runtime::ScopeGuard guard(argc, argv);
  return vh::main_impl(argc, argv);
}
