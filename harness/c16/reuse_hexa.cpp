// C16 -- object re-use of the DomainAssembler (clear / re-configure / re-compile / assemble again): hexa meshes
#include "c16_reuse.hpp"
using namespace c16;
VH_FAMILY(reuse_hexa)
{
  typedef Shape::Hypercube<3> S;
  Env<S> e; gen_env_reuse(c, e);
  switch(c.k < 8 ? (c.k % 2) : c.rng.below(6))
  {
  case 0: case 4: run_reuse<S, SL1>(c, e); break;
  case 1: run_reuse<S, SL2>(c, e); break;
  case 2: run_reuse<S, SCR>(c, e); break;
  default: run_reuse<S, SD0>(c, e); break;
  }
}
