// C16 -- Burgers operator on hexa meshes
#include "c16_burgers.hpp"
using namespace c16;
VH_FAMILY(burgers_hexa)
{
  typedef Shape::Hypercube<3> S;
  Env<S> e; gen_env(c, e, 600);
  switch(c.rng.below(2))
  {
  case 0: run_burgers<S, SL1>(c, e); break;
  default: run_burgers<S, SL2>(c, e); break;
  }
}
