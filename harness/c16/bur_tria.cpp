// C16 -- Burgers operator on tria meshes
#include "c16_burgers.hpp"
using namespace c16;
VH_FAMILY(burgers_tria)
{
  typedef Shape::Simplex<2> S;
  Env<S> e; gen_env(c, e, 2000);
  switch(c.rng.below(3))
  {
  case 0: run_burgers<S, SL1>(c, e); break;
  case 1: run_burgers<S, SL2>(c, e); break;
  default: run_burgers<S, SCR>(c, e); break;
  }
}
