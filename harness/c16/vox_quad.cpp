// C16 -- voxel assemblers on quad meshes
#include "c16_voxel.hpp"
using namespace c16;
VH_FAMILY(voxel_quad)
{
  typedef Shape::Hypercube<2> S;
  Env<S> e; gen_env(c, e, 2000);
  run_voxel<S>(c, e);
}
