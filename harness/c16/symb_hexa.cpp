// C16 -- symbolic assembler patterns on hexahedral meshes
#include "c16_symbolic.hpp"
using namespace c16;
VH_FAMILY(symbolic_hexa)
{
  typedef Shape::Hypercube<3> S;
  Env<S> e; gen_env(c, e, 400);
  switch(c.rng.below(6))
  {
  case 0: run_symbolic<S, SL1, SL1>(c, e); break;
  case 1: run_symbolic<S, SL2, SL1>(c, e); break;
  case 2: run_symbolic<S, SL2, SD1>(c, e); break;
  case 3: run_symbolic<S, SCR, SD0>(c, e); break;
  case 4: run_symbolic<S, SD0, SL1>(c, e); break;
  default: run_symbolic<S, SD1, SCR>(c, e); break;
  }
}
