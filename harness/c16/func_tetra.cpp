// C16 -- linear functionals on tetra meshes
#include "c16_func.hpp"
using namespace c16;
VH_FAMILY(functional_tetra)
{
  typedef Shape::Simplex<3> S;
  Env<S> e; gen_env(c, e, 1500);
  switch(c.rng.below(5))
  {
  case 0: run_functional<S, SL1>(c, e); break;
  case 1: run_functional<S, SL2>(c, e); break;
  case 2: run_functional<S, SCR>(c, e); break;
  case 3: run_functional<S, SD0>(c, e); break;
  default: run_functional<S, SD1>(c, e); break;
  }
}
