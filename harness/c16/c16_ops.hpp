// c16_ops.hpp -- the documented integrands of the operators in kernel/assembly/common_operators.hpp (harness-side
// statement of the bilinear forms) and the dispatch (space, operator) -> check_bilinear1
#pragma once
#include "c16.hpp"

namespace c16
{
  // ------------------------------------------------------------------------------------------------ scalar forms
  // U[0] = trial function u (phi), V[0] = test function v (psi)
  template<int dim_> Form form_identity()
  { Form f; f.name = "identity"; f.sym = true; f.mass = true; f.smode = 1; f.g = [](const FV* U, const FV* V, const LD*) { return U[0].v * V[0].v; }; return f; }
  template<int dim_> Form form_laplace(const char* name = "laplace")
  {
    Form f; f.name = name; f.sym = true; f.ker_trial = f.ker_test = true; f.smode = 2; f.du = f.dv = 1;
    f.g = [](const FV* U, const FV* V, const LD*) { LD s = 0; for(int k = 0; k < dim_; ++k) s += U[0].g[k] * V[0].g[k]; return s; };
    return f;
  }
  // documented: d_i phi * psi  (phi = trial)
  template<int dim_> Form form_trial_deriv(int d)
  { Form f; f.name = "trial_deriv"; f.ker_trial = true; f.smode = 3; f.du = 1; f.g = [d](const FV* U, const FV* V, const LD*) { return U[0].g[d] * V[0].v; }; return f; }
  // documented: phi * d_i psi
  template<int dim_> Form form_test_deriv(int d)
  { Form f; f.name = "test_deriv"; f.ker_test = true; f.smode = 12; f.dv = 1; f.g = [d](const FV* U, const FV* V, const LD*) { return U[0].v * V[0].g[d]; }; return f; }
  // phi.grad[ic] * psi.grad[ir]
  template<int dim_> Form form_divdiv(int ir, int ic)
  {
    Form f; f.name = "divdiv"; f.sym = (ir == ic); f.ker_trial = f.ker_test = true; f.smode = 2; f.du = f.dv = 1;
    f.g = [ir, ic](const FV* U, const FV* V, const LD*) { return U[0].g[ic] * V[0].g[ir]; };
    return f;
  }
  // documented: the (k,l) block consists of d_k phi d_l psi (+ grad phi . grad psi on the diagonal)
  template<int dim_> Form form_dudv(int ir, int ic)
  {
    Form f; f.name = "dudv"; f.sym = (ir == ic); f.ker_trial = f.ker_test = true; f.smode = 2; f.du = f.dv = 1; f.cmax = 2;
    f.g = [ir, ic](const FV* U, const FV* V, const LD*) { LD s = 0; if(ir == ic) for(int k = 0; k < dim_; ++k) s += U[0].g[k] * V[0].g[k]; return s + U[0].g[ir] * V[0].g[ic]; };
    return f;
  }

  // ------------------------------------------------------------------------------------------------ blocked forms
  // trial u has BW components (columns), test v has BH components (rows)
  template<int dim_> Form form_identity_blocked()
  { Form f; f.name = "identity_blocked"; f.nt = f.ns = dim_; f.sym = true; f.mass = true; f.smode = 1;
    f.g = [](const FV* U, const FV* V, const LD*) { LD s = 0; for(int a = 0; a < dim_; ++a) s += U[a].v * V[a].v; return s; }; return f; }
  template<int dim_> Form form_laplace_blocked()
  { Form f; f.name = "laplace_blocked"; f.nt = f.ns = dim_; f.sym = true; f.ker_trial = f.ker_test = true; f.smode = 2; f.du = f.dv = 1;
    f.g = [](const FV* U, const FV* V, const LD*) { LD s = 0; for(int a = 0; a < dim_; ++a) for(int k = 0; k < dim_; ++k) s += U[a].g[k] * V[a].g[k]; return s; }; return f; }
  // block (a,b) = delta_ab grad phi . grad psi + d_a phi d_b psi ; phi -> u_b, psi -> v_a
  template<int dim_> Form form_dudv_blocked()
  { Form f; f.name = "dudv_blocked"; f.nt = f.ns = dim_; f.sym = true; f.ker_trial = f.ker_test = true; f.smode = 2; f.du = f.dv = 1; f.cmax = 2;
    f.g = [](const FV* U, const FV* V, const LD*) { LD s = 0;
      for(int a = 0; a < dim_; ++a) { for(int k = 0; k < dim_; ++k) s += U[a].g[k] * V[a].g[k]; for(int b = 0; b < dim_; ++b) s += U[b].g[a] * V[a].g[b]; }
      return s; }; return f; }
  // int (grad u) . v   (u scalar trial, v vector test)
  template<int dim_> Form form_gradient_trial_blocked()
  { Form f; f.name = "gradient_trial_blocked"; f.nt = 1; f.ns = dim_; f.ker_trial = true; f.smode = 21; f.du = 1;
    f.g = [](const FV* U, const FV* V, const LD*) { LD s = 0; for(int a = 0; a < dim_; ++a) s += U[0].g[a] * V[a].v; return s; }; return f; }
  // int u div v
  template<int dim_> Form form_gradient_test_blocked()
  { Form f; f.name = "gradient_test_blocked"; f.nt = 1; f.ns = dim_; f.ker_test = true; f.smode = 12; f.dv = 1;
    f.g = [](const FV* U, const FV* V, const LD*) { LD s = 0; for(int a = 0; a < dim_; ++a) s += U[0].v * V[a].g[a]; return s; }; return f; }

  // index of stress component (i,j) in the documented orderings
  template<int dim_, int nsc_> inline int stress_index(int i, int j)
  {
    if(nsc_ == dim_ * dim_) return i * dim_ + j;              // unsymmetric: (11,12,[13,]21,22,...)
    if(i == j) return i;                                       // symmetric: diagonal first (11,22[,33])
    if(dim_ == 2) return 2;                                    // 2D: (11,22,12)
    const int lo = std::min(i, j), hi = std::max(i, j);        // 3D: (11,22,33,12,23,13)
    if(lo == 0 && hi == 1) return 3;
    if(lo == 1 && hi == 2) return 4;
    return 5;
  }
  // int (div sigma) . v : trial sigma (nsc components), test v (dim components); u_i = sum_j d_j sigma_ij
  template<int dim_, int nsc_> Form form_stress_divergence()
  { Form f; f.name = "stress_divergence" + std::to_string(dim_) + "_" + std::to_string(nsc_); f.nt = nsc_; f.ns = dim_; f.ker_trial = true; f.smode = 21; f.du = 1;
    f.g = [](const FV* U, const FV* V, const LD*) { LD s = 0; for(int i = 0; i < dim_; ++i) for(int j = 0; j < dim_; ++j) s += U[stress_index<dim_, nsc_>(i, j)].g[j] * V[i].v; return s; }; return f; }
  // int D(u) : tau componentwise: row r = stress component (i,j): tau_r * 1/2 (d_j u_i + d_i u_j); trial u (dim), test tau (nsc)
  template<int dim_, int nsc_> Form form_strain_rate()
  { Form f; f.name = "strain_rate" + std::to_string(dim_) + "_" + std::to_string(nsc_); f.nt = dim_; f.ns = nsc_; f.ker_trial = true; f.smode = 21; f.du = 1;
    f.g = [](const FV* U, const FV* V, const LD*) { LD s = 0;
      if(nsc_ == dim_ * dim_) { for(int i = 0; i < dim_; ++i) for(int j = 0; j < dim_; ++j) s += V[i * dim_ + j].v * (U[i].g[j] + U[j].g[i]) / 2; }
      else { for(int i = 0; i < dim_; ++i) for(int j = i; j < dim_; ++j) s += V[stress_index<dim_, nsc_>(i, j)].v * (U[i].g[j] + U[j].g[i]) / 2; }
      return s; }; return f; }

  // ------------------------------------------------------------------------------------------------ dispatch

  // number of scalar operator kinds for a space
  template<typename Shape_, typename SD_>
  void run_scalar_op(Ctx& c, Env<Shape_>& e)
  {
    constexpr int dim = vm::ShapeInfo<Shape_>::dim;
    typedef typename SD_::template S<typename Env<Shape_>::TrafoType> SpaceType;
    SpaceType space(*e.trafo);
    const SpaceInfo si = SD_::info();
    if constexpr(!SD_::has_grad)
    {
      Assembly::Common::IdentityOperator op; Form f = form_identity<dim>();
      check_bilinear1<Shape_, SD_, CSRd>(c, e, space, op, f, true);
      return;
    }
    else
    {
      int nk = si.parametric ? 7 : 6;
      const int k = int(c.k % std::uint64_t(nk)); // every operator kind in every run; mesh, space and polynomials are random
      const int d1 = int(c.rng.below(dim)), d2 = int(c.rng.below(dim));
      switch(k)
      {
      case 0: { Assembly::Common::IdentityOperator op; Form f = form_identity<dim>(); check_bilinear1<Shape_, SD_, CSRd>(c, e, space, op, f, true); break; }
      case 1: { Assembly::Common::LaplaceOperator op; Form f = form_laplace<dim>(); check_bilinear1<Shape_, SD_, CSRd>(c, e, space, op, f, true); break; }
      case 2: { Assembly::Common::TestDerivativeOperator op(d1); Form f = form_test_deriv<dim>(d1); c.tag("deriv:" + std::to_string(d1)); check_bilinear1<Shape_, SD_, CSRd>(c, e, space, op, f, false); break; }
      case 3: { Assembly::Common::TrialDerivativeOperator op(d1); Form f = form_trial_deriv<dim>(d1); c.tag("deriv:" + std::to_string(d1)); check_bilinear1<Shape_, SD_, CSRd>(c, e, space, op, f, false); break; }
      case 4: { Assembly::Common::DivDivOperator op(d1, d2); Form f = form_divdiv<dim>(d1, d2); c.tag(d1 == d2 ? "ir==ic" : "ir!=ic"); check_bilinear1<Shape_, SD_, CSRd>(c, e, space, op, f, false); break; }
      case 5: { Assembly::Common::DuDvOperator op(d1, d2); Form f = form_dudv<dim>(d1, d2); c.tag(d1 == d2 ? "ir==ic" : "ir!=ic"); check_bilinear1<Shape_, SD_, CSRd>(c, e, space, op, f, false); break; }
      default:
        if constexpr(SD_::parametric)
        {
          // Laplace-Beltrami on a full-dimensional mesh is the Laplace operator (documented: parametric spaces only)
          Assembly::Common::LaplaceBeltramiOperator op; Form f = form_laplace<dim>("laplace_beltrami");
          check_bilinear1<Shape_, SD_, CSRd>(c, e, space, op, f, true);
        }
        break;
      }
    }
  }
  template<typename Shape_, typename SD_>
  void run_blocked_op(Ctx& c, Env<Shape_>& e)
  {
    constexpr int dim = vm::ShapeInfo<Shape_>::dim;
    constexpr int nsym = dim == 2 ? 3 : 6, nuns = dim * dim;
    typedef typename SD_::template S<typename Env<Shape_>::TrafoType> SpaceType;
    SpaceType space(*e.trafo);
    switch(c.k % 9)
    {
    case 0: { Assembly::Common::IdentityOperatorBlocked<dim> op; Form f = form_identity_blocked<dim>(); check_bilinear1<Shape_, SD_, BCSRd<dim, dim>>(c, e, space, op, f, true); break; }
    case 1: { Assembly::Common::LaplaceOperatorBlocked<dim> op; Form f = form_laplace_blocked<dim>(); check_bilinear1<Shape_, SD_, BCSRd<dim, dim>>(c, e, space, op, f, true); break; }
    case 2: { Assembly::Common::DuDvOperatorBlocked<dim> op; Form f = form_dudv_blocked<dim>(); check_bilinear1<Shape_, SD_, BCSRd<dim, dim>>(c, e, space, op, f, true); break; }
    case 3: { Assembly::Common::GradientTrialOperatorBlocked<dim> op; Form f = form_gradient_trial_blocked<dim>(); check_bilinear1<Shape_, SD_, BCSRd<dim, 1>>(c, e, space, op, f, false); break; }
    case 4: { Assembly::Common::GradientTestOperatorBlocked<dim> op; Form f = form_gradient_test_blocked<dim>(); check_bilinear1<Shape_, SD_, BCSRd<dim, 1>>(c, e, space, op, f, false); break; }
    case 5: { Assembly::Common::StressDivergenceOperator<dim, nsym> op; Form f = form_stress_divergence<dim, nsym>(); check_bilinear1<Shape_, SD_, BCSRd<dim, nsym>>(c, e, space, op, f, false); break; }
    case 6: { Assembly::Common::StressDivergenceOperator<dim, nuns> op; Form f = form_stress_divergence<dim, nuns>(); check_bilinear1<Shape_, SD_, BCSRd<dim, nuns>>(c, e, space, op, f, false); break; }
    case 7: { Assembly::Common::StrainRateTensorOperator<dim, nsym> op; Form f = form_strain_rate<dim, nsym>(); check_bilinear1<Shape_, SD_, BCSRd<nsym, dim>>(c, e, space, op, f, false); break; }
    default: { Assembly::Common::StrainRateTensorOperator<dim, nuns> op; Form f = form_strain_rate<dim, nuns>(); check_bilinear1<Shape_, SD_, BCSRd<nuns, dim>>(c, e, space, op, f, false); break; }
    }
  }
} // namespace c16
