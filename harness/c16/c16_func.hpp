// c16_func.hpp -- linear functionals (force / Laplace functional), scalar and blocked, on every route
#pragma once
#include "c16.hpp"

namespace c16
{
  // |a - beta b| entrywise
  inline void compare_vec(Ctx& c, const std::string& op, const std::vector<LD>& a, const std::vector<LD>& b, LD beta, const std::vector<LD>& s, int nb, const std::string& what)
  {
    c.event();
    if(a.size() != b.size()) { c.viol(op, "dims", vh::J().kv("what", what).str()); return; }
    const LD B = bound_factor();
    for(std::size_t i = 0; i < a.size(); ++i)
    {
      const LD sc = s[i / std::size_t(nb)] * std::max<LD>(1, std::fabs(beta));
      if(!(std::fabs(a[i] - beta * b[i]) <= B * sc + tiny()))
      { c.viol(op, "route-differs", vh::J().kv("what", what).kv("entry", (unsigned long)i).kv("got", a[i]).kv("expected", beta * b[i]).kv("bound", B * sc).str()); return; }
    }
  }

  // nb_ = 1: scalar DenseVector, else DenseVectorBlocked<nb_>
  template<int dim_, int nb_> struct FuncTypes
  {
    typedef LAFEM::DenseVectorBlocked<double, Index, nb_> Vector; typedef PolyVecFunc<dim_, nb_> Function;
    static void set(Function& f, const Poly<dim_>* p) { for(int i = 0; i < nb_; ++i) f.p[i] = p[i]; }
  };
  template<int dim_> struct FuncTypes<dim_, 1>
  {
    typedef LAFEM::DenseVector<double, Index> Vector; typedef PolyFunc<dim_> Function;
    static void set(Function& f, const Poly<dim_>* p) { f.p = p[0]; }
  };

  template<typename Shape_, typename SD_, int nb_>
  void check_functional(Ctx& c, Env<Shape_>& e)
  {
    constexpr int dim = vm::ShapeInfo<Shape_>::dim;
    typedef typename SD_::template S<typename Env<Shape_>::TrafoType> SpaceType;
    typedef typename FuncTypes<dim, nb_>::Vector VectorType;
    typedef typename FuncTypes<dim, nb_>::Function FunctionType;
    SpaceType space(*e.trafo);
    const SpaceInfo si = SD_::info();
    const bool lapl = c.rng.coin(0.4);
    const std::string fname = lapl ? "laplace_functional" : "force_functional";
    const std::string opn = "asm." + fname;
    c.tag(std::string("space:") + si.name); c.tag("op:" + fname); c.tag(nb_ == 1 ? "vt:scalar" : "vt:blocked" + std::to_string(nb_));
    const int p = space_degree(si, e.affine, IsSimplex<Shape_>::value);
    const int q = int(c.rng.range(lapl ? 2 : 0, 4));
    Poly<dim> F[nb_], V[nb_]; int pv = 0;
    for(int i = 0; i < nb_; ++i) { F[i] = random_poly<dim>(c.rng, q, true); V[i] = random_poly<dim>(c.rng, int(c.rng.range(0, p)), true); pv = std::max(pv, V[i].degree()); }
    FunctionType func; FuncTypes<dim, nb_>::set(func, F);
    const int df = lapl ? q - 2 : q;
    std::string cub_name = cubature_for<Shape_>(c, df + p);
    Cubature::DynamicFactory cub(cub_name);
    c.set_op(opn);
    {
      vh::J fs('['); for(int i = 0; i < nb_; ++i) fs.add(F[i].str());
      vh::J vs('['); for(int i = 0; i < nb_; ++i) vs.add(V[i].str());
      c.desc = vh::J().raw("mesh", e.spec.describe()).kv("space", si.name).kv("functional", fname).kv("cubature", cub_name).kv("threads", e.thr_desc).raw("f", fs.str()).raw("v", vs.str()).str();
    }
    const Index n = space.get_num_dofs();
    // scale vector
    LAFEM::DenseVector<double, Index> sv(n, 0.0);
    { ScaleFunctional<dim> sf(F, nb_, lapl); Assembly::LinearFunctionalAssembler::assemble_vector(sv, sf, space, cub); }
    std::vector<LD> S = read_vec(sv);

    Assembly::Common::ForceFunctional<FunctionType> force(func);
    Assembly::Common::LaplaceFunctional<FunctionType> laplace(func);
    // route 0: classic
    VectorType b0(n); b0.format(0.0);
    if(lapl) Assembly::LinearFunctionalAssembler::assemble_vector(b0, laplace, space, cub);
    else Assembly::LinearFunctionalAssembler::assemble_vector(b0, force, space, cub);
    std::vector<LD> B0 = read_vec(b0);
    c.event();
    // form: v^T b = int f.v   (or -Laplace f . v)
    {
      LD val = 0, sc = 0;
      for(int a = 0; a < nb_; ++a)
      {
        std::vector<LD> vc = interpolate(space, V[a]);
        for(Index i = 0; i < n; ++i) { val += vc[i] * B0[i * Index(nb_) + Index(a)]; sc += std::fabs(vc[i]) * S[i]; }
      }
      e.quad.build(e.spec, df + pv);
      if(!(e.quad.mindet > 0)) { c.inconclusive("generated mesh has a non-positive Jacobian"); return; }
      LD ref = e.quad.integrate([&](const LD* x) {
        LD s = 0;
        for(int a = 0; a < nb_; ++a)
        {
          LD fv = 0;
          if(lapl) { for(int k = 0; k < dim; ++k) fv -= F[a].hess(x, k, k); } else fv = F[a].value(x);
          s += fv * V[a].value(x);
        }
        return s; });
      c.event();
      if(!(std::fabs(val - ref) <= bound_factor() * sc + tiny()))
        c.viol(opn, "functional-value", vh::J().kv("vTb", val).kv("integral", ref).kv("diff", std::fabs(val - ref)).kv("bound", bound_factor() * sc).str());
      if(si.pou)
      {
        // sum of the entries of component a = int f_a
        for(int a = 0; a < nb_; ++a)
        {
          LD s = 0, ss = 0; for(Index i = 0; i < n; ++i) { s += B0[i * Index(nb_) + Index(a)]; ss += S[i]; }
          LD r = e.quad.integrate([&](const LD* x) { LD fv = 0; if(lapl) { for(int k = 0; k < dim; ++k) fv -= F[a].hess(x, k, k); } else fv = F[a].value(x); return fv; });
          c.event();
          if(!(std::fabs(s - r) <= bound_factor() * ss + tiny()))
            c.viol(opn, "functional-entry-sum", vh::J().kv("component", a).kv("sum", s).kv("integral", r).kv("bound", bound_factor() * ss).str());
        }
      }
    }
    static const double alphas[5] = {1.0, -1.0, 0.5, 2.75, -0.375};
    for(int thr = 0; thr < 2; ++thr)
    {
      const double al = alphas[c.rng.below(5)];
      VectorType b(n); b.format(0.0);
      auto& da = thr ? *e.dom_thr : *e.dom_serial;
      if(lapl) Assembly::assemble_linear_functional_vector(da, b, laplace, space, cub_name, al);
      else Assembly::assemble_linear_functional_vector(da, b, force, space, cub_name, al);
      compare_vec(c, opn, read_vec(b), B0, (LD)al, S, nb_, std::string("assemble_linear_functional_vector (") + (thr ? e.thr_desc : "serial") + ") vs LinearFunctionalAssembler");
    }
    if(!lapl)
    {
      const double al = alphas[c.rng.below(5)];
      VectorType b(n); b.format(0.0);
      const bool thr = c.rng.coin();
      Assembly::assemble_force_function_vector(thr ? *e.dom_thr : *e.dom_serial, b, func, space, cub_name, al);
      compare_vec(c, opn, read_vec(b), B0, (LD)al, S, nb_, std::string("assemble_force_function_vector (") + (thr ? e.thr_desc : "serial") + ") vs LinearFunctionalAssembler");
    }
  }

  template<typename Shape_, typename SD_>
  void run_functional(Ctx& c, Env<Shape_>& e)
  {
    constexpr int dim = vm::ShapeInfo<Shape_>::dim;
    if(c.rng.coin(0.6)) check_functional<Shape_, SD_, 1>(c, e); else check_functional<Shape_, SD_, dim>(c, e);
  }
} // namespace c16
