// C16 -- trace assembler on the boundary of tetra meshes
#include "c16_trace.hpp"
using namespace c16;
VH_FAMILY(trace_tetra)
{
  typedef Shape::Simplex<3> S;
  Env<S> e; gen_env(c, e, 600, (c.k % 2) == 0); // every other case: re-oriented cells and general (non-parallelogram) boundary facets
  switch(c.rng.below(2))
  {
  case 0: run_trace<S, SL1>(c, e); break;
  default: run_trace<S, SL2>(c, e); break;
  }
}
