// C16 -- different test/trial spaces, GPDV, grad operator on hexa meshes
#include "c16_mixed.hpp"
using namespace c16;
VH_FAMILY(mixed_hexa)
{
  typedef Shape::Hypercube<3> S;
  Env<S> e; gen_env(c, e, 600);
  switch(c.rng.below(3))
  {
  case 0: run_mixed<S, SL2, SL1>(c, e); break;
  case 1: run_mixed<S, SL2, SD1>(c, e); break;
  default: run_mixed<S, SCR, SD0>(c, e); break;
  }
}
