// C16 -- main TU + self-check of the harness' own quadrature (closed-form monomial integrals)
#include "c16.hpp"
#include <kernel/util/verif_hooks.hpp>
#include <pthread.h>
using namespace c16;

// debugging aid: C16_TRACE=1 prints every ThreadFence / worker hook event
static void trace_cb(int point, const void* obj, std::uint64_t a, std::uint64_t b)
{ std::fprintf(stderr, "hook t=%lx p=%d obj=%p a=%lu b=%lu\n", (unsigned long)pthread_self(), point, obj, (unsigned long)a, (unsigned long)b); }

// enumerated: k = 4*(n-1) + shape : Gauss rule with n points must integrate the monomials exactly (closed forms:
// hypercube [0,1]^d: prod 1/(e_i+1); simplex: prod e_i! / (sum e_i + d)!) on an affinely mapped reference cell.
template<typename Shape_>
static void selfcheck_shape(vh::Ctx& c, int n)
{
  constexpr int dim = vm::ShapeInfo<Shape_>::dim, nv = vm::ShapeInfo<Shape_>::nv;
  vm::MeshSpec<Shape_> m;
  // reference cell on [0,1]^d
  if(IsSimplex<Shape_>::value) { m.verts.push_back({{0, 0, 0}}); for(int k = 0; k < dim; ++k) { std::array<double, 3> v{{0, 0, 0}}; v[std::size_t(k)] = 1; m.verts.push_back(v); } }
  else for(int v = 0; v < nv; ++v) m.verts.push_back({{double(v & 1), double((v >> 1) & 1), double((v >> 2) & 1)}});
  std::array<Index, 8> cell{}; for(int v = 0; v < nv; ++v) cell[std::size_t(v)] = Index(v);
  m.cells.push_back(cell);
  std::vector<QP> pts; cell_quad(m, 0, n, pts);
  const int maxdeg = 2 * n - 1 - (dim - 1);
  c.tag(std::string("shape:") + vm::ShapeInfo<Shape_>::name()); c.set_op("oracle.selfcheck");
  auto fact = [](int k) { LD f = 1; for(int i = 2; i <= k; ++i) f *= i; return f; };
  for(int a = 0; a <= maxdeg; ++a) for(int b = 0; b <= maxdeg; ++b) for(int d = 0; d <= (dim == 3 ? maxdeg : 0); ++d)
  {
    const bool in = IsSimplex<Shape_>::value ? (a + b + d <= maxdeg) : true;
    if(!in) continue;
    LD s = 0; for(auto& p : pts) s += p.w * Poly<3>::ipow(p.x[0], a) * Poly<3>::ipow(p.x[1], b) * Poly<3>::ipow(p.x[2], d);
    LD ref = IsSimplex<Shape_>::value ? fact(a) * fact(b) * fact(d) / fact(a + b + d + dim) : 1.0L / ((a + 1) * (b + 1) * (d + 1));
    c.event();
    if(!(std::fabs(s - ref) <= 1e-17L)) { c.viol("oracle.selfcheck", "harness-quadrature-inexact", vh::J().kv("n", n).kv("a", a).kv("b", b).kv("c", d).kv("got", s).kv("expected", ref).str()); return; }
  }
}
VH_COUNT(selfcheck) { return 4 * 9; }
VH_FAMILY(selfcheck)
{
  const int n = int(c.k / 4) + 1;
  switch(c.k % 4)
  {
  case 0: selfcheck_shape<Shape::Hypercube<2>>(c, n); break;
  case 1: selfcheck_shape<Shape::Simplex<2>>(c, n); break;
  case 2: selfcheck_shape<Shape::Hypercube<3>>(c, n); break;
  default: selfcheck_shape<Shape::Simplex<3>>(c, n); break;
  }
}
int main(int argc, char** argv)
{
  FEAT::Runtime::ScopeGuard guard(argc, argv);
  if(std::getenv("C16_TRACE")) FEAT::Verif::callback().store(&trace_cb, std::memory_order_release);
  return vh::main_impl(argc, argv);
}
