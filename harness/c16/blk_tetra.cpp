// C16 -- blocked operators on tetra meshes
#include "c16_ops.hpp"
using namespace c16;
VH_FAMILY(blocked_tetra)
{
  typedef Shape::Simplex<3> S;
  Env<S> e; gen_env(c, e, 600);
  switch(c.rng.below(2))
  {
  case 0: run_blocked_op<S, SL1>(c, e); break;
  default: run_blocked_op<S, SL2>(c, e); break;
  }
}
