// c16_mixed.hpp -- operators with different test and trial spaces (assemble_matrix2 / job2 / apply2),
// GradPresDivVeloAssembler and GradOperatorAssembler
#pragma once
#include "c16_ops.hpp"
#include <kernel/assembly/gpdv_assembler.hpp>
#include <kernel/assembly/grad_operator_assembler.hpp>

namespace c16
{
  template<typename SDtest_, typename SDtrial_, typename ScalarMatrix_, typename TestSpace_, typename TrialSpace_>
  void assemble_scale2(ScalarMatrix_& m, const TestSpace_& test_space, const TrialSpace_& trial_space, const Cubature::DynamicFactory& cub)
  {
    ScaleOp<(SDtrial_::has_grad ? 3 : 1), (SDtest_::has_grad ? 3 : 1)> so;
    Assembly::BilinearOperatorAssembler::assemble_matrix2(m, so, test_space, trial_space, cub);
  }

  struct MixedSetup
  {
    std::string cub_name; int p_test = 0, p_trial = 0;
  };

  template<typename Shape_, typename SDtest_, typename SDtrial_>
  MixedSetup mixed_setup(Ctx& c, Env<Shape_>& e, const Form& f)
  {
    MixedSetup s;
    const bool simplex = IsSimplex<Shape_>::value;
    s.p_test = space_degree(SDtest_::info(), e.affine, simplex); s.p_trial = space_degree(SDtrial_::info(), e.affine, simplex);
    s.cub_name = cubature_for<Shape_>(c, f.degree(s.p_trial, s.p_test));
    return s;
  }

  // form value v^T A u against the harness integral, kernels; A: rows test (ns comps), cols trial (nt comps)
  template<typename Shape_, typename TestSpace_, typename TrialSpace_>
  void check_form2(Ctx& c, Env<Shape_>& e, const std::string& opn, const Img& A, const Scale& S, const TestSpace_& test_space, const TrialSpace_& trial_space,
    const Form& f, const MixedSetup& ms, LD factor)
  {
    constexpr int dim = vm::ShapeInfo<Shape_>::dim;
    Poly<dim> U[9], V[9]; int pu = 0, pv = 0;
    for(int b = 0; b < f.nt; ++b) { U[b] = random_poly<dim>(c.rng, int(c.rng.range(0, ms.p_trial)), true); pu = std::max(pu, U[b].degree()); }
    for(int a = 0; a < f.ns; ++a) { V[a] = random_poly<dim>(c.rng, int(c.rng.range(0, ms.p_test)), true); pv = std::max(pv, V[a].degree()); }
    std::vector<std::vector<LD>> uc, vc;
    for(int b = 0; b < f.nt; ++b) uc.push_back(interpolate(trial_space, U[b]));
    for(int a = 0; a < f.ns; ++a) vc.push_back(interpolate(test_space, V[a]));
    LD val, sc; bilinear_value(A, interleave(vc), interleave(uc), S, val, sc);
    e.quad.build(e.spec, f.degree(pu, pv));
    if(!(e.quad.mindet > 0)) { c.inconclusive("generated mesh has a non-positive Jacobian"); return; }
    const int nt = f.nt, ns = f.ns;
    LD ref = factor * e.quad.integrate([&](const LD* x) { FV fu[9], fv[9]; eval_fv<dim>(U, nt, x, fu); eval_fv<dim>(V, ns, x, fv); return f.g(fu, fv, x); });
    sc *= std::max<LD>(1, std::fabs(factor));
    c.event();
    if(!(std::fabs(val - ref) <= bound_factor() * sc + tiny()))
    {
      vh::J us('['); for(int b = 0; b < f.nt; ++b) us.add(U[b].str());
      vh::J vs('['); for(int a = 0; a < f.ns; ++a) vs.add(V[a].str());
      c.viol(opn, "bilinear-form-value", vh::J().kv("vAu", val).kv("integral", ref).kv("diff", std::fabs(val - ref)).kv("bound", bound_factor() * sc).raw("u", us.str()).raw("v", vs.str()).str());
    }
    // kernels
    const LD B = bound_factor();
    if(f.ker_trial)
    {
      c.event();
      std::vector<LD> one = interpolate(trial_space, Poly<dim>::constant(1.0));
      for(int b = 0; b < f.nt; ++b) for(Index i = 0; i < A.R; ++i)
      {
        LD r = 0, s = 0;
        for(Index k = A.rp[i]; k < A.rp[i + 1]; ++k) if(int(A.ci[k] % Index(f.nt)) == b) { const LD o = one[A.ci[k] / Index(f.nt)]; r += A.v[k] * o; s += S.at(i, A.ci[k]) * std::fabs(o); }
        s *= std::max<LD>(1, std::fabs(factor));
        if(!(std::fabs(r) <= B * s + tiny())) { c.viol(opn, "constant-not-annihilated", vh::J().kv("side", "trial").kv("component", b).kv("row", (unsigned long)i).kv("residual", r).kv("bound", B * s).str()); b = f.nt; break; }
      }
    }
    if(f.ker_test)
    {
      c.event();
      std::vector<LD> one = interpolate(test_space, Poly<dim>::constant(1.0));
      std::vector<LD> cs(A.C), ss(A.C);
      for(int a = 0; a < f.ns; ++a)
      {
        std::fill(cs.begin(), cs.end(), 0.0L); std::fill(ss.begin(), ss.end(), 0.0L);
        for(Index i = 0; i < A.R; ++i) if(int(i % Index(f.ns)) == a)
        { const LD o = one[i / Index(f.ns)]; for(Index k = A.rp[i]; k < A.rp[i + 1]; ++k) { cs[A.ci[k]] += o * A.v[k]; ss[A.ci[k]] += std::fabs(o) * S.at(i, A.ci[k]) * std::max<LD>(1, std::fabs(factor)); } }
        bool bad = false;
        for(Index j = 0; j < A.C && !bad; ++j) if(!(std::fabs(cs[j]) <= B * ss[j] + tiny()))
        { c.viol(opn, "constant-not-annihilated", vh::J().kv("side", "test").kv("component", a).kv("col", (unsigned long)j).kv("residual", cs[j]).kv("bound", B * ss[j]).str()); bad = true; }
        if(bad) break;
      }
    }
  }

  inline void set_desc(Ctx& c, const std::string& mesh, const std::string& test, const std::string& trial, const std::string& op, const std::string& cub, const std::string& thr)
  { c.desc = vh::J().raw("mesh", mesh).kv("test_space", test).kv("trial_space", trial).kv("operator", op).kv("cubature", cub).kv("threads", thr).str(); }

  // generic operator with a (test, trial) pair of different spaces
  template<typename Shape_, typename SDtest_, typename SDtrial_, typename Matrix_, typename Op_, typename TestSpace_, typename TrialSpace_>
  void check_bilinear2(Ctx& c, Env<Shape_>& e, const TestSpace_& test_space, const TrialSpace_& trial_space, Op_& op, const Form& f)
  {
    constexpr int BH = BlockDims<Matrix_>::bh, BW = BlockDims<Matrix_>::bw;
    typedef LAFEM::SparseMatrixCSR<double, Index> ScalarMatrix;
    const std::string opn = "asm2." + f.name;
    c.tag(std::string("test:") + SDtest_::info().name); c.tag(std::string("trial:") + SDtrial_::info().name); c.tag("op:" + f.name);
    c.tag(BH * BW == 1 ? "vt:scalar" : "vt:blocked" + std::to_string(BH) + "x" + std::to_string(BW));
    MixedSetup ms = mixed_setup<Shape_, SDtest_, SDtrial_>(c, e, f);
    Cubature::DynamicFactory cub(ms.cub_name);
    c.set_op(opn);
    set_desc(c, e.spec.describe(), SDtest_::info().name, SDtrial_::info().name, f.name, ms.cub_name, e.thr_desc);

    ScalarMatrix mat_s; Assembly::SymbolicAssembler::assemble_matrix_std2(mat_s, test_space, trial_space); mat_s.format();
    assemble_scale2<SDtest_, SDtrial_>(mat_s, test_space, trial_space, cub);
    Img IS; if(!dec(c, opn, mat_s, IS, "scale")) return;
    Scale S; S.s = &IS; S.bh = BH; S.bw = BW; S.cmax = f.cmax;

    Matrix_ mat0; Assembly::SymbolicAssembler::assemble_matrix_std2(mat0, test_space, trial_space); mat0.format();
    Assembly::BilinearOperatorAssembler::assemble_matrix2(mat0, op, test_space, trial_space, cub);
    Img A0; if(!dec(c, opn, mat0, A0, "classic2")) return;
    c.event();
    check_form2(c, e, opn, A0, S, test_space, trial_space, f, ms, 1.0L);

    static const double alphas[5] = {1.0, -1.0, 0.5, 2.75, -0.375};
    for(int thr = 0; thr < 2; ++thr)
    {
      const double al = alphas[c.rng.below(5)];
      Matrix_ m = mat0.clone(LAFEM::CloneMode::Layout); m.format();
      Assembly::assemble_bilinear_operator_matrix_2(thr ? *e.dom_thr : *e.dom_serial, m, op, test_space, trial_space, ms.cub_name, al);
      Img A; if(dec(c, opn, m, A, "job2")) compare_same_pattern(c, opn, "route-differs", A, A0, (LD)al, S, std::string("DomainAssembler job2 (") + (thr ? e.thr_desc : "serial") + ") vs classic assemble_matrix2");
    }
    if constexpr(BH == 1 && BW == 1)
    {
      LAFEM::DenseVector<double, Index> x(trial_space.get_num_dofs()), y(test_space.get_num_dofs(), 3.0);
      for(Index i = 0; i < x.size(); ++i) x(i, double(c.rng.range(-4, 4)) / 2.0);
      // apply2 takes ret and coeff of one vector type; sizes differ
      const double al = alphas[c.rng.below(5)];
      Assembly::BilinearOperatorAssembler::apply2(y, x, op, test_space, trial_space, cub, al);
      std::vector<LD> xv = read_vec(x), yv = read_vec(y);
      c.event();
      for(Index i = 0; i < A0.R; ++i)
      {
        LD r = 0, s = 0; for(Index k = A0.rp[i]; k < A0.rp[i + 1]; ++k) { r += A0.v[k] * xv[A0.ci[k]]; s += S.at(i, A0.ci[k]) * std::fabs(xv[A0.ci[k]]); }
        r *= al; s *= std::max<LD>(1, std::fabs((LD)al));
        if(!(std::fabs(yv[i] - r) <= 2 * bound_factor() * s + tiny()))
        { c.viol(opn, "route-differs", vh::J().kv("what", "BilinearOperatorAssembler::apply2 vs assembled matrix times vector").kv("row", (unsigned long)i).kv("got", yv[i]).kv("expected", r).kv("bound", 2 * bound_factor() * s).str()); break; }
      }
    }
    const Index nr = test_space.get_num_dofs(), ncl = trial_space.get_num_dofs();
    if(nr * ncl * Index(BH * BW) <= Index(c.thorough() ? 1500000 : 400000))
    {
      Matrix_ md = DenseMaker<Matrix_>::make(c.rng, nr, ncl);
      ScalarMatrix sd = DenseMaker<ScalarMatrix>::make(c.rng, nr, ncl);
      if(c.rng.coin()) Assembly::BilinearOperatorAssembler::assemble_matrix2(md, op, test_space, trial_space, cub);
      else Assembly::assemble_bilinear_operator_matrix_2(c.rng.coin() ? *e.dom_thr : *e.dom_serial, md, op, test_space, trial_space, ms.cub_name);
      assemble_scale2<SDtest_, SDtrial_>(sd, test_space, trial_space, cub);
      Img D, ISD;
      if(dec(c, opn, md, D, "dense") && dec(c, opn, sd, ISD, "dense-scale"))
      {
        Scale SD; SD.s = &ISD; SD.bh = BH; SD.bw = BW; SD.cmax = f.cmax;
        compare_dense(c, opn, A0, D, SD, "SymbolicAssembler::assemble_matrix_std2 vs full pattern");
        c.count("dense_pattern_checks");
      }
    }
  }

  // GradPresDivVeloAssembler: B = scale_b * int (div v) p  (rows velocity, cols pressure), D = scale_d * int q div u
  template<typename Shape_, typename SDv_, typename SDp_, typename VeloSpace_, typename PresSpace_>
  void check_gpdv(Ctx& c, Env<Shape_>& e, const VeloSpace_& velo, const PresSpace_& pres)
  {
    constexpr int dim = vm::ShapeInfo<Shape_>::dim;
    typedef LAFEM::SparseMatrixCSR<double, Index> ScalarMatrix;
    typedef BCSRd<dim, 1> MatB; typedef BCSRd<1, dim> MatD;
    const std::string opn = "asm.gpdv";
    c.tag(std::string("test:") + SDv_::info().name); c.tag(std::string("trial:") + SDp_::info().name); c.tag("op:gpdv"); c.tag("vt:blocked");
    Form fb = form_gradient_test_blocked<dim>();   // int p div v : trial p (scalar), test v
    Form fd; fd.name = "div_velo"; fd.nt = dim; fd.ns = 1; fd.ker_trial = true; fd.smode = 3; fd.du = 1;
    fd.g = [](const FV* U, const FV* V, const LD*) { LD s = 0; for(int a = 0; a < dim; ++a) s += U[a].g[a] * V[0].v; return s; };
    MixedSetup ms = mixed_setup<Shape_, SDv_, SDp_>(c, e, fb);
    Cubature::DynamicFactory cub(ms.cub_name);
    c.set_op(opn);
    set_desc(c, e.spec.describe(), SDv_::info().name, SDp_::info().name, "gpdv", ms.cub_name, e.thr_desc);
    ScalarMatrix sb; Assembly::SymbolicAssembler::assemble_matrix_std2(sb, velo, pres); sb.format(); assemble_scale2<SDv_, SDp_>(sb, velo, pres, cub);
    ScalarMatrix sd; Assembly::SymbolicAssembler::assemble_matrix_std2(sd, pres, velo); sd.format(); assemble_scale2<SDp_, SDv_>(sd, pres, velo, cub);
    Img ISB, ISD; if(!dec(c, opn, sb, ISB, "scale_b") || !dec(c, opn, sd, ISD, "scale_d")) return;
    Scale SB; SB.s = &ISB; SB.bh = dim; SB.bw = 1; Scale SD; SD.s = &ISD; SD.bh = 1; SD.bw = dim;
    static const double alphas[4] = {-1.0, 1.0, 0.5, -2.25};
    const double scb = alphas[c.rng.below(4)], scd = alphas[c.rng.below(4)];
    MatB mb; MatD md;
    const int variant = int(c.rng.below(4));
    // targets: empty | pre-sized and filled with other values (the assembler documents that it formats both) | holding the
    // result of an earlier assembly with other scaling factors (re-assembly on the same objects)
    if(variant == 1) { Assembly::SymbolicAssembler::assemble_matrix_std2(mb, velo, pres); Assembly::SymbolicAssembler::assemble_matrix_std2(md, pres, velo); mb.format(7.5); md.format(-3.25); c.tag("gpdv:preallocated"); }
    else if(variant == 3) { Assembly::GradPresDivVeloAssembler::assemble(mb, md, velo, pres, ms.cub_name, scd * 1.5, scb - 3.0); c.tag("gpdv:reassembled"); }
    else c.tag("gpdv:empty_matrices");
    if(variant == 2) Assembly::GradPresDivVeloAssembler::assemble(mb, md, velo, pres, cub, scb, scd);
    else Assembly::GradPresDivVeloAssembler::assemble(mb, md, velo, pres, ms.cub_name, scb, scd);
    Img AB, AD; if(!dec(c, opn, mb, AB, "matrix_b") || !dec(c, opn, md, AD, "matrix_d")) return;
    c.event(2);
    if(AB.R != velo.get_num_dofs() * Index(dim) || AB.C != pres.get_num_dofs() || AD.R != pres.get_num_dofs() || AD.C != velo.get_num_dofs() * Index(dim))
    { c.viol(opn, "dims", vh::J().kv("b_rows", (unsigned long)AB.R).kv("b_cols", (unsigned long)AB.C).kv("d_rows", (unsigned long)AD.R).kv("d_cols", (unsigned long)AD.C).str()); return; }
    check_form2(c, e, opn + ".B", AB, SB, velo, pres, fb, ms, (LD)scb);
    MixedSetup msd = ms; std::swap(msd.p_test, msd.p_trial);
    check_form2(c, e, opn + ".D", AD, SD, pres, velo, fd, msd, (LD)scd);
    // D = (scale_d/scale_b) B^T entrywise (same products, same order)
    c.event();
    for(Index i = 0; i < AB.R; ++i) for(Index k = AB.rp[i]; k < AB.rp[i + 1]; ++k)
    {
      const LD* t = AD.find(AB.ci[k], i);
      const LD expect = AB.v[k] / (LD)scb * (LD)scd;
      if(!t || !(std::fabs(*t - expect) <= bound_factor() * SB.at(i, AB.ci[k]) * 3 + tiny()))
      { c.viol(opn, "d-not-transposed-b", vh::J().kv("row", (unsigned long)i).kv("col", (unsigned long)AB.ci[k]).kv("b", AB.v[k]).kv("d", t ? *t : 0.0L).kv("present", t != nullptr).str()); break; }
    }
    // route agreement: B against the generic operator route
    {
      MatB m2; Assembly::SymbolicAssembler::assemble_matrix_std2(m2, velo, pres); m2.format();
      Assembly::Common::GradientTestOperatorBlocked<dim> op;
      if(c.rng.coin()) Assembly::BilinearOperatorAssembler::assemble_matrix2(m2, op, velo, pres, cub, scb);
      else Assembly::assemble_bilinear_operator_matrix_2(*e.dom_thr, m2, op, velo, pres, ms.cub_name, scb);
      Img A2; if(dec(c, opn, m2, A2, "generic")) compare_same_pattern(c, opn, "route-differs", AB, A2, 1.0L, SB, "GradPresDivVeloAssembler B vs GradientTestOperatorBlocked via assemble_matrix2/job2");
    }
  }

  // GradOperatorAssembler: G = scale * int (grad u) . v  (rows test (vector), cols trial (scalar)); vector version = G * vec_in
  template<typename Shape_, typename SDtest_, typename SDtrial_, typename TestSpace_, typename TrialSpace_>
  void check_gradop(Ctx& c, Env<Shape_>& e, const TestSpace_& test_space, const TrialSpace_& trial_space)
  {
    constexpr int dim = vm::ShapeInfo<Shape_>::dim;
    typedef LAFEM::SparseMatrixCSR<double, Index> ScalarMatrix;
    typedef BCSRd<dim, 1> MatG;
    const std::string opn = "asm.gradop";
    c.tag(std::string("test:") + SDtest_::info().name); c.tag(std::string("trial:") + SDtrial_::info().name); c.tag("op:gradop"); c.tag("vt:blocked");
    Form f = form_gradient_trial_blocked<dim>();
    MixedSetup ms = mixed_setup<Shape_, SDtest_, SDtrial_>(c, e, f);
    Cubature::DynamicFactory cub(ms.cub_name);
    c.set_op(opn);
    set_desc(c, e.spec.describe(), SDtest_::info().name, SDtrial_::info().name, "gradop", ms.cub_name, e.thr_desc);
    ScalarMatrix sm; Assembly::SymbolicAssembler::assemble_matrix_std2(sm, test_space, trial_space); sm.format(); assemble_scale2<SDtest_, SDtrial_>(sm, test_space, trial_space, cub);
    Img IS; if(!dec(c, opn, sm, IS, "scale")) return;
    Scale S; S.s = &IS; S.bh = dim; S.bw = 1;
    static const double alphas[4] = {1.0, -1.0, 0.5, -2.25};
    const double sc = alphas[c.rng.below(4)];
    MatG mg;
    if(c.rng.coin()) { Assembly::SymbolicAssembler::assemble_matrix_std2(mg, test_space, trial_space); c.tag("gradop:preallocated"); } else c.tag("gradop:empty_matrix");
    Assembly::GradOperatorAssembler::assemble(mg, test_space, trial_space, cub, sc);
    Img A; if(!dec(c, opn, mg, A, "matrix_g")) return;
    c.event();
    check_form2(c, e, opn, A, S, test_space, trial_space, f, ms, (LD)sc);
    {
      MatG m2; Assembly::SymbolicAssembler::assemble_matrix_std2(m2, test_space, trial_space); m2.format();
      Assembly::Common::GradientTrialOperatorBlocked<dim> op;
      if(c.rng.coin()) Assembly::BilinearOperatorAssembler::assemble_matrix2(m2, op, test_space, trial_space, cub, sc);
      else Assembly::assemble_bilinear_operator_matrix_2(*e.dom_thr, m2, op, test_space, trial_space, ms.cub_name, sc);
      Img A2; if(dec(c, opn, m2, A2, "generic")) compare_same_pattern(c, opn, "route-differs", A, A2, 1.0L, S, "GradOperatorAssembler matrix vs GradientTrialOperatorBlocked via assemble_matrix2/job2");
    }
    // vector version
    {
      LAFEM::DenseVector<double, Index> x(trial_space.get_num_dofs());
      for(Index i = 0; i < x.size(); ++i) x(i, double(c.rng.range(-4, 4)) / 2.0);
      LAFEM::DenseVectorBlocked<double, Index, dim> y(test_space.get_num_dofs()); y.format(0.0);
      const double s2 = alphas[c.rng.below(4)];
      Assembly::GradOperatorAssembler::assemble(y, x, test_space, trial_space, cub, s2);
      std::vector<LD> xv = read_vec(x), yv = read_vec(y);
      c.event();
      for(Index i = 0; i < A.R; ++i)
      {
        LD r = 0, s = 0; for(Index k = A.rp[i]; k < A.rp[i + 1]; ++k) { r += A.v[k] * xv[A.ci[k]]; s += S.at(i, A.ci[k]) * std::fabs(xv[A.ci[k]]); }
        r = r / (LD)sc * (LD)s2; s *= std::max<LD>(1, std::fabs((LD)s2));
        if(!(std::fabs(yv[i] - r) <= 2 * bound_factor() * s + tiny()))
        { c.viol(opn, "route-differs", vh::J().kv("what", "GradOperatorAssembler vector version vs matrix times vector").kv("row", (unsigned long)i).kv("got", yv[i]).kv("expected", r).kv("bound", 2 * bound_factor() * s).str()); break; }
      }
    }
  }

  // one mixed case for a (test, trial) pair: generic operators + gpdv + gradop
  template<typename Shape_, typename SDtest_, typename SDtrial_>
  void run_mixed(Ctx& c, Env<Shape_>& e)
  {
    constexpr int dim = vm::ShapeInfo<Shape_>::dim;
    typedef typename SDtest_::template S<typename Env<Shape_>::TrafoType> TestSpace;
    typedef typename SDtrial_::template S<typename Env<Shape_>::TrafoType> TrialSpace;
    TestSpace test_space(*e.trafo); TrialSpace trial_space(*e.trafo);
    const int d1 = int(c.rng.below(dim));
    const int nk = SDtrial_::has_grad ? 6 : 4;
    switch(c.k % std::uint64_t(nk))
    {
    case 0: { Assembly::Common::IdentityOperator op; Form f = form_identity<dim>(); f.mass = false; f.sym = false; check_bilinear2<Shape_, SDtest_, SDtrial_, CSRd>(c, e, test_space, trial_space, op, f); break; }
    case 1: { Assembly::Common::TestDerivativeOperator op(d1); Form f = form_test_deriv<dim>(d1); c.tag("deriv:" + std::to_string(d1)); check_bilinear2<Shape_, SDtest_, SDtrial_, CSRd>(c, e, test_space, trial_space, op, f); break; }
    case 2: { Assembly::Common::GradientTestOperatorBlocked<dim> op; Form f = form_gradient_test_blocked<dim>(); check_bilinear2<Shape_, SDtest_, SDtrial_, BCSRd<dim, 1>>(c, e, test_space, trial_space, op, f); break; }
    case 3: check_gpdv<Shape_, SDtest_, SDtrial_>(c, e, test_space, trial_space); break;
    case 4:
      if constexpr(SDtrial_::has_grad) { Assembly::Common::GradientTrialOperatorBlocked<dim> op; Form f = form_gradient_trial_blocked<dim>(); check_bilinear2<Shape_, SDtest_, SDtrial_, BCSRd<dim, 1>>(c, e, test_space, trial_space, op, f); }
      break;
    default:
      if constexpr(SDtrial_::has_grad) check_gradop<Shape_, SDtest_, SDtrial_>(c, e, test_space, trial_space);
      break;
    }
  }
} // namespace c16
