// c16_tracex.hpp -- TraceAssembler on facet SUBSETS (add_facet / add_mesh_part / compile), assemble_discrete_integral,
// assemble_flow_accum, assemble_jump_operator_matrix, assemble_jump_stabil_operator_matrix.
//
// Truth: the harness' own facet table (facets of the MeshSpec cells as vertex tuples, adjacent cells, local vertex
// numbers), own facet quadrature over the MeshSpec coordinates, own evaluation of the P1/Q1 basis functions and their
// gradients on both sides of a facet.  On hypercube meshes the harness uses the Gauss-Legendre rule with exactly the
// number of points it requests from FEAT by name ("gauss-legendre:k"; nodes computed by the harness), so that the
// comparison is point-for-point and holds for non-polynomial integrands (non-affine cells, non-flat inner facets) as
// well; on simplices every integrand is a polynomial on a flat facet and the harness rule is exact.
//
// Meaning taken from the code (documentation is silent): a selected INNER facet is visited once per adjacent cell by
// the operator / functional / discrete-integral / flow-accumulator loops (multiplicity 2 for traces of continuous
// functions), and once -- with both cells -- by the jump assemblers; an outer facet contributes the one-sided value.
// J_E in the jump stabilisation is the Jacobian determinant of the facet transformation from FEAT's reference facet
// ([-1,1]^k for hypercubes: |dS|/2^k, the unit simplex for simplices: edge length / twice the triangle area).
#pragma once
#include "c16_trace.hpp"
#include <kernel/geometry/mesh_part.hpp>

namespace c16
{
  template<typename Shape_>
  struct FacetTab
  {
    static constexpr int dim = vm::ShapeInfo<Shape_>::dim, nv = vm::ShapeInfo<Shape_>::nv;
    static constexpr int nfv = dim == 2 ? 2 : (IsSimplex<Shape_>::value ? 3 : 4);
    struct F { std::array<Index, 4> v; Index cell[2]; int nc; int loc[2][4]; };
    std::vector<F> f;
    std::map<std::array<Index, 4>, Index> by_key;
    static std::array<Index, 4> key_of(std::array<Index, 4> t) { std::sort(t.begin(), t.end()); return t; }
    void build(const vm::MeshSpec<Shape_>& m)
    {
      for(Index ci = 0; ci < m.num_cells(); ++ci)
      {
        const auto& c = m.cells[ci];
        std::vector<std::array<int, 4>> lf;
        if(IsSimplex<Shape_>::value)
          for(int o = 0; o < nv; ++o) { std::array<int, 4> l{{-1, -1, -1, -1}}; int k = 0; for(int v = 0; v < nv; ++v) if(v != o) l[std::size_t(k++)] = v; lf.push_back(l); }
        else
          for(int d = 0; d < dim; ++d) for(int side = 0; side < 2; ++side)
          { std::array<int, 4> l{{-1, -1, -1, -1}}; int k = 0; for(int v = 0; v < nv; ++v) if(((v >> d) & 1) == side) l[std::size_t(k++)] = v; lf.push_back(l); }
        for(auto& l : lf)
        {
          std::array<Index, 4> t{{~Index(0), ~Index(0), ~Index(0), ~Index(0)}};
          for(int k = 0; k < nfv; ++k) t[std::size_t(k)] = c[std::size_t(l[std::size_t(k)])];
          auto key = key_of(t);
          auto it = by_key.find(key);
          if(it == by_key.end())
          {
            F nf; nf.v = t; nf.cell[0] = ci; nf.cell[1] = ~Index(0); nf.nc = 1;
            for(int k = 0; k < 4; ++k) { nf.loc[0][k] = l[std::size_t(k)]; nf.loc[1][k] = -1; }
            by_key[key] = Index(f.size()); f.push_back(nf);
          }
          else
          {
            F& of = f[it->second];
            if(of.nc >= 2) { of.nc = 3; continue; }
            of.cell[1] = ci; of.nc = 2;
            for(int k = 0; k < nfv; ++k) for(int v = 0; v < nv; ++v) if(c[std::size_t(v)] == of.v[std::size_t(k)]) of.loc[1][k] = v;
          }
        }
      }
    }
  };

  struct FQP { LD x[3]; LD w; LD jfeat; LD wt[4]; };   // wt: weights of the facet vertices (point = sum wt_k X_k)

  template<typename Shape_>
  void facet_quad(const vm::MeshSpec<Shape_>& m, const std::array<Index, 4>& fv, int n, std::vector<FQP>& out)
  {
    constexpr int dim = vm::ShapeInfo<Shape_>::dim; constexpr bool simplex = IsSimplex<Shape_>::value;
    const Gauss& g = gauss01(n);
    const int nfv = FacetTab<Shape_>::nfv;
    LD X[4][3] = {};
    for(int v = 0; v < nfv; ++v) for(int d = 0; d < dim; ++d) X[v][d] = (LD)m.verts[fv[std::size_t(v)]][std::size_t(d)];
    if(dim == 2)
    {
      const LD len = std::sqrt((X[1][0] - X[0][0]) * (X[1][0] - X[0][0]) + (X[1][1] - X[0][1]) * (X[1][1] - X[0][1]));
      for(int i = 0; i < n; ++i)
      {
        FQP p; const LD s = g.x[std::size_t(i)];
        p.wt[0] = 1 - s; p.wt[1] = s; p.wt[2] = p.wt[3] = 0;
        for(int d = 0; d < 3; ++d) p.x[d] = X[0][d] + s * (X[1][d] - X[0][d]);
        p.w = g.w[std::size_t(i)] * len; p.jfeat = simplex ? len : len / 2;
        out.push_back(p);
      }
      return;
    }
    for(int i = 0; i < n; ++i) for(int j = 0; j < n; ++j)
    {
      const LD s = g.x[std::size_t(i)], t = g.x[std::size_t(j)]; LD w = g.w[std::size_t(i)] * g.w[std::size_t(j)];
      FQP p; LD xs[3], xt[3];
      if(simplex)
      {
        const LD l1 = s, l2 = t * (1 - s); w *= (1 - s);
        p.wt[0] = 1 - l1 - l2; p.wt[1] = l1; p.wt[2] = l2; p.wt[3] = 0;
        for(int d = 0; d < 3; ++d) { xs[d] = X[1][d] - X[0][d]; xt[d] = X[2][d] - X[0][d]; p.x[d] = X[0][d] + l1 * xs[d] + l2 * xt[d]; }
      }
      else
      {
        p.wt[0] = (1 - s) * (1 - t); p.wt[1] = s * (1 - t); p.wt[2] = (1 - s) * t; p.wt[3] = s * t;
        for(int d = 0; d < 3; ++d)
        {
          p.x[d] = p.wt[0] * X[0][d] + p.wt[1] * X[1][d] + p.wt[2] * X[2][d] + p.wt[3] * X[3][d];
          xs[d] = (1 - t) * (X[1][d] - X[0][d]) + t * (X[3][d] - X[2][d]);
          xt[d] = (1 - s) * (X[2][d] - X[0][d]) + s * (X[3][d] - X[1][d]);
        }
      }
      const LD cx = xs[1] * xt[2] - xs[2] * xt[1], cy = xs[2] * xt[0] - xs[0] * xt[2], cz = xs[0] * xt[1] - xs[1] * xt[0];
      const LD cr = std::sqrt(cx * cx + cy * cy + cz * cz);
      p.w = w * cr; p.jfeat = simplex ? cr : cr / 4;
      out.push_back(p);
    }
  }

  // values N[v] and physical gradients gN[v][d] of the P1 / Q1 basis functions of cell ci at the point with the
  // reference coordinates xi (unit simplex / [0,1]^dim)
  template<typename Shape_>
  bool basis_at(const vm::MeshSpec<Shape_>& m, Index ci, const LD* xi, LD* N, LD (*gN)[3])
  {
    constexpr int dim = vm::ShapeInfo<Shape_>::dim, nv = vm::ShapeInfo<Shape_>::nv;
    LD X[8][3]; for(int v = 0; v < nv; ++v) for(int d = 0; d < 3; ++d) X[v][d] = (LD)m.verts[m.cells[ci][std::size_t(v)]][std::size_t(d)];
    LD dN[8][3] = {}; LD J[3][3] = {{0, 0, 0}, {0, 0, 0}, {0, 0, 0}};
    if(IsSimplex<Shape_>::value)
    {
      N[0] = 1; for(int k = 0; k < dim; ++k) { N[0] -= xi[k]; N[k + 1] = xi[k]; dN[0][k] = -1; dN[k + 1][k] = 1; }
    }
    else for(int v = 0; v < nv; ++v)
    {
      N[v] = 1; for(int k = 0; k < dim; ++k) N[v] *= ((v >> k) & 1) ? xi[k] : 1 - xi[k];
      for(int k = 0; k < dim; ++k) { LD d = ((v >> k) & 1) ? 1.0L : -1.0L; for(int l = 0; l < dim; ++l) if(l != k) d *= ((v >> l) & 1) ? xi[l] : 1 - xi[l]; dN[v][k] = d; }
    }
    for(int v = 0; v < nv; ++v) for(int i = 0; i < dim; ++i) for(int k = 0; k < dim; ++k) J[i][k] += X[v][i] * dN[v][k];
    const LD det = det3(J, dim);
    if(!(det > 0)) return false;
    LD Ji[3][3] = {{0, 0, 0}, {0, 0, 0}, {0, 0, 0}};
    if(dim == 2) { Ji[0][0] = J[1][1] / det; Ji[0][1] = -J[0][1] / det; Ji[1][0] = -J[1][0] / det; Ji[1][1] = J[0][0] / det; }
    else for(int i = 0; i < 3; ++i) for(int k = 0; k < 3; ++k)
    {
      const int i1 = (i + 1) % 3, i2 = (i + 2) % 3, k1 = (k + 1) % 3, k2 = (k + 2) % 3;
      Ji[k][i] = (J[i1][k1] * J[i2][k2] - J[i1][k2] * J[i2][k1]) / det;     // inverse = adjugate / det
    }
    for(int v = 0; v < nv; ++v) for(int i = 0; i < dim; ++i) { gN[v][i] = 0; for(int k = 0; k < dim; ++k) gN[v][i] += dN[v][k] * Ji[k][i]; }
    return true;
  }

  template<typename Shape_>
  void facet_ref_point(const typename FacetTab<Shape_>::F& F, int side, const FQP& q, LD* xi)
  {
    constexpr int dim = vm::ShapeInfo<Shape_>::dim;
    for(int d = 0; d < 3; ++d) xi[d] = 0;
    for(int k = 0; k < FacetTab<Shape_>::nfv; ++k)
    {
      const int l = F.loc[side][k];
      for(int d = 0; d < dim; ++d) { const LD r = IsSimplex<Shape_>::value ? (l == d + 1 ? 1.0L : 0.0L) : LD((l >> d) & 1); xi[d] += q.wt[k] * r; }
    }
  }

  // |psi| resp. sum_k |d_k psi| (tolerance scale of facet integrals of a discrete function / its gradient)
  template<int mode_>
  class ScaleBasisFunctional : public Assembly::LinearFunctional
  {
  public:
    static constexpr TrafoTags trafo_config = TrafoTags::none;
    static constexpr SpaceTags test_config = mode_ == 0 ? SpaceTags::value : SpaceTags::grad;
    template<typename AsmTraits_>
    class Evaluator : public Assembly::LinearFunctional::Evaluator<AsmTraits_>
    {
    public:
      typedef typename AsmTraits_::DataType DataType;
      typedef typename AsmTraits_::TestBasisData TestBasisData;
      typedef DataType ValueType;
      explicit Evaluator(const ScaleBasisFunctional&) {}
      ValueType eval(const TestBasisData& psi) const
      {
        if constexpr(mode_ == 0) return Math::abs(psi.value);
        else { DataType s = DataType(0); for(int k = 0; k < psi.grad.n; ++k) s += Math::abs(psi.grad[k]); return s; }
      }
    };
  };

  template<int dim_>
  struct FlowAccum
  {
    LD sw = 0, sp = 0, sx[3] = {0, 0, 0}, sv[3] = {0, 0, 0}, sg[3][3] = {{0, 0, 0}, {0, 0, 0}, {0, 0, 0}}; unsigned long calls = 0;
    template<typename P_, typename JM_, typename V_, typename G_>
    void operator()(double w, const P_& x, const JM_&, const V_& v, const G_& g, double p)
    {
      ++calls; sw += (LD)w; sp += (LD)w * (LD)p;
      for(int i = 0; i < dim_; ++i) { sx[i] += (LD)w * (LD)x[i]; sv[i] += (LD)w * (LD)v[i]; for(int k = 0; k < dim_; ++k) sg[i][k] += (LD)w * (LD)g[i][k]; }
    }
  };

  // ------------------------------------------------------------------------------------------------ facet selection
  template<typename Shape_>
  struct Selection
  {
    std::vector<Index> feat_idx;      // FEAT facet indices (sorted, unique)
    std::vector<Index> own;           // the same facets in the harness table
    bool has_inner = false, has_outer = false; std::string how;
  };

  template<typename Shape_>
  bool select_facets(Ctx& c, Env<Shape_>& e, const FacetTab<Shape_>& tab, Assembly::TraceAssembler<typename Env<Shape_>::TrafoType>& ta, Selection<Shape_>& sel, int force_mode = -1)
  {
    constexpr int dim = vm::ShapeInfo<Shape_>::dim; constexpr int nfv = FacetTab<Shape_>::nfv;
    typedef typename Env<Shape_>::MeshType MeshType;
    const auto& vaf = e.mesh->template get_index_set<dim - 1, 0>();
    const Index nf = e.mesh->get_num_entities(dim - 1);
    if(nf != Index(tab.f.size())) { c.viol("trace.facets", "facet-count", vh::J().kv("feat", (unsigned long)nf).kv("harness", (unsigned long)tab.f.size()).str()); return false; }
    std::vector<Index> own_of(nf); std::vector<Index> outer, inner;
    for(Index i = 0; i < nf; ++i)
    {
      std::array<Index, 4> t{{~Index(0), ~Index(0), ~Index(0), ~Index(0)}}; for(int k = 0; k < nfv; ++k) t[std::size_t(k)] = vaf[i][k];
      auto it = tab.by_key.find(FacetTab<Shape_>::key_of(t));
      if(it == tab.by_key.end()) { c.viol("trace.facets", "facet-unknown", vh::J().kv("facet", (unsigned long)i).str()); return false; }
      own_of[i] = it->second;
      if(tab.f[it->second].nc == 1) outer.push_back(i); else if(tab.f[it->second].nc == 2) inner.push_back(i); else { c.inconclusive("non-manifold facet"); return false; }
    }
    // 0: mesh part of a random boundary sub-part, 1: add_facet of random facets (outer + inner), 2: both, 3: only inner facets (add_facet),
    // 4: the whole boundary as mesh part, 5: nothing selected
    const int mode = force_mode >= 0 ? force_mode : int(c.rng.pick<int>({0, 0, 1, 1, 1, 2, 2, 3, 4, 5}));
    std::set<Index> chosen; std::vector<Index> part_facets, single;
    auto sample = [&](const std::vector<Index>& from, double prob, std::vector<Index>& to) { for(Index i : from) if(c.rng.coin(prob)) to.push_back(i); };
    const double pr = c.rng.pick<double>({0.15, 0.5, 0.85});
    switch(mode)
    {
    case 0: sample(outer, pr, part_facets); sel.how = "mesh_part:boundary_subset"; break;
    case 1: sample(outer, pr, single); sample(inner, pr * 0.5, single); sel.how = "add_facet:outer+inner"; break;
    case 2: sample(outer, pr, part_facets); sample(outer, 0.3, single); sample(inner, 0.3, single); sel.how = "mesh_part+add_facet"; break;
    case 3: sample(inner, pr, single); sel.how = "add_facet:inner"; break;
    case 4: part_facets = outer; sel.how = "mesh_part:whole_boundary"; break;
    default: sel.how = "empty"; break;
    }
    c.rng.shuffle(single); c.rng.shuffle(part_facets);
    if(!part_facets.empty() || mode == 0 || mode == 4)
    {
      Index ne[4] = {0, 0, 0, 0}; ne[dim - 1] = Index(part_facets.size());
      Geometry::MeshPart<MeshType> part(ne, false);
      auto& ts = part.template get_target_set<dim - 1>();
      for(Index i = 0; i < Index(part_facets.size()); ++i) ts[i] = part_facets[i];
      ta.add_mesh_part(part);
    }
    for(Index i : single) { ta.add_facet(i); if(c.rng.coin(0.1)) ta.add_facet(i); }
    ta.compile();
    for(Index i : part_facets) chosen.insert(i);
    for(Index i : single) chosen.insert(i);
    for(Index i : chosen) { sel.feat_idx.push_back(i); sel.own.push_back(own_of[i]); if(tab.f[own_of[i]].nc == 2) sel.has_inner = true; else sel.has_outer = true; }
    c.tag("facets:" + sel.how);
    c.tag(sel.own.empty() ? "sel:empty" : sel.has_inner && sel.has_outer ? "sel:inner+outer" : sel.has_inner ? "sel:inner" : "sel:outer");
    return true;
  }

  // number of Gauss points per direction of the facet rule and its FEAT name
  template<typename Shape_>
  std::string facet_cubature(Ctx& c, int D, int& n_own)
  {
    constexpr int dim = vm::ShapeInfo<Shape_>::dim;
    if(IsSimplex<Shape_>::value)
    {
      int N = D + 1 + int(c.rng.below(3));
      n_own = own_points(D, dim);
      return "auto-degree:" + std::to_string(N);
    }
    // hypercube facets: the same Gauss-Legendre rule on both sides (pulled-back degree D + dim - 2 per variable at most)
    const int k = (D + dim) / 2 + 1 + int(c.rng.below(2));
    n_own = k;
    return "gauss-legendre:" + std::to_string(k);
  }

  // ------------------------------------------------------------------------------------------------ kind 0: forms on facet subsets
  template<typename Shape_, typename SD_>
  void run_tracex_forms(Ctx& c, Env<Shape_>& e)
  {
    constexpr int dim = vm::ShapeInfo<Shape_>::dim;
    typedef typename SD_::template S<typename Env<Shape_>::TrafoType> SpaceType;
    SpaceType space(*e.trafo);
    const SpaceInfo si = SD_::info();
    c.tag(std::string("space:") + si.name); c.tag("op:subset_forms");
    const int p = space_degree(si, e.affine, IsSimplex<Shape_>::value);
    FacetTab<Shape_> tab; tab.build(e.spec);
    Assembly::TraceAssembler<typename Env<Shape_>::TrafoType> ta(*e.trafo);
    Selection<Shape_> sel;
    c.set_op("trace.subset");
    if(!select_facets(c, e, tab, ta, sel)) return;
    Poly<dim> U = random_poly<dim>(c.rng, int(c.rng.range(0, p)), true), V = random_poly<dim>(c.rng, int(c.rng.range(0, p)), true);
    const int q = int(c.rng.range(0, 3));
    Poly<dim> Fp = random_poly<dim>(c.rng, q, true);
    Poly<dim> W[3]; for(int i = 0; i < dim; ++i) W[i] = random_poly<dim>(c.rng, int(c.rng.range(0, p)), true);
    const int D = std::max(q + p, 2 * p);
    int n_own = 0; std::string cub_name = facet_cubature<Shape_>(c, D, n_own);
    Cubature::DynamicFactory cub(cub_name);
    c.desc = vh::J().raw("mesh", e.spec.describe()).kv("space", si.name).kv("selection", sel.how).kv("facets", (unsigned long)sel.own.size()).kv("cubature", cub_name)
      .kv("u", U.str()).kv("v", V.str()).kv("f", Fp.str()).str();
    // own quadrature over exactly the selected facets, one visit per adjacent cell
    std::vector<FQP> pts; LD measure = 0;
    for(Index fi : sel.own)
    {
      const std::size_t b = pts.size(); facet_quad(e.spec, tab.f[fi].v, n_own, pts);
      for(std::size_t k = b; k < pts.size(); ++k) { pts[k].w *= LD(tab.f[fi].nc); measure += pts[k].w; }
    }
    auto bint = [&](const std::function<LD(const LD*)>& g) { LD s = 0; for(auto& pt : pts) s += pt.w * g(pt.x); return s; };
    const LD B = bound_factor();
    const Index n = space.get_num_dofs();
    std::vector<LD> uc = interpolate(space, U), vc = interpolate(space, V), one = interpolate(space, Poly<dim>::constant(1.0));

    // --- force functional
    {
      const std::string op = "trace.subset.functional"; c.set_op(op);
      PolyFunc<dim> func(Fp); Assembly::Common::ForceFunctional<PolyFunc<dim>> force(func);
      LAFEM::DenseVector<double, Index> b(n, 0.0), sv(n, 0.0);
      const double al = c.rng.coin() ? 1.0 : -0.5;
      ta.assemble_functional_vector(b, force, space, cub, al);
      { ScaleFunctional<dim> sf(&Fp, 1, false); ta.assemble_functional_vector(sv, sf, space, cub); }
      std::vector<LD> bv = read_vec(b), S = read_vec(sv);
      LD val = 0, sc = 0; for(std::size_t i = 0; i < bv.size(); ++i) { val += vc[i] * bv[i]; sc += std::fabs(vc[i]) * S[i]; }
      const LD ref = (LD)al * bint([&](const LD* x) { return Fp.value(x) * V.value(x); });
      c.event();
      if(!(std::fabs(val - ref) <= B * sc + tiny()))
        c.viol(op, "functional-value", vh::J().kv("vTb", val).kv("facet_integral", ref).kv("diff", std::fabs(val - ref)).kv("bound", B * sc).str());
      if(sel.own.empty()) { c.event(); for(auto x : bv) if(x != 0) { c.viol(op, "nonzero-on-empty-selection", vh::J().kv("value", x).str()); break; } }
    }
    // --- operator matrix (mass or Laplace)
    {
      const bool lap = SD_::has_grad && c.rng.coin(0.4);
      const std::string op = lap ? "trace.subset.laplace" : "trace.subset.identity"; c.set_op(op);
      Form f = lap ? form_laplace<dim>() : form_identity<dim>();
      CSRd ms; Assembly::SymbolicAssembler::assemble_matrix_std1(ms, space); ms.format();
      CSRd m0 = ms.clone(LAFEM::CloneMode::Layout); m0.format();
      Assembly::Common::IdentityOperator iop; Assembly::Common::LaplaceOperator lop;
      if(!lap) { ScaleOp<1, 1> so; ta.assemble_operator_matrix1(ms, so, space, cub); ta.assemble_operator_matrix1(m0, iop, space, cub); }
      else { ScaleOp<2, 2> so; ta.assemble_operator_matrix1(ms, so, space, cub); ta.assemble_operator_matrix1(m0, lop, space, cub); }
      Img IS, A0; if(!dec(c, op, ms, IS, "scale") || !dec(c, op, m0, A0, "trace1")) return;
      Scale S; S.s = &IS;
      LD val, sc; bilinear_value(A0, vc, uc, S, val, sc);
      const LD ref = bint([&](const LD* x) { FV fu, fv; eval_fv<dim>(&U, 1, x, &fu); eval_fv<dim>(&V, 1, x, &fv); return f.g(&fu, &fv, x); });
      c.event();
      if(!(std::fabs(val - ref) <= B * sc + tiny()))
        c.viol(op, "bilinear-form-value", vh::J().kv("vAu", val).kv("facet_integral", ref).kv("diff", std::fabs(val - ref)).kv("bound", B * sc).str());
      if(!lap)
      {
        bilinear_value(A0, one, one, S, val, sc);
        c.event();
        if(!(std::fabs(val - measure) <= B * sc + tiny()))
          c.viol(op, "facet-measure", vh::J().kv("sum", val).kv("measure", measure).kv("bound", B * sc).str());
      }
      check_symmetry(c, op, A0, S);
      if(sel.own.empty()) { c.event(); for(auto x : A0.v) if(x != 0) { c.viol(op, "nonzero-on-empty-selection", vh::J().kv("value", x).str()); break; } }
      // route: the whole boundary as a mesh part == compile_all_facets(false, true)
      if(sel.how == "mesh_part:whole_boundary")
      {
        Assembly::TraceAssembler<typename Env<Shape_>::TrafoType> tb(*e.trafo); tb.compile_all_facets(false, true);
        CSRd m1 = m0.clone(LAFEM::CloneMode::Layout); m1.format();
        if(!lap) tb.assemble_operator_matrix1(m1, iop, space, cub); else tb.assemble_operator_matrix1(m1, lop, space, cub);
        Img A1; if(dec(c, op, m1, A1, "all-facets")) compare_same_pattern(c, op, "route-differs", A0, A1, 1.0L, S, "add_mesh_part(boundary)+compile vs compile_all_facets(false,true)");
      }
    }
    // --- discrete integral (scalar and blocked) and the flow accumulator
    {
      LAFEM::DenseVector<double, Index> sb(n, 0.0), sg(n, 0.0);
      { ScaleBasisFunctional<0> s0; ta.assemble_functional_vector(sb, s0, space, cub); }
      if constexpr(SD_::has_grad) { ScaleBasisFunctional<1> s1; ta.assemble_functional_vector(sg, s1, space, cub); }
      std::vector<LD> SB = read_vec(sb), SG = read_vec(sg);
      {
        const std::string op = "trace.subset.discrete_integral"; c.set_op(op);
        LAFEM::DenseVector<double, Index> uv(n); for(Index i = 0; i < n; ++i) uv(i, (double)uc[i]);
        const double got = ta.assemble_discrete_integral(uv, space, cub);
        LD sc = 0; for(Index i = 0; i < n; ++i) sc += std::fabs(uc[i]) * SB[i];
        const LD ref = bint([&](const LD* x) { return U.value(x); });
        c.event();
        if(!(std::fabs((LD)got - ref) <= B * sc + tiny()))
          c.viol(op, "wrong-value", vh::J().kv("what", "scalar").kv("got", got).kv("facet_integral", ref).kv("bound", B * sc).str());
      }
      std::vector<std::vector<LD>> wc; for(int i = 0; i < dim; ++i) wc.push_back(interpolate(space, W[i]));
      LAFEM::DenseVectorBlocked<double, Index, dim> wv(n);
      { double* we = reinterpret_cast<double*>(wv.elements()); for(Index k = 0; k < n; ++k) for(int i = 0; i < dim; ++i) we[k * Index(dim) + Index(i)] = (double)wc[std::size_t(i)][k]; }
      {
        const std::string op = "trace.subset.discrete_integral"; c.set_op(op);
        auto got = ta.assemble_discrete_integral(wv, space, cub);
        for(int i = 0; i < dim; ++i)
        {
          LD sc = 0; for(Index k = 0; k < n; ++k) sc += std::fabs(wc[std::size_t(i)][k]) * SB[k];
          const LD ref = bint([&](const LD* x) { return W[i].value(x); });
          c.event();
          if(!(std::fabs((LD)got[i] - ref) <= B * sc + tiny()))
            c.viol(op, "wrong-value", vh::J().kv("what", "blocked").kv("component", i).kv("got", (double)got[i]).kv("facet_integral", ref).kv("bound", B * sc).str());
        }
      }
      if constexpr(SD_::has_grad)
      {
        const std::string op = "trace.subset.flow_accum"; c.set_op(op);
        LAFEM::DenseVector<double, Index> pv(n); for(Index i = 0; i < n; ++i) pv(i, (double)vc[i]);
        FlowAccum<dim> acc;
        ta.assemble_flow_accum(acc, wv, pv, space, space, cub);
        LD scp = 0, scv[3] = {0, 0, 0}, scg[3] = {0, 0, 0};
        for(Index k = 0; k < n; ++k) { scp += std::fabs(vc[k]) * SB[k]; for(int i = 0; i < dim; ++i) { scv[i] += std::fabs(wc[std::size_t(i)][k]) * SB[k]; scg[i] += std::fabs(wc[std::size_t(i)][k]) * SG[k]; } }
        auto chk = [&](const char* field, int i, int k, LD got, LD ref, LD sc) {
          c.event();
          if(!(std::fabs(got - ref) <= B * sc + tiny())) c.viol(op, "wrong-value", vh::J().kv("field", field).kv("i", i).kv("k", k).kv("got", got).kv("facet_integral", ref).kv("bound", B * sc).str());
        };
        LD mx = 0; for(auto& v : e.spec.verts) for(int d = 0; d < dim; ++d) mx = std::max(mx, std::fabs((LD)v[std::size_t(d)]));
        chk("sum of weights", -1, -1, acc.sw, measure, measure);
        chk("pressure", -1, -1, acc.sp, bint([&](const LD* x) { return V.value(x); }), scp);
        for(int i = 0; i < dim; ++i)
        {
          chk("image point", i, -1, acc.sx[i], bint([&](const LD* x) { return x[i]; }), measure * mx);
          chk("velocity", i, -1, acc.sv[i], bint([&](const LD* x) { return W[i].value(x); }), scv[i]);
          for(int k = 0; k < dim; ++k) chk("velocity gradient", i, k, acc.sg[i][k], bint([&](const LD* x) { LD g[3] = {0, 0, 0}; W[i].grad(x, g); return g[k]; }), scg[i]);
        }
      }
      // --- re-use after clear(): the selection must start from scratch
      // (clear() kept the old facets selected on the pinned tree; repaired by a fix: commit and asserted since)
      if(sel.own.size() >= 2)
      {
        const std::string op = "trace.clear"; c.set_op(op); c.tag("reuse:clear");
        ta.clear(); ta.add_facet(sel.feat_idx[0]); ta.compile();
        LAFEM::DenseVector<double, Index> uv(n); for(Index i = 0; i < n; ++i) uv(i, (double)uc[i]);
        const double got = ta.assemble_discrete_integral(uv, space, cub);
        std::vector<FQP> p1; facet_quad(e.spec, tab.f[sel.own[0]].v, n_own, p1);
        LD ref = 0; for(auto& pt : p1) ref += pt.w * LD(tab.f[sel.own[0]].nc) * U.value(pt.x);
        LD sc = 0; for(Index i = 0; i < n; ++i) sc += std::fabs(uc[i]) * SB[i];
        c.event();
        if(!(std::fabs((LD)got - ref) <= B * sc + tiny()))
          c.viol(op, "stale-facets-after-clear", vh::J().kv("got", got).kv("facet_integral", ref).kv("bound", B * sc).str());
      }
    }
  }

  // ------------------------------------------------------------------------------------------------ kind 1/2: jump operators
  // space: Lagrange1 (dof = vertex, verified through the interpolated coordinates) or Discontinuous P0 (dof of a cell
  // from the DofMapping); u, v are random DOF vectors or interpolated global polynomials
  template<typename Shape_, bool disc0_>
  void run_tracex_jump(Ctx& c, Env<Shape_>& e, bool stabil)
  {
    constexpr int dim = vm::ShapeInfo<Shape_>::dim, nv = vm::ShapeInfo<Shape_>::nv;
    typedef typename std::conditional<disc0_, SD0, SL1>::type SD;
    typedef typename SD::template S<typename Env<Shape_>::TrafoType> SpaceType;
    SpaceType space(*e.trafo);
    const std::string op = stabil ? "trace.jump_stabil" : "trace.jump";
    c.tag(std::string("space:") + SD::info().name); c.tag(stabil ? "op:jump_stabil" : "op:jump");
    c.set_op(op);
    FacetTab<Shape_> tab; tab.build(e.spec);
    Assembly::TraceAssembler<typename Env<Shape_>::TrafoType> ta(*e.trafo);
    Selection<Shape_> sel;
    const int smode = int(c.rng.pick<int>({-1, -1, 6, 6, 7}));   // random subset / all inner facets / all facets
    if(smode == 6) { ta.compile_all_facets(true, false); for(Index i = 0; i < Index(tab.f.size()); ++i) if(tab.f[i].nc == 2) sel.own.push_back(i); sel.how = "compile_all_facets(inner)"; sel.has_inner = !sel.own.empty(); c.tag("facets:all_inner"); }
    else if(smode == 7) { ta.compile_all_facets(true, true); for(Index i = 0; i < Index(tab.f.size()); ++i) { if(tab.f[i].nc > 2) { c.inconclusive("non-manifold facet"); return; } sel.own.push_back(i); } sel.how = "compile_all_facets(all)"; sel.has_inner = sel.has_outer = true; c.tag("facets:all"); }
    else if(!select_facets(c, e, tab, ta, sel)) return;
    const Index n = space.get_num_dofs();
    // dof numbering
    std::vector<Index> dof_of_cell;
    if(disc0_)
    {
      typename SpaceType::DofMappingType dm(space);
      for(Index ci = 0; ci < e.spec.num_cells(); ++ci) { dm.prepare(ci); if(dm.get_num_local_dofs() != 1) { c.inconclusive("unexpected P0 dof mapping"); return; } dof_of_cell.push_back(dm.get_index(0)); dm.finish(); }
    }
    else
    {
      if(n != e.spec.num_verts()) { c.inconclusive("unexpected Lagrange1 dof count"); return; }
      for(int d = 0; d < dim; ++d)
      {
        Poly<dim> xd; typename Poly<dim>::Term t; t.e[0] = t.e[1] = t.e[2] = 0; t.e[d] = 1; t.c = 1.0; xd.t.push_back(t);
        std::vector<LD> xc = interpolate(space, xd);
        for(Index i = 0; i < n; ++i) if(xc[i] != (LD)e.spec.verts[i][std::size_t(d)]) { c.inconclusive("Lagrange1 dof numbering is not the vertex numbering"); return; }
      }
    }
    // functions
    const bool poly = !disc0_ && c.rng.coin(0.4);
    c.tag(poly ? "u:global_polynomial" : "u:random_dofs");
    std::vector<LD> u(n), v(n);
    Poly<dim> U, V;
    if(poly) { U = random_poly<dim>(c.rng, 1, true); V = random_poly<dim>(c.rng, int(c.rng.range(0, 1)), true); u = interpolate(space, U); v = interpolate(space, V); }
    else for(Index i = 0; i < n; ++i) { u[i] = LD(c.rng.range(-8, 8)) / 4; v[i] = LD(c.rng.range(-8, 8)) / 4; }
    const double gamma = c.rng.pick<double>({1.0, 0.5, -0.75, 2.0});
    const double scal = stabil ? c.rng.pick<double>({2.0, 2.0, 1.0, 0.5}) : 1.0, expo = stabil ? c.rng.pick<double>({2.0, 2.0, 1.0, 0.0, 3.0, 0.5}) : 0.0;
    int n_own = 0; std::string cub_name = facet_cubature<Shape_>(c, 2, n_own);
    if(IsSimplex<Shape_>::value == false && !e.affine) c.tag("integrand:rational");
    Cubature::DynamicFactory cub(cub_name);
    c.desc = vh::J().raw("mesh", e.spec.describe()).kv("space", SD::info().name).kv("selection", sel.how).kv("facets", (unsigned long)sel.own.size()).kv("cubature", cub_name)
      .kv("gamma", gamma).kv("jacdet_scal", scal).kv("jacdet_expo", expo).kv("u", poly ? U.str() : std::string("random")).kv("v", poly ? V.str() : std::string("random")).str();

    CSRd m; Assembly::SymbolicAssembler::assemble_matrix_ext_facet1(m, space); m.format();
    if(stabil)
    {
      if constexpr(!disc0_) ta.assemble_jump_stabil_operator_matrix(m, space, cub, gamma, scal, expo);
    }
    else ta.assemble_jump_operator_matrix(m, space, cub, gamma);
    Img A; if(!dec(c, op, m, A, "jump")) return;
    c.event();
    // own evaluation
    LD ref = 0, sc = 0, ref_uu = 0, sc_uu = 0; bool degenerate = false;
    std::vector<FQP> pts;
    for(Index fi : sel.own)
    {
      const auto& F = tab.f[fi];
      pts.clear(); facet_quad(e.spec, F.v, n_own, pts);
      for(auto& q : pts)
      {
        LD ju[4] = {0, 0, 0, 0}, jv[4] = {0, 0, 0, 0}, au = 0, av = 0;   // component 3: the value
        for(int side = 0; side < F.nc; ++side)
        {
          const LD sg = side == 0 ? 1.0L : -1.0L; const Index ci = F.cell[side];
          if(disc0_)
          {
            const LD uu = u[dof_of_cell[ci]], vv = v[dof_of_cell[ci]];
            ju[3] += sg * uu; jv[3] += sg * vv; au += std::fabs(uu); av += std::fabs(vv);
          }
          else
          {
            LD xi[3], N[8], gN[8][3];
            facet_ref_point<Shape_>(F, side, q, xi);
            if(!basis_at(e.spec, ci, xi, N, gN)) { degenerate = true; continue; }
            for(int lv = 0; lv < nv; ++lv)
            {
              const Index gv = e.spec.cells[ci][std::size_t(lv)];
              if(stabil) for(int d = 0; d < dim; ++d) { ju[d] += sg * u[gv] * gN[lv][d]; jv[d] += sg * v[gv] * gN[lv][d]; au += std::fabs(u[gv] * gN[lv][d]); av += std::fabs(v[gv] * gN[lv][d]); }
              else { ju[3] += sg * u[gv] * N[lv]; jv[3] += sg * v[gv] * N[lv]; au += std::fabs(u[gv] * N[lv]); av += std::fabs(v[gv] * N[lv]); }
            }
          }
        }
        const LD wf = q.w * (stabil ? std::pow((LD)scal * q.jfeat, (LD)expo) : 1.0L);
        LD duv = 0, duu = 0; for(int d = 0; d < 4; ++d) { duv += ju[d] * jv[d]; duu += ju[d] * ju[d]; }
        ref += (LD)gamma * wf * duv; sc += std::fabs((LD)gamma) * wf * au * av;
        ref_uu += (LD)gamma * wf * duu; sc_uu += std::fabs((LD)gamma) * wf * au * au;
      }
    }
    if(degenerate) { c.inconclusive("generated mesh has a non-positive Jacobian on a facet"); return; }
    const LD B = bound_factor();
    auto form = [&](const std::vector<LD>& a, const std::vector<LD>& b) { LD s = 0; for(Index i = 0; i < A.R; ++i) { if(a[i] == 0) continue; LD r = 0; for(Index k = A.rp[i]; k < A.rp[i + 1]; ++k) r += A.v[k] * b[A.ci[k]]; s += a[i] * r; } return s; };
    {
      const LD val = form(v, u);
      c.event();
      if(!(std::fabs(val - ref) <= B * sc + tiny()))
        c.viol(op, "bilinear-form-value", vh::J().kv("vJu", val).kv("facet_sum", ref).kv("diff", std::fabs(val - ref)).kv("bound", B * sc).kv("abs_scale", sc).str());
      const LD val2 = form(u, u);
      c.event();
      if(!(std::fabs(val2 - ref_uu) <= B * sc_uu + tiny()))
        c.viol(op, "bilinear-form-value", vh::J().kv("uJu", val2).kv("facet_sum", ref_uu).kv("diff", std::fabs(val2 - ref_uu)).kv("bound", B * sc_uu).str());
      if(c.verbose()) std::printf("jump: vJu=%.17Lg ref=%.17Lg bound=%.3Lg  uJu=%.17Lg ref=%.17Lg\n", val, ref, B * sc, val2, ref_uu);
      // continuous functions with continuous (gradient) traces: the form over inner facets vanishes
      if(!sel.has_outer && !disc0_ && (poly || !stabil))
      {
        c.event(); c.count("vanishing_jump_checks");
        if(!(std::fabs(val) <= B * sc + tiny())) c.viol(op, "jump-of-continuous-function", vh::J().kv("vJu", val).kv("bound", B * sc).str());
      }
    }
    // symmetry (the local matrices are symmetric products)
    {
      c.event(); LD mxa = 0; for(auto x : A.v) mxa = std::max(mxa, std::fabs(x));
      bool bad = false;
      for(Index i = 0; i < A.R && !bad; ++i) for(Index k = A.rp[i]; k < A.rp[i + 1]; ++k)
      {
        const Index j = A.ci[k]; if(j <= i) continue;
        if(!(std::fabs(A.at(j, i) - A.v[k]) <= 1e-9L * mxa)) { c.viol(op, "not-symmetric", vh::J().kv("row", (unsigned long)i).kv("col", (unsigned long)j).kv("a_ij", A.v[k]).kv("a_ji", A.at(j, i)).str()); bad = true; break; }
      }
    }
    if(sel.own.empty()) { c.event(); for(auto x : A.v) if(x != 0) { c.viol(op, "nonzero-on-empty-selection", vh::J().kv("value", x).str()); break; } }
    // route: on outer facets only the value jump operator is the trace mass matrix
    if(!stabil && !disc0_ && !sel.has_inner)
    {
      CSRd m1 = m.clone(LAFEM::CloneMode::Layout); m1.format();
      CSRd ms = m.clone(LAFEM::CloneMode::Layout); ms.format();
      Assembly::Common::IdentityOperator iop; ScaleOp<1, 1> so;
      ta.assemble_operator_matrix1(m1, iop, space, cub, gamma); ta.assemble_operator_matrix1(ms, so, space, cub);
      Img A1, IS; if(dec(c, op, m1, A1, "mass") && dec(c, op, ms, IS, "scale")) { Scale S; S.s = &IS; S.cmax = std::fabs((LD)gamma); compare_same_pattern(c, op, "route-differs", A, A1, 1.0L, S, "assemble_jump_operator_matrix vs assemble_operator_matrix1(identity) on outer facets"); }
    }
  }
} // namespace c16
