// C16 -- blocked operators on quad meshes
#include "c16_ops.hpp"
using namespace c16;
VH_FAMILY(blocked_quad)
{
  typedef Shape::Hypercube<2> S;
  Env<S> e; gen_env(c, e, 2000);
  switch(c.rng.below(3))
  {
  case 0: run_blocked_op<S, SL1>(c, e); break;
  case 1: run_blocked_op<S, SL2>(c, e); break;
  default: run_blocked_op<S, SCR>(c, e); break;
  }
}
