// C16 -- trace assembler on facet subsets, discrete integral, flow accumulator, jump operators: triangle meshes
#include "c16_tracex.hpp"
using namespace c16;
VH_FAMILY(tracex_tria)
{
  typedef Shape::Simplex<2> S;
  Env<S> e; gen_env(c, e, 1500, (c.k % 2) == 0); // every other case: re-oriented cells and general (non-parallelogram) boundary facets
  switch(c.rng.below(8))
  {
  case 0: run_tracex_forms<S, SL1>(c, e); break;
  case 1: run_tracex_forms<S, SL2>(c, e); break;
  case 2: run_tracex_forms<S, SCR>(c, e); break;
  case 3: case 4: case 5: run_tracex_jump<S, false>(c, e, true); break;
  case 6: run_tracex_jump<S, false>(c, e, false); break;
  default: run_tracex_jump<S, true>(c, e, false); break;
  }
}
