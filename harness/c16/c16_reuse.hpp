// c16_reuse.hpp -- C16: object re-use of the DomainAssembler.
//
// A case = one DomainAssembler object that is driven through a SEQUENCE of rounds
//   [clear()] -> set_threading_strategy / set_max_worker_threads -> compile_all_elements | add_element / add_mesh_part +
//   compile -> several jobs (mass matrix, Laplace matrix, force vector, analytic function integral)
// with a different configuration in every round (fewer AND more worker threads, other strategy, other cell selection,
// empty selection).  Every job of every round is judged against
//   * the harness' own long-double quadrature over exactly the cells the harness selected (sum of per-cell integrals of
//     u v, grad u . grad v, f v, f, 1 over the MeshSpec coordinates),
//   * the serial routes: the classic cell-loop assemblers (whole mesh) resp. a FRESH single-threaded DomainAssembler
//     compiled once for the same cells (sub-selections), entry by entry,
//   * for Discontinuous P0 (dof i = cell i, verified on the classic matrix) the closed form entry by entry: the diagonal
//     entry / vector entry of cell i is the cell integral if the cell is selected and exactly zero otherwise,
//   * get_element_indices() is a permutation of the selected cells (empty after clear()).
// Tolerance: |diff| <= K u S as everywhere in C16; S is assembled on the WHOLE mesh (an upper bound of the scale of
// any sub-selection, all terms being non-negative).
#pragma once
#include "c16_func.hpp"
#include <kernel/geometry/mesh_part.hpp>
#include <kernel/util/verif_hooks.hpp>
#include <atomic>

namespace c16
{
  // ------------------------------------------------------------------------------------------------ hook monitor
  // Observation through the FEAT_VERIF_HOOKS hook points of the DomainAssembler workers: how often every mesh cell is
  // scattered by a job (scatter_pre carries the cell index) and whether a worker ended with okay = false (an exception
  // inside a worker is swallowed by FEAT and only reported through the fence status).
  struct ReuseHook
  {
    static std::atomic<std::uint64_t>& failed() { static std::atomic<std::uint64_t> v(0); return v; }
    static std::atomic<std::uint64_t>& out_of_range() { static std::atomic<std::uint64_t> v(0); return v; }
    static std::atomic<std::uint64_t>& workers() { static std::atomic<std::uint64_t> v(0); return v; }
    static std::vector<std::atomic<std::uint32_t>>& visits() { static std::vector<std::atomic<std::uint32_t>> v; return v; }
    static void cb(int point, const void*, std::uint64_t a, std::uint64_t b)
    {
      (void)a;
      if(point == int(FEAT::Verif::worker_end)) { ++workers(); if(b == 0u) ++failed(); }
      else if(point == int(FEAT::Verif::scatter_pre)) { if(b < visits().size()) ++visits()[std::size_t(b)]; else ++out_of_range(); }
    }
    FEAT::Verif::Callback prev;
    explicit ReuseHook(Index ncell) : prev(FEAT::Verif::callback().load())
    { std::vector<std::atomic<std::uint32_t>> v(ncell); visits().swap(v); reset(); FEAT::Verif::callback().store(&cb, std::memory_order_release); }
    ~ReuseHook() { FEAT::Verif::callback().store(prev, std::memory_order_release); }
    static void reset() { failed() = 0; out_of_range() = 0; workers() = 0; for(auto& x : visits()) x = 0; }
  };

  // ------------------------------------------------------------------------------------------------ meshes with many layers
  // The layered strategies need >= 3 Cuthill-McKee layers per worker thread, so the family prefers elongated grids
  // (layers ~ longest direction).
  template<typename Shape_> struct LongMesh;
  template<> struct LongMesh<Shape::Hypercube<2>>
  {
    static vm::MeshSpec<Shape::Hypercube<2>> make(Ctx& c, double& h)
    {
      const Index cap = c.thorough() ? 1500 : 200;
      Index ny = Index(c.rng.range(5, c.thorough() ? 60 : 24)); Index nx = Index(c.rng.range(1, long(std::max<Index>(1, std::min<Index>(c.thorough() ? 12 : 6, cap / ny)))));
      if(c.rng.coin()) std::swap(nx, ny);
      h = 1.0 / double(std::max(nx, ny)); c.tag("mesh:strip");
      return vm::quad_grid(nx, ny);
    }
  };
  template<> struct LongMesh<Shape::Simplex<2>>
  {
    static vm::MeshSpec<Shape::Simplex<2>> make(Ctx& c, double& h)
    {
      const Index cap = c.thorough() ? 1500 : 200;
      Index ny = Index(c.rng.range(5, c.thorough() ? 50 : 24)); Index nx = Index(c.rng.range(1, long(std::max<Index>(1, std::min<Index>(c.thorough() ? 10 : 4, cap / (2 * ny))))));
      if(c.rng.coin()) std::swap(nx, ny);
      h = 1.0 / double(std::max(nx, ny)); c.tag("mesh:strip");
      if(c.rng.coin()) return vm::tria_grid(nx, ny, &c.rng);
      return vm::tria_grid(nx, ny);
    }
  };
  template<> struct LongMesh<Shape::Hypercube<3>>
  {
    static vm::MeshSpec<Shape::Hypercube<3>> make(Ctx& c, double& h)
    {
      const Index cap = c.thorough() ? 600 : 120;
      Index n[3]; n[2] = Index(c.rng.range(5, c.thorough() ? 24 : 14)); n[0] = Index(c.rng.range(1, 3)); n[1] = Index(c.rng.range(1, long(std::max<Index>(1, std::min<Index>(3, cap / (n[2] * n[0]))))));
      const std::size_t r = std::size_t(c.rng.below(3)); std::swap(n[2], n[r]);
      h = 1.0 / double(std::max(n[0], std::max(n[1], n[2]))); c.tag("mesh:strip");
      return vm::hexa_grid(n[0], n[1], n[2]);
    }
  };
  template<> struct LongMesh<Shape::Simplex<3>>
  {
    static vm::MeshSpec<Shape::Simplex<3>> make(Ctx& c, double& h)
    {
      const Index cap = c.thorough() ? 600 : 150;
      Index n[3]; n[2] = Index(c.rng.range(4, c.thorough() ? 16 : 10)); n[0] = Index(c.rng.range(1, 2)); n[1] = Index(c.rng.range(1, long(std::max<Index>(1, std::min<Index>(2, cap / (6 * n[2] * n[0]))))));
      const std::size_t r = std::size_t(c.rng.below(3)); std::swap(n[2], n[r]);
      h = 1.0 / double(std::max(n[0], std::max(n[1], n[2]))); c.tag("mesh:strip");
      return vm::tetra_grid(n[0], n[1], n[2]);
    }
  };

  // as gen_env, but 3 of 4 meshes are elongated grids
  template<typename Shape_>
  void gen_env_reuse(Ctx& c, Env<Shape_>& e)
  {
    double h = 0;
    const bool strip = (c.k < 8) || c.rng.coin(0.75);
    if(strip) e.spec = LongMesh<Shape_>::make(c, h); else e.spec = MeshGen<Shape_>::make(c, vm::ShapeInfo<Shape_>::dim == 3 ? 150 : 400, h);
    c.tag(std::string("shape:") + vm::ShapeInfo<Shape_>::name());
    if(h > 0 && c.rng.coin(0.5)) vm::distort_interior(e.spec, c.rng, h, c.rng.coin() ? 0.15 : 0.3);
    if(h > 0 && c.rng.coin(0.3)) vm::distort_boundary_tangential(e.spec, c.rng, h, c.rng.coin() ? 0.15 : 0.3);
    if(c.rng.coin(0.4)) vm::affine_map(e.spec, c.rng);
    if(c.rng.coin(0.5)) vm::reorient_cells(e.spec, c.rng);
    if(c.rng.coin(0.6)) vm::permute_cells(e.spec, c.rng);
    if(c.rng.coin(0.5)) vm::permute_vertices(e.spec, c.rng);
    for(auto& t : e.spec.tags) c.tag(t);
    e.build(c);
    c.tag(e.affine ? "cells:affine" : "cells:nonaffine");
    const Index nc = e.spec.num_cells();
    c.tag(nc <= 4 ? "n:1-4" : nc <= 32 ? "n:5-32" : nc <= 200 ? "n:33-200" : "n:200+");
  }

  // ------------------------------------------------------------------------------------------------ the plan of a case
  struct ReuseRound
  {
    int strat = 0;                 // index into reuse_strategy(), -1: strategy not set again in this round
    bool set_thr = true; std::size_t thr = 0;
    int sel = 0;                   // 0 compile_all_elements, 1 add_element, 2 add_mesh_part, 3 both, 4 compile() with nothing added
    std::vector<Index> single, part; std::vector<char> rep;   // add_element calls (with repetitions) / mesh part cells
    int nclear = 1;                // clear() calls before this round (round 0: 0 or 1)
    std::string describe() const
    {
      static const char* sn[6] = {"keep", "automatic", "single", "layered", "layered_sorted", "colored"};
      static const char* ln[5] = {"all", "add_element", "mesh_part", "mesh_part+add_element", "none"};
      return std::string(sn[strat + 1]) + ":" + (set_thr ? std::to_string(thr) : std::string("keep")) + ":" + ln[sel];
    }
  };
  inline Assembly::ThreadingStrategy reuse_strategy(int i)
  {
    static const Assembly::ThreadingStrategy ss[5] = {Assembly::ThreadingStrategy::automatic, Assembly::ThreadingStrategy::single,
      Assembly::ThreadingStrategy::layered, Assembly::ThreadingStrategy::layered_sorted, Assembly::ThreadingStrategy::colored};
    return ss[i];
  }

  // random sub-selection of the cells: Bernoulli sample, index block or a single cell
  inline void reuse_pick_cells(vh::Rng& r, Index ncell, std::vector<Index>& out)
  {
    out.clear();
    switch(r.below(5))
    {
    case 0: { const Index k = Index(r.range(1, long(ncell))); const bool lo = r.coin(); for(Index i = 0; i < ncell; ++i) if((i < k) == lo) out.push_back(i); break; }
    case 1: out.push_back(Index(r.below(ncell))); break;
    default: { const double pr = r.pick<double>({0.15, 0.5, 0.85}); for(Index i = 0; i < ncell; ++i) if(r.coin(pr)) out.push_back(i); break; }
    }
    r.shuffle(out);
  }

  inline std::vector<ReuseRound> reuse_plan(Ctx& c, Index ncell)
  {
    std::vector<ReuseRound> plan;
    // edge corpus: the plain thread-count / strategy changes on the whole mesh
    // {strategy, max worker threads, selection: 0 whole mesh, 1 add_element of the cells with an index below 2/3 of the count}
    static const int pre[8][3][3] = {
      {{2, 4, 0}, {2, 2, 0}, {-2, 0, 0}}, {{2, 2, 0}, {2, 4, 0}, {-2, 0, 0}}, {{3, 3, 0}, {4, 3, 0}, {3, 2, 0}},
      {{0, 4, 0}, {0, 2, 0}, {0, 3, 0}}, {{2, 4, 0}, {4, 4, 0}, {2, 3, 0}}, {{2, 3, 0}, {2, 0, 0}, {2, 5, 0}},
      {{4, 3, 1}, {4, 4, 0}, {4, 2, 0}}, {{2, 4, 1}, {3, 4, 0}, {0, 1, 0}}};
    if(c.k < 8)
    {
      for(int r = 0; r < 3; ++r)
      {
        if(pre[c.k][r][0] == -2) break;
        ReuseRound R; R.strat = pre[c.k][r][0]; R.thr = std::size_t(pre[c.k][r][1]); R.nclear = r > 0 ? 1 : 0;
        if(pre[c.k][r][2] == 1) { R.sel = 1; for(Index i = 0; i < std::max<Index>(1, (2 * ncell) / 3); ++i) { R.single.push_back(i); R.rep.push_back(0); } }
        plan.push_back(R);
      }
      return plan;
    }
    const int nr = int(c.rng.range(2, c.thorough() ? 6 : 4));
    for(int r = 0; r < nr; ++r)
    {
      ReuseRound R;
      const double us = c.rng.unit();
      R.strat = us < 0.35 ? 2 : us < 0.55 ? 3 : us < 0.70 ? 0 : us < 0.88 ? 4 : us < 0.94 ? 1 : (r > 0 ? -1 : 2);
      R.thr = c.rng.coin(0.15) ? std::size_t(c.rng.range(0, 1)) : std::size_t(c.rng.range(2, 6));
      if(r > 0 && R.thr == plan.back().thr && c.rng.coin(0.75)) R.thr = (R.thr <= 2 ? R.thr + 2 : R.thr - 1);
      R.set_thr = (r == 0) || !c.rng.coin(0.08);
      if(!R.set_thr) R.thr = plan.back().thr;
      const double ul = c.rng.unit();
      if(r == 0) R.sel = ul < 0.55 ? 0 : ul < 0.72 ? 1 : ul < 0.84 ? 2 : ul < 0.95 ? 3 : 4;
      else R.sel = ul < 0.62 ? 0 : ul < 0.76 ? 1 : ul < 0.86 ? 2 : ul < 0.95 ? 3 : 4;
      if(R.sel == 1 || R.sel == 3) { reuse_pick_cells(c.rng, ncell, R.single); for(std::size_t i = 0; i < R.single.size(); ++i) R.rep.push_back(c.rng.coin(0.1) ? 1 : 0); }
      if(R.sel == 2 || R.sel == 3) reuse_pick_cells(c.rng, ncell, R.part);
      R.nclear = r > 0 ? (c.rng.coin(0.1) ? 2 : 1) : (c.rng.coin(0.15) ? 1 : 0);
      plan.push_back(R);
    }
    return plan;
  }

  // ------------------------------------------------------------------------------------------------ the monitor
  template<typename Shape_, typename SD_>
  void run_reuse(Ctx& c, Env<Shape_>& e)
  {
    constexpr int dim = vm::ShapeInfo<Shape_>::dim;
    typedef typename Env<Shape_>::MeshType MeshType;
    typedef typename Env<Shape_>::TrafoType TrafoType;
    typedef typename Env<Shape_>::DomAsm DomAsm;
    typedef typename SD_::template S<TrafoType> SpaceType;
    typedef LAFEM::DenseVector<double, Index> VectorType;
    constexpr bool is_d0 = std::is_same<SD_, SD0>::value;
    SpaceType space(*e.trafo);
    const SpaceInfo si = SD_::info();
    const bool simplex = IsSimplex<Shape_>::value;
    const int p = space_degree(si, e.affine, simplex);
    const Index ncell = e.spec.num_cells(), n = space.get_num_dofs();
    const std::string op = "domasm.reuse";
    c.tag(std::string("space:") + si.name);

    // --- plan + class tags
    std::vector<ReuseRound> plan = reuse_plan(c, ncell);
    c.tag("rounds:" + std::to_string(plan.size()));
    std::string plan_desc;
    for(std::size_t r = 0; r < plan.size(); ++r)
    {
      const ReuseRound& R = plan[r];
      static const char* sn[6] = {"keep", "automatic", "single", "layered", "layered_sorted", "colored"};
      c.tag(std::string("strat:") + sn[R.strat + 1]);
      if(r == 0) { if(R.nclear > 0) c.tag("reuse:clear-before-first-compile"); if(R.sel >= 1 && R.sel <= 3) c.tag("sel:subset-first"); }
      else
      {
        c.tag(R.thr < plan[r - 1].thr ? "reuse:thr-fewer" : R.thr > plan[r - 1].thr ? "reuse:thr-more" : "reuse:thr-same");
        if(R.strat >= 0 && R.strat != plan[r - 1].strat) c.tag("reuse:strategy-changed");
        if(R.sel >= 1 && R.sel <= 3) c.tag("reuse:subset-after-clear");
        else if(R.sel == 0 && plan[r - 1].sel != 0) c.tag("reuse:all-after-subset");
        if(R.nclear > 1) c.tag("reuse:clear-twice");
      }
      if(R.sel >= 1 && R.sel <= 3 && r == 0 && R.nclear > 0) c.tag("reuse:subset-after-clear");
      if(R.sel == 4) c.tag("sel:none");
      plan_desc += (r ? " | " : "") + R.describe();
    }

    // --- polynomials, cubature
    const Poly<dim> U = random_poly<dim>(c.rng, int(c.rng.range(0, p)), true), V = random_poly<dim>(c.rng, int(c.rng.range(0, p)), true);
    const int q = int(c.rng.range(0, 2));
    const Poly<dim> F = random_poly<dim>(c.rng, q, true);
    const int D = std::max(2 * p, 2 + p);
    int N = D + (simplex ? 0 : dim - 1) + int(c.rng.pick<int>({0, 0, 1}));
    if(N < 1) N = 1;
    if(std::is_same<Shape_, Shape::Simplex<3>>::value) { if(N == 7) N = 8; if(N > 8) N = 8; }
    std::string cub_name = "auto-degree:" + std::to_string(N);
    if(!simplex && c.rng.coin(0.25)) cub_name = "gauss-legendre:" + std::to_string(N / 2 + 1);
    Cubature::DynamicFactory cub(cub_name);
    c.set_op(op);
    c.desc = vh::J().raw("mesh", e.spec.describe()).kv("space", si.name).kv("cubature", cub_name).kv("rounds", plan_desc)
      .kv("u", U.str()).kv("v", V.str()).kv("f", F.str()).kv("dofs", (unsigned long)n).str();

    // --- harness truth: per-cell integrals by the own quadrature
    e.quad.build(e.spec, D);
    if(!(e.quad.mindet > 0)) { c.inconclusive("generated mesh has a non-positive Jacobian"); return; }
    const std::size_t npc = e.quad.pts.size() / std::size_t(ncell);
    std::vector<LD> c_vol(ncell, 0.0L), c_uv(ncell, 0.0L), c_gg(ncell, 0.0L), c_f(ncell, 0.0L), c_fv(ncell, 0.0L), c_fabs(ncell, 0.0L);
    for(Index ic = 0; ic < ncell; ++ic)
      for(std::size_t k = 0; k < npc; ++k)
      {
        const QP& pt = e.quad.pts[std::size_t(ic) * npc + k];
        LD gu[3] = {0, 0, 0}, gv[3] = {0, 0, 0}; U.grad(pt.x, gu); V.grad(pt.x, gv);
        const LD u = U.value(pt.x), v = V.value(pt.x), f = F.value(pt.x);
        LD fa = 0; for(auto& m : F.t) { LD t = std::fabs((LD)m.c); for(int d = 0; d < dim; ++d) t *= Poly<dim>::ipow(std::fabs(pt.x[d]), m.e[d]); fa += t; }
        c_vol[ic] += pt.w; c_uv[ic] += pt.w * u * v; c_gg[ic] += pt.w * (gu[0] * gv[0] + gu[1] * gv[1] + gu[2] * gv[2]);
        c_f[ic] += pt.w * f; c_fv[ic] += pt.w * f * v; c_fabs[ic] += pt.w * fa;
      }
    LD fabs_all = 0; for(Index ic = 0; ic < ncell; ++ic) fabs_all += c_fabs[ic];

    // --- serial whole-mesh routes (classic cell loops) and tolerance scales
    const LD B = bound_factor();
    Assembly::Common::IdentityOperator op_mass; Assembly::Common::LaplaceOperator op_lap;
    PolyFunc<dim> func(F); Assembly::Common::ForceFunctional<PolyFunc<dim>> force(func);
    CSRd mat0; Assembly::SymbolicAssembler::assemble_matrix_std1(mat0, space); mat0.format();
    CSRd ms1 = mat0.clone(LAFEM::CloneMode::Layout); ms1.format(); assemble_scale<SD_>(ms1, space, cub, 1);
    Assembly::BilinearOperatorAssembler::assemble_matrix1(mat0, op_mass, space, cub);
    Img M0, IS1, L0, IS2; if(!dec(c, op, mat0, M0, "classic mass") || !dec(c, op, ms1, IS1, "scale")) return;
    Scale S1; S1.s = &IS1;
    Scale S2; S2.s = &IS2;
    CSRd lap0 = mat0.clone(LAFEM::CloneMode::Layout);
    if constexpr(SD_::has_grad)
    {
      lap0.format(); Assembly::BilinearOperatorAssembler::assemble_matrix1(lap0, op_lap, space, cub);
      CSRd ms2 = mat0.clone(LAFEM::CloneMode::Layout); ms2.format(); assemble_scale<SD_>(ms2, space, cub, 2);
      if(!dec(c, op, lap0, L0, "classic laplace") || !dec(c, op, ms2, IS2, "scale2")) return;
    }
    VectorType b0(n, 0.0), sv(n, 0.0);
    Assembly::LinearFunctionalAssembler::assemble_vector(b0, force, space, cub);
    { ScaleFunctional<dim> sf(&F, 1, false); Assembly::LinearFunctionalAssembler::assemble_vector(sv, sf, space, cub); }
    const std::vector<LD> B0 = read_vec(b0), SV = read_vec(sv);
    LD sv_all = 0; for(Index i = 0; i < n; ++i) sv_all += SV[i];
    const std::vector<LD> uu = interpolate(space, U), vv = interpolate(space, V), one = interpolate(space, Poly<dim>::constant(1.0));

    // Discontinuous P0: dof i = cell i (checked on the classic route: diagonal entry i = volume of cell i)
    bool d0_ok = is_d0 && n == ncell;
    if(is_d0)
    {
      c.event();
      for(Index i = 0; i < ncell && d0_ok; ++i) if(!(std::fabs(M0.at(i, i) - c_vol[i]) <= B * S1.at(i, i) + tiny())) d0_ok = false;
      if(!d0_ok) c.inconclusive("Discontinuous P0: classic mass diagonal is not the cell volume in cell order");
    }

    static const double alphas[5] = {1.0, -1.0, 0.5, 2.75, -0.375};
    DomAsm da(*e.trafo);
    std::size_t prev_workers = 0; bool any_threaded = false;
    ReuseHook hook(ncell);
    // after a job of the assembler under test: no worker failed; a scattering job visited every selected cell exactly once
    auto hook_check = [&](const std::string& what, bool scatter, const std::vector<char>& sel, std::size_t nw)
    {
      c.event();
      if(ReuseHook::failed() != 0u)
        c.viol(op, "worker-failed", vh::J().kv("what", what).kv("failed_workers", (unsigned long)ReuseHook::failed().load()).kv("workers_run", (unsigned long)ReuseHook::workers().load()).str());
      bool any = false; for(char x : sel) any = any || x;
      if(any && ReuseHook::workers() != std::max<std::size_t>(nw, 1))
        c.viol(op, "worker-count", vh::J().kv("what", what).kv("workers_run", (unsigned long)ReuseHook::workers().load()).kv("get_num_worker_threads", (unsigned long)nw).str());
      if(!scatter) return;
      c.event();
      if(ReuseHook::out_of_range() != 0u) { c.viol(op, "cell-visits", vh::J().kv("what", what).kv("scattered_cell_indices_out_of_range", (unsigned long)ReuseHook::out_of_range().load()).str()); return; }
      for(Index i = 0; i < ncell; ++i)
      {
        const std::uint32_t got = ReuseHook::visits()[i].load(), want = sel[i] ? 1u : 0u;
        if(got != want) { c.viol(op, "cell-visits", vh::J().kv("what", what).kv("cell", (unsigned long)i).kv("selected", bool(sel[i])).kv("times_scattered", (unsigned long)got).str()); return; }
      }
    };

    for(std::size_t r = 0; r < plan.size(); ++r)
    {
      const ReuseRound& R = plan[r];
      const std::string rd = "round " + std::to_string(r) + " [" + R.describe() + "]";
      // ---- clear
      for(int k = 0; k < R.nclear; ++k) da.clear();
      if(R.nclear > 0)
      {
        c.event();
        if(!da.get_element_indices().empty())
          c.viol(op, "element-indices", vh::J().kv("what", rd + ": get_element_indices() not empty after clear()").kv("size", (unsigned long)da.get_element_indices().size()).str());
      }
      // ---- configure
      if(R.strat >= 0) da.set_threading_strategy(reuse_strategy(R.strat));
      if(R.set_thr) da.set_max_worker_threads(R.thr);
      // ---- select + compile
      std::vector<char> sel(ncell, 0);
      bool all = (R.sel == 0);
      if(!all)
      {
        bool failed = false; std::string why;
        try
        {
          if(R.sel == 2 || R.sel == 3)
          {
            Index ne[4] = {0, 0, 0, 0}; ne[dim] = Index(R.part.size());
            Geometry::MeshPart<MeshType> part(ne, false);
            auto& ts = part.template get_target_set<dim>();
            for(Index i = 0; i < Index(R.part.size()); ++i) ts[i] = R.part[i];
            da.add_mesh_part(part);
          }
          for(std::size_t i = 0; i < R.single.size(); ++i) { da.add_element(R.single[i]); if(R.rep[i]) da.add_element(R.single[i]); }
          da.compile();
        }
        catch(const std::exception& ex) { failed = true; why = ex.what(); }
        if(failed)
        {
          // the selection API is unusable in this object state: recorded, and the round goes on with the whole mesh
          c.event();
          c.viol("domasm.reuse.add_element", R.nclear > 0 ? "throws-after-clear" : "throws", vh::J().kv("what", rd + ": add_element / add_mesh_part / compile threw").kv("exception", why)
            .kv("clear_calls_before", R.nclear).str());
          all = true;
        }
        else { c.event(); for(Index i : R.part) sel[i] = 1; for(Index i : R.single) sel[i] = 1; }
      }
      if(all) { da.compile_all_elements(); std::fill(sel.begin(), sel.end(), char(1)); }
      std::vector<Index> cells; for(Index i = 0; i < ncell; ++i) if(sel[i]) cells.push_back(i);
      const bool whole = (Index(cells.size()) == ncell);
      // ---- the compiled element list is a permutation of the selection
      {
        std::vector<Index> got(da.get_element_indices()); std::sort(got.begin(), got.end());
        c.event();
        if(got != cells)
          c.viol(op, "element-indices", vh::J().kv("what", rd + ": get_element_indices() is not a permutation of the selected cells").kv("got", (unsigned long)got.size()).kv("selected", (unsigned long)cells.size()).str());
      }
      const std::size_t nw = cells.empty() ? 0 : da.get_num_worker_threads();
      if(nw >= 2) { any_threaded = true; c.count("reuse_rounds_with_workers"); }
      if(r > 0 && nw != prev_workers) c.count(nw < prev_workers ? "reuse_fewer_workers_than_before" : "reuse_more_workers_than_before");
      if(r > 0 && nw >= 2 && prev_workers >= 2 && nw != prev_workers) c.count("reuse_worker_count_changed_both_threaded");
      prev_workers = nw;
      if(c.verbose()) std::printf("%s: cells=%lu workers=%lu\n", rd.c_str(), (unsigned long)cells.size(), (unsigned long)nw);
      auto sum_sel = [&](const std::vector<LD>& v) { LD s = 0; for(Index i : cells) s += v[i]; return s; };

      // ---- the serial route for a sub-selection: a fresh single-threaded assembler, compiled once
      std::unique_ptr<DomAsm> fresh;
      if(!whole)
      {
        fresh.reset(new DomAsm(*e.trafo)); fresh->set_max_worker_threads(0);
        for(Index i : cells) fresh->add_element(i);
        fresh->compile();
      }

      // ---- matrices
      auto run_matrix = [&](bool lap)
      {
        const double al = alphas[c.rng.below(5)]; const LD am = std::max<LD>(1.0L, std::fabs((LD)al));
        const std::string what = rd + (lap ? " laplace matrix" : " mass matrix") + ", workers=" + std::to_string(nw);
        CSRd m = mat0.clone(LAFEM::CloneMode::Layout); m.format();
        ReuseHook::reset();
        if constexpr(SD_::has_grad) { if(lap) Assembly::assemble_bilinear_operator_matrix_1(da, m, op_lap, space, cub_name, al); }
        if(!lap) Assembly::assemble_bilinear_operator_matrix_1(da, m, op_mass, space, cub_name, al);
        hook_check(what, true, sel, nw);
        Img A; if(!dec(c, op, m, A, what.c_str())) return;
        const Scale& S = lap ? S2 : S1;
        {
          LD val, sc; bilinear_value(A, vv, uu, S, val, sc);
          const LD ref = (LD)al * sum_sel(lap ? c_gg : c_uv);
          c.event();
          if(!(std::fabs(val - ref) <= B * am * sc + tiny()))
            c.viol(op, "bilinear-form-value", vh::J().kv("what", what).kv("vAu", val).kv("integral_over_selected_cells", ref).kv("alpha", al).kv("diff", std::fabs(val - ref)).kv("bound", B * am * sc).str());
        }
        if(!lap)
        {
          LD val, sc; bilinear_value(A, one, one, S, val, sc);
          const LD ref = (LD)al * sum_sel(c_vol);
          c.event();
          if(!(std::fabs(val - ref) <= B * am * sc + tiny()))
            c.viol(op, "mass-volume", vh::J().kv("what", what).kv("sum", val).kv("volume_of_selected_cells", ref).kv("alpha", al).kv("selected", (unsigned long)cells.size()).kv("cells", (unsigned long)ncell).kv("bound", B * am * sc).str());
        }
        if(whole) compare_same_pattern(c, op, "route-differs", A, lap ? L0 : M0, (LD)al, S, what + " vs classic BilinearOperatorAssembler");
        else
        {
          CSRd mf = mat0.clone(LAFEM::CloneMode::Layout); mf.format();
          if constexpr(SD_::has_grad) { if(lap) Assembly::assemble_bilinear_operator_matrix_1(*fresh, mf, op_lap, space, cub_name); }
          if(!lap) Assembly::assemble_bilinear_operator_matrix_1(*fresh, mf, op_mass, space, cub_name);
          Img Fm; if(dec(c, op, mf, Fm, "fresh serial")) compare_same_pattern(c, op, "route-differs", A, Fm, (LD)al, S, what + " vs fresh single-threaded DomainAssembler on the same cells");
        }
        if(d0_ok && !lap)
        {
          c.event();
          for(Index i = 0; i < ncell; ++i)
          {
            const LD got = A.at(i, i), ref = sel[i] ? (LD)al * c_vol[i] : 0.0L;
            const bool ok = sel[i] ? (std::fabs(got - ref) <= B * am * S.at(i, i) + tiny()) : (got == 0.0L);
            if(!ok) { c.viol(op, "cell-contribution", vh::J().kv("what", what).kv("cell", (unsigned long)i).kv("selected", bool(sel[i])).kv("got", got).kv("expected", ref).str()); break; }
          }
        }
      };
      run_matrix(false);
      if constexpr(SD_::has_grad) { if(p >= 1 && c.rng.coin(0.6)) run_matrix(true); }

      // ---- force vector
      {
        const double al = alphas[c.rng.below(5)]; const LD am = std::max<LD>(1.0L, std::fabs((LD)al));
        const bool ffv = c.rng.coin();
        const std::string what = rd + (ffv ? " assemble_force_function_vector" : " assemble_linear_functional_vector") + ", workers=" + std::to_string(nw);
        VectorType b(n, 0.0);
        ReuseHook::reset();
        if(ffv) Assembly::assemble_force_function_vector(da, b, func, space, cub_name, al);
        else Assembly::assemble_linear_functional_vector(da, b, force, space, cub_name, al);
        hook_check(what, true, sel, nw);
        const std::vector<LD> Bv = read_vec(b);
        LD val = 0, sc = 0, s = 0; for(Index i = 0; i < n; ++i) { val += vv[i] * Bv[i]; sc += std::fabs(vv[i]) * SV[i]; s += Bv[i]; }
        c.event();
        { const LD ref = (LD)al * sum_sel(c_fv);
          if(!(std::fabs(val - ref) <= B * am * sc + tiny()))
            c.viol(op, "functional-value", vh::J().kv("what", what).kv("vTb", val).kv("integral_over_selected_cells", ref).kv("alpha", al).kv("bound", B * am * sc).str()); }
        if(si.pou)
        {
          const LD ref = (LD)al * sum_sel(c_f);
          c.event();
          if(!(std::fabs(s - ref) <= B * am * sv_all + tiny()))
            c.viol(op, "functional-entry-sum", vh::J().kv("what", what).kv("sum", s).kv("integral_over_selected_cells", ref).kv("alpha", al).kv("bound", B * am * sv_all).str());
        }
        if(whole) compare_vec(c, op, Bv, B0, (LD)al, SV, 1, what + " vs classic LinearFunctionalAssembler");
        else
        {
          VectorType bf(n, 0.0); Assembly::assemble_linear_functional_vector(*fresh, bf, force, space, cub_name);
          compare_vec(c, op, Bv, read_vec(bf), (LD)al, SV, 1, what + " vs fresh single-threaded DomainAssembler on the same cells");
        }
        if(d0_ok)
        {
          c.event();
          for(Index i = 0; i < ncell; ++i)
          {
            const LD ref = sel[i] ? (LD)al * c_f[i] : 0.0L;
            const bool ok = sel[i] ? (std::fabs(Bv[i] - ref) <= B * am * SV[i] + tiny()) : (Bv[i] == 0.0L);
            if(!ok) { c.viol(op, "cell-contribution", vh::J().kv("what", what).kv("cell", (unsigned long)i).kv("selected", bool(sel[i])).kv("got", Bv[i]).kv("expected", ref).str()); break; }
          }
        }
      }

      // ---- a job without scatter (partitioned by element index range, combined under the mutex)
      {
        const std::string what = rd + " integrate_analytic_function<0>, workers=" + std::to_string(nw);
        ReuseHook::reset();
        auto info = Assembly::integrate_analytic_function<0, double>(da, func, cub_name);
        hook_check(what, false, sel, nw);
        const LD got = (LD)info.value, ref = sum_sel(c_f);
        c.event();
        if(!(std::fabs(got - ref) <= 2 * B * fabs_all + tiny()))
          c.viol(op, "integral-value", vh::J().kv("what", what).kv("got", got).kv("integral_over_selected_cells", ref).kv("bound", 2 * B * fabs_all).str());
      }
    }
    if(!any_threaded) c.count("reuse_cases_without_worker_threads");
  }
} // namespace c16
