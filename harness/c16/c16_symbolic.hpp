// c16_symbolic.hpp -- every assemble_matrix_* / assemble_graph_* variant of Assembly::SymbolicAssembler against a
// harness-computed dof adjacency: the dofs of a cell come from the space's DofMapping, the cell relations (same cell,
// cells sharing a facet, cells sharing a vertex, fine cell -> coarse parent cell, an arbitrary cell relation for the
// inter-mesh variant) come from the MeshSpec / from the vertex coordinates of the refined mesh (geometric containment
// of the fine cell's centroid in the coarse cell).  The pattern must be EXACTLY the harness set: dimensions,
// row_ptr[0] = 0, monotone, columns strictly ascending (sorted, no duplicates), no missing and no extra coupling.
#pragma once
#include "c16_tracex.hpp"
#include <kernel/geometry/conformal_mesh.hpp>
#include <kernel/adjacency/graph.hpp>

namespace c16
{
  typedef std::vector<std::vector<Index>> CellDofs;
  template<typename Space_>
  CellDofs cell_dofs(const Space_& s, Index ncells)
  {
    CellDofs r(ncells);
    typename Space_::DofMappingType dm(s);
    for(Index c = 0; c < ncells; ++c) { dm.prepare(c); for(int i = 0; i < dm.get_num_local_dofs(); ++i) r[c].push_back(dm.get_index(i)); dm.finish(); }
    return r;
  }

  typedef std::vector<std::pair<Index, Index>> CellRel;   // (test-mesh cell, trial-mesh cell)

  inline std::vector<std::vector<Index>> own_pattern(Index R, const CellDofs& dt, const CellDofs& dr, const CellRel& rel)
  {
    std::vector<std::vector<Index>> rows(R);
    for(auto& pr : rel) for(Index i : dt[pr.first]) for(Index j : dr[pr.second]) rows[i].push_back(j);
    for(auto& r : rows) { std::sort(r.begin(), r.end()); r.erase(std::unique(r.begin(), r.end()), r.end()); }
    return rows;
  }

  template<typename IT_>
  void compare_pattern(Ctx& c, const std::string& op, const std::string& what, Index R, Index C, Index nnz, const IT_* rp, const IT_* ci, Index expR, Index expC, const std::vector<std::vector<Index>>& own)
  {
    c.event();
    if(R != expR || C != expC) { c.viol(op, "dims", vh::J().kv("what", what).kv("rows", (unsigned long)R).kv("cols", (unsigned long)C).kv("expected_rows", (unsigned long)expR).kv("expected_cols", (unsigned long)expC).str()); return; }
    Index tot = 0; for(auto& r : own) tot += Index(r.size());
    if(tot == 0 && nnz == 0) return;
    if(nnz == 0) { c.viol(op, "missing-coupling", vh::J().kv("what", what).kv("why", "empty pattern").kv("expected_couplings", (unsigned long)tot).str()); return; }
    if(!rp || (!ci && nnz > 0)) { c.viol(op, "invalid-structure", vh::J().kv("what", what).kv("why", "null arrays").str()); return; }
    if(rp[0] != 0 || Index(rp[R]) != nnz) { c.viol(op, "row-ptr", vh::J().kv("what", what).kv("first", (unsigned long)rp[0]).kv("last", (unsigned long)rp[R]).kv("used_elements", (unsigned long)nnz).str()); return; }
    for(Index i = 0; i < R; ++i)
    {
      if(rp[i + 1] < rp[i]) { c.viol(op, "row-ptr", vh::J().kv("what", what).kv("row", (unsigned long)i).kv("why", "not monotone").str()); return; }
      for(IT_ k = rp[i]; k < rp[i + 1]; ++k)
      {
        if(Index(ci[k]) >= C) { c.viol(op, "invalid-structure", vh::J().kv("what", what).kv("row", (unsigned long)i).kv("col", (unsigned long)ci[k]).kv("why", "column out of range").str()); return; }
        if(k > rp[i] && ci[k] <= ci[k - 1]) { c.viol(op, "not-sorted", vh::J().kv("what", what).kv("row", (unsigned long)i).kv("col", (unsigned long)ci[k]).kv("previous", (unsigned long)ci[k - 1]).str()); return; }
      }
      const auto& o = own[i];
      std::size_t a = 0; IT_ k = rp[i];
      while(a < o.size() || k < rp[i + 1])
      {
        if(k >= rp[i + 1] || (a < o.size() && o[a] < Index(ci[k]))) { c.viol(op, "missing-coupling", vh::J().kv("what", what).kv("row", (unsigned long)i).kv("col", (unsigned long)o[a]).str()); return; }
        if(a >= o.size() || Index(ci[k]) < o[a]) { c.viol(op, "extra-coupling", vh::J().kv("what", what).kv("row", (unsigned long)i).kv("col", (unsigned long)ci[k]).str()); return; }
        ++a; ++k;
      }
    }
  }

  inline void compare_graph(Ctx& c, const std::string& op, const std::string& what, const Adjacency::Graph& g, Index expR, Index expC, const std::vector<std::vector<Index>>& own)
  { compare_pattern<Index>(c, op, what, g.get_num_nodes_domain(), g.get_num_nodes_image(), g.get_num_indices(), g.get_domain_ptr(), g.get_image_idx(), expR, expC, own); }

  template<typename M_>
  void compare_matrix(Ctx& c, const std::string& op, const std::string& what, const M_& m, Index expR, Index expC, const std::vector<std::vector<Index>>& own)
  {
    // entry-free matrices: the index array accessors of an entry-free CSR/BCSR container are outside this check
    // (C03/C06 territory: SparseMatrixBCSR::col_ind() throws on a matrix without arrays) -- only the counts are judged
    if(m.used_elements() == 0) compare_pattern<Index>(c, op, what, m.rows(), m.columns(), 0, nullptr, nullptr, expR, expC, own);
    else compare_pattern(c, op, what, m.rows(), m.columns(), m.used_elements(), m.row_ptr(), m.col_ind(), expR, expC, own);
  }

  // relations between the cells of one mesh
  template<typename Shape_>
  void cell_relations(const vm::MeshSpec<Shape_>& m, const FacetTab<Shape_>& tab, CellRel& same, CellRel& facet, CellRel& node)
  {
    constexpr int nv = vm::ShapeInfo<Shape_>::nv;
    for(Index c = 0; c < m.num_cells(); ++c) same.push_back({c, c});
    facet = same;
    for(auto& f : tab.f) if(f.nc == 2) { facet.push_back({f.cell[0], f.cell[1]}); facet.push_back({f.cell[1], f.cell[0]}); }
    std::vector<std::vector<Index>> cav(m.num_verts());
    for(Index c = 0; c < m.num_cells(); ++c) for(int v = 0; v < nv; ++v) cav[m.cells[c][std::size_t(v)]].push_back(c);
    std::set<std::pair<Index, Index>> s;
    for(auto& l : cav) for(Index a : l) for(Index b : l) s.insert({a, b});
    node.assign(s.begin(), s.end());
  }

  // reference coordinates of the physical point x in cell ci (unit simplex / [0,1]^dim); false if Newton fails
  template<typename Shape_>
  bool inverse_map(const vm::MeshSpec<Shape_>& m, Index ci, const LD* x, LD* xi)
  {
    constexpr int dim = vm::ShapeInfo<Shape_>::dim, nv = vm::ShapeInfo<Shape_>::nv;
    LD X[8][3]; for(int v = 0; v < nv; ++v) for(int d = 0; d < 3; ++d) X[v][d] = (LD)m.verts[m.cells[ci][std::size_t(v)]][std::size_t(d)];
    for(int d = 0; d < 3; ++d) xi[d] = IsSimplex<Shape_>::value ? 0.25L : 0.5L;
    for(int it = 0; it < 30; ++it)
    {
      LD N[8], dN[8][3] = {};
      if(IsSimplex<Shape_>::value) { N[0] = 1; for(int k = 0; k < dim; ++k) { N[0] -= xi[k]; N[k + 1] = xi[k]; dN[0][k] = -1; dN[k + 1][k] = 1; } }
      else for(int v = 0; v < nv; ++v)
      {
        N[v] = 1; for(int k = 0; k < dim; ++k) N[v] *= ((v >> k) & 1) ? xi[k] : 1 - xi[k];
        for(int k = 0; k < dim; ++k) { LD d = ((v >> k) & 1) ? 1.0L : -1.0L; for(int l = 0; l < dim; ++l) if(l != k) d *= ((v >> l) & 1) ? xi[l] : 1 - xi[l]; dN[v][k] = d; }
      }
      LD r[3] = {0, 0, 0}, J[3][3] = {{0, 0, 0}, {0, 0, 0}, {0, 0, 0}};
      for(int i = 0; i < dim; ++i) { r[i] = -x[i]; for(int v = 0; v < nv; ++v) { r[i] += N[v] * X[v][i]; for(int k = 0; k < dim; ++k) J[i][k] += X[v][i] * dN[v][k]; } }
      const LD det = det3(J, dim);
      if(!(std::fabs(det) > 1e-30L)) return false;
      LD dx[3] = {0, 0, 0};
      if(dim == 2) { dx[0] = (J[1][1] * r[0] - J[0][1] * r[1]) / det; dx[1] = (-J[1][0] * r[0] + J[0][0] * r[1]) / det; }
      else for(int k = 0; k < 3; ++k)
      {
        LD Jk[3][3]; for(int a = 0; a < 3; ++a) for(int b = 0; b < 3; ++b) Jk[a][b] = b == k ? r[a] : J[a][b];
        dx[k] = det3(Jk, 3) / det;
      }
      LD nrm = 0; for(int k = 0; k < dim; ++k) { xi[k] -= dx[k]; nrm += std::fabs(dx[k]); }
      if(nrm < 1e-15L) return true;
      if(!(nrm < 1e6L)) return false;
    }
    return true;
  }

  // parent coarse cell of every fine cell by geometric containment of the centroid
  template<typename Shape_, typename Mesh_>
  bool parents_of(const vm::MeshSpec<Shape_>& coarse, const Mesh_& fine, std::vector<Index>& parent)
  {
    constexpr int dim = vm::ShapeInfo<Shape_>::dim, nv = vm::ShapeInfo<Shape_>::nv;
    const auto& vtx = fine.get_vertex_set(); const auto& idx = fine.template get_index_set<dim, 0>();
    const Index nf = fine.get_num_entities(dim);
    // bounding boxes of the coarse cells
    std::vector<std::array<LD, 6>> bb(coarse.num_cells());
    for(Index c = 0; c < coarse.num_cells(); ++c)
    {
      for(int d = 0; d < 3; ++d) { bb[c][std::size_t(d)] = 1e300L; bb[c][std::size_t(3 + d)] = -1e300L; }
      for(int v = 0; v < nv; ++v) for(int d = 0; d < dim; ++d) { const LD x = (LD)coarse.verts[coarse.cells[c][std::size_t(v)]][std::size_t(d)]; bb[c][std::size_t(d)] = std::min(bb[c][std::size_t(d)], x); bb[c][std::size_t(3 + d)] = std::max(bb[c][std::size_t(3 + d)], x); }
    }
    parent.assign(nf, ~Index(0));
    for(Index f = 0; f < nf; ++f)
    {
      LD x[3] = {0, 0, 0};
      for(int v = 0; v < nv; ++v) for(int d = 0; d < dim; ++d) x[d] += (LD)vtx[idx[f][v]][d] / LD(nv);
      int hits = 0;
      for(Index c = 0; c < coarse.num_cells(); ++c)
      {
        bool in = true; for(int d = 0; d < dim; ++d) if(x[d] < bb[c][std::size_t(d)] || x[d] > bb[c][std::size_t(3 + d)]) in = false;
        if(!in) continue;
        LD xi[3]; if(!inverse_map(coarse, c, x, xi)) continue;
        LD s = 0; for(int d = 0; d < dim; ++d) { if(xi[d] < 0.02L || xi[d] > 0.98L) in = false; s += xi[d]; }
        if(IsSimplex<Shape_>::value && s > 0.98L) in = false;
        if(in) { ++hits; parent[f] = c; }
      }
      if(hits != 1) return false;
    }
    return true;
  }

  template<typename Shape_, typename SDT_, typename SDR_>
  void run_symbolic(Ctx& c, Env<Shape_>& e)
  {
    constexpr int dim = vm::ShapeInfo<Shape_>::dim;
    typedef typename Env<Shape_>::TrafoType TrafoType; typedef typename Env<Shape_>::MeshType MeshType;
    typedef typename SDT_::template S<TrafoType> TestSpace; typedef typename SDR_::template S<TrafoType> TrialSpace;
    typedef Assembly::SymbolicAssembler SA;
    TestSpace test(*e.trafo); TrialSpace trial(*e.trafo);
    c.tag(std::string("test:") + SDT_::info().name); c.tag(std::string("trial:") + SDR_::info().name);
    c.set_op("symbolic.std1");
    c.desc = vh::J().raw("mesh", e.spec.describe()).kv("test_space", SDT_::info().name).kv("trial_space", SDR_::info().name).str();
    const Index nc = e.spec.num_cells(), nt = test.get_num_dofs(), nr = trial.get_num_dofs();
    CellDofs dt = cell_dofs(test, nc), dr = cell_dofs(trial, nc);
    FacetTab<Shape_> tab; tab.build(e.spec);
    for(auto& f : tab.f) if(f.nc > 2) { c.inconclusive("non-manifold facet"); return; }
    CellRel same, facet, node; cell_relations(e.spec, tab, same, facet, node);
    typedef BCSRd<2, 3> BM;
    const bool blocked = c.rng.coin(0.3);
    c.tag(blocked ? "mt:bcsr2x3" : "mt:csr");
    auto both = [&](const std::string& op, const std::string& name, const Adjacency::Graph& g, auto&& assemble, Index R, Index C, const std::vector<std::vector<Index>>& own) {
      c.set_op(op);
      compare_graph(c, op, "assemble_graph_" + name, g, R, C, own);
      if(blocked) { BM m; assemble(m); compare_matrix(c, op, "assemble_matrix_" + name + " (BCSR)", m, R, C, own); }
      else { CSRd m; assemble(m); compare_matrix(c, op, "assemble_matrix_" + name, m, R, C, own); }
    };
    {
      auto o1 = own_pattern(nt, dt, dt, same);
      both("symbolic.std1", "std1", SA::assemble_graph_std1(test), [&](auto& m) { SA::assemble_matrix_std1(m, test); }, nt, nt, o1);
      auto o2 = own_pattern(nt, dt, dr, same);
      both("symbolic.std2", "std2", SA::assemble_graph_std2(test, trial), [&](auto& m) { SA::assemble_matrix_std2(m, test, trial); }, nt, nr, o2);
    }
    {
      auto o1 = own_pattern(nt, dt, dt, facet);
      both("symbolic.ext_facet1", "ext_facet1", SA::assemble_graph_ext_facet1(test), [&](auto& m) { SA::assemble_matrix_ext_facet1(m, test); }, nt, nt, o1);
      auto o2 = own_pattern(nt, dt, dr, facet);
      both("symbolic.ext_facet2", "ext_facet2", SA::assemble_graph_ext_facet2(test, trial), [&](auto& m) { SA::assemble_matrix_ext_facet2(m, test, trial); }, nt, nr, o2);
    }
    {
      auto o1 = own_pattern(nt, dt, dt, node);
      both("symbolic.ext_node1", "ext_node1", SA::assemble_graph_ext_node1(test), [&](auto& m) { SA::assemble_matrix_ext_node1(m, test); }, nt, nt, o1);
      auto o2 = own_pattern(nt, dt, dr, node);
      both("symbolic.ext_node2", "ext_node2", SA::assemble_graph_ext_node2(test, trial), [&](auto& m) { SA::assemble_matrix_ext_node2(m, test, trial); }, nt, nr, o2);
    }
    {
      std::vector<std::vector<Index>> od(nt); for(Index i = 0; i < nt; ++i) od[i].push_back(i);
      both("symbolic.diag", "diag", SA::assemble_graph_diag(test), [&](auto& m) { SA::assemble_matrix_diag(m, test); }, nt, nt, od);
    }
    // inter-mesh variant with an arbitrary relation trial cell -> test cells (both spaces on the same mesh)
    {
      std::vector<Index> ptr(nc + 1, 0), img; CellRel rel;
      const double pr = c.rng.pick<double>({0.0, 0.3, 1.0});
      for(Index rc = 0; rc < nc; ++rc)
      {
        const int k = c.rng.coin(pr) ? int(c.rng.range(1, 3)) : (c.rng.coin(0.2) ? 0 : 1);
        std::set<Index> tg; for(int j = 0; j < k; ++j) tg.insert(Index(c.rng.below(nc)));
        for(Index t : tg) { img.push_back(t); rel.push_back({t, rc}); }
        ptr[rc + 1] = Index(img.size());
      }
      Index dummy = 0;
      Adjacency::Graph adj(nc, nc, Index(img.size()), ptr.data(), img.empty() ? &dummy : img.data());
      auto oi = own_pattern(nt, dt, dr, rel);
      both("symbolic.intermesh", "intermesh", SA::assemble_graph_intermesh(test, trial, adj), [&](auto& m) { SA::assemble_matrix_intermesh(m, test, trial, adj); }, nt, nr, oi);
    }
    // 2-level: fine test space x coarse trial space
    if(nc <= Index(c.thorough() ? 400 : 120))
    {
      Geometry::StandardRefinery<MeshType> refinery(*e.mesh);
      MeshType fine(refinery);
      TrafoType ftrafo(fine);
      TestSpace ftest(ftrafo);
      std::vector<Index> parent;
      if(!parents_of(e.spec, fine, parent)) { c.count("twolevel_parent_undecided"); return; }
      const Index nfc = fine.get_num_entities(dim), nft = ftest.get_num_dofs();
      CellDofs dft = cell_dofs(ftest, nfc);
      CellRel rel; for(Index f = 0; f < nfc; ++f) rel.push_back({f, parent[f]});
      auto o2 = own_pattern(nft, dft, dr, rel);
      c.tag("2lvl");
      both("symbolic.2lvl", "2lvl", SA::assemble_graph_2lvl(ftest, trial), [&](auto& m) { SA::assemble_matrix_2lvl(m, ftest, trial); }, nft, nr, o2);
    }
  }
} // namespace c16
