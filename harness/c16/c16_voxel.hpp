// c16_voxel.hpp -- voxel assemblers (Poisson, Defo, Burgers; Q2 on hypercube meshes, cell colouring) against the classic
// cell loops and the domain-assembler jobs; OpenMP thread count comes from the unit's environment
#pragma once
#include "c16_ops.hpp"
#include "c16_burgers.hpp"
#include <kernel/voxel_assembly/poisson_assembler.hpp>
#include <kernel/voxel_assembly/defo_assembler.hpp>
#include <kernel/voxel_assembly/burgers_assembler.hpp>
#ifdef FEAT_HAVE_OMP
#include <omp.h>
#endif

namespace c16
{
  // greedy colouring of the cells: two cells sharing a vertex never get the same colour; colours 0..k-1 all used
  template<typename Shape_>
  std::vector<int> greedy_colouring(const vm::MeshSpec<Shape_>& m, vh::Rng& r, bool naive)
  {
    constexpr int nv = vm::ShapeInfo<Shape_>::nv;
    const Index nc = m.num_cells();
    std::vector<int> col(nc, -1);
    if(naive) { for(Index i = 0; i < nc; ++i) col[i] = int(i); return col; }
    std::vector<std::vector<Index>> at_vert(m.num_verts());
    for(Index i = 0; i < nc; ++i) for(int j = 0; j < nv; ++j) at_vert[m.cells[i][std::size_t(j)]].push_back(i);
    std::vector<Index> order(nc); for(Index i = 0; i < nc; ++i) order[i] = i;
    r.shuffle(order);
    for(Index oi = 0; oi < nc; ++oi)
    {
      const Index i = order[oi]; std::set<int> used;
      for(int j = 0; j < nv; ++j) for(Index nb : at_vert[m.cells[i][std::size_t(j)]]) if(col[nb] >= 0) used.insert(col[nb]);
      int k = 0; while(used.count(k)) ++k;
      col[i] = k;
    }
    return col;
  }

  inline int omp_threads()
  {
#ifdef FEAT_HAVE_OMP
    return omp_get_max_threads();
#else
    return 1;
#endif
  }

  template<typename Shape_, typename IT_>
  void check_voxel(Ctx& c, Env<Shape_>& e)
  {
    constexpr int dim = vm::ShapeInfo<Shape_>::dim;
    typedef Space::Lagrange2::Element<typename Env<Shape_>::TrafoType> SpaceType;
    typedef LAFEM::SparseMatrixCSR<double, IT_> ScalarMat;
    typedef LAFEM::SparseMatrixBCSR<double, IT_, dim, dim> BlockMat;
    typedef LAFEM::DenseVectorBlocked<double, IT_, dim> BlockVec;
    SpaceType space(*e.trafo);
    c.tag("space:L2"); c.tag(std::string("it:") + vl::it_name<IT_>()); c.tag("omp:" + std::to_string(omp_threads()));
    const bool naive = e.spec.num_cells() <= 12 && c.rng.coin(0.2);
    std::vector<int> colouring = greedy_colouring(e.spec, c.rng, naive);
    const int ncol = *std::max_element(colouring.begin(), colouring.end()) + 1;
    c.tag(naive ? "colouring:naive" : "colouring:greedy");
    const int hint = c.rng.coin() ? -1 : ncol;
    const int kind = int(c.rng.below(4)); // 0 poisson, 1 defo, 2 burgers matrix, 3 burgers matrix + defect
    static const double alphas[4] = {1.0, -1.0, 0.66, 2.5};
    const double alpha = alphas[c.rng.below(4)];
    const int p = 2;

    CSRd ms; Assembly::SymbolicAssembler::assemble_matrix_std1(ms, space); ms.format();
    Img IS;

    if(kind == 0)
    {
      const std::string opn = "voxel.poisson"; c.tag("op:voxel_poisson"); c.tag("vt:scalar");
      Form f = form_laplace<dim>();
      std::string cub_name = cubature_for<Shape_>(c, f.degree(p, p)); Cubature::DynamicFactory cub(cub_name);
      c.set_op(opn);
      c.desc = vh::J().raw("mesh", e.spec.describe()).kv("assembler", "VoxelPoissonAssembler").kv("cubature", cub_name).kv("colours", ncol).kv("alpha", alpha).kv("omp_threads", omp_threads()).str();
      assemble_scale<SL2>(ms, space, cub, 2); if(!dec(c, opn, ms, IS, "scale")) return;
      Scale S; S.s = &IS;
      ScalarMat m0; Assembly::SymbolicAssembler::assemble_matrix_std1(m0, space); m0.format();
      Assembly::Common::LaplaceOperator lop;
      Assembly::BilinearOperatorAssembler::assemble_matrix1(m0, lop, space, cub);
      ScalarMat mj = m0.clone(LAFEM::CloneMode::Layout); mj.format();
      Assembly::assemble_bilinear_operator_matrix_1(*e.dom_thr, mj, lop, space, cub_name);
      ScalarMat mv = m0.clone(LAFEM::CloneMode::Layout); mv.format();
      VoxelAssembly::VoxelPoissonAssembler<SpaceType, double, IT_> vasm(space, colouring, hint);
      vasm.assemble_matrix1(mv, space, cub, alpha);
      Img A0, AJ, AV; if(!dec(c, opn, m0, A0, "classic") || !dec(c, opn, mj, AJ, "job") || !dec(c, opn, mv, AV, "voxel")) return;
      c.event();
      compare_same_pattern(c, opn, "route-differs", AV, A0, (LD)alpha, S, "VoxelPoissonAssembler vs BilinearOperatorAssembler (Laplace)");
      compare_same_pattern(c, opn, "route-differs", AV, AJ, (LD)alpha, S, "VoxelPoissonAssembler vs DomainAssembler job (Laplace)");
      // the voxel result itself against the integral
      {
        Poly<dim> U = random_poly<dim>(c.rng, int(c.rng.range(1, p)), true), V = random_poly<dim>(c.rng, int(c.rng.range(1, p)), true);
        LD val, sc; bilinear_value(AV, interpolate(space, V), interpolate(space, U), S, val, sc);
        e.quad.build(e.spec, f.degree(U.degree(), V.degree()));
        if(!(e.quad.mindet > 0)) { c.inconclusive("generated mesh has a non-positive Jacobian"); return; }
        LD ref = (LD)alpha * e.quad.integrate([&](const LD* x) { FV fu, fv; eval_fv<dim>(&U, 1, x, &fu); eval_fv<dim>(&V, 1, x, &fv); return f.g(&fu, &fv, x); });
        sc *= std::max<LD>(1, std::fabs((LD)alpha));
        c.event();
        if(!(std::fabs(val - ref) <= bound_factor() * sc + tiny()))
          c.viol(opn, "bilinear-form-value", vh::J().kv("vAu", val).kv("integral", ref).kv("bound", bound_factor() * sc).kv("u", U.str()).kv("v", V.str()).str());
      }
      Scale S2 = S; S2.cmax = std::max<LD>(1, std::fabs((LD)alpha));
      check_kernel(c, opn, AV, S2, interpolate(space, Poly<dim>::constant(1.0)), 1, 1, true, true);
      check_symmetry(c, opn, AV, S2);
      // dense pattern through the voxel route
      const Index nd = space.get_num_dofs();
      if(nd * nd <= Index(c.thorough() ? 1500000 : 400000))
      {
        ScalarMat md = DenseMaker<ScalarMat>::make(c.rng, nd, nd);
        CSRd sd = DenseMaker<CSRd>::make(c.rng, nd, nd);
        vasm.assemble_matrix1(md, space, cub, alpha);
        assemble_scale<SL2>(sd, space, cub, 2);
        Img D, ISD; if(dec(c, opn, md, D, "dense") && dec(c, opn, sd, ISD, "dense-scale")) { Scale SD; SD.s = &ISD; SD.cmax = S2.cmax; compare_dense(c, opn, AV, D, SD, "voxel Poisson: symbolic pattern vs full pattern"); c.count("dense_pattern_checks"); }
      }
      return;
    }

    // --- Defo / Burgers
    BurgersParams bp;
    if(kind == 1) { bp.deformation = true; bp.nu = c.rng.coin() ? 0.78 : -1.25; c.tag("defo"); c.tag("nu"); }
    else { bp = gen_burgers_params(c, true, true); }
    const std::string opn = kind == 1 ? "voxel.defo" : "voxel.burgers"; c.tag(kind == 1 ? "op:voxel_defo" : "op:voxel_burgers"); c.tag("vt:blocked");
    PolyVecFunc<dim, dim> wf; LD wmax = 0, gwmax = 0;
    for(int a = 0; a < dim; ++a) { wf.p[a] = random_poly<dim>(c.rng, int(c.rng.range(0, p)), true); LD v, g; poly_bounds(wf.p[a], e.spec, v, g); wmax += v; gwmax += g; }
    BlockVec conv; Assembly::Interpolator::project(conv, wf, space);
    Form f = burgers_form<dim>(bp, dim, wf.p, p);
    std::string cub_name = cubature_for<Shape_>(c, 2 * p + f.extra_deg); Cubature::DynamicFactory cub(cub_name);
    c.set_op(opn);
    {
      vh::J ws('['); for(int a = 0; a < dim; ++a) ws.add(wf.p[a].str());
      c.desc = vh::J().raw("mesh", e.spec.describe()).kv("assembler", kind == 1 ? "VoxelDefoAssembler" : "VoxelBurgersAssembler").raw("params", bp.str()).kv("cubature", cub_name)
        .kv("colours", ncol).kv("alpha", alpha).kv("omp_threads", omp_threads()).raw("convection", ws.str()).str();
    }
    double vnorm = 0; { std::vector<LD> cv = read_vec(conv); for(std::size_t i = 0; i + dim <= cv.size(); i += dim) { LD s = 0; for(int a = 0; a < dim; ++a) s += cv[i + std::size_t(a)] * cv[i + std::size_t(a)]; vnorm = std::max(vnorm, (double)std::sqrt(s)); } }
    assemble_scale<SL2>(ms, space, cub, 3); if(!dec(c, opn, ms, IS, "scale")) return;
    LD diam = 0; { LD lo[3] = {1e300L, 1e300L, 1e300L}, hi[3] = {-1e300L, -1e300L, -1e300L}; for(auto& v : e.spec.verts) for(int d = 0; d < dim; ++d) { lo[d] = std::min(lo[d], (LD)v[std::size_t(d)]); hi[d] = std::max(hi[d], (LD)v[std::size_t(d)]); } for(int d = 0; d < dim; ++d) diam += hi[d] - lo[d]; }
    Scale S; S.s = &IS; S.bh = dim; S.bw = dim;
    S.cmax = 2 * std::fabs((LD)bp.nu) + std::fabs((LD)bp.theta) + std::fabs((LD)bp.beta) * wmax + std::fabs((LD)bp.frechet_beta) * grad_bound(gwmax, wmax, e.spec)
      + (bp.sd_delta != 0 && vnorm > 0 ? std::fabs((LD)bp.sd_delta) * 2 * diam / (LD)vnorm * wmax * wmax : 0.0L) + 1e-30L;
    S.cmax *= std::max<LD>(1, std::fabs((LD)alpha));

    Assembly::BurgersAssembler<double, IT_, dim> basm; set_params(basm, bp);
    if(bp.sd_delta != 0) basm.set_sd_v_norm(conv);
    BlockMat m0; Assembly::SymbolicAssembler::assemble_matrix_std1(m0, space); m0.format();
    basm.assemble_matrix(m0, conv, space, cub, alpha);
    BlockMat mj = m0.clone(LAFEM::CloneMode::Layout); mj.format();
    {
      Assembly::BurgersBlockedMatrixAssemblyJob<BlockMat, SpaceType> job(mj, conv, space, cub_name);
      set_params(job, bp); if(bp.sd_delta != 0) job.set_sd_v_norm(conv);
      e.dom_thr->assemble(job);
    }
    BlockMat mv = m0.clone(LAFEM::CloneMode::Layout); mv.format();
    Img A0, AJ, AV;
    if(kind == 1)
    {
      VoxelAssembly::VoxelDefoAssembler<SpaceType, double, IT_> vasm(space, colouring, hint);
      vasm.nu = bp.nu;
      vasm.assemble_matrix1(mv, space, cub, alpha);
      if(!dec(c, opn, m0, A0, "classic") || !dec(c, opn, mj, AJ, "job") || !dec(c, opn, mv, AV, "voxel")) return;
    }
    else
    {
      VoxelAssembly::VoxelBurgersAssembler<SpaceType, double, IT_> vasm(space, colouring, hint);
      set_params(vasm, bp);
      if(bp.sd_delta != 0)
      {
        vasm.set_sd_v_norm(conv);
        c.event();
        if(!(std::fabs(vasm.sd_v_norm - vnorm) <= 1e-14 * (1 + vnorm))) c.viol("voxel.burgers.set_sd_v_norm", "wrong-value", vh::J().kv("got", vasm.sd_v_norm).kv("expected", vnorm).str());
      }
      vasm.assemble_matrix1(mv, conv, space, cub, alpha);
      if(!dec(c, opn, m0, A0, "classic") || !dec(c, opn, mj, AJ, "job") || !dec(c, opn, mv, AV, "voxel")) return;
      if(kind == 3 && bp.frechet_beta == 0 && bp.sd_delta == 0)
      {
        // defect: voxel assemble_vector vs classic assemble_vector vs matrix * primal
        BlockVec primal(space.get_num_dofs());
        { double* xe = reinterpret_cast<double*>(primal.elements()); for(Index i = 0; i < primal.template size<LAFEM::Perspective::pod>(); ++i) xe[i] = double(c.rng.range(-4, 4)) / 2.0; }
        BlockVec r0(space.get_num_dofs()), rv(space.get_num_dofs()); r0.format(0.0); rv.format(0.0);
        const double s2 = alphas[c.rng.below(4)];
        basm.assemble_vector(r0, conv, primal, space, cub, s2);
        vasm.assemble_vector(rv, conv, primal, space, cub, s2);
        std::vector<LD> xv = read_vec(primal), g0 = read_vec(r0), gv = read_vec(rv);
        c.event(2);
        for(Index i = 0; i < A0.R; ++i)
        {
          LD r = 0, s = 0; for(Index k = A0.rp[i]; k < A0.rp[i + 1]; ++k) { r += A0.v[k] * xv[A0.ci[k]]; s += S.at(i, A0.ci[k]) * std::fabs(xv[A0.ci[k]]); }
          r = r / (LD)alpha * (LD)s2; s *= std::max<LD>(1, std::fabs((LD)s2));
          if(!(std::fabs(gv[i] - g0[i]) <= 2 * bound_factor() * s + tiny()))
          { c.viol(opn, "route-differs", vh::J().kv("what", "VoxelBurgersAssembler::assemble_vector vs BurgersAssembler::assemble_vector").kv("row", (unsigned long)i).kv("voxel", gv[i]).kv("classic", g0[i]).kv("bound", 2 * bound_factor() * s).str()); break; }
          if(!(std::fabs(gv[i] - r) <= 2 * bound_factor() * s + tiny()))
          { c.viol(opn, "route-differs", vh::J().kv("what", "VoxelBurgersAssembler::assemble_vector vs classic matrix times primal").kv("row", (unsigned long)i).kv("voxel", gv[i]).kv("expected", r).kv("bound", 2 * bound_factor() * s).str()); break; }
        }
      }
    }
    c.event();
    compare_same_pattern(c, opn, "route-differs", AV, A0, 1.0L, S, std::string(kind == 1 ? "VoxelDefoAssembler" : "VoxelBurgersAssembler") + " vs BurgersAssembler::assemble_matrix");
    compare_same_pattern(c, opn, "route-differs", AV, AJ, (LD)alpha, S, std::string(kind == 1 ? "VoxelDefoAssembler" : "VoxelBurgersAssembler") + " vs BurgersBlockedMatrixAssemblyJob (" + e.thr_desc + ")");
    if(bp.sd_delta == 0) burgers_identities(c, e, opn, AV, S, space, f, p, (LD)alpha);
  }

  template<typename Shape_>
  void run_voxel(Ctx& c, Env<Shape_>& e)
  {
    if(c.rng.coin(0.6)) check_voxel<Shape_, Index>(c, e); else check_voxel<Shape_, std::uint32_t>(c, e);
  }
} // namespace c16
