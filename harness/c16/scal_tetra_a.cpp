// C16 -- scalar operators on tetra meshes, Lagrange spaces
#include "c16_ops.hpp"
using namespace c16;
VH_FAMILY(scalar_tetra_lagrange)
{
  typedef Shape::Simplex<3> S;
  Env<S> e; gen_env(c, e, 1500);
  switch(c.rng.below(2))
  {
  case 0: run_scalar_op<S, SL1>(c, e); break;
  default: run_scalar_op<S, SL2>(c, e); break;
  }
}
