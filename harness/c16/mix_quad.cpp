// C16 -- different test/trial spaces, GPDV, grad operator on quad meshes
#include "c16_mixed.hpp"
using namespace c16;
VH_FAMILY(mixed_quad)
{
  typedef Shape::Hypercube<2> S;
  Env<S> e; gen_env(c, e, 2000);
  switch(c.rng.below(4))
  {
  case 0: run_mixed<S, SL2, SL1>(c, e); break;
  case 1: run_mixed<S, SL2, SD1>(c, e); break;
  case 2: run_mixed<S, SCR, SD0>(c, e); break;
  default: run_mixed<S, SL1, SD0>(c, e); break;
  }
}
