// C16 -- symbolic assembler patterns on quad meshes
#include "c16_symbolic.hpp"
using namespace c16;
VH_FAMILY(symbolic_quad)
{
  typedef Shape::Hypercube<2> S;
  Env<S> e; gen_env(c, e, 1200);
  switch(c.rng.below(6))
  {
  case 0: run_symbolic<S, SL1, SL1>(c, e); break;
  case 1: run_symbolic<S, SL2, SL1>(c, e); break;
  case 2: run_symbolic<S, SL2, SD1>(c, e); break;
  case 3: run_symbolic<S, SCR, SD0>(c, e); break;
  case 4: run_symbolic<S, SD0, SL1>(c, e); break;
  default: run_symbolic<S, SL3, SL2>(c, e); break;
  }
}
