// C16 -- scalar operators on hexa meshes, CroRavRanTur / Discontinuous spaces
#include "c16_ops.hpp"
using namespace c16;
VH_FAMILY(scalar_hexa_other)
{
  typedef Shape::Hypercube<3> S;
  Env<S> e; gen_env(c, e, 1500);
  switch(c.rng.below(3))
  {
  case 0: run_scalar_op<S, SCR>(c, e); break;
  case 1: run_scalar_op<S, SD0>(c, e); break;
  default: run_scalar_op<S, SD1>(c, e); break;
  }
}
