// c16_trace.hpp -- TraceAssembler on the boundary facets: boundary mass sums to the boundary measure, u^T A v equals
// the boundary integral of the polynomial integrand (harness-side facet quadrature over the MeshSpec coordinates),
// kernel / symmetry, matrix1 vs matrix2 entry points, dense pattern, boundary force functional.
// Scope: meshes with FLAT boundary facets (all vh_mesh meshes: interior distortion only).
#pragma once
#include "c16_ops.hpp"
#include <kernel/assembly/trace_assembler.hpp>

namespace c16
{
  // boundary facets of the mesh as vertex tuples (tensor order for quadrilateral facets)
  template<typename Shape_>
  std::vector<std::array<Index, 4>> boundary_facets(const vm::MeshSpec<Shape_>& m)
  {
    constexpr int dim = vm::ShapeInfo<Shape_>::dim, nv = vm::ShapeInfo<Shape_>::nv;
    std::map<std::array<Index, 4>, std::pair<int, std::array<Index, 4>>> cnt;
    for(auto& c : m.cells)
    {
      std::vector<std::array<Index, 4>> fs;
      if(IsSimplex<Shape_>::value)
      {
        for(int o = 0; o < nv; ++o) { std::array<Index, 4> f{{~Index(0), ~Index(0), ~Index(0), ~Index(0)}}; int k = 0; for(int v = 0; v < nv; ++v) if(v != o) f[std::size_t(k++)] = c[std::size_t(v)]; fs.push_back(f); }
      }
      else
      {
        for(int d = 0; d < dim; ++d) for(int side = 0; side < 2; ++side)
        { std::array<Index, 4> f{{~Index(0), ~Index(0), ~Index(0), ~Index(0)}}; int k = 0; for(int v = 0; v < nv; ++v) if(((v >> d) & 1) == side) f[std::size_t(k++)] = c[std::size_t(v)]; fs.push_back(f); }
      }
      for(auto& f : fs) { auto key = f; std::sort(key.begin(), key.end()); auto& e = cnt[key]; ++e.first; e.second = f; }
    }
    std::vector<std::array<Index, 4>> r;
    for(auto& e : cnt) if(e.second.first == 1) r.push_back(e.second.second);
    return r;
  }

  // quadrature points on the boundary (weights incl. surface measure)
  template<typename Shape_>
  void boundary_quad(const vm::MeshSpec<Shape_>& m, int n, std::vector<QP>& out, LD& measure)
  {
    constexpr int dim = vm::ShapeInfo<Shape_>::dim;
    const Gauss& g = gauss01(n);
    measure = 0;
    for(auto& f : boundary_facets(m))
    {
      LD X[4][3] = {};
      const int nfv = dim == 2 ? 2 : (IsSimplex<Shape_>::value ? 3 : 4);
      for(int v = 0; v < nfv; ++v) for(int d = 0; d < dim; ++d) X[v][d] = (LD)m.verts[f[std::size_t(v)]][std::size_t(d)];
      if(dim == 2)
      {
        LD len = std::sqrt((X[1][0] - X[0][0]) * (X[1][0] - X[0][0]) + (X[1][1] - X[0][1]) * (X[1][1] - X[0][1]));
        for(int i = 0; i < n; ++i) { QP p; for(int d = 0; d < 3; ++d) p.x[d] = X[0][d] + g.x[std::size_t(i)] * (X[1][d] - X[0][d]); p.w = g.w[std::size_t(i)] * len; out.push_back(p); measure += p.w; }
      }
      else for(int i = 0; i < n; ++i) for(int j = 0; j < n; ++j)
      {
        const LD s = g.x[std::size_t(i)], t = g.x[std::size_t(j)]; LD w = g.w[std::size_t(i)] * g.w[std::size_t(j)];
        QP p; LD xs[3], xt[3];
        if(nfv == 3)
        {
          // Duffy on the triangle: l1 = s, l2 = t (1-s)
          const LD l1 = s, l2 = t * (1 - s); w *= (1 - s);
          for(int d = 0; d < 3; ++d) { xs[d] = X[1][d] - X[0][d]; xt[d] = X[2][d] - X[0][d]; p.x[d] = X[0][d] + l1 * xs[d] + l2 * xt[d]; }
        }
        else
        {
          for(int d = 0; d < 3; ++d)
          {
            p.x[d] = (1 - s) * (1 - t) * X[0][d] + s * (1 - t) * X[1][d] + (1 - s) * t * X[2][d] + s * t * X[3][d];
            xs[d] = (1 - t) * (X[1][d] - X[0][d]) + t * (X[3][d] - X[2][d]);
            xt[d] = (1 - s) * (X[2][d] - X[0][d]) + s * (X[3][d] - X[1][d]);
          }
        }
        const LD cx = xs[1] * xt[2] - xs[2] * xt[1], cy = xs[2] * xt[0] - xs[0] * xt[2], cz = xs[0] * xt[1] - xs[1] * xt[0];
        p.w = w * std::sqrt(cx * cx + cy * cy + cz * cz);
        out.push_back(p); measure += p.w;
      }
    }
  }

  template<typename Shape_, typename SD_>
  void run_trace(Ctx& c, Env<Shape_>& e)
  {
    constexpr int dim = vm::ShapeInfo<Shape_>::dim;
    typedef typename SD_::template S<typename Env<Shape_>::TrafoType> SpaceType;
    typedef typename Shape::FaceTraits<Shape_, dim - 1>::ShapeType FacetShape;
    SpaceType space(*e.trafo);
    const SpaceInfo si = SD_::info();
    const int kind = int(c.rng.below(3)); // 0 boundary mass, 1 boundary Laplace, 2 boundary force functional
    const std::string name = kind == 0 ? "trace_identity" : kind == 1 ? "trace_laplace" : "trace_force_functional";
    const std::string opn = "asm." + name;
    c.tag(std::string("space:") + si.name); c.tag("op:" + name); c.tag("vt:scalar");
    const int p = space_degree(si, e.affine, IsSimplex<Shape_>::value);
    Poly<dim> U = random_poly<dim>(c.rng, int(c.rng.range(0, p)), true), V = random_poly<dim>(c.rng, int(c.rng.range(0, p)), true);
    const int q = int(c.rng.range(0, 3));
    Poly<dim> F = random_poly<dim>(c.rng, q, true);
    const int D = std::max(q + p, 2 * p); // the boundary force functional is checked in every case, the matrix of kind 0/1 in addition
    int N = D + 1 + int(c.rng.below(3));
    if(std::is_same<FacetShape, Shape::Simplex<3>>::value && N == 7) N = 8;
    std::string cub_name = "auto-degree:" + std::to_string(N);
    Cubature::DynamicFactory cub(cub_name);
    c.set_op(opn);
    c.desc = vh::J().raw("mesh", e.spec.describe()).kv("space", si.name).kv("operator", name).kv("cubature", cub_name).kv("u", U.str()).kv("v", V.str()).kv("f", F.str()).str();

    Assembly::TraceAssembler<typename Env<Shape_>::TrafoType> ta(*e.trafo);
    ta.compile_all_facets(false, true);
    std::vector<QP> bq; LD measure = 0;
    boundary_quad(e.spec, own_points(D, dim), bq, measure);
    auto bint = [&](const std::function<LD(const LD*)>& g) { LD s = 0; for(auto& pt : bq) s += pt.w * g(pt.x); return s; };
    const LD B = bound_factor();

    {
      const std::string opf = "asm.trace_force_functional";
      c.set_op(opf);
      PolyFunc<dim> func(F);
      Assembly::Common::ForceFunctional<PolyFunc<dim>> force(func);
      LAFEM::DenseVector<double, Index> b(space.get_num_dofs(), 0.0), sv(space.get_num_dofs(), 0.0);
      const double al = c.rng.coin() ? 1.0 : -0.5;
      ta.assemble_functional_vector(b, force, space, cub, al);
      { ScaleFunctional<dim> sf(&F, 1, false); ta.assemble_functional_vector(sv, sf, space, cub); }
      std::vector<LD> bv = read_vec(b), S = read_vec(sv), vc = interpolate(space, V);
      LD val = 0, sc = 0; for(std::size_t i = 0; i < bv.size(); ++i) { val += vc[i] * bv[i]; sc += std::fabs(vc[i]) * S[i]; }
      const LD ref = (LD)al * bint([&](const LD* x) { return F.value(x) * V.value(x); });
      c.event(2);
      if(!(std::fabs(val - ref) <= B * sc + tiny()))
        c.viol(opf, "functional-value", vh::J().kv("vTb", val).kv("boundary_integral", ref).kv("diff", std::fabs(val - ref)).kv("bound", B * sc).str());
      c.set_op(opn);
      if(kind == 2) return;
    }

    Form f = kind == 0 ? form_identity<dim>() : form_laplace<dim>();
    CSRd ms; Assembly::SymbolicAssembler::assemble_matrix_std1(ms, space); ms.format();
    CSRd m0 = ms.clone(LAFEM::CloneMode::Layout); m0.format();
    Assembly::Common::IdentityOperator iop; Assembly::Common::LaplaceOperator lop;
    if(kind == 0) { ScaleOp<1, 1> so; ta.assemble_operator_matrix1(ms, so, space, cub); ta.assemble_operator_matrix1(m0, iop, space, cub); }
    else { ScaleOp<2, 2> so; ta.assemble_operator_matrix1(ms, so, space, cub); ta.assemble_operator_matrix1(m0, lop, space, cub); }
    Img IS, A0; if(!dec(c, opn, ms, IS, "scale") || !dec(c, opn, m0, A0, "trace1")) return;
    Scale S; S.s = &IS;
    c.event();
    {
      LD val, sc; bilinear_value(A0, interpolate(space, V), interpolate(space, U), S, val, sc);
      const LD ref = bint([&](const LD* x) { FV fu, fv; eval_fv<dim>(&U, 1, x, &fu); eval_fv<dim>(&V, 1, x, &fv); return f.g(&fu, &fv, x); });
      c.event();
      if(!(std::fabs(val - ref) <= B * sc + tiny()))
        c.viol(opn, "bilinear-form-value", vh::J().kv("vAu", val).kv("boundary_integral", ref).kv("diff", std::fabs(val - ref)).kv("bound", B * sc).str());
    }
    std::vector<LD> one = interpolate(space, Poly<dim>::constant(1.0));
    if(kind == 0)
    {
      LD val, sc; bilinear_value(A0, one, one, S, val, sc);
      c.event();
      if(!(std::fabs(val - measure) <= B * sc + tiny()))
        c.viol(opn, "boundary-measure", vh::J().kv("sum", val).kv("measure", measure).kv("bound", B * sc).str());
    }
    check_kernel(c, opn, A0, S, one, 1, 1, f.ker_trial, f.ker_test);
    check_symmetry(c, opn, A0, S);
    {
      const double al = c.rng.coin() ? 2.75 : -1.0;
      CSRd m2 = m0.clone(LAFEM::CloneMode::Layout); m2.format();
      if(kind == 0) ta.assemble_operator_matrix2(m2, iop, space, space, cub, al); else ta.assemble_operator_matrix2(m2, lop, space, space, cub, al);
      Img A2; if(dec(c, opn, m2, A2, "trace2")) compare_same_pattern(c, opn, "route-differs", A2, A0, (LD)al, S, "TraceAssembler::assemble_operator_matrix2 vs assemble_operator_matrix1");
    }
    const Index nd = space.get_num_dofs();
    if(nd * nd <= Index(c.thorough() ? 1500000 : 400000))
    {
      CSRd md = DenseMaker<CSRd>::make(c.rng, nd, nd), sd = DenseMaker<CSRd>::make(c.rng, nd, nd);
      if(kind == 0) { ScaleOp<1, 1> so; ta.assemble_operator_matrix1(sd, so, space, cub); ta.assemble_operator_matrix1(md, iop, space, cub); }
      else { ScaleOp<2, 2> so; ta.assemble_operator_matrix1(sd, so, space, cub); ta.assemble_operator_matrix1(md, lop, space, cub); }
      Img D2, ISD; if(dec(c, opn, md, D2, "dense") && dec(c, opn, sd, ISD, "dense-scale")) { Scale SD; SD.s = &ISD; compare_dense(c, opn, A0, D2, SD, "trace: symbolic std1 pattern vs full pattern"); c.count("dense_pattern_checks"); }
    }
  }
} // namespace c16
