// C16 -- scalar operators on tria meshes, Lagrange spaces
#include "c16_ops.hpp"
using namespace c16;
VH_FAMILY(scalar_tria_lagrange)
{
  typedef Shape::Simplex<2> S;
  Env<S> e; gen_env(c, e, 5000);
  switch(c.rng.below(3))
  {
  case 0: run_scalar_op<S, SL1>(c, e); break;
  case 1: run_scalar_op<S, SL2>(c, e); break;
  default: run_scalar_op<S, SL3>(c, e); break;
  }
}
