// c16_burgers.hpp -- Burgers operator: BurgersAssembler (classic) vs Burgers*AssemblyJob (domain assembler), vector
// versions, harness integral of the documented trilinear form
#pragma once
#include "c16.hpp"
#include <kernel/assembly/burgers_assembler.hpp>
#include <kernel/assembly/burgers_assembly_job.hpp>

namespace c16
{
  struct BurgersParams
  {
    bool deformation = false; double nu = 0, theta = 0, beta = 0, frechet_beta = 0, sd_delta = 0, sd_nu = 0;
    std::string str() const
    { return vh::J().kv("deformation", deformation).kv("nu", nu).kv("theta", theta).kv("beta", beta).kv("frechet_beta", frechet_beta).kv("sd_delta", sd_delta).kv("sd_nu", sd_nu).str(); }
  };
  inline BurgersParams gen_burgers_params(Ctx& c, bool blocked, bool allow_sd)
  {
    BurgersParams p; vh::Rng& r = c.rng;
    static const double vals[6] = {1.0, 0.78, -0.5, 0.125, 2.0, -1.25};
    if(r.coin(0.75)) p.nu = vals[r.below(6)];
    if(r.coin(0.5)) p.theta = vals[r.below(6)];
    if(r.coin(0.6)) p.beta = vals[r.below(6)];
    if(blocked && r.coin(0.4)) p.frechet_beta = vals[r.below(6)];
    if(blocked) p.deformation = r.coin();
    if(allow_sd && r.coin(0.25)) { p.sd_delta = r.coin() ? 0.57 : 0.1; p.sd_nu = r.coin() ? 0.78 : 1.0; }
    if(p.nu == 0 && p.theta == 0 && p.beta == 0 && p.frechet_beta == 0 && p.sd_delta == 0) p.nu = 1.0;
    c.tag(p.deformation ? "defo" : "grad"); if(p.nu != 0) c.tag("nu"); if(p.theta != 0) c.tag("theta"); if(p.beta != 0) c.tag("beta");
    if(p.frechet_beta != 0) c.tag("frechet"); if(p.sd_delta != 0) c.tag("streamdiff");
    if(p.frechet_beta != 0 && p.beta == 0 && p.sd_delta == 0) c.tag("frechet_without_convection");
    return p;
  }
  template<typename T_> void set_params(T_& a, const BurgersParams& p)
  { a.deformation = p.deformation; a.nu = p.nu; a.theta = p.theta; a.beta = p.beta; a.frechet_beta = p.frechet_beta; a.sd_delta = p.sd_delta; a.sd_nu = p.sd_nu; }

  // upper bound of |poly| and |grad poly| on the bounding box of the mesh
  template<int dim_, typename Spec_> void poly_bounds(const Poly<dim_>& p, const Spec_& spec, LD& vmax, LD& gmax)
  {
    LD bx[3] = {0, 0, 0}; for(auto& v : spec.verts) for(int d = 0; d < dim_; ++d) bx[d] = std::max(bx[d], std::fabs((LD)v[std::size_t(d)]));
    vmax = 0; gmax = 0;
    for(auto& m : p.t)
    {
      LD t = std::fabs((LD)m.c); for(int d = 0; d < dim_; ++d) t *= Poly<dim_>::ipow(bx[d], m.e[d]); vmax += t;
      for(int k = 0; k < dim_; ++k) if(m.e[k] > 0) { LD g = std::fabs((LD)m.c) * m.e[k]; for(int d = 0; d < dim_; ++d) g *= Poly<dim_>::ipow(bx[d], d == k ? m.e[d] - 1 : m.e[d]); gmax += g; }
    }
  }

  // smallest vertex distance within a cell (harness-side mesh width)
  template<typename Spec_> LD mesh_hmin(const Spec_& m)
  {
    LD h = 1e300L;
    for(auto& c : m.cells) for(int a = 0; a < Spec_::nv; ++a) for(int b2 = a + 1; b2 < Spec_::nv; ++b2)
    { LD s = 0; for(int d = 0; d < Spec_::dim; ++d) { LD t = (LD)m.verts[c[std::size_t(a)]][std::size_t(d)] - (LD)m.verts[c[std::size_t(b2)]][std::size_t(d)]; s += t * t; } h = std::min(h, std::sqrt(s)); }
    return h;
  }
  // bound of |grad w_h| as FEAT accumulates it (sum_i w_i (x) grad phi_i): the polynomial bound plus the rounding noise of
  // the accumulation, eps * max|w_i| * sum_i |grad phi_i| <= eps * wmax * 100 / hmin, expressed relative to the bound factor
  template<typename Spec_> LD grad_bound(LD gwmax, LD wmax, const Spec_& m) { return gwmax + 1e-5L * wmax * 100.0L / mesh_hmin(m); }

  // the documented form N(w; u, psi); U, V have nb components (nb = 1: scalar operator), W = convection field (dim components)
  template<int dim_>
  Form burgers_form(const BurgersParams& p, int nb, const Poly<dim_>* W, int pw)
  {
    Form f; f.name = nb == 1 ? "burgers_scalar" : "burgers_blocked"; f.nt = f.ns = nb; f.smode = 3;
    f.sym = (p.beta == 0 && p.frechet_beta == 0);
    f.ker_trial = (p.theta == 0 && p.frechet_beta == 0);
    f.ker_test = (p.theta == 0 && p.frechet_beta == 0 && p.beta == 0);
    f.du = 0; f.dv = 0; f.extra_deg = (p.beta != 0 || p.frechet_beta != 0) ? pw : 0;
    std::vector<Poly<dim_>> w(W, W + dim_);
    f.g = [p, nb, w](const FV* U, const FV* V, const LD* x) {
      LD s = 0;
      FV fw[3]; if(p.beta != 0 || p.frechet_beta != 0) eval_fv<dim_>(w.data(), dim_, x, fw);
      for(int a = 0; a < nb; ++a)
      {
        if(p.nu != 0)
        {
          LD l = 0; for(int k = 0; k < dim_; ++k) l += U[a].g[k] * V[a].g[k];
          if(p.deformation) for(int b = 0; b < nb; ++b) l += U[b].g[a] * V[a].g[b];
          s += (LD)p.nu * l;
        }
        if(p.theta != 0) s += (LD)p.theta * U[a].v * V[a].v;
        if(p.beta != 0) { LD k2 = 0; for(int k = 0; k < dim_; ++k) k2 += fw[k].v * U[a].g[k]; s += (LD)p.beta * k2 * V[a].v; }
        if(p.frechet_beta != 0) { LD k3 = 0; for(int b = 0; b < nb; ++b) k3 += fw[a].g[b] * U[b].v; s += (LD)p.frechet_beta * k3 * V[a].v; }
      }
      return s; };
    return f;
  }

  // identities + kernel + symmetry of an assembled Burgers matrix image (no streamline diffusion)
  template<typename Shape_, typename Space_>
  void burgers_identities(Ctx& c, Env<Shape_>& e, const std::string& opn, const Img& A, const Scale& S, const Space_& space, const Form& f, int p, LD factor)
  {
    constexpr int dim = vm::ShapeInfo<Shape_>::dim;
    Poly<dim> U[3], V[3]; int pu = 0, pv = 0;
    for(int b = 0; b < f.nt; ++b) { U[b] = random_poly<dim>(c.rng, int(c.rng.range(0, p)), true); pu = std::max(pu, U[b].degree()); V[b] = random_poly<dim>(c.rng, int(c.rng.range(0, p)), true); pv = std::max(pv, V[b].degree()); }
    std::vector<std::vector<LD>> uc, vc;
    for(int b = 0; b < f.nt; ++b) { uc.push_back(interpolate(space, U[b])); vc.push_back(interpolate(space, V[b])); }
    LD val, sc; bilinear_value(A, interleave(vc), interleave(uc), S, val, sc);
    e.quad.build(e.spec, pu + pv + f.extra_deg);
    if(!(e.quad.mindet > 0)) { c.inconclusive("generated mesh has a non-positive Jacobian"); return; }
    const int nb = f.nt;
    LD ref = factor * e.quad.integrate([&](const LD* x) { FV fu[3], fv[3]; eval_fv<dim>(U, nb, x, fu); eval_fv<dim>(V, nb, x, fv); return f.g(fu, fv, x); });
    sc *= std::max<LD>(1, std::fabs(factor));
    c.event();
    if(!(std::fabs(val - ref) <= bound_factor() * sc + tiny()))
    {
      vh::J us('['); for(int b = 0; b < f.nt; ++b) us.add(U[b].str());
      vh::J vs('['); for(int a = 0; a < f.ns; ++a) vs.add(V[a].str());
      c.viol(opn, "bilinear-form-value", vh::J().kv("vAu", val).kv("integral", ref).kv("diff", std::fabs(val - ref)).kv("bound", bound_factor() * sc).raw("u", us.str()).raw("v", vs.str()).str());
    }
    Scale S2 = S; S2.cmax *= std::max<LD>(1, std::fabs(factor));
    std::vector<LD> one = interpolate(space, Poly<dim>::constant(1.0));
    check_kernel(c, opn, A, S2, one, f.nt, f.ns, f.ker_trial, f.ker_test);
    if(f.sym) check_symmetry(c, opn, A, S2);
  }

  template<typename Shape_, typename SD_>
  void check_burgers_blocked(Ctx& c, Env<Shape_>& e)
  {
    constexpr int dim = vm::ShapeInfo<Shape_>::dim;
    typedef typename SD_::template S<typename Env<Shape_>::TrafoType> SpaceType;
    typedef BCSRd<dim, dim> MatrixType; typedef LAFEM::DenseVectorBlocked<double, Index, dim> VectorType;
    typedef LAFEM::SparseMatrixCSR<double, Index> ScalarMatrix;
    SpaceType space(*e.trafo);
    const SpaceInfo si = SD_::info();
    const std::string opn = "asm.burgers_blocked";
    c.tag(std::string("space:") + si.name); c.tag("op:burgers_blocked"); c.tag("vt:blocked");
    const int p = space_degree(si, e.affine, IsSimplex<Shape_>::value);
    BurgersParams bp = gen_burgers_params(c, true, true);
    // convection field: polynomial in the space (so that the discrete field IS the polynomial)
    PolyVecFunc<dim, dim> wf; int pw = 0; LD wmax = 0, gwmax = 0;
    for(int a = 0; a < dim; ++a) { wf.p[a] = random_poly<dim>(c.rng, int(c.rng.range(0, p)), true); pw = std::max(pw, wf.p[a].degree()); LD v, g; poly_bounds(wf.p[a], e.spec, v, g); wmax += v; gwmax += g; }
    VectorType conv; Assembly::Interpolator::project(conv, wf, space);
    Form f = burgers_form<dim>(bp, dim, wf.p, p);
    const int D = 2 * p + f.extra_deg;
    std::string cub_name = cubature_for<Shape_>(c, D);
    Cubature::DynamicFactory cub(cub_name);
    c.set_op(opn);
    {
      vh::J ws('['); for(int a = 0; a < dim; ++a) ws.add(wf.p[a].str());
      c.desc = vh::J().raw("mesh", e.spec.describe()).kv("space", si.name).raw("params", bp.str()).kv("cubature", cub_name).kv("threads", e.thr_desc).raw("convection", ws.str()).str();
    }
    // sd_v_norm: harness value = max euclidean norm of the DOF values
    double vnorm = 0; { std::vector<LD> cv = read_vec(conv); for(std::size_t i = 0; i + dim <= cv.size(); i += dim) { LD s = 0; for(int a = 0; a < dim; ++a) s += cv[i + std::size_t(a)] * cv[i + std::size_t(a)]; vnorm = std::max(vnorm, (double)std::sqrt(s)); } }
    // scale
    ScalarMatrix ms; Assembly::SymbolicAssembler::assemble_matrix_std1(ms, space); ms.format(); assemble_scale<SD_>(ms, space, cub, 3);
    Img IS; if(!dec(c, opn, ms, IS, "scale")) return;
    LD diam = 0; { LD lo[3] = {1e300L, 1e300L, 1e300L}, hi[3] = {-1e300L, -1e300L, -1e300L}; for(auto& v : e.spec.verts) for(int d = 0; d < dim; ++d) { lo[d] = std::min(lo[d], (LD)v[std::size_t(d)]); hi[d] = std::max(hi[d], (LD)v[std::size_t(d)]); } for(int d = 0; d < dim; ++d) diam += hi[d] - lo[d]; }
    Scale S; S.s = &IS; S.bh = dim; S.bw = dim;
    S.cmax = 2 * std::fabs((LD)bp.nu) + std::fabs((LD)bp.theta) + std::fabs((LD)bp.beta) * wmax + std::fabs((LD)bp.frechet_beta) * grad_bound(gwmax, wmax, e.spec)
      + (bp.sd_delta != 0 && vnorm > 0 ? std::fabs((LD)bp.sd_delta) * 2 * diam / (LD)vnorm * wmax * wmax : 0.0L) + 1e-30L;

    static const double alphas[4] = {1.0, -1.0, 0.66, 2.5};
    const double scale = alphas[c.rng.below(4)];
    // --- classic
    Assembly::BurgersAssembler<double, Index, dim> basm; set_params(basm, bp);
    if(bp.sd_delta != 0)
    {
      basm.set_sd_v_norm(conv);
      c.event();
      if(!(std::fabs(basm.sd_v_norm - vnorm) <= 1e-14 * (1 + vnorm))) c.viol("asm.burgers.set_sd_v_norm", "wrong-value", vh::J().kv("got", basm.sd_v_norm).kv("expected", vnorm).str());
    }
    MatrixType mat0; Assembly::SymbolicAssembler::assemble_matrix_std1(mat0, space); mat0.format();
    basm.assemble_matrix(mat0, conv, space, cub, scale);
    Img A0; if(!dec(c, opn, mat0, A0, "classic")) return;
    c.event();
    if(bp.sd_delta == 0) burgers_identities(c, e, opn, A0, S, space, f, p, (LD)scale);
    // --- domain assembler job
    Img AJ;
    for(int thr = 0; thr < 2; ++thr)
    {
      MatrixType m = mat0.clone(LAFEM::CloneMode::Layout); m.format();
      Assembly::BurgersBlockedMatrixAssemblyJob<MatrixType, SpaceType> job(m, conv, space, cub_name);
      set_params(job, bp);
      if(bp.sd_delta != 0) job.set_sd_v_norm(conv);
      (thr ? *e.dom_thr : *e.dom_serial).assemble(job);
      Img A; if(dec(c, opn, m, A, "job")) { compare_same_pattern(c, opn, "route-differs", A0, A, (LD)scale, S, std::string("BurgersAssembler::assemble_matrix vs BurgersBlockedMatrixAssemblyJob (") + (thr ? e.thr_desc : "serial") + ")"); if(!thr) AJ = A; }
    }
    // --- vector versions: rhs = N(w) * primal
    {
      VectorType primal(space.get_num_dofs());
      { double* xe = reinterpret_cast<double*>(primal.elements()); for(Index i = 0; i < primal.template size<LAFEM::Perspective::pod>(); ++i) xe[i] = double(c.rng.range(-4, 4)) / 2.0; }
      std::vector<LD> xv = read_vec(primal);
      auto matvec = [&](const Img& A, LD fac, std::vector<LD>& r, std::vector<LD>& s) {
        r.assign(A.R, 0.0L); s.assign(A.R, 0.0L);
        for(Index i = 0; i < A.R; ++i) { for(Index k = A.rp[i]; k < A.rp[i + 1]; ++k) { r[i] += A.v[k] * xv[A.ci[k]]; s[i] += S.at(i, A.ci[k]) * std::fabs(xv[A.ci[k]]); } r[i] *= fac; s[i] *= std::max<LD>(1, std::fabs(fac)); } };
      if(bp.frechet_beta == 0 && bp.sd_delta == 0)
      {
        // BurgersAssembler::assemble_vector (documented without Frechet term / stabilisation)
        VectorType rhs(space.get_num_dofs()); rhs.format(0.0);
        const double s2 = alphas[c.rng.below(4)];
        basm.assemble_vector(rhs, conv, primal, space, cub, s2);
        std::vector<LD> r, s, got = read_vec(rhs); matvec(A0, (LD)s2 / (LD)scale, r, s);
        c.event();
        for(Index i = 0; i < A0.R; ++i) if(!(std::fabs(got[i] - r[i]) <= 2 * bound_factor() * s[i] + tiny()))
        { c.viol(opn, "route-differs", vh::J().kv("what", "BurgersAssembler::assemble_vector vs assembled matrix times primal").kv("row", (unsigned long)i).kv("got", got[i]).kv("expected", r[i]).kv("bound", 2 * bound_factor() * s[i]).str()); break; }
      }
      if(AJ.R > 0)
      {
        VectorType rhs(space.get_num_dofs()); rhs.format(0.0);
        Assembly::BurgersBlockedVectorAssemblyJob<VectorType, SpaceType> job(rhs, primal, conv, space, cub_name);
        set_params(job, bp);
        if(bp.sd_delta != 0) job.set_sd_v_norm(conv);
        const bool thr = c.rng.coin();
        (thr ? *e.dom_thr : *e.dom_serial).assemble(job);
        std::vector<LD> r, s, got = read_vec(rhs); matvec(AJ, 1.0L, r, s);
        c.event();
        for(Index i = 0; i < AJ.R; ++i) if(!(std::fabs(got[i] - r[i]) <= 2 * bound_factor() * s[i] + tiny()))
        { c.viol(opn, "route-differs", vh::J().kv("what", "BurgersBlockedVectorAssemblyJob vs job matrix times primal").kv("row", (unsigned long)i).kv("got", got[i]).kv("expected", r[i]).kv("bound", 2 * bound_factor() * s[i]).str()); break; }
      }
    }
    // --- dense pattern
    const Index nd = space.get_num_dofs();
    if(nd * nd * Index(dim * dim) <= Index(c.thorough() ? 1500000 : 400000))
    {
      MatrixType md = DenseMaker<MatrixType>::make(c.rng, nd, nd);
      ScalarMatrix sd = DenseMaker<ScalarMatrix>::make(c.rng, nd, nd);
      basm.assemble_matrix(md, conv, space, cub, scale);
      assemble_scale<SD_>(sd, space, cub, 3);
      Img D, ISD;
      if(dec(c, opn, md, D, "dense") && dec(c, opn, sd, ISD, "dense-scale"))
      { Scale SD = S; SD.s = &ISD; SD.cmax = S.cmax * std::max<LD>(1, std::fabs((LD)scale)); compare_dense(c, opn, A0, D, SD, "SymbolicAssembler::assemble_matrix_std1 vs full pattern (Burgers)"); c.count("dense_pattern_checks"); }
    }
  }

  template<typename Shape_, typename SD_>
  void check_burgers_scalar(Ctx& c, Env<Shape_>& e)
  {
    constexpr int dim = vm::ShapeInfo<Shape_>::dim;
    typedef typename SD_::template S<typename Env<Shape_>::TrafoType> SpaceType;
    typedef LAFEM::SparseMatrixCSR<double, Index> MatrixType; typedef LAFEM::DenseVectorBlocked<double, Index, dim> ConvType;
    typedef LAFEM::DenseVector<double, Index> VectorType;
    SpaceType space(*e.trafo);
    const SpaceInfo si = SD_::info();
    const std::string opn = "asm.burgers_scalar";
    c.tag(std::string("space:") + si.name); c.tag("op:burgers_scalar"); c.tag("vt:scalar");
    const int p = space_degree(si, e.affine, IsSimplex<Shape_>::value);
    BurgersParams bp = gen_burgers_params(c, false, true);
    PolyVecFunc<dim, dim> wf; int pw = 0; LD wmax = 0, gwmax = 0;
    for(int a = 0; a < dim; ++a) { wf.p[a] = random_poly<dim>(c.rng, int(c.rng.range(0, p)), true); pw = std::max(pw, wf.p[a].degree()); LD v, g; poly_bounds(wf.p[a], e.spec, v, g); wmax += v; gwmax += g; }
    ConvType conv; Assembly::Interpolator::project(conv, wf, space);
    Form f = burgers_form<dim>(bp, 1, wf.p, p);
    std::string cub_name = cubature_for<Shape_>(c, 2 * p + f.extra_deg);
    Cubature::DynamicFactory cub(cub_name);
    c.set_op(opn);
    {
      vh::J ws('['); for(int a = 0; a < dim; ++a) ws.add(wf.p[a].str());
      c.desc = vh::J().raw("mesh", e.spec.describe()).kv("space", si.name).raw("params", bp.str()).kv("cubature", cub_name).kv("threads", e.thr_desc).raw("convection", ws.str()).str();
    }
    double vnorm = 0; { std::vector<LD> cv = read_vec(conv); for(std::size_t i = 0; i + dim <= cv.size(); i += dim) { LD s = 0; for(int a = 0; a < dim; ++a) s += cv[i + std::size_t(a)] * cv[i + std::size_t(a)]; vnorm = std::max(vnorm, (double)std::sqrt(s)); } }
    MatrixType ms; Assembly::SymbolicAssembler::assemble_matrix_std1(ms, space); ms.format(); assemble_scale<SD_>(ms, space, cub, 3);
    Img IS; if(!dec(c, opn, ms, IS, "scale")) return;
    LD diam = 0; { LD lo[3] = {1e300L, 1e300L, 1e300L}, hi[3] = {-1e300L, -1e300L, -1e300L}; for(auto& v : e.spec.verts) for(int d = 0; d < dim; ++d) { lo[d] = std::min(lo[d], (LD)v[std::size_t(d)]); hi[d] = std::max(hi[d], (LD)v[std::size_t(d)]); } for(int d = 0; d < dim; ++d) diam += hi[d] - lo[d]; }
    Scale S; S.s = &IS;
    S.cmax = std::fabs((LD)bp.nu) + std::fabs((LD)bp.theta) + std::fabs((LD)bp.beta) * wmax
      + (bp.sd_delta != 0 && vnorm > 0 ? std::fabs((LD)bp.sd_delta) * 2 * diam / (LD)vnorm * wmax * wmax : 0.0L) + 1e-30L;
    static const double alphas[4] = {1.0, -1.0, 0.66, 2.5};
    const double scale = alphas[c.rng.below(4)];
    Assembly::BurgersAssembler<double, Index, dim> basm; set_params(basm, bp);
    if(bp.sd_delta != 0) basm.set_sd_v_norm(conv);
    MatrixType mat0; Assembly::SymbolicAssembler::assemble_matrix_std1(mat0, space); mat0.format();
    basm.assemble_scalar_matrix(mat0, conv, space, cub, scale);
    Img A0; if(!dec(c, opn, mat0, A0, "classic")) return;
    c.event();
    if(bp.sd_delta == 0) burgers_identities(c, e, opn, A0, S, space, f, p, (LD)scale);
    Img AJ;
    for(int thr = 0; thr < 2; ++thr)
    {
      MatrixType m = mat0.clone(LAFEM::CloneMode::Layout); m.format();
      Assembly::BurgersScalarMatrixAssemblyJob<MatrixType, SpaceType, ConvType> job(m, conv, space, cub_name);
      set_params(job, bp);
      if(bp.sd_delta != 0) job.set_sd_v_norm(conv);
      (thr ? *e.dom_thr : *e.dom_serial).assemble(job);
      Img A; if(dec(c, opn, m, A, "job")) { compare_same_pattern(c, opn, "route-differs", A0, A, (LD)scale, S, std::string("BurgersAssembler::assemble_scalar_matrix vs BurgersScalarMatrixAssemblyJob (") + (thr ? e.thr_desc : "serial") + ")"); if(!thr) AJ = A; }
    }
    if(AJ.R > 0)
    {
      VectorType primal(space.get_num_dofs()), rhs(space.get_num_dofs(), 0.0);
      for(Index i = 0; i < primal.size(); ++i) primal(i, double(c.rng.range(-4, 4)) / 2.0);
      Assembly::BurgersScalarVectorAssemblyJob<VectorType, SpaceType, ConvType> job(rhs, primal, conv, space, cub_name);
      set_params(job, bp);
      if(bp.sd_delta != 0) job.set_sd_v_norm(conv);
      (c.rng.coin() ? *e.dom_thr : *e.dom_serial).assemble(job);
      std::vector<LD> xv = read_vec(primal), got = read_vec(rhs);
      c.event();
      for(Index i = 0; i < AJ.R; ++i)
      {
        LD r = 0, s = 0; for(Index k = AJ.rp[i]; k < AJ.rp[i + 1]; ++k) { r += AJ.v[k] * xv[AJ.ci[k]]; s += S.at(i, AJ.ci[k]) * std::fabs(xv[AJ.ci[k]]); }
        if(!(std::fabs(got[i] - r) <= 2 * bound_factor() * s + tiny()))
        { c.viol(opn, "route-differs", vh::J().kv("what", "BurgersScalarVectorAssemblyJob vs job matrix times primal").kv("row", (unsigned long)i).kv("got", got[i]).kv("expected", r).kv("bound", 2 * bound_factor() * s).str()); break; }
      }
    }
  }

  template<typename Shape_, typename SD_>
  void run_burgers(Ctx& c, Env<Shape_>& e)
  {
    if(c.rng.coin(0.7)) check_burgers_blocked<Shape_, SD_>(c, e); else check_burgers_scalar<Shape_, SD_>(c, e);
  }
} // namespace c16
